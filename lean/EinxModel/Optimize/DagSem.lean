import EinxModel.Optimize.Dag
import EinxModel.Optimize.Rules
/-!
What a store computes (the DAG evaluator of `Props/C05Dag.lean`).

`evalNodes` evaluates the nodes of a store in order (operands before consumers): every node is evaluated **once**, its
value is appended to the environment, every consumer reads that value -- sharing is what the store says it is.
The meaning of an application is a parameter `Sem.app` (any partial function of the head and the evaluated operand
pytrees; `additional_dependencies` are scheduling constraints and are not passed on).  The soundness theorem of the
traversal is proved for every `Sem` that satisfies the laws the patterns rely on (`Sem.Laws`); `irSem A O` is the instance
in which `np.reshape / np.transpose / np.broadcast_to / np.concatenate` are executed by `Optimize.step` (= one instruction
of `IR.evalProg`, the numpy primitive plans of IR/Prim.lean) over an element algebra `A`, a `Cast` is the identity, `Import`
/ `GetAttr` build the function objects the calls are dispatched on, and every other application means `O` -- any partial
function.

The **pure node language**: one output tracer per application, no `CallInplace` / `UpdateItem` / `Assert`, no nested
`Graph` values.  On anything else the evaluator fails, i.e. the soundness theorem says nothing about such stores.
A tracer type that carries a shape is checked against the value (`tyOK`): the patterns read traced shapes, and they are only
right about graphs whose traced shapes are true.
-/
namespace Einx.OptDag
open Einx Einx.IR

/-- An operand token after evaluation: structure / constant, or the value of a tracer. -/
inductive RTok (V : Type) where
  | lit (t : Tok)
  | val (v : V)

/-- An application with evaluated operands (no `additional_dependencies`). -/
structure EApp (V : Type) where
  head : Head
  pre : List (List (RTok V))
  args : List (List (RTok V))
  kwargs : List (String × List (RTok V))
  out : List Tok

structure Sem (V : Type) where
  app : EApp V → Except String V
  shapeOf : V → Option (List Nat)

variable {V : Type}

def evalTok (env : List V) : Tok → Except String (RTok V)
  | .ref i =>
    match env[i]? with
    | some v => pure (.val v)
    | none => throw s!"tracer {i} has no value"
  | .gref _ => throw "nested graph value (outside the pure node language)"
  | t => pure (.lit t)

def evalToks (env : List V) (v : List Tok) : Except String (List (RTok V)) := v.mapM (evalTok env)

def evalOperands (env : List V) (vs : List (List Tok)) : Except String (List (List (RTok V))) := vs.mapM (evalToks env)

def evalKwargs (env : List V) : List (String × List Tok) → Except String (List (String × List (RTok V)))
  | [] => pure []
  | (k, v) :: rest => do
    let v' ← evalToks env v
    let rest' ← evalKwargs env rest
    pure ((k, v') :: rest')

def evalApp (env : List V) (a : App) : Except String (EApp V) := do
  let pre ← evalOperands env a.pre
  let args ← evalOperands env a.args
  let kwargs ← evalKwargs env a.kwargs
  let _ ← evalOperands env a.deps     -- the dependencies must exist; they are not operands of the meaning
  pure ⟨a.head, pre, args, kwargs, a.out⟩

/-- Heads of the pure node language. -/
def Head.isPure : Head → Bool
  | .callInplace | .updateitem _ | .assert_ _ => false
  | _ => true

/-- In-place / effectful heads (`CallInplace`, `UpdateItem` of the `*_at` operations).  The evaluator treats them as OPAQUE
applications: their meaning is `Sem.app` of the evaluated operands (any partial function), they are evaluated exactly once like
every node of a store, and no pattern ever inspects them. -/
def Head.isEffect : Head → Bool
  | .callInplace | .updateitem _ => true
  | _ => false

/-- Heads the evaluator gives a meaning to: everything but `Assert` (whose output pytree and types come from its operand). -/
def Head.evaluable (h : Head) : Bool := h.isPure || h.isEffect

/-- The traced type is true of the value. -/
def tyOK (Sm : Sem V) : Ty → V → Bool
  | .value, _ => true
  | .tensor s, v => Sm.shapeOf v == some s
  | .convertible (some s) _, v => Sm.shapeOf v == some s
  | .convertible none _, _ => true

/-- `CallInplace(xs, f, …)` returns `xs` itself after the call (its output tracer has `xs._tracer_type`): the result must have
the shape of the value of `xs`.  Every other application: no condition. -/
def inplaceOK (Sm : Sem V) (ea : EApp V) (v : V) : Bool :=
  match ea.head with
  | .callInplace =>
    match ea.pre with
    | [.val x] :: _ => Sm.shapeOf v == Sm.shapeOf x
    | _ => false
  | _ => true

/-- The value of node number `env.length`, given the values of the nodes before it. -/
def evalNode (Sm : Sem V) (bind : List (Nat × V)) (env : List V) (n : Node) : Except String V :=
  match n.origin with
  | .none =>
    match bind.lookup env.length with
    | some v => if tyOK Sm n.ty v then pure v else throw "input: the traced type is not the type of the value"
    | none => throw "tracer without origin that is not a graph input"
  | .app a =>
    if a.out == [.ref 0] && a.head.evaluable then do
      let ea ← evalApp env a
      let v ← Sm.app ea
      if tyOK Sm n.ty v && inplaceOK Sm ea v then pure v else throw "the traced type is not the type of the value"
    else throw "outside the node language of the evaluator"
  | .proj _ _ => throw "outside the pure node language"

def evalNodes (Sm : Sem V) (bind : List (Nat × V)) : List Node → List V → Except String (List V)
  | [], env => pure env
  | n :: ns, env => do
    let v ← evalNode Sm bind env n
    evalNodes Sm bind ns (env ++ [v])

/-- What a program (a graph over a store) returns on the given inputs: the evaluated output pytree. -/
def evalProgram (Sm : Sem V) (p : Prog) (inputs : List V) : Except String (List (RTok V)) :=
  match p.top with
  | [.gref k] =>
    match p.store.graphs[k]? with
    | some g =>
      if g.inputs.length == inputs.length then do
        let env ← evalNodes Sm (g.inputs.zip inputs) p.store.nodes []
        evalToks env g.output
      else throw "wrong number of inputs"
    | none => throw "dangling graph reference"
  | _ => throw "the program is not a graph"

/-! ### Decidable side conditions of the soundness theorem (computed by the driver for every real graph) -/

/-- The program is a graph whose inputs are distinct tracers without origin. -/
def Prog.wfTop (p : Prog) : Bool :=
  match p.top with
  | [.gref k] =>
    match p.store.graphs[k]? with
    | some g => decide g.inputs.Nodup && g.inputs.all (fun i => match p.store.nodes[i]? with | some ⟨_, .none⟩ => true | _ => false)
    | none => false
  | _ => false

/-- The store is in the node language of the evaluator (every application has one output and is not an `Assert`, no nested graph
values; in-place nodes are opaque applications):
the structural part of "the evaluator does not fail", reported by the driver for every real graph. -/
def Prog.pureLang (p : Prog) : Bool :=
  let noG (v : List Tok) : Bool := v.all (fun t => match t with | .gref _ => false | _ => true)
  p.store.nodes.all (fun n =>
    match n.origin with
    | .none => true
    | .app a => a.out == [.ref 0] && a.head.evaluable && (a.pre ++ a.args ++ a.kwargs.map (·.2) ++ a.deps).all noG
    | .proj _ _ => false) &&
  (match p.top with
   | [.gref k] => match p.store.graphs[k]? with | some g => noG g.output | none => false
   | _ => false)

/-- No pattern (`InlineGraph`) fires on the top-level graph object itself. -/
def noTopInline (pats : List Pattern) (p : Prog) : Bool :=
  match p.top with
  | [.gref k] =>
    match firstMatch p.store (p.store.nodes.length + 1) pats (.gref k) with
    | .ok none => true
    | _ => false
  | _ => false

/-- Every pass of the run of `optimizeDag` starts from a well-formed graph on which `InlineGraph` does not fire. -/
def goodRun (pats : List Pattern) : Nat → Prog → Bool
  | 0, _ => true
  | n + 1, p =>
    p.wfTop && noTopInline pats p &&
      (match pass pats p.fuel p with
       | .ok (p', true) => goodRun pats n p'
       | _ => true)

/-! ### Topological order (side condition of the termination theorem; computed by the driver for every real graph) -/

/-- All tracers of a pytree are below `n`, and there are no nested graphs in it. -/
def toksLt (n : Nat) (v : List Tok) : Bool :=
  v.all (fun t => match t with | .ref j => decide (j < n) | .gref _ => false | _ => true)

def App.operands (a : App) : List (List Tok) := a.pre ++ a.args ++ a.kwargs.map (·.2) ++ a.deps

def App.operandsLt (a : App) (n : Nat) : Bool := a.operands.all (toksLt n)

/-- Operands before consumers, no nested graphs (decidable; computed by the driver for every real graph). -/
def Store.topo (S : Store) : Bool :=
  (List.range S.nodes.length).all (fun i =>
    match S.nodes[i]? with
    | some ⟨_, .app a⟩ => a.operandsLt i
    | some ⟨_, .proj src _⟩ => decide (src < i)
    | _ => true)

/-- The program is a graph over a topologically ordered store without nested graphs (decidable; computed by the driver). -/
def Prog.topoOK (p : Prog) : Bool :=
  p.store.topo &&
    (match p.top with
     | [.gref k] =>
       match p.store.graphs[k]? with
       | some g => toksLt p.store.nodes.length g.output
       | none => false
     | _ => false)

/-- Every pass of the run starts from a graph over a topologically ordered store. -/
def fuelRun (pats : List Pattern) : Nat → Prog → Bool
  | 0, _ => true
  | n + 1, p =>
    p.topoOK &&
      (match pass pats p.fuel p with
       | .ok (p', true) => fuelRun pats n p'
       | _ => true)

/-- The first `n` passes all report `changed`. -/
def allChanged (pats : List Pattern) : Nat → Prog → Bool
  | 0, _ => true
  | n + 1, p =>
    match pass pats p.fuel p with
    | .ok (p', true) => allChanged pats n p'
    | _ => false

/-! ### The laws the patterns rely on -/

/-- `f` is the value of the tracer a pattern is bound to: an `Import` followed by `GetAttr`s (`rpath`: last attribute first). -/
def IsFn (Sm : Sem V) (pat : FnPat) : List String → V → Prop
  | [], f => ∃ ea : EApp V, ea.head = .import_ pat.imp pat.from_ pat.as_ ∧ Sm.app ea = .ok f
  | key :: rest, f => ∃ (m : V) (ea : EApp V), IsFn Sm pat rest m ∧ ea.head = .getattr key ∧ ea.pre = [[.val m]] ∧ Sm.app ea = .ok f

def lits (v : List Tok) : List (RTok V) := v.map .lit

/-- A call `f(x, lit, …)` of the pattern's function. -/
def IsCall (Sm : Sem V) (pat : FnPat) (ea : EApp V) : Prop :=
  ea.head = .call ∧ ∃ f, ea.pre = [[.val f]] ∧ IsFn Sm pat pat.path.reverse f

/-- The merged call `call(f, [x, lit])`. -/
def mergedCall (f : V) (x : List (RTok V)) (lit : List Tok) : EApp V :=
  ⟨.call, [[.val f]], [x, lits lit], [], [.ref 0]⟩

structure Sem.Laws (Sm : Sem V) (pats : List Pattern) : Prop where
  /-- a `Cast` with one output is the identity -/
  cast_id : ∀ (ea : EApp V) (v r : V), ea.head = .cast → ea.pre = [[.val v]] → ea.out = [.ref 0] → Sm.app ea = .ok r → r = v
  reshape_noop : ∀ pat, Pattern.skipReshape pat ∈ pats → ∀ (ea : EApp V) (x r : V) (shape : List Tok) (s : List Nat),
    IsCall Sm pat ea → ea.args[0]? = some [.val x] → ea.args[1]? = some (lits shape) → seqNats shape = some s →
    Sm.shapeOf x = some s → Sm.app ea = .ok r → r = x
  reshape_merge : ∀ pat, Pattern.skipReshape pat ∈ pats → ∀ (ea1 ea2 : EApp V) (f : V) (xE : List (RTok V)) (y z : V) (shape : List Tok),
    IsCall Sm pat ea1 → ea1.args[0]? = some xE → Sm.app ea1 = .ok y →
    ea2.head = .call → ea2.pre = [[.val f]] → IsFn Sm pat pat.path.reverse f →
    ea2.args[0]? = some [.val y] → ea2.args[1]? = some (lits shape) → Sm.app ea2 = .ok z →
    Sm.app (mergedCall f xE shape) = .ok z
  transpose_noop : ∀ pat, Pattern.skipTranspose pat ∈ pats → ∀ (ea : EApp V) (x r : V) (perm : List Tok) (p s : List Nat),
    IsCall Sm pat ea → ea.args[0]? = some [.val x] → ea.args[1]? = some (lits perm) → seqNats perm = some p →
    Sm.shapeOf x = some s → Extracted.transposeNoop p s.length = true → Sm.app ea = .ok r → r = x
  transpose_merge : ∀ pat, Pattern.skipTranspose pat ∈ pats → ∀ (ea1 ea2 : EApp V) (f : V) (xE : List (RTok V)) (y z : V)
      (perm1 perm2 : List Tok) (p1 p2 p : List Nat),
    IsCall Sm pat ea1 → ea1.args[0]? = some xE → ea1.args[1]? = some (lits perm1) → Sm.app ea1 = .ok y →
    ea2.head = .call → ea2.pre = [[.val f]] → IsFn Sm pat pat.path.reverse f →
    ea2.args[0]? = some [.val y] → ea2.args[1]? = some (lits perm2) → Sm.app ea2 = .ok z →
    seqNats perm1 = some p1 → seqNats perm2 = some p2 → Extracted.composePerm p1 p2 = some p →
    Sm.app (mergedCall f xE (natsToks p)) = .ok z
  broadcast_noop : ∀ pat, Pattern.skipBroadcastTo pat ∈ pats → ∀ (ea : EApp V) (x r : V) (shape : List Tok) (s : List Nat),
    IsCall Sm pat ea → ea.args[0]? = some [.val x] → ea.args[1]? = some (lits shape) → seqNats shape = some s →
    Sm.shapeOf x = some s → Sm.app ea = .ok r → r = x
  concat_noop : ∀ pat, Pattern.skipConcatenate pat ∈ pats → ∀ (ea : EApp V) (r : V) (c : CKind) (es : List (RTok V)),
    IsCall Sm pat ea → ea.args[0]? = some (.lit (.open_ c 1) :: es) → (c = .tuple ∨ c = .list) → Sm.app ea = .ok r → es = [.val r]

/-! ### The instance over the IR executor -/

/-- Python objects that are not tensors: modules, attributes of them, and whatever the uninterpreted calls return. -/
inductive PyObj where
  | imp (i : String) (from_ as_ : Option String)
  | attr (o : PyObj) (key : String)
  | opaque (n : Nat)
deriving DecidableEq, Repr

inductive PV (α : Type) where
  | tensor (t : Tensor α)
  | obj (o : PyObj)

/-- The four numpy functions the classical patterns of a backend are bound to. -/
structure NpFns where
  reshape : FnPat
  transpose : FnPat
  broadcastTo : FnPat
  concatenate : FnPat

/-- The pattern list of a backend over these functions, in the order of `frontend/impl/numpy.py`. -/
def NpFns.patterns (fns : NpFns) : List Pattern :=
  [.skipReshape fns.reshape, .skipTranspose fns.transpose, .skipBroadcastTo fns.broadcastTo, .skipConcatenate fns.concatenate,
   .inlineGraph, .skipCast]

/-- The object `import … ; ….a.b.c` (`rpath`: last attribute first). -/
def FnPat.robj (pat : FnPat) : List String → PyObj
  | [] => .imp pat.imp pat.from_ pat.as_
  | k :: rest => .attr (pat.robj rest) k

def FnPat.obj (pat : FnPat) : PyObj := pat.robj pat.path.reverse

def unlit {V : Type} : List (RTok V) → Option (List Tok)
  | [] => some []
  | .lit t :: rest => (unlit rest).map (t :: ·)
  | .val _ :: _ => none

/-- A shape / permutation literal among evaluated operands. -/
def seqNatsR {V : Type} (v : List (RTok V)) : Option (List Nat) := (unlit v).bind seqNats

def tensorsOf {α : Type} : List (RTok (PV α)) → Option (List (Tensor α))
  | [] => some []
  | .val (.tensor t) :: rest => (tensorsOf rest).map (t :: ·)
  | _ => none

/-- `f(x, lit)` with no keyword arguments, executed as one instruction on the register file `[x]`. -/
def unaryCall {α : Type} (A : Alg α) (ea : EApp (PV α)) (mk : List Nat → Instr) : Except String (PV α) :=
  match ea.args, ea.kwargs with
  | [[.val (.tensor t)], lit], [] =>
    match seqNatsR lit with
    | some s => do pure (.tensor (← Optimize.step A [t] (mk s)))
    | none => throw "literal that is not a sequence of non-negative ints (outside the pure node language)"
  | _, _ => throw "call form outside the pure node language"

/-- `np.concatenate([x, …], axis=k)`. -/
def concatCall {α : Type} (A : Alg α) (ea : EApp (PV α)) : Except String (PV α) :=
  match ea.args, ea.kwargs with
  | [.lit (.open_ c n) :: es], [("axis", [.lit (.atom (.int k))])] =>
    if (c == .tuple || c == .list) && 0 ≤ k then
      match tensorsOf es with
      | some ts =>
        if ts.length == n && ts.all (fun t => t.data.length == prod t.shape) then do
          pure (.tensor (← Optimize.step A ts (.concat (List.range n) k.toNat)))
        else throw "malformed list"
      | none => throw "concatenate of something that is not a tensor"
    else throw "call form outside the pure node language"
  | _, _ => throw "call form outside the pure node language"

/-- The semantics over the IR executor: element algebra `A`, uninterpreted applications `O`. -/
def irSem {α : Type} (A : Alg α) (O : EApp (PV α) → Except String (PV α)) (fns : NpFns) : Sem (PV α) where
  shapeOf
    | .tensor t => if t.data.length = prod t.shape then some t.shape else none
    | .obj _ => none
  app ea :=
    match ea.head with
    | .import_ i f a => pure (.obj (.imp i f a))
    | .getattr key =>
      match ea.pre with
      | [[.val (.obj o)]] => pure (.obj (.attr o key))
      | _ => O ea
    | .cast =>
      match ea.pre, ea.out with
      | [[.val v]], [.ref 0] => pure v
      | _, _ => O ea
    | .call =>
      match ea.pre with
      | [[.val (.obj o)]] =>
        if o = fns.reshape.obj then unaryCall A ea (.reshape 0)
        else if o = fns.transpose.obj then unaryCall A ea (.transpose 0)
        else if o = fns.broadcastTo.obj then unaryCall A ea (.broadcastTo 0)
        else if o = fns.concatenate.obj then concatCall A ea
        else O ea
      | _ => O ea
    | _ => O ea

end Einx.OptDag
