import EinxModel.IR.Validate
import EinxModel.Extracted.Kernels
/-
M7 (optimiser): the pieces of `einx/_src/tracer/optimizer` that the C05 theorems speak about.

* `step`: one instruction of the IR executed on a register file -- literally the body of `IR.evalProg`
  (see `evalProg_cons`), so every statement about `step` is a statement about the program evaluator that
  the validator and the driver's `equiv` kind execute.
* `PassModel` / `PassModel.fix`: the structure of `optimizer.optimize`: whole passes are repeated with a
  fresh `Optimizer` until a pass reports `changed = False`.  A pass is abstract here (the real passes are
  run by the harness on real graphs); what the model fixes is the *loop* and the *measure argument*:
  a pass that reports a change strictly decreases a natural-number measure (for the real optimiser: the
  number of call/cast nodes of the graph unfolded into a tree, i.e. counted once per path from the
  output -- checked on every real pass by `tools/props/c05.py`).
* `equivProgs`: the check behind the driver kind `equiv` (two programs have cell-for-cell identical
  symbolic results); `Props/C05.lean` proves that acceptance means equality for all tensor contents.
* `Term` / `rewrite` (one pass of the six patterns on a tree), `Rule` / `Rewrites` (the patterns as a rewrite
  system, any order), `Term.evalWith` / `Term.eval` (what a term computes, by `step`), `evalLetsWith` /
  `rewriteLets` / `unfoldLets` (sharing as let-bindings): the objects of the whole-pass theorems
  `rewrite_sound`, `optimize_sound`, `rebuild_preserves` of `Props/C05.lean`.  None of these is executed by the
  driver (its kinds `equiv`, `equiv_progs`, `kernel` use `equivG`, `Extracted.*` only).
-/
namespace Einx.Optimize
open Einx Einx.IR

/-- One instruction on a register file: plan from the shapes, run the plan. -/
def step {α : Type} (A : Alg α) (regs : List (Tensor α)) (i : Instr) : E (Tensor α) := do
  let p ← planInstr (regs.map (·.shape)) i
  pure (runPlan A regs p)

/-- `evalProg` is iterated `step`. -/
theorem evalProg_cons {α : Type} (A : Alg α) (i : Instr) (is : List Instr) (regs : List (Tensor α)) :
    evalProg A (i :: is) regs = (do let t ← step A regs i; evalProg A is (regs ++ [t])) := by
  simp only [evalProg, step]
  cases planInstr (regs.map (·.shape)) i <;> rfl

/-! ### The pass loop of `optimizer.optimize` -/

/-- A pass returns the rewritten graph and whether any pattern fired; a pass that fired strictly decreases
the measure. -/
structure PassModel (G : Type) where
  pass : G → G × Bool
  measure : G → Nat
  decreases : ∀ g, (pass g).2 = true → measure (pass g).1 < measure g

/-- `optimize`: `while True: x = pass(x); if not changed: break` -- returns the final graph and the number
of passes executed.  Defined by well-founded recursion on the measure: Lean accepts the definition only
because the loop terminates. -/
def PassModel.fix {G : Type} (P : PassModel G) (g : G) : G × Nat :=
  if h : (P.pass g).2 = true then
    let r := P.fix (P.pass g).1
    (r.1, r.2 + 1)
  else ((P.pass g).1, 1)
termination_by P.measure g
decreasing_by exact P.decreases g h

/-- The same loop with an explicit bound on the number of passes (what a run of the real loop looks like
when it is cut off): `none` = bound exhausted. -/
def PassModel.iter {G : Type} (P : PassModel G) : Nat → G → Option (G × Nat)
  | 0, _ => none
  | fuel + 1, g =>
    if (P.pass g).2 then (P.iter fuel (P.pass g).1).map (fun r => (r.1, r.2 + 1))
    else some ((P.pass g).1, 1)

/-! ### A term model of the six patterns (graphs unfolded into trees)

A node stands for a numpy call together with the `Cast` that gives its result a tensor type; `cast` is an
additional identity cast; `op2` is any other call (never rewritten itself, its operands are).  `Term.shape` is the
traced shape the patterns read as `input.shape`.  `rewrite` is one pass of `Optimizer._optimize` on a tree:
patterns first (no-op test, then merge with a directly nested node of the same kind), otherwise rebuild the node
from its rewritten operands.  The tests and the composition are the `Extracted.*` definitions. -/

inductive Term where
  | input (i : Nat) (shape : List Nat)
  | reshape (x : Term) (shape : List Nat)
  | transpose (x : Term) (perm : List Nat)
  | broadcastTo (x : Term) (shape : List Nat)
  | concat1 (x : Term) (axis : Nat)                 -- `concatenate([x], axis)`
  | concat2 (x y : Term) (axis : Nat)               -- `concatenate([x, y], axis)`
  | cast (x : Term)                                 -- identity cast
  | op2 (f : String) (x y : Term) (shape : List Nat)
deriving Repr, Inhabited

def Term.shape : Term → List Nat
  | .input _ s => s
  | .reshape _ s => s
  | .transpose x p => p.map (fun a => x.shape.getD a 0)
  | .broadcastTo _ s => s
  | .concat1 x _ => x.shape
  | .concat2 x y axis => x.shape.set axis (x.shape.getD axis 0 + y.shape.getD axis 0)
  | .cast x => x.shape
  | .op2 _ _ _ s => s

/-- Number of call/cast nodes, counted once per path (tree unfolding). -/
def Term.size : Term → Nat
  | .input _ _ => 0
  | .reshape x _ => x.size + 1
  | .transpose x _ => x.size + 1
  | .broadcastTo x _ => x.size + 1
  | .concat1 x _ => x.size + 1
  | .concat2 x y _ => x.size + y.size + 1
  | .cast x => x.size + 1
  | .op2 _ x y _ => x.size + y.size + 1

/-- One pass over a tree: (rewritten tree, did any pattern fire). -/
def rewrite : Term → Term × Bool
  | .input i s => (.input i s, false)
  | .reshape (.reshape x' s1) s =>
    if Extracted.reshapeNoop s s1 then ((rewrite (.reshape x' s1)).1, true)        -- SkipReshape: no-op
    else (.reshape (rewrite x').1 s, true)                                          -- SkipReshape: merge
  | .reshape x s =>
    if Extracted.reshapeNoop s x.shape then ((rewrite x).1, true)
    else (.reshape (rewrite x).1 s, (rewrite x).2)
  | .transpose (.transpose x' p1) p2 =>
    if Extracted.transposeNoop p2 (Term.transpose x' p1).shape.length then ((rewrite (.transpose x' p1)).1, true)
    else match Extracted.composePerm p1 p2 with
      | some p => (.transpose (rewrite x').1 p, true)                               -- SkipTranspose: merge
      | none => (.transpose (rewrite (.transpose x' p1)).1 p2, (rewrite (.transpose x' p1)).2)   -- (Python would raise IndexError)
  | .transpose x p =>
    if Extracted.transposeNoop p x.shape.length then ((rewrite x).1, true)
    else (.transpose (rewrite x).1 p, (rewrite x).2)
  | .broadcastTo x s =>
    if Extracted.broadcastNoop s x.shape then ((rewrite x).1, true)
    else (.broadcastTo (rewrite x).1 s, (rewrite x).2)
  | .concat1 x axis =>
    if Extracted.concatNoop 1 then ((rewrite x).1, true)
    else (.concat1 (rewrite x).1 axis, (rewrite x).2)
  | .concat2 x y axis =>
    if Extracted.concatNoop 2 then ((rewrite x).1, true)
    else (.concat2 (rewrite x).1 (rewrite y).1 axis, (rewrite x).2 || (rewrite y).2)
  | .cast x => ((rewrite x).1, true)                                                -- SkipCast
  | .op2 f x y s => (.op2 f (rewrite x).1 (rewrite y).1 s, (rewrite x).2 || (rewrite y).2)

/-! ### The patterns as a rewrite system (independent of the traversal strategy)

`Rule` is one application of a pattern at the root of a term (the test and the replacement of the pattern, on the
`Extracted.*` tests and composition); `Rewrites` is its closure under contexts, sequencing and doing nothing: patterns
applied anywhere, any number of times, in any order.  `rewrite` is one strategy (`rewrite_rewrites`,
Proofs/OptimizeSound.lean); the memoised top-down traversal of `Optimizer._optimize` is another.  A merge through
`_skip_id` (`reshape(cast(reshape(x, s1)), s)` → `reshape(x, s)`) is `skipCast` under the outer node followed by
`reshapeMerge`, so it needs no rule of its own. -/

inductive Rule : Term → Term → Prop
  | reshapeNoop (x : Term) (s : List Nat) : Extracted.reshapeNoop s x.shape = true → Rule (.reshape x s) x
  | reshapeMerge (x : Term) (s1 s : List Nat) : Rule (.reshape (.reshape x s1) s) (.reshape x s)
  | transposeNoop (x : Term) (p : List Nat) : Extracted.transposeNoop p x.shape.length = true → Rule (.transpose x p) x
  | transposeMerge (x : Term) (p1 p2 p : List Nat) : Extracted.composePerm p1 p2 = some p →
      Rule (.transpose (.transpose x p1) p2) (.transpose x p)
  | broadcastNoop (x : Term) (s : List Nat) : Extracted.broadcastNoop s x.shape = true → Rule (.broadcastTo x s) x
  | concatNoop (x : Term) (axis : Nat) : Extracted.concatNoop 1 = true → Rule (.concat1 x axis) x
  | skipCast (x : Term) : Rule (.cast x) x

inductive Rewrites : Term → Term → Prop
  | refl (t : Term) : Rewrites t t
  | rule {t t' : Term} : Rule t t' → Rewrites t t'
  | trans {a b c : Term} : Rewrites a b → Rewrites b c → Rewrites a c
  | reshape {x x' : Term} (s : List Nat) : Rewrites x x' → Rewrites (.reshape x s) (.reshape x' s)
  | transpose {x x' : Term} (p : List Nat) : Rewrites x x' → Rewrites (.transpose x p) (.transpose x' p)
  | broadcastTo {x x' : Term} (s : List Nat) : Rewrites x x' → Rewrites (.broadcastTo x s) (.broadcastTo x' s)
  | concat1 {x x' : Term} (axis : Nat) : Rewrites x x' → Rewrites (.concat1 x axis) (.concat1 x' axis)
  | concat2 {x x' y y' : Term} (axis : Nat) : Rewrites x x' → Rewrites y y' →
      Rewrites (.concat2 x y axis) (.concat2 x' y' axis)
  | cast {x x' : Term} : Rewrites x x' → Rewrites (.cast x) (.cast x')
  | op2 {x x' y y' : Term} (f : String) (s : List Nat) : Rewrites x x' → Rewrites y y' →
      Rewrites (.op2 f x y s) (.op2 f x' y' s)

/-! ### What a term computes

`Term.evalWith` gives a term the semantics of the IR executor: a node evaluates its operands, puts the results
into a fresh register file (`[v]` or `[a, b]`) and executes **one instruction of `IR.evalProg`** on it
(`step` = `planInstr` from the operand shapes, then `runPlan`; `step_iff_evalProg` below).  The instructions
are the numpy primitives the validator executes (`Instr.reshape/transpose/broadcastTo/concat`); `cast` is the
identity.  `op2 f` is "any other call" -- the patterns never look at it -- so its meaning is a parameter
`O : Op2 α` (any partial function of the two operand values); `Term.eval` instantiates it with the binary
elementwise call `f` with numpy broadcasting (`ewiseOp` = `Instr.ewise`).

The shapes stored in a term are the *traced* shapes (`Tracer.shape`), which the patterns read instead of the
run-time shapes.  A term is only meaningful when they are true: `input i s` evaluates to input `i` provided
its shape is `s`, `op2 _ _ _ s` checks that the result has shape `s`; everything else has its shape
determined by its operands (`Term.shape`), which `eval_shape` (Proofs/OptimizeSound.lean) proves. -/

/-- Meaning of the calls the patterns do not inspect: a partial function of the operand values. -/
abbrev Op2 (α : Type) := String → Tensor α → Tensor α → E (Tensor α)

/-- The results of `O` have data of the size their shapes say. -/
def Op2.WF {α : Type} (O : Op2 α) : Prop :=
  ∀ f a b r, O f a b = .ok r → r.data.length = prod r.shape

def Term.evalWith {α : Type} (A : Alg α) (O : Op2 α) (inputs : List (Tensor α)) : Term → E (Tensor α)
  | .input i s =>
    match inputs[i]? with
    | some t => if t.shape = s then pure t else throw s!"input {i}: traced shape {s}, actual shape {t.shape}"
    | none => throw s!"input {i} undefined"
  | .reshape x s => do
    let v ← x.evalWith A O inputs
    step A [v] (.reshape 0 s)
  | .transpose x p => do
    let v ← x.evalWith A O inputs
    step A [v] (.transpose 0 p)
  | .broadcastTo x s => do
    let v ← x.evalWith A O inputs
    step A [v] (.broadcastTo 0 s)
  | .concat1 x axis => do
    let v ← x.evalWith A O inputs
    step A [v] (.concat [0] axis)
  | .concat2 x y axis => do
    let a ← x.evalWith A O inputs
    let b ← y.evalWith A O inputs
    step A [a, b] (.concat [0, 1] axis)
  | .cast x => x.evalWith A O inputs
  | .op2 f x y s => do
    let a ← x.evalWith A O inputs
    let b ← y.evalWith A O inputs
    let r ← O f a b
    if r.shape = s then pure r else throw s!"{f}: traced shape {s}, actual shape {r.shape}"

/-- `f(a, b)` as the elementwise numpy call with broadcasting: one `Instr.ewise` on the register file `[a, b]`. -/
def ewiseOp {α : Type} (A : Alg α) : Op2 α := fun f a b => step A [a, b] (.ewise f [.reg 0, .reg 1])

/-- The term model evaluated entirely by the primitive plans of IR/Prim.lean. -/
abbrev Term.eval {α : Type} (A : Alg α) (inputs : List (Tensor α)) (t : Term) : E (Tensor α) :=
  t.evalWith A (ewiseOp A) inputs

/-- `step` is a run of the program evaluator on a one-instruction program. -/
theorem step_iff_evalProg {α : Type} (A : Alg α) (regs : List (Tensor α)) (i : Instr) (t : Tensor α) :
    step A regs i = .ok t ↔ evalProg A [i] regs = .ok (regs ++ [t]) := by
  rw [evalProg_cons]
  cases h : step A regs i with
  | error e => simp [bind, Except.bind]
  | ok t' =>
    simp only [bind, Except.bind, evalProg, pure, Except.pure, Except.ok.injEq]
    constructor
    · intro h; rw [h]
    · intro h; exact (List.append_cancel_left h |> List.cons.inj).1

/-! ### Sharing: a graph as a list of let-bound terms (SSA)

A value with several consumers is bound once: binding `k` is a term over the register file
`inputs ++ [values of the bindings before k]` (a leaf `input i s` with `i ≥ inputs.length` reads an earlier
binding), so the value of a binding is computed once and read by all its consumers.  The memoised rebuild of
`Optimizer._optimize` (`id_to_newobj`: a node is rewritten once, every consumer receives the same rewritten
object) is `rewriteLets`: every binding is rewritten once, consumers keep referring to it by its position. -/

/-- Evaluate the bindings in order; the result is the extended register file. -/
def evalLetsWith {α : Type} (A : Alg α) (O : Op2 α) : List Term → List (Tensor α) → E (List (Tensor α))
  | [], env => pure env
  | b :: bs, env => do
    let v ← b.evalWith A O env
    evalLetsWith A O bs (env ++ [v])

abbrev evalLets {α : Type} (A : Alg α) (bs : List Term) (env : List (Tensor α)) : E (List (Tensor α)) :=
  evalLetsWith A (ewiseOp A) bs env

/-- One memoised pass over a list of bindings. -/
def rewriteLets (bs : List Term) : List Term × Bool :=
  (bs.map (fun b => (rewrite b).1), bs.any (fun b => (rewrite b).2))

/-- Replace the leaves that read a binding (register `n + j`) by the tree `σ[j]`. -/
def Term.subst (n : Nat) (σ : List Term) : Term → Term
  | .input i s => if i < n then .input i s else (σ[i - n]?).getD (.input i s)
  | .reshape x s => .reshape (x.subst n σ) s
  | .transpose x p => .transpose (x.subst n σ) p
  | .broadcastTo x s => .broadcastTo (x.subst n σ) s
  | .concat1 x axis => .concat1 (x.subst n σ) axis
  | .concat2 x y axis => .concat2 (x.subst n σ) (y.subst n σ) axis
  | .cast x => .cast (x.subst n σ)
  | .op2 f x y s => .op2 f (x.subst n σ) (y.subst n σ) s

/-- Tree unfolding of a list of bindings over `n` graph inputs: `σ` holds the trees (over the graph inputs
only) of the bindings processed so far; the result lists the tree of every binding. -/
def unfoldLets (n : Nat) : List Term → List Term → List Term
  | [], σ => σ
  | b :: bs, σ => unfoldLets n bs (σ ++ [b.subst n σ])

/-! ### Symbolic equivalence of two programs (driver kind `equiv`) -/

/-- Both programs run on symbolic inputs of the given shapes and their selected output registers are
identical, shape by shape and cell by cell. -/
def equivProgs (prog1 : List Instr) (outs1 : List Nat) (prog2 : List Instr) (outs2 : List Nat)
    (inShapes : List (List Nat)) : Bool :=
  match symRun prog2 inShapes outs2 with
  | .ok exp => validate prog1 inShapes outs1 exp
  | .error _ => false

end Einx.Optimize
