import EinxModel.IR.Validate
import EinxModel.Extracted.Kernels
/-
M7 (optimiser): the pieces of `einx/_src/tracer/optimizer` that the C05 theorems speak about.

* `step`: one instruction of the IR executed on a register file -- literally the body of `IR.evalProg`
  (see `evalProg_cons`), so every statement about `step` is a statement about the program evaluator that
  the validator and the driver's `equiv` kind execute.
* `PassModel` / `PassModel.fix`: the structure of `optimizer.optimize`: whole passes are repeated with a
  fresh `Optimizer` until a pass reports `changed = False`.  A pass is abstract here (the real passes are
  run by the harness on real graphs); what the model fixes is the *loop* and the *measure argument*:
  a pass that reports a change strictly decreases a natural-number measure (for the real optimiser: the
  number of call/cast nodes of the graph unfolded into a tree, i.e. counted once per path from the
  output -- checked on every real pass by `tools/props/c05.py`).
* `equivProgs`: the check behind the driver kind `equiv` (two programs have cell-for-cell identical
  symbolic results); `Props/C05.lean` proves that acceptance means equality for all tensor contents.
-/
namespace Einx.Optimize
open Einx Einx.IR

/-- One instruction on a register file: plan from the shapes, run the plan. -/
def step {α : Type} (A : Alg α) (regs : List (Tensor α)) (i : Instr) : E (Tensor α) := do
  let p ← planInstr (regs.map (·.shape)) i
  pure (runPlan A regs p)

/-- `evalProg` is iterated `step`. -/
theorem evalProg_cons {α : Type} (A : Alg α) (i : Instr) (is : List Instr) (regs : List (Tensor α)) :
    evalProg A (i :: is) regs = (do let t ← step A regs i; evalProg A is (regs ++ [t])) := by
  simp only [evalProg, step]
  cases planInstr (regs.map (·.shape)) i <;> rfl

/-! ### The pass loop of `optimizer.optimize` -/

/-- A pass returns the rewritten graph and whether any pattern fired; a pass that fired strictly decreases
the measure. -/
structure PassModel (G : Type) where
  pass : G → G × Bool
  measure : G → Nat
  decreases : ∀ g, (pass g).2 = true → measure (pass g).1 < measure g

/-- `optimize`: `while True: x = pass(x); if not changed: break` -- returns the final graph and the number
of passes executed.  Defined by well-founded recursion on the measure: Lean accepts the definition only
because the loop terminates. -/
def PassModel.fix {G : Type} (P : PassModel G) (g : G) : G × Nat :=
  if h : (P.pass g).2 = true then
    let r := P.fix (P.pass g).1
    (r.1, r.2 + 1)
  else ((P.pass g).1, 1)
termination_by P.measure g
decreasing_by exact P.decreases g h

/-- The same loop with an explicit bound on the number of passes (what a run of the real loop looks like
when it is cut off): `none` = bound exhausted. -/
def PassModel.iter {G : Type} (P : PassModel G) : Nat → G → Option (G × Nat)
  | 0, _ => none
  | fuel + 1, g =>
    if (P.pass g).2 then (P.iter fuel (P.pass g).1).map (fun r => (r.1, r.2 + 1))
    else some ((P.pass g).1, 1)

/-! ### A term model of the six patterns (graphs unfolded into trees)

A node stands for a numpy call together with the `Cast` that gives its result a tensor type; `cast` is an
additional identity cast; `op2` is any other call (never rewritten itself, its operands are).  `Term.shape` is the
traced shape the patterns read as `input.shape`.  `rewrite` is one pass of `Optimizer._optimize` on a tree:
patterns first (no-op test, then merge with a directly nested node of the same kind), otherwise rebuild the node
from its rewritten operands.  The tests and the composition are the `Extracted.*` definitions. -/

inductive Term where
  | input (i : Nat) (shape : List Nat)
  | reshape (x : Term) (shape : List Nat)
  | transpose (x : Term) (perm : List Nat)
  | broadcastTo (x : Term) (shape : List Nat)
  | concat1 (x : Term) (axis : Nat)                 -- `concatenate([x], axis)`
  | concat2 (x y : Term) (axis : Nat)               -- `concatenate([x, y], axis)`
  | cast (x : Term)                                 -- identity cast
  | op2 (f : String) (x y : Term) (shape : List Nat)
deriving Repr, Inhabited

def Term.shape : Term → List Nat
  | .input _ s => s
  | .reshape _ s => s
  | .transpose x p => p.map (fun a => x.shape.getD a 0)
  | .broadcastTo _ s => s
  | .concat1 x _ => x.shape
  | .concat2 x y axis => x.shape.set axis (x.shape.getD axis 0 + y.shape.getD axis 0)
  | .cast x => x.shape
  | .op2 _ _ _ s => s

/-- Number of call/cast nodes, counted once per path (tree unfolding). -/
def Term.size : Term → Nat
  | .input _ _ => 0
  | .reshape x _ => x.size + 1
  | .transpose x _ => x.size + 1
  | .broadcastTo x _ => x.size + 1
  | .concat1 x _ => x.size + 1
  | .concat2 x y _ => x.size + y.size + 1
  | .cast x => x.size + 1
  | .op2 _ x y _ => x.size + y.size + 1

/-- One pass over a tree: (rewritten tree, did any pattern fire). -/
def rewrite : Term → Term × Bool
  | .input i s => (.input i s, false)
  | .reshape (.reshape x' s1) s =>
    if Extracted.reshapeNoop s s1 then ((rewrite (.reshape x' s1)).1, true)        -- SkipReshape: no-op
    else (.reshape (rewrite x').1 s, true)                                          -- SkipReshape: merge
  | .reshape x s =>
    if Extracted.reshapeNoop s x.shape then ((rewrite x).1, true)
    else (.reshape (rewrite x).1 s, (rewrite x).2)
  | .transpose (.transpose x' p1) p2 =>
    if Extracted.transposeNoop p2 (Term.transpose x' p1).shape.length then ((rewrite (.transpose x' p1)).1, true)
    else match Extracted.composePerm p1 p2 with
      | some p => (.transpose (rewrite x').1 p, true)                               -- SkipTranspose: merge
      | none => (.transpose (rewrite (.transpose x' p1)).1 p2, (rewrite (.transpose x' p1)).2)   -- (Python would raise IndexError)
  | .transpose x p =>
    if Extracted.transposeNoop p x.shape.length then ((rewrite x).1, true)
    else (.transpose (rewrite x).1 p, (rewrite x).2)
  | .broadcastTo x s =>
    if Extracted.broadcastNoop s x.shape then ((rewrite x).1, true)
    else (.broadcastTo (rewrite x).1 s, (rewrite x).2)
  | .concat1 x axis =>
    if Extracted.concatNoop 1 then ((rewrite x).1, true)
    else (.concat1 (rewrite x).1 axis, (rewrite x).2)
  | .concat2 x y axis =>
    if Extracted.concatNoop 2 then ((rewrite x).1, true)
    else (.concat2 (rewrite x).1 (rewrite y).1 axis, (rewrite x).2 || (rewrite y).2)
  | .cast x => ((rewrite x).1, true)                                                -- SkipCast
  | .op2 f x y s => (.op2 f (rewrite x).1 (rewrite y).1 s, (rewrite x).2 || (rewrite y).2)

/-! ### Symbolic equivalence of two programs (driver kind `equiv`) -/

/-- Both programs run on symbolic inputs of the given shapes and their selected output registers are
identical, shape by shape and cell by cell. -/
def equivProgs (prog1 : List Instr) (outs1 : List Nat) (prog2 : List Instr) (outs2 : List Nat)
    (inShapes : List (List Nat)) : Bool :=
  match symRun prog2 inShapes outs2 with
  | .ok exp => validate prog1 inShapes outs1 exp
  | .error _ => false

end Einx.Optimize
