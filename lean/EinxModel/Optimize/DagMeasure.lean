import EinxModel.Optimize.DagSem
/-!
The termination measure of the optimiser loop on DAG stores: the number of nodes of the graph output **unfolded into a
tree** (`Prog.weight`).  `sizes nodes` is the table of unfolded sizes of the nodes of a store, computed left to right (a node
counts 1 plus the sizes of the tracers among its operands; a reference that is not below the node counts 0 -- on a
topologically ordered store there is none).  The DAG node count itself is not monotone (a merged call is a new node and
the old one may stay alive through another consumer); the unfolded size strictly decreases in every pass that reports
`changed` (`Proofs/OptDagMeasure.lean: pass_decreases_dag`).  No Mathlib: the driver computes the weights of every pass.
-/
namespace Einx.OptDag

def tokSize (tbl : List Nat) : Tok → Nat
  | .ref j => (tbl[j]?).getD 0
  | _ => 0

def toksSize (tbl : List Nat) (v : List Tok) : Nat := (v.map (tokSize tbl)).sum

def opsSize (tbl : List Nat) (vs : List (List Tok)) : Nat := (vs.map (toksSize tbl)).sum

def App.size (a : App) (tbl : List Nat) : Nat := 1 + opsSize tbl a.operands

def nodeSize (tbl : List Nat) (n : Node) : Nat :=
  match n.origin with
  | .none => 1
  | .app a => a.size tbl
  | .proj s _ => 1 + (tbl[s]?).getD 0

/-- Unfolded sizes of the nodes of a store, in store order. -/
def sizes (nodes : List Node) : List Nat := nodes.foldl (fun tbl n => tbl ++ [nodeSize tbl n]) []

/-- The measure: unfolded size of the output of the top-level graph. -/
def Prog.weight (p : Prog) : Nat :=
  match p.top with
  | [.gref k] =>
    match p.store.graphs[k]? with
    | some g => toksSize (sizes p.store.nodes) g.output
    | none => 0
  | _ => 0

/-- Every application of the store has exactly one output tracer (no multi-output `Cast`s). -/
def Store.single (S : Store) : Bool :=
  S.nodes.all (fun n => match n.origin with | .none => true | .app a => a.out == [.ref 0] | .proj _ _ => false)

/-- Side condition of the measure theorem (decidable; computed by the driver on the INPUT graph only). -/
def Prog.measureOK (p : Prog) : Bool := p.topoOK && p.store.single

/-- `InlineGraph` never fires on the top-level graph object in the first `n` passes (decidable; computed by the driver). -/
def noInlineRun (pats : List Pattern) : Nat → Prog → Bool
  | 0, _ => true
  | n + 1, p =>
    noTopInline pats p &&
      (match pass pats p.fuel p with
       | .ok (p', true) => noInlineRun pats n p'
       | _ => true)

end Einx.OptDag
