import EinxModel.Extracted.Kernels
/-!
M7b (optimiser, real traversal): an executable model of `einx/_src/tracer/optimizer/optimizer.py` on DAGs.

`tracer.optimize(x, optimizations)` is `while True: optimizer = Optimizer(optimizations); x = optimizer._optimize(x);
if not optimizer.changed: break`.  `Optimizer._optimize(x)` is a memoised top-down traversal of the *object graph*
(`id_to_newobj`, keyed by `id(x)`): memo first, then the patterns in list order (first match wins, the result is
memoised for the object the pattern was tried on and `changed` is set), otherwise the node is rebuilt from its
rewritten operands (`Application._tracer_transform`) and every output of the rebuilt application is memoised.

Representation (what the serialiser of tools/lib/dagcap.py produces from the real objects):

* a **store** is a list of nodes, *one node per tracer*, in creation order (operands before consumers);
  the tracer's `id` is the node's index.  A node is a tracer without origin (`Origin.none`: graph inputs), the
  first output of an application (`Origin.app a`), or a further output of the application of an earlier node
  (`Origin.proj src k`; multi-output `Cast`s).
* operand pytrees (`args`, `kwargs` values, `shape` tuples, graph outputs …) are **token lists** in prefix
  notation: `ref i` (tracer), `gref k` (a nested `tracer.Graph` object, index into `Store.graphs`), `atom`
  (constant leaf) and `open_ kind n` (a tuple/list/dict/slice with `n` children; a dict has `n` (key, value)
  pairs, i.e. `2n` subtrees).  `_optimize` maps over the leaves of a container, so on token lists it is a
  state-threading `flatMap` that leaves the structure tokens alone (`mapToks`).
* the memo is two association lists (old tracer ↦ new object, old `Graph` ↦ new object); a new object is a token
  list (normally the single token `ref j`).

Everything Python could raise is an `Err.py`; what the encoding cannot express is `Err.unsupported` (never a
default).  The recursion is on a fuel parameter (depth of the Python recursion); `Proofs/OptDagTerm.lean` proves
a bound that is always sufficient on well-formed stores.
-/
namespace Einx.OptDag

/-! ### Tokens, nodes, stores -/

/-- Constant leaves.  `other` is a leaf on which `_optimize` raises `NotImplementedError` (an arbitrary Python
object, `Ellipsis`, …). -/
inductive Atom where
  | int (v : Int)
  | str (s : String)
  | float (repr : String)
  | bool (b : Bool)
  | none
  | other (repr : String)
deriving DecidableEq, Repr, Inhabited

inductive CKind where
  | tuple | list | dict | slice
deriving DecidableEq, Repr, Inhabited

inductive Tok where
  | ref (i : Nat)
  | gref (k : Nat)
  | atom (a : Atom)
  | open_ (c : CKind) (n : Nat)
deriving DecidableEq, Repr, Inhabited

/-- `Tracer._tracer_type`: `Value`, `Tensor(shape)`, `ConvertibleTensor(concrete, shape)`; `cid` identifies the
(frozen) `concrete` up to `==` within one graph. -/
inductive Ty where
  | value
  | tensor (shape : List Nat)
  | convertible (shape : Option (List Nat)) (cid : Nat)
deriving DecidableEq, Repr, Inhabited

/-- The non-operand part of an `Application`. -/
inductive Head where
  | call
  | callInplace
  | getattr (key : String)
  | getitem
  | updateitem (op : String)
  | import_ (imp : String) (from_ as_ : Option String)
  | operator (op : String)
  | builtin (name : String)
  | assert_ (msg : Option String)
  | constant (repr : String)
  | cast
deriving DecidableEq, Repr, Inhabited

/-- An application with its operand pytrees in the order `_tracer_transform` visits them:
`pre` (`Call`: `[function]`; `CallInplace`: `[xs, function]`; `GetAttr`: `[obj]`; `GetItem`: `[obj, key]`;
`UpdateItem`: `[obj, key, value]`; `OperatorApplication`: the operands; `Assert`: `[xs, condition]`; `Cast`:
`[input]`), then `args`, `kwargs` values, `additional_dependencies`.  `out` is the output pytree with the leaf
`ref k` standing for the `k`-th output tracer. -/
structure App where
  head : Head
  pre : List (List Tok)
  args : List (List Tok)
  kwargs : List (String × List Tok)
  deps : List (List Tok)
  out : List Tok
deriving DecidableEq, Repr, Inhabited

inductive Origin where
  | none
  | app (a : App)
  | proj (src k : Nat)
deriving DecidableEq, Repr, Inhabited

structure Node where
  ty : Ty
  origin : Origin
deriving DecidableEq, Repr, Inhabited

/-- A `tracer.Graph` object. -/
structure GraphV where
  inputs : List Nat
  output : List Tok
  name : Option String
deriving DecidableEq, Repr, Inhabited

structure Store where
  nodes : List Node := []
  graphs : List GraphV := []
deriving DecidableEq, Repr, Inhabited

/-- What `optimize` is given / returns: an object (`top`, normally the single token `gref k`) over a store. -/
structure Prog where
  store : Store
  top : List Tok
deriving DecidableEq, Repr, Inhabited

inductive Err where
  | fuel
  | py (exc : String)
  | unsupported (why : String)
deriving DecidableEq, Repr, Inhabited

abbrev R := Except Err

/-! ### Patterns -/

/-- The tracer a classical pattern is bound to (`SkipReshape(np.reshape)`): an `Import` followed by `GetAttr`s. -/
structure FnPat where
  imp : String
  from_ : Option String
  as_ : Option String
  path : List String
deriving DecidableEq, Repr, Inhabited

inductive Pattern where
  | skipReshape (fn : FnPat)
  | skipTranspose (fn : FnPat)
  | skipBroadcastTo (fn : FnPat)
  | skipConcatenate (fn : FnPat)
  | inlineGraph
  | skipCast
deriving DecidableEq, Repr, Inhabited

/-- What a pattern that fired returns: `transform(v)` (`fwd`), or
`call(transform(fn), [transform(x), lit])` (`merge`; `lit` is passed on untransformed, as in the source). -/
inductive Action where
  | fwd (v : List Tok)
  | merge (fn x lit : List Tok)
deriving DecidableEq, Repr, Inhabited

/-! ### Reading the old store -/

/-- A pytree without tracers / graphs among its leaves. -/
def refFree (v : List Tok) : Bool := !(v.any (fun t => match t with | .ref _ | .gref _ => true | _ => false))

def Tok.isRef : Tok → Bool
  | .ref _ => true
  | _ => false

/-- Number of output tracers of an application. -/
def App.nOut (a : App) : Nat := (a.out.filter Tok.isRef).length

/-- The output pytree of an application whose first output is tracer `base`. -/
def App.outAt (a : App) (base : Nat) : List Tok :=
  a.out.map (fun t => match t with | .ref k => .ref (base + k) | t => t)

/-- `x.origin` of tracer `i`: the application, the id of its first output, and which output `i` is. -/
def Store.appOf (S : Store) (i : Nat) : Option (App × Nat × Nat) :=
  match S.nodes[i]? with
  | some ⟨_, .app a⟩ => some (a, i, 0)
  | some ⟨_, .proj src k⟩ =>
    match S.nodes[src]? with
    | some ⟨_, .app a⟩ => some (a, src, k)
    | _ => none
  | _ => none

def Store.tyOf (S : Store) (i : Nat) : Option Ty := (S.nodes[i]?).map (·.ty)

/-- Structural `==` of tracer `i` with the tracer of a pattern: `Value` tracers whose origins are `GetAttr`s
(same key, equal objects) down to an equal `Import`.  `rpath` is the attribute path, last attribute first. -/
def Store.matchPath (S : Store) (pat : FnPat) : List String → Nat → Bool
  | [], i =>
    match S.nodes[i]? with
    | some ⟨.value, .app a⟩ => a.head == .import_ pat.imp pat.from_ pat.as_
    | _ => false
  | key :: rest, i =>
    match S.nodes[i]? with
    | some ⟨.value, .app a⟩ =>
      a.head == .getattr key &&
        (match a.pre with
         | [[.ref j]] => S.matchPath pat rest j
         | _ => false)
    | _ => false

/-- `v == self.fn` for an operand pytree `v`. -/
def Store.fnMatches (S : Store) (v : List Tok) (pat : FnPat) : Bool :=
  match v with
  | [.ref i] => S.matchPath pat pat.path.reverse i
  | _ => false

/-- `_is_result_of_call(x)` of the classical patterns: `x` is a tracer whose origin is a `Call` of the pattern's
function. -/
def Store.callOf (S : Store) (v : List Tok) (pat : FnPat) : Option App :=
  match v with
  | [.ref i] =>
    match S.appOf i with
    | some (a, _, _) =>
      if a.head == .call then
        match a.pre with
        | [f] => if S.fnMatches f pat then some a else none
        | _ => none
      else none
    | none => none
  | _ => none

def firstRef : List Tok → Option Nat
  | [] => none
  | .ref i :: _ => some i
  | _ :: ts => firstRef ts

def Tok.isOpen : Tok → Bool
  | .open_ _ _ => true
  | _ => false

/-- `_skip_id(x)` for a single tracer `x`: follow `Cast`s whose output is exactly `x`. -/
def skipChain (S : Store) : Nat → Nat → R Nat
  | 0, _ => throw .fuel
  | fuel + 1, i =>
    match S.nodes[i]? with
    | some ⟨_, .app a⟩ =>
      if a.head == .cast && a.out == [.ref 0] then
        match a.pre with
        | [[.ref j]] => skipChain S fuel j
        | _ => throw (.unsupported "Cast of something that is not a tracer")
      else pure i
    | _ => pure i

def skipLeaf (S : Store) (t : Tok) : R Tok :=
  match t with
  | .ref i => do pure (.ref (← skipChain S (i + 1) i))
  | t => pure t

/-- First half of `_util._skip_id(output)`: `_skip_id` of every child of a container.  Containers are supported one
level deep (a tuple / list whose children are leaves; that is what graph outputs and call arguments are); deeper nesting is
`unsupported`. -/
def skipIdLeaves (S : Store) (v : List Tok) : R (List Tok) :=
  match v with
  | [t] => if t.isOpen then pure [t] else do pure [← skipLeaf S t]
  | .open_ .tuple n :: rest | .open_ .list n :: rest =>
    if rest.any Tok.isOpen || rest.length != n then throw (.unsupported "nested container in _skip_id")
    else do pure ((v.take 1) ++ (← rest.mapM (skipLeaf S)))
  | _ => throw (.unsupported "container in _skip_id")

/-- Second half: `origin = origins[0]; if isinstance(origin, Cast) and pytree.all(id(x) == id(y), origin.output, output):
return _skip_id(origin.input)`. -/
def skipIdCast (S : Store) (v : List Tok) : R (List Tok) :=
  match firstRef v with
  | none => pure v
  | some i =>
    match S.appOf i with
    | some (a, base, _) =>
      if a.head == .cast && a.outAt base == v then
        match a.pre with
        | [[.ref j]] => do pure [.ref (← skipChain S (j + 1) j)]
        | _ => throw (.unsupported "Cast of something that is not a tracer")
      else pure v
    | none => pure v

/-- `_util._skip_id(output)`. -/
def skipId (S : Store) (v : List Tok) : R (List Tok) := do
  let v' ← skipIdLeaves S v
  skipIdCast S v'

/-- `[x for x in inputs if isinstance(x, Tracer)]` of `Application.inputs`. -/
def App.directInputs (a : App) : List Nat :=
  let single (v : List Tok) : Option Nat := match v with | [.ref i] => some i | _ => none
  match a.head with
  | .assert_ _ =>
    match a.pre with
    | xs :: rest => xs.filterMap (fun t => match t with | .ref i => some i | _ => none) ++ rest.filterMap single
    | [] => []
  | _ => (a.pre ++ a.args ++ a.kwargs.map (·.2) ++ a.deps).filterMap single

/-- `tracer.depends_on(x, predecessor)` for two tracers. -/
def dependsOn (S : Store) : Nat → Nat → Nat → R Bool
  | 0, _, _ => throw .fuel
  | fuel + 1, x, p =>
    if x == p then pure true
    else
      match S.appOf x with
      | some (a, _, _) => a.directInputs.anyM (fun i => dependsOn S fuel i p)
      | none => pure false

/-- A shape / permutation literal: a tuple or list of non-negative `int` atoms. -/
def seqNats : List Tok → Option (List Nat)
  | .open_ .tuple n :: rest | .open_ .list n :: rest =>
    if rest.length == n then
      rest.mapM (fun t => match t with | .atom (.int v) => if 0 ≤ v then some v.toNat else none | _ => none)
    else none
  | _ => none

def natsToks (l : List Nat) : List Tok := .open_ .tuple l.length :: l.map (fun (n : Nat) => Tok.atom (.int (Int.ofNat n)))

def isSeq : List Tok → Bool
  | .open_ .tuple _ :: _ | .open_ .list _ :: _ => true
  | _ => false

/-- `isinstance(input, tracer.signature.python.Value)`. -/
def Store.isValue (S : Store) (v : List Tok) : Bool :=
  match v with
  | [.ref i] => S.tyOf i == some .value
  | _ => false

/-- `input.shape` (an `AttributeError` / `TypeError` otherwise). -/
def Store.shapeOf (S : Store) (v : List Tok) : R (List Nat) :=
  match v with
  | [.ref i] =>
    match S.tyOf i with
    | some (.tensor s) => pure s
    | some (.convertible (some s) _) => pure s
    | some (.convertible none _) => throw (.py "TypeError")
    | _ => throw (.py "AttributeError")
  | _ => throw (.py "AttributeError")

def argAt (a : App) (k : Nat) : R (List Tok) :=
  match a.args[k]? with
  | some v => pure v
  | none => throw (.py "IndexError")

def Pattern.fn? : Pattern → Option FnPat
  | .skipReshape f | .skipTranspose f | .skipBroadcastTo f | .skipConcatenate f => some f
  | _ => none

/-- The common head of `SkipReshape` / `SkipTranspose` / `SkipBroadcastTo`: `x` is a call of the pattern's function,
`input = x.origin.args[0]` is not a `Value`, `lit = x.origin.args[1]`. -/
def unaryCallOf (S : Store) (pat : FnPat) (i : Nat) : R (Option (App × List Tok × List Tok)) :=
  match S.callOf [.ref i] pat with
  | none => pure none
  | some a => do
    let input ← argAt a 0
    if S.isValue input then pure none else
    let lit ← argAt a 1
    pure (some (a, input, lit))

/-- `isinstance(lit, tuple | list | np.ndarray) and <test on tuple(lit) and input.shape>`. -/
def noopTest (S : Store) (input lit : List Tok) (test : List Nat → List Nat → Bool) : R Bool :=
  if isSeq lit then do
    let ishape ← S.shapeOf input
    pure (match seqNats lit with | some s => test s ishape | none => false)
  else pure false

/-- `input = _skip_id(input); if self._is_result_of_call(input): …` -/
def innerCall (S : Store) (pat : FnPat) (input : List Tok) : R (Option App) := do
  let input' ← skipId S input
  pure (S.callOf input' pat)

def decideReshape (S : Store) (pat : FnPat) (i : Nat) : R (Option Action) := do
  match ← unaryCallOf S pat i with
  | none => pure none
  | some (a, input, shape) =>
    if ← noopTest S input shape Extracted.reshapeNoop then pure (some (.fwd input)) else
    match ← innerCall S pat input with
    | some a2 => do
      let ioi ← argAt a2 0
      match a.pre with
      | [f] => if Extracted.reshapeMergeOperands then pure (some (.merge f ioi shape)) else throw (.unsupported "merge operands")
      | _ => pure none
    | none => pure none

def decideTranspose (S : Store) (pat : FnPat) (i : Nat) : R (Option Action) := do
  match ← unaryCallOf S pat i with
  | none => pure none
  | some (a, input, perm) =>
    if ← noopTest S input perm (fun p ishape => Extracted.transposeNoop p ishape.length) then pure (some (.fwd input)) else
    match ← innerCall S pat input with
    | some a2 => do
      let ioi ← argAt a2 0
      let perm1 ← argAt a2 1
      match seqNats perm1, seqNats perm with
      | some p1, some p2 =>
        match Extracted.composePerm p1 p2 with
        | some p =>
          match a.pre with
          | [f] => if Extracted.transposeMergeOperands then pure (some (.merge f ioi (natsToks p))) else throw (.unsupported "merge operands")
          | _ => pure none
        | none => throw (.py "IndexError")
      | _, _ => throw (.unsupported "permutation literal that is not a sequence of non-negative ints")
    | none => pure none

def decideBroadcast (S : Store) (pat : FnPat) (i : Nat) : R (Option Action) := do
  match ← unaryCallOf S pat i with
  | none => pure none
  | some (_, input, shape) =>
    if ← noopTest S input shape Extracted.broadcastNoop then pure (some (.fwd input)) else pure none

def decideConcat (S : Store) (pat : FnPat) (i : Nat) : R (Option Action) :=
  match S.callOf [.ref i] pat with
  | none => pure none
  | some a => do
    let tensors ← argAt a 0
    match tensors with
    | .open_ .tuple n :: rest | .open_ .list n :: rest =>
      if Extracted.concatNoop n then pure (some (.fwd rest)) else pure none
    | _ => pure none

def decideInline (S : Store) (fuel : Nat) (k : Nat) : R (Option Action) :=
  match S.graphs[k]? with
  | none => throw (.unsupported "dangling graph reference")
  | some g => do
    let output ← skipId S g.output
    match output with
    | [.ref j] =>
      match S.appOf j with
      | some (a, _, _) =>
        if a.head == .call && a.kwargs.isEmpty then do
          let fins ← a.args.mapM (skipId S)
          if fins != g.inputs.map (fun i => [Tok.ref i]) then pure none else
          match a.pre with
          | [f] => do
            let dep ← (match f with
              | [.ref fi] => g.inputs.anyM (fun i => dependsOn S fuel fi i)
              | _ => pure false)
            if dep then pure none else pure (some (.fwd f))
          | _ => throw (.unsupported "malformed Call")
        else pure none
      | none => pure none
    | _ => pure none

def decideCast (S : Store) (i : Nat) : R (Option Action) :=
  match S.appOf i with
  | some (a, base, _) =>
    if a.head == .cast then
      match a.pre with
      | [[.ref j]] =>
        -- `input_signature == output_signature`: a single output tracer of the same tracer type
        if a.out == [.ref 0] && S.tyOf j == S.tyOf base && (S.tyOf j).isSome then pure (some (.fwd [.ref j])) else pure none
      | _ => pure none
    else pure none
  | none => pure none

/-- One pattern tried on object `x` (`pattern(x, transform)` up to the calls of `transform`): `none` = `(False, None)`. -/
def Pattern.decide (S : Store) (fuel : Nat) (p : Pattern) (x : Tok) : R (Option Action) :=
  match p, x with
  | .skipReshape pat, .ref i => decideReshape S pat i
  | .skipTranspose pat, .ref i => decideTranspose S pat i
  | .skipBroadcastTo pat, .ref i => decideBroadcast S pat i
  | .skipConcatenate pat, .ref i => decideConcat S pat i
  | .inlineGraph, .gref k => decideInline S fuel k
  | .skipCast, .ref i => decideCast S i
  | _, _ => pure none

/-- `for pattern in self.optimizations: changed, newobj = pattern(x, …); if changed: …` -- the first pattern that
fires; an exception raised by a pattern before any fired propagates. -/
def firstMatch (S : Store) (fuel : Nat) : List Pattern → Tok → R (Option Action)
  | [], _ => pure none
  | p :: ps, x => do
    match ← p.decide S fuel x with
    | some act => pure (some act)
    | none => firstMatch S fuel ps x

/-! ### The optimiser state and one pass -/

/-- `Optimizer`: the memo `id_to_newobj` (split by kind of key), `changed`, and the new objects created so far. -/
structure St where
  memoT : List (Nat × List Tok) := []
  memoG : List (Nat × List Tok) := []
  nodes : List Node := []
  graphs : List GraphV := []
  changed : Bool := false
deriving Repr, Inhabited

/-- `_optimize` over the leaves of a pytree. -/
def mapToks (g : Tok → St → R (List Tok × St)) : List Tok → St → R (List Tok × St)
  | [], st => pure ([], st)
  | t :: ts, st => do
    let (v, st) ← g t st
    let (vs, st) ← mapToks g ts st
    pure (v ++ vs, st)

def mapOperands (g : List Tok → St → R (List Tok × St)) : List (List Tok) → St → R (List (List Tok) × St)
  | [], st => pure ([], st)
  | v :: vs, st => do
    let (v', st) ← g v st
    let (vs', st) ← mapOperands g vs st
    pure (v' :: vs', st)

def mapKwargs (g : List Tok → St → R (List Tok × St)) : List (String × List Tok) → St → R (List (String × List Tok) × St)
  | [], st => pure ([], st)
  | (k, v) :: vs, st => do
    let (v', st) ← g v st
    let (vs', st) ← mapKwargs g vs st
    pure ((k, v') :: vs', st)

def St.pushNode (st : St) (n : Node) : St := { st with nodes := st.nodes ++ [n] }

def numberRefs : List Tok → Nat → List Tok
  | [], _ => []
  | .ref _ :: ts, k => .ref k :: numberRefs ts (k + 1)
  | t :: ts, k => t :: numberRefs ts k

/-- The further outputs of a multi-output application whose first output is node `nb`. -/
def pushProjs (nb : Nat) : Nat → List Ty → St → St
  | _, [], st => st
  | k, ty :: tys, st => pushProjs nb (k + 1) tys (st.pushNode ⟨ty, .proj nb k⟩)

/-- `new_input = old_input._tracer_type(None); pytree.map(self._set, old_input, new_input)` for every graph input. -/
def newInputs (S : Store) : List Nat → St → R (List Nat × St)
  | [], st => pure ([], st)
  | i :: is, st =>
    match S.nodes[i]? with
    | some n => do
      let j := st.nodes.length
      let (js, st) ← newInputs S is { st.pushNode ⟨n.ty, .none⟩ with memoT := (i, [.ref j]) :: st.memoT }
      pure (j :: js, st)
    | none => throw (.unsupported "dangling graph input")

/-- Tracer types of the outputs of a rebuilt application.  `CallInplace` takes `xs._tracer_type` and `Assert` the
types of the leaves of `xs` from the *new* operands; every other application keeps the types of the old outputs
(`Value` for the python signature, the captured output types for `Cast`). -/
def outTypes (S : Store) (st : St) (a a' : App) (base : Nat) : R (List Ty × List Tok) :=
  match a.head with
  | .callInplace =>
    match a'.pre with
    | [.ref j] :: _ =>
      match (st.nodes[j]?) with
      | some n => pure ([n.ty], [.ref 0])
      | none => throw (.unsupported "dangling new reference")
    | _ => throw (.py "AttributeError")
  | .assert_ _ =>
    match a'.pre with
    | xs :: _ => do
      let refs := xs.filterMap (fun t => match t with | .ref j => some j | _ => none)
      if xs.any (fun t => match t with | .atom _ | .gref _ => true | _ => false) then throw (.py "AttributeError") else
      let tys ← refs.mapM (fun j => match st.nodes[j]? with | some n => pure n.ty | none => throw (Err.unsupported "dangling new reference"))
      -- the output pytree has the structure of the new `xs`, leaves numbered in order
      pure (tys, numberRefs xs 0)
    | [] => throw (.unsupported "malformed Assert")
  | _ => do
    let tys ← (List.range a.nOut).mapM (fun k => match S.tyOf (base + k) with | some t => pure t | none => throw (Err.unsupported "dangling output"))
    pure (tys, a.out)

/-- `new_origin = x.origin._tracer_transform(self._optimize)` followed by
`pytree.map(self._set, x.origin.output, new_origin.output)`. -/
def rebuild (S : Store) (g : List Tok → St → R (List Tok × St)) (a : App) (base : Nat) (st : St) : R St := do
  let (pre, st) ← mapOperands g a.pre st
  let (args, st) ← mapOperands g a.args st
  let (kwargs, st) ← mapKwargs g a.kwargs st
  let (deps, st) ← mapOperands g a.deps st
  let a0 : App := { a with pre := pre, args := args, kwargs := kwargs, deps := deps }
  let (tys, out) ← outTypes S st a a0 base
  let a' : App := { a0 with out := out }
  if a'.nOut != a.nOut || tys.length != a.nOut || out != a.out then throw (.unsupported "the rebuilt application has a different output structure") else
  match tys with
  | [] => throw (.unsupported "application without outputs")
  | ty0 :: tys' =>
    let nb := st.nodes.length
    let st := st.pushNode ⟨ty0, .app a'⟩
    let st := pushProjs nb 1 tys' st
    pure { st with memoT := (List.range a.nOut).map (fun k => (base + k, [Tok.ref (nb + k)])) ++ st.memoT }

/-- `Optimizer._optimize(x)` for a leaf `x`. -/
def optTok (pats : List Pattern) (S : Store) : Nat → Tok → St → R (List Tok × St)
  | 0, _, _ => throw .fuel
  | fuel + 1, .ref i, st =>
    match st.memoT.lookup i with
    | some v => pure (v, st)
    | none => do
      match ← firstMatch S (S.nodes.length + 1) pats (.ref i) with
      | some (.fwd v) =>
        let (new, st) ← mapToks (optTok pats S fuel) v st
        pure (new, { st with memoT := (i, new) :: st.memoT, changed := true })
      | some (.merge fn x lit) =>
        let (fn', st) ← mapToks (optTok pats S fuel) fn st
        let (x', st) ← mapToks (optTok pats S fuel) x st
        if !refFree lit then throw (.unsupported "untransformed literal contains tracers") else
        -- `tracer.signature.python.call(f, [x, lit])`: no kwargs, `get_additional_dependencies()` (empty outside `depend_on`)
        let nb := st.nodes.length
        let st := st.pushNode ⟨.value, .app { head := .call, pre := [fn'], args := [x', lit], kwargs := [], deps := [], out := [.ref 0] }⟩
        pure ([.ref nb], { st with memoT := (i, [.ref nb]) :: st.memoT, changed := true })
      | none =>
        match S.nodes[i]? with
        | none => throw (.unsupported "dangling reference")
        | some ⟨ty, .none⟩ =>
          -- `return x._tracer_type(None)`: a fresh tracer, not memoised
          pure ([.ref st.nodes.length], st.pushNode ⟨ty, .none⟩)
        | some ⟨_, .app a⟩ => do
          let st ← rebuild S (mapToks (optTok pats S fuel)) a i st
          match st.memoT.lookup i with
          | some v => pure (v, st)
          | none => throw (.py "KeyError")
        | some ⟨_, .proj src _⟩ =>
          match S.nodes[src]? with
          | some ⟨_, .app a⟩ => do
            let st ← rebuild S (mapToks (optTok pats S fuel)) a src st
            match st.memoT.lookup i with
            | some v => pure (v, st)
            | none => throw (.py "KeyError")
          | _ => throw (.unsupported "malformed projection")
  | fuel + 1, .gref k, st =>
    match st.memoG.lookup k with
    | some v => pure (v, st)
    | none => do
      match ← firstMatch S (S.nodes.length + 1) pats (.gref k) with
      | some (.fwd v) =>
        let (new, st) ← mapToks (optTok pats S fuel) v st
        pure (new, { st with memoG := (k, new) :: st.memoG, changed := true })
      | some (.merge _ _ _) => throw (.unsupported "merge on a graph")
      | none =>
        match S.graphs[k]? with
        | none => throw (.unsupported "dangling graph reference")
        | some g => do
          let (ins, st) ← newInputs S g.inputs st
          let (out, st) ← mapToks (optTok pats S fuel) g.output st
          pure ([.gref st.graphs.length], { st with graphs := st.graphs ++ [⟨ins, out, g.name⟩] })
  | _ + 1, .atom a, st =>
    match a with
    | .other _ => throw (.py "NotImplementedError")
    | _ => pure ([.atom a], st)
  | _ + 1, .open_ c n, st => pure ([.open_ c n], st)

/-- One pass: `optimizer = Optimizer(optimizations); x = optimizer._optimize(x)` → (new program, `optimizer.changed`). -/
def pass (pats : List Pattern) (fuel : Nat) (p : Prog) : R (Prog × Bool) := do
  let (top, st) ← mapToks (optTok pats p.store fuel) p.top {}
  pure (⟨⟨st.nodes, st.graphs⟩, top⟩, st.changed)

/-- A depth of recursion that is always enough on a well-formed store (`Proofs/OptDagTerm.lean`). -/
def Prog.fuel (p : Prog) : Nat := 2 * (p.store.nodes.length + p.store.graphs.length) + 2

/-- `tracer.optimize(x, optimizations)`: passes until one reports no change; `maxPasses` bounds the loop
(`Err.fuel` when exhausted).  Returns the final program and the `changed` flag of every pass. -/
def optimizeDag (pats : List Pattern) : Nat → Prog → R (Prog × List Bool)
  | 0, _ => throw .fuel
  | maxPasses + 1, p =>
    if pats.isEmpty then pure (p, []) else do
      let (p', changed) ← pass pats p.fuel p
      if changed then do
        let (q, log) ← optimizeDag pats maxPasses p'
        pure (q, true :: log)
      else pure (p', [false])

end Einx.OptDag
