import EinxModel.Extracted.Notation
/-!
# M1 Notation — the stage-1 expression tree (`einx/_src/namedtensor/stage1/tree.py`)

Strings are `List Char` (Python code points; positions are code-point indices).  Every node carries
`begin_pos`/`end_pos` as `Int` because the smart constructors of the real code create nodes with the
default position `-1`.  The functions mirror `tree.py`: `ndim`, `__str__` (`print`), and the smart
constructors `FlattenedAxis.create`, `Brackets.create`, `Ellipsis.create`, `ConcatenatedAxis.create`,
`List.create`.
-/
namespace Einx.Notation

abbrev Str := List Char

inductive Expr where
  | axis (name : Str) (value : Option Nat) (b e : Int)
  | flat (inner : Expr) (b e : Int)
  | brackets (inner : Expr) (b e : Int)
  | ellipsis (inner : Expr) (id : Nat) (b e : Int)
  | concat (cs : List Expr) (b e : Int)
  | list (cs : List Expr) (b e : Int)
  | args (cs : List Expr) (b e : Int)
  | op (cs : List Expr) (b e : Int)
deriving Repr, Inhabited

namespace Expr

def b : Expr → Int
  | axis _ _ b _ | flat _ b _ | brackets _ b _ | ellipsis _ _ b _ | concat _ b _ | list _ b _ | args _ b _ | op _ b _ => b

def e : Expr → Int
  | axis _ _ _ e | flat _ _ e | brackets _ _ e | ellipsis _ _ _ e | concat _ _ e | list _ _ e | args _ _ e | op _ _ e => e

/-- `expr.children` -/
def children : Expr → List Expr
  | axis .. => []
  | flat i _ _ | brackets i _ _ | ellipsis i _ _ _ => [i]
  | concat cs _ _ | list cs _ _ | args cs _ _ | op cs _ _ => cs

def isAxis : Expr → Bool | axis .. => true | _ => false
def isFlat : Expr → Bool | flat .. => true | _ => false
def isBrackets : Expr → Bool | brackets .. => true | _ => false
def isConcat : Expr → Bool | concat .. => true | _ => false
def isList : Expr → Bool | list .. => true | _ => false

end Expr

mutual
/-- `expr.ndim`; `none` is Python's `None` (unknown number of dimensions). -/
def Expr.ndim : Expr → Option Nat
  | .axis .. => some 1
  | .flat .. => some 1
  | .brackets i _ _ => i.ndim
  | .ellipsis i _ _ _ => if i.ndim == some 0 then some 0 else none
  | .concat .. => some 1
  | .list cs _ _ => ndimSum cs
  | .args .. => none
  | .op .. => none
def ndimSum : List Expr → Option Nat
  | [] => some 0
  | c :: cs =>
    match c.ndim, ndimSum cs with
    | some a, some b => some (a + b)
    | _, _ => none
end

/-- `List([])` with default positions, as returned by `Brackets.create` / `Ellipsis.create` for an empty inner expression. -/
def emptyList : Expr := .list [] (-1) (-1)

/-- `FlattenedAxis.create` -/
def mkFlat (inner : Expr) (b e : Int) : Expr :=
  if inner.isFlat then inner else .flat inner b e

/-- `Brackets.create` -/
def mkBrackets (inner : Expr) (b e : Int) : Expr :=
  if inner.isBrackets then inner
  else if inner.ndim == some 0 then emptyList
  else .brackets inner b e

/-- `Ellipsis.create` -/
def mkEllipsis (inner : Expr) (b e : Int) (id : Nat) : Expr :=
  if inner.ndim == some 0 then emptyList else .ellipsis inner id b e

/-- `ConcatenatedAxis.create` (the real code raises `ValueError` for `[]`; `parse_op` never calls it with fewer
    than two children: the operator occurs at least once, and the `move_up` passes keep the number of children). -/
def mkConcat (cs : List Expr) (b e : Int) : Expr :=
  match cs with
  | [c] => c
  | _ => .concat cs b e

mutual
/-- `_add` of `List.create`: splice nested lists recursively. -/
def flattenOne : Expr → List Expr
  | .list cs _ _ => flattenAll cs
  | x => [x]
def flattenAll : List Expr → List Expr
  | [] => []
  | c :: cs => flattenOne c ++ flattenAll cs
end

/-- `List.create` -/
def mkList (cs : List Expr) (b e : Int) : Expr :=
  match flattenAll cs with
  | [c] => c
  | cs' => .list cs' b e

/-! ## Printer (`__str__`) -/

def lit (s : String) : Str := s.toList

def natStr (n : Nat) : Str := (Nat.repr n).toList

def joinWith (sep : Str) : List Str → Str
  | [] => []
  | [x] => x
  | x :: xs => x ++ sep ++ joinWith sep xs

def anonName : Str := Einx.Extracted.anonymousVariableName.toList

def isAnonAxis : Expr → Bool
  | .axis n _ _ _ => n == anonName
  | _ => false

/-- `isinstance(self.inner, List) and len(self.inner.children) != 1` -/
def isListLenNe1 : Expr → Bool
  | .list cs _ _ => cs.length != 1
  | _ => false

mutual
/-- `str(expr)` -/
def Expr.print : Expr → Str
  | .axis n v _ _ => match v with | none => n | some k => natStr k
  | .flat i _ _ => '(' :: (i.print ++ [')'])
  | .brackets i _ _ => '[' :: (i.print ++ [']'])
  | .ellipsis i _ _ _ =>
    if isAnonAxis i then lit "..."
    else
      let n := i.print
      let n := if isListLenNe1 i then lit Einx.Extracted.ellipsisOpen ++ n ++ lit Einx.Extracted.ellipsisClose else n
      n ++ lit "..."
  | .concat cs _ _ => '(' :: (joinWith (lit " + ") (printL cs) ++ [')'])
  | .list cs _ _ => joinWith (lit " ") (printL cs)
  | .args cs _ _ => joinWith (lit ", ") (printL cs)
  | .op cs _ _ => joinWith (lit " -> ") (printL cs)
def printL : List Expr → List Str
  | [] => []
  | c :: cs => c.print :: printL cs
end

/-! ## Equality up to positions and fresh ids

`Expr.__eq__` of the real code ignores positions and ellipsis ids but compares axis names, so two parses of
the same text differ in their `unnamed.<uuid>` names.  `shape` erases positions, ellipsis ids and the names of
unnamed (valued) axes; it is the "structure" that re-printing and extra spacing must preserve. -/

mutual
def Expr.shape : Expr → Expr
  | .axis n v _ _ => match v with | none => .axis n none 0 0 | some k => .axis [] (some k) 0 0
  | .flat i _ _ => .flat i.shape 0 0
  | .brackets i _ _ => .brackets i.shape 0 0
  | .ellipsis i _ _ _ => .ellipsis i.shape 0 0 0
  | .concat cs _ _ => .concat (shapeL cs) 0 0
  | .list cs _ _ => .list (shapeL cs) 0 0
  | .args cs _ _ => .args (shapeL cs) 0 0
  | .op cs _ _ => .op (shapeL cs) 0 0
def shapeL : List Expr → List Expr
  | [] => []
  | c :: cs => c.shape :: shapeL cs
end

mutual
/-- Boolean structural equality (nested inductive: no derived `DecidableEq`). -/
def Expr.beq : Expr → Expr → Bool
  | .axis n v b e, .axis n' v' b' e' => n == n' && v == v' && b == b' && e == e'
  | .flat i b e, .flat i' b' e' => i.beq i' && b == b' && e == e'
  | .brackets i b e, .brackets i' b' e' => i.beq i' && b == b' && e == e'
  | .ellipsis i d b e, .ellipsis i' d' b' e' => i.beq i' && d == d' && b == b' && e == e'
  | .concat cs b e, .concat cs' b' e' => beqL cs cs' && b == b' && e == e'
  | .list cs b e, .list cs' b' e' => beqL cs cs' && b == b' && e == e'
  | .args cs b e, .args cs' b' e' => beqL cs cs' && b == b' && e == e'
  | .op cs b e, .op cs' b' e' => beqL cs cs' && b == b' && e == e'
  | _, _ => false
def beqL : List Expr → List Expr → Bool
  | [], [] => true
  | a :: as, b :: bs => a.beq b && beqL as bs
  | _, _ => false
end

end Einx.Notation
