import EinxModel.Notation.Lexer
/-!
# M1 Notation — `parse`, the two `move_up` passes, redundant-bracket removal, post-checks
(`parse.py` lines 135–424)

`parse` is defined by well-founded recursion on the size of the token tree (no fuel).  Fresh names:
the real code draws `uuid4()` for every numeric axis and every ellipsis; the model uses the begin
position of the token that causes the draw, which is unique per token, so the model is a function and
equal ids in a tree mean "copies of the same node", exactly as in the real code.
-/
namespace Einx.Notation

/-! ### Helpers on token lists -/

def Tok.isSpace (t : Tok) : Bool := t.isText spaceLit

/-- `while in_tokens[-1].text == " ": in_tokens.pop(-1)` -/
def dropTrailSpaces : List Tok → List Tok
  | [] => []
  | t :: ts =>
    match dropTrailSpaces ts with
    | [] => if t.isSpace then [] else [t]
    | r => t :: r

/-- Ignore starting and trailing whitespace (lines 143–146). -/
def strip (ts : List Tok) : List Tok := dropTrailSpaces (ts.dropWhile Tok.isSpace)

/-- A `TokenList`: tokens with the begin/end positions its constructor computes. -/
structure TL where
  ts : List Tok
  b : Nat
  e : Nat
deriving Repr, Inhabited

def lastEnd : List Tok → Nat → Nat
  | [], d => d
  | [t], _ => t.e
  | _ :: ts, d => lastEnd ts d

/-- `TokenList(tokens, tokens[0].begin_pos if len(tokens) > 0 else dflt)` -/
def mkTL (ts : List Tok) (dflt : Nat) : TL :=
  match ts with
  | [] => ⟨[], dflt, dflt⟩
  | t :: _ => ⟨ts, t.b, lastEnd ts dflt⟩

/-- Split at the tokens equal to `op` (lines 176–186).  Every operand comes with the position the real code
    uses when the operand is empty: the begin of the separator that ends it, or `endPos` (end of the last token)
    for the final operand.  Returned as (first operand, remaining operands). -/
def splitOn (op : Str) (endPos : Nat) : List Tok → (List Tok × Nat) × List (List Tok × Nat)
  | [] => (([], endPos), [])
  | t :: ts =>
    let r := splitOn op endPos ts
    if t.isText op then (([], t.b), r.1 :: r.2) else ((t :: r.1.1, r.1.2), r.2)

def operands (op : Str) (ts : List Tok) : List TL :=
  let r := splitOn op (lastEnd ts 0) ts
  (r.1 :: r.2).map (fun o => mkTL o.1 o.2)

theorem splitOn_le (op : Str) (d : Nat) (ts : List Tok) :
    sizeL (splitOn op d ts).1.1 ≤ sizeL ts ∧ ∀ o ∈ (splitOn op d ts).2, sizeL o.1 ≤ sizeL ts := by
  induction ts with
  | nil => simp [splitOn, sizeL]
  | cons t ts ih =>
    simp only [splitOn]
    split
    · simp only [sizeL, List.mem_cons]
      refine ⟨by omega, ?_⟩
      intro o ho
      rcases ho with ho | ho
      · subst ho; omega
      · have := ih.2 o ho; omega
    · simp only [sizeL]
      refine ⟨by omega, ?_⟩
      intro o ho
      have := ih.2 o ho; omega

theorem isText_size {s : Str} {t : Tok} (h : t.isText s = true) : t.size = 1 := by
  cases t <;> simp [Tok.isText] at h <;> simp [Tok.size]

theorem splitOn_lt (op : Str) (d : Nat) (ts : List Tok) (h : ts.any (Tok.isText op) = true) :
    sizeL (splitOn op d ts).1.1 < sizeL ts ∧ ∀ o ∈ (splitOn op d ts).2, sizeL o.1 < sizeL ts := by
  induction ts with
  | nil => simp at h
  | cons t ts ih =>
    simp only [splitOn]
    by_cases ht : t.isText op = true
    · simp only [ht, if_true, sizeL, List.mem_cons]
      have hs := isText_size ht
      have hle := splitOn_le op d ts
      refine ⟨by omega, ?_⟩
      intro o ho
      rcases ho with ho | ho
      · subst ho; omega
      · have := hle.2 o ho; omega
    · have ht' : t.isText op = false := by simpa using ht
      have h' : ts.any (Tok.isText op) = true := by simpa [ht'] using h
      have := ih h'
      simp only [ht', sizeL]
      refine ⟨by simp only [Bool.false_eq_true, if_false, sizeL]; omega, ?_⟩
      intro o ho
      have := this.2 o (by simpa using ho); omega

theorem mkTL_ts (ts : List Tok) (d : Nat) : (mkTL ts d).ts = ts := by
  cases ts <;> simp [mkTL]

theorem operands_lt (op : Str) (ts : List Tok) (h : ts.any (Tok.isText op) = true) :
    ∀ o ∈ operands op ts, sizeL o.ts < sizeL ts := by
  intro o ho
  simp only [operands, List.map_cons, List.mem_cons, List.mem_map] at ho
  have := splitOn_lt op (lastEnd ts 0) ts h
  rcases ho with ho | ⟨p, hp, ho⟩
  · subst ho; rw [mkTL_ts]; exact this.1
  · subst ho; rw [mkTL_ts]; exact this.2 p hp

theorem dropTrailSpaces_le (ts : List Tok) : sizeL (dropTrailSpaces ts) ≤ sizeL ts := by
  induction ts with
  | nil => simp [dropTrailSpaces]
  | cons t ts ih =>
    simp only [dropTrailSpaces]
    cases hr : dropTrailSpaces ts with
    | nil =>
      simp only
      split <;> simp [sizeL]
    | cons r rs =>
      rw [hr] at ih
      simp only [sizeL] at *
      omega

theorem dropWhile_le (p : Tok → Bool) (ts : List Tok) : sizeL (ts.dropWhile p) ≤ sizeL ts := by
  induction ts with
  | nil => simp
  | cons t ts ih =>
    simp only [List.dropWhile]
    split
    · simp only [sizeL]; omega
    · exact Nat.le_refl _

theorem strip_le (ts : List Tok) : sizeL (strip ts) ≤ sizeL ts :=
  Nat.le_trans (dropTrailSpaces_le _) (dropWhile_le _ _)

/-- First operator of `_nary_ops` (in precedence order) that occurs among the tokens (line 173–174). -/
def findOp : List Str → List Tok → Option Str
  | [], _ => none
  | op :: ops, ts => if ts.any (Tok.isText op) then some op else findOp ops ts

theorem findOp_any {ops : List Str} {ts : List Tok} {op : Str} (h : findOp ops ts = some op) :
    ts.any (Tok.isText op) = true := by
  induction ops with
  | nil => simp [findOp] at h
  | cons a as ih =>
    simp only [findOp] at h
    split at h
    · cases h; assumption
    · exact ih h

/-- `if nary_op == " ": operands = [t for t in operands if len(t.tokens) > 0]` -/
def keepOperands (op : Str) (ops : List TL) : List TL :=
  if op == lit " " then ops.filter (fun o => !o.ts.isEmpty) else ops

theorem mem_keepOperands {op : Str} {ops : List TL} {o : TL} (h : o ∈ keepOperands op ops) : o ∈ ops := by
  unfold keepOperands at h
  split at h
  · exact (List.mem_filter.mp h).1
  · exact h

def unnamedName (id : Nat) : Str := lit "unnamed." ++ natStr id

/-- `isinstance(o, Axis | FlattenedAxis)` -/
def isAxisOrFlat (x : Expr) : Bool := x.isAxis || x.isFlat

/-- Lines 187–219: build the expression of an n-ary operator from its parsed operands. -/
def combine (op : Str) (xs : List Expr) (b e : Nat) (ipc : Bool) (ts : List Tok) : Res Expr :=
  if op == lit " " then .ok (mkList xs b e)
  else if op == lit "->" then .ok (.op xs b e)
  else if op == lit "," then .ok (.args xs b e)
  else if op == lit "+" then
    let invalid := xs.filter (fun o => !isAxisOrFlat o)
    if !invalid.isEmpty then
      .error (.syntax .concatOperand
        (invalid.flatMap (fun o => posRange o.b o.e) ++
          (ts.filter (Tok.isText (lit "+"))).flatMap (fun t => posRange (Int.ofNat t.b) (Int.ofNat t.e))) [])
    else if !ipc then .error (.syntax .concatNotWrapped (posRange (Int.ofNat b) (Int.ofNat e)) [])
    else .ok (mkConcat xs b e)
  else .error (.internal (.unhandledOp op))

/-- Lines 230–238: a single non-operator token. -/
def parseAxis (t : Token) : Res Expr :=
  if isDigitStr t.text then
    if t.text.all isDecimalChar then .ok (.axis (unnamedName t.b) (some (intOfDecimals t.text)) t.b t.e)
    else .error (.internal .intLiteral)
  else if isAxisName t.text then .ok (.axis t.text none t.b t.e)
  else .error (.internal .assertAxisName)

def firstInnerPos (inner : List Tok) (cls : Token) : Nat :=
  match inner with
  | [] => cls.b
  | t :: _ => t.b

/-- `parse(in_tokens, is_parent_composition)` where `in_tokens = TokenList(ts, b, e)`. -/
def parse (ts : List Tok) (b e : Nat) (ipc : Bool) : Res Expr :=
  match hs : strip ts with
  | [] => .ok (mkList [] b e)
  | [.group o c inner] =>
    -- the `TokenList` case re-enters `parse`, reaches "Delimiters" and parses `in_tokens[1:-1]`
    let ib := firstInnerPos inner c
    match parse inner ib (lastEnd inner ib) (o.text == lit "(") with
    | .error err => .error err
    | .ok x =>
      if o.text == lit "(" then
        if x.isConcat then .ok x else .ok (mkFlat x o.b c.e)
      else if o.text == lit "[" then .ok (mkBrackets x o.b c.e)
      else .error (.internal .assertDelimiter)
  | t0 :: rest =>
    let ts1 := t0 :: rest
    let b1 := t0.b
    let e1 := lastEnd ts1 0
    match hop : findOp naryOps ts1 with
    | some op =>
      match (keepOperands op (operands op ts1)).attach.mapM (fun o => parse o.1.ts o.1.b o.1.e false) with
      | .error err => .error err
      | .ok xs => combine op xs b1 e1 ipc ts1
    | none =>
      -- Ellipsis (lines 221–228)
      match ht0 : t0, hr : rest with
      | .atom t, [] =>
        if t.text == ellipsisLit then
          .ok (mkEllipsis (.axis anonName none t.b t.b) t.b t.e t.b)
        else parseAxis t
      | x, [.atom t] =>
        if t.text == ellipsisLit then
          match parse [x] x.b x.e false with
          | .error err => .error err
          | .ok operand => .ok (mkEllipsis operand x.b t.e t.b)
        else .error (.syntax (.invalidExpr true) (posRange (Int.ofNat b1) (Int.ofNat e1)) [])
      | _, _ => .error (.syntax (.invalidExpr (decide (ts1.length > 1))) (posRange (Int.ofNat b1) (Int.ofNat e1)) [])
termination_by sizeL ts
decreasing_by
  · have := strip_le ts
    rw [hs] at this
    simp only [sizeL, Tok.size] at this
    omega
  · have hle := strip_le ts
    rw [hs] at hle
    have hany := findOp_any hop
    have hlt := operands_lt op (t0 :: rest) hany
    have hm : o.1 ∈ operands op (t0 :: rest) := mem_keepOperands o.2
    have := hlt o.1 hm
    omega
  · have hle := strip_le ts
    rw [hs] at hle
    subst hr
    simp only [sizeL, Tok.size] at hle ⊢
    omega

/-! ### The two `move_up` passes (lines 249–340) -/

inductive Lift where
  | op    -- first pass: move up and merge `Op`
  | args  -- second pass: move up and merge `Args`
deriving Repr, DecidableEq

def Lift.wrap (k : Lift) (cs : List Expr) (b e : Int) : Expr :=
  match k with
  | .op => .op cs b e
  | .args => .args cs b e

/-- `op.children[0] if len(op.children) == 1 else op.children[idx]` -/
def pick (idx : Nat) (x : Expr) : Expr :=
  match x.children with
  | [c] => c
  | cs => cs.getD idx emptyList

inductive Cls where | list | concat | args
deriving Repr, DecidableEq

def Cls.create (c : Cls) (cs : List Expr) (b e : Int) : Expr :=
  match c with
  | .list => mkList cs b e
  | .concat => mkConcat cs b e
  | .args => .args cs b e

/-- Lines 264–285 / 310–331: distribute the children's alternatives over a `List`/`ConcatenatedAxis`/`Args`. -/
def distribute (k : Lift) (cls : Cls) (children : List Expr) (b e : Int) (arrows : List Int) : Res Expr :=
  let nums := ((children.map (fun c => c.children.length)).filter (· != 1)).eraseDups
  if nums.length > 1 then
    .error (.syntax (match k with | .op => .arrowLevel | .args => .commaLevel) arrows [])
  else
    let num := nums.headD 1
    .ok (k.wrap ((List.range num).map (fun idx => cls.create (children.map (pick idx)) b e)) b e)

mutual
def moveUp (k : Lift) (arrows : List Int) : Expr → Res Expr
  | .axis n v b e => .ok (k.wrap [.axis n v b e] (-1) (-1))
  | .flat i b e =>
    match moveUp k arrows i with
    | .error err => .error err
    | .ok o => .ok (k.wrap (o.children.map (fun a => mkFlat a b e)) o.b o.e)
  | .brackets i b e =>
    match moveUp k arrows i with
    | .error err => .error err
    | .ok o => .ok (k.wrap (o.children.map (fun a => mkBrackets a b e)) o.b o.e)
  | .ellipsis i id b e =>
    match moveUp k arrows i with
    | .error err => .error err
    | .ok o => .ok (k.wrap (o.children.map (fun a => mkEllipsis a b e id)) o.b o.e)
  | .list cs b e =>
    match moveUpL k arrows cs with
    | .error err => .error err
    | .ok ch => distribute k .list ch b e arrows
  | .concat cs b e =>
    match moveUpL k arrows cs with
    | .error err => .error err
    | .ok ch => distribute k .concat ch b e arrows
  | .args cs b e =>
    match moveUpL k arrows cs with
    | .error err => .error err
    | .ok ch =>
      match k with
      | .op => distribute k .args ch b e arrows
      | .args => .ok (.args (ch.flatMap Expr.children) b e)
  | .op cs b e =>
    match k with
    | .op =>
      match moveUpL k arrows cs with
      | .error err => .error err
      | .ok ch => .ok (.op (ch.flatMap Expr.children) b e)
    | .args => .error (.internal .assertMoveUp)
def moveUpL (k : Lift) (arrows : List Int) : List Expr → Res (List Expr)
  | [] => .ok []
  | c :: cs =>
    match moveUp k arrows c with
    | .error err => .error err
    | .ok x =>
      match moveUpL k arrows cs with
      | .error err => .error err
      | .ok xs => .ok (x :: xs)
end

/-! ### Drop redundant brackets (lines 342–368) -/

mutual
def traverse (inBr : Bool) : Expr → Expr
  | .axis n v b e => .axis n v b e
  | .flat i b e => mkFlat (traverse inBr i) b e
  | .list cs b e => mkList (traverseL inBr cs) b e
  | .concat cs b e => mkConcat (traverseL inBr cs) b e
  | .brackets i b e => if inBr then traverse true i else mkBrackets (traverse true i) b e
  | .ellipsis i id b e => mkEllipsis (traverse inBr i) b e id
  | .op cs b e => .op (traverseL inBr cs) b e
  | .args cs b e => .args (traverseL inBr cs) b e
def traverseL (inBr : Bool) : List Expr → List Expr
  | [] => []
  | c :: cs => traverse inBr c :: traverseL inBr cs
end

/-! ### Semantic checks (lines 370–403) -/

/-- One occurrence of an axis: name, own caret range, and the `[begin, end-1]` carets of the enclosing brackets
    (innermost first); `marked` iff there is an enclosing bracket. -/
structure Occ where
  name : Str
  own : List Int
  br : List Int
  marked : Bool
deriving Repr

mutual
/-- `expression.nodes()` restricted to `Axis`, in pre-order, with the bracket ancestors. -/
def occs (br : List Int) (marked : Bool) : Expr → List Occ
  | .axis n _ b e => [⟨n, posRange b e, br, marked⟩]
  | .flat i _ _ => occs br marked i
  | .brackets i b e => occs ([b, e - 1] ++ br) true i
  | .ellipsis i _ _ _ => occs br marked i
  | .concat cs _ _ | .list cs _ _ | .args cs _ _ | .op cs _ _ => occsL br marked cs
def occsL (br : List Int) (marked : Bool) : List Expr → List Occ
  | [] => []
  | c :: cs => occs br marked c ++ occsL br marked cs
end

/-- Names (in order of first occurrence) that occur both marked and unmarked. -/
def conflictNames (os : List Occ) : List Str :=
  ((os.map (·.name)).eraseDups).filter (fun n =>
    os.any (fun o => o.name == n && o.marked) && os.any (fun o => o.name == n && !o.marked))

/-- Lines 388–396 for one axis name. -/
def conflictPos (os : List Occ) (n : Str) : List Int :=
  (os.filter (fun o => o.name == n)).flatMap (fun o => o.own ++ o.br)

def checkBrackets (x : Expr) : Res Expr :=
  let os := occs [] false x
  match (conflictNames os).map (conflictPos os) with
  | [] => .ok x
  | p :: ps => .error (.syntax .inconsistentBrackets p ps)

/-! ### Entry points -/

/-- `stage1.parse_op(text)` -/
def parseOp (text : Str) : Res Expr :=
  match lex text with
  | .error err => .error err
  | .ok toks =>
    match buildTree (dedupSpaces toks false) [] [] with
    | .error err => .error err
    | .ok tree =>
      match parse tree 0 (lastEnd tree 0) false with
      | .error err => .error err
      | .ok x =>
        let arrows := posForLiteral (lit "->") text 0
        match moveUp .op arrows x with
        | .error err => .error err
        | .ok x1 =>
          match x1 with
          | .op cs b e =>
            match moveUpL .args arrows cs with
            | .error err => .error err
            | .ok cs2 =>
              let x3 := traverse false (.op cs2 b e)
              if x3.children.length > 2 then .error (.syntax .multipleArrows arrows [])
              else checkBrackets x3
          | _ => .error (.internal .assertRoot)

/-- `stage1.parse_args(text)` -/
def parseArgs (text : Str) : Res Expr :=
  match parseOp text with
  | .error err => .error err
  | .ok x =>
    match x.children with
    | [.args cs b e] => .ok (.args cs b e)
    | [_] => .error (.internal .assertRoot)
    | _ => .error (.syntax .argsHasArrow (posForLiteral (lit "->") text 0) [])

/-- `stage1.parse_arg(text)` -/
def parseArg (text : Str) : Res Expr :=
  match parseArgs text with
  | .error err => .error err
  | .ok x =>
    match x.children with
    | [c] => .ok c
    | _ => .error (.syntax .argHasComma (posForLiteral (lit ",") text 0) [])

end Einx.Notation
