import EinxModel.Notation.Lexer
/-!
# M1 Notation — declarative string-level predicates used by the rejection theorems (Props/C03Reject.lean)

No token, no tree: `alphabetChar` (the character can occur in some valid token) and the textbook bracket-matching scan
`delimRun` / `balanced`.  The driver evaluates them on every case of stream R of `tools/props/c03.py` (request kind
`reject_spec`), so the hypotheses of the theorems are checked on the very inputs on which real einx is observed.
-/
namespace Einx.Notation

/-- All characters that occur in a literal or operator of the notation (from the extracted tables). -/
def litChars : List Char := (literals ++ naryOps).flatten

/-- `c` can be part of a valid token: a name character, a digit, or a character of a literal. -/
def alphabetChar (c : Char) : Bool := isNameCont c || isDigitChar c || litChars.contains c

def isDelimChar (c : Char) : Bool := c == '(' || c == '[' || c == ')' || c == ']'

/-- One step of the bracket-matching scan; the stack holds the expected closing characters, innermost first. -/
def delimStep (st : List Char) (c : Char) : Option (List Char) :=
  if c == '(' then some (')' :: st)
  else if c == '[' then some (']' :: st)
  else if c == ')' || c == ']' then
    match st with
    | [] => none
    | t :: r => if t == c then some r else none
  else some st

/-- The scan over a string: `none` = a closing delimiter that does not match, otherwise the closers still expected. -/
def delimRun : Str → List Char → Option (List Char)
  | [], st => some st
  | c :: cs, st =>
    match delimStep st c with
    | some st' => delimRun cs st'
    | none => none

/-- The delimiters `( ) [ ]` of the string are properly nested and all closed. -/
def balanced (s : Str) : Bool := delimRun s [] == some []

/-- `c` occurs in `s` outside every pair of delimiters: at that position the scan stack (started with `st`) is empty. -/
def atDepth0 (c : Char) : Str → List Char → Bool
  | [], _ => false
  | x :: xs, st =>
    (st.isEmpty && x == c) ||
      (match delimStep st x with
       | some st' => atDepth0 c xs st'
       | none => false)

end Einx.Notation
