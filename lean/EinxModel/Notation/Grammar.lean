import EinxModel.Notation.Parse
import EinxModel.Notation.Spec
/-!
# M1 Notation — declarative grammar of the notation (specification side of `Props/C03Grammar.lean`)

* `countDepth0 l s st` — string level: the number of positions of `s` at which the literal `l` starts while the bracket scan
  (`delimStep`, started with stack `st`) has an empty stack, i.e. occurrences of `l` outside every pair of delimiters.
* `Kind`, `Gram` — an attribute grammar on the token tree (`List Tok`, the output of lexer + delimiter stack): `Gram ipc ts k`
  reads "the token list `ts`, standing directly inside parentheses iff `ipc`, is a well-formed expression of kind `k`".
  It has one rule per syntactic form (empty, parenthesised, bracketed, operator application, axis / `...`, postfix ellipsis) and
  mentions neither positions nor trees nor error sites.  `Props/C03Grammar.lean` proves `parse ts b e ipc` succeeds iff
  `∃ k, Gram ipc ts k`.
* `tokTree`, `WF0` — the string-level composition: `WF0 s` iff the lexer and the delimiter stack produce a token tree in `Gram`.
-/
namespace Einx.Notation

def arrowLit : Str := ['-', '>']
def commaLit : Str := [',']

/-- Occurrences of the literal `l` in `s` outside every pair of delimiters (scan stack `st` at the start of `s`). -/
def countDepth0 (l : Str) : Str → List Char → Nat
  | [], _ => 0
  | x :: xs, st =>
    (if st.isEmpty && l.isPrefixOf (x :: xs) then 1 else 0) +
      (match delimStep st x with
       | some st' => countDepth0 l xs st'
       | none => 0)

/-! ## The attribute grammar on token trees -/

/-- What an expression is as an operand: nothing (`List([])`, vanishes inside a list), an axis, a parenthesised group, a
    concatenation, or anything else (brackets, ellipsis, list of ≥ 2 members, `,`- or `->`-application). -/
inductive Kind where
  | empty | axis | flat | concat | other
deriving DecidableEq, Repr, Inhabited

/-- `( … )`: a concatenation keeps its kind (the parentheses are the ones it needs), everything else becomes a flattened axis. -/
def Kind.ofParen (k : Kind) : Kind := if k = .concat then .concat else .flat

/-- `[ … ]` and `…...`: over nothing they are nothing. -/
def Kind.ofBracket (k : Kind) : Kind := if k = .empty then .empty else .other

/-- Juxtaposition: members of kind `empty` vanish; a single remaining member stands for itself. -/
def Kind.ofList (ks : List Kind) : Kind :=
  match ks.filter (fun k => k != .empty) with
  | [] => .empty
  | [k] => k
  | _ => .other

def Kind.isAxisLike (k : Kind) : Bool := k == .axis || k == .flat

/-- Kind of `x₁ op x₂ op … xₙ` from the kinds of the operands; `none`: not well-formed.  A concatenation needs operands that are
    axes or parenthesised groups and must stand directly inside parentheses (`ipc`). -/
def combineKind (op : Str) (ipc : Bool) (ks : List Kind) : Option Kind :=
  if op == lit " " then some (Kind.ofList ks)
  else if op == lit "->" then some .other
  else if op == lit "," then some .other
  else if op == lit "+" then (if ks.all Kind.isAxisLike && ipc then some .concat else none)
  else none

/-- `Gram ipc ts k`: the token list `ts` (standing directly inside parentheses iff `ipc`) is a well-formed expression of kind `k`.
    Surrounding spaces are insignificant (`strip`).  `findOp naryOps ts = some op`: `op` is the operator of lowest precedence
    (`->` < `,` < `+` < juxtaposition) occurring in `ts` outside delimiters; `operands op ts` are the token lists between its
    occurrences (empty ones are ignored for juxtaposition: `keepOperands`). -/
inductive Gram : Bool → List Tok → Kind → Prop where
  /-- nothing -/
  | nil {ipc : Bool} {ts : List Tok} : strip ts = [] → Gram ipc ts .empty
  /-- `( e )` -/
  | paren {ipc : Bool} {ts : List Tok} {o c : Token} {inner : List Tok} {k : Kind} :
      strip ts = [.group o c inner] → o.text = ['('] → Gram true inner k → Gram ipc ts k.ofParen
  /-- `[ e ]` -/
  | bracket {ipc : Bool} {ts : List Tok} {o c : Token} {inner : List Tok} {k : Kind} :
      strip ts = [.group o c inner] → o.text = ['['] → Gram false inner k → Gram ipc ts k.ofBracket
  /-- `e₁ op e₂ op … eₙ` for the operator of lowest precedence present -/
  | nary {ipc : Bool} {ts : List Tok} {t0 : Tok} {rest : List Tok} {op : Str} {k : Kind} (ks : TL → Kind) :
      strip ts = t0 :: rest → findOp naryOps (t0 :: rest) = some op →
      (∀ o ∈ keepOperands op (operands op (t0 :: rest)), Gram false o.ts (ks o)) →
      combineKind op ipc ((keepOperands op (operands op (t0 :: rest))).map ks) = some k → Gram ipc ts k
  /-- a named axis `[a-zA-Z_][a-zA-Z0-9_]*` or an unnamed axis `[0-9]+` -/
  | axis {ipc : Bool} {ts : List Tok} {t : Token} :
      strip ts = [.atom t] → findOp naryOps [.atom t] = none → t.text ≠ ellipsisLit →
      (isDigitStr t.text = true ∨ isAxisName t.text = true) → Gram ipc ts .axis
  /-- `...` on its own -/
  | dots {ipc : Bool} {ts : List Tok} {t : Token} :
      strip ts = [.atom t] → t.text = ellipsisLit → Gram ipc ts .other
  /-- `x...` for a single token or group `x`, no space in between -/
  | ell {ipc : Bool} {ts : List Tok} {x : Tok} {t : Token} {k : Kind} :
      strip ts = [x, .atom t] → findOp naryOps [x, .atom t] = none → t.text = ellipsisLit →
      Gram false [x] k → Gram ipc ts k.ofBracket

/-- The kind of a stage-1 expression. -/
def exprKind : Expr → Kind
  | .list [] _ _ => .empty
  | .axis .. => .axis
  | .flat .. => .flat
  | .concat .. => .concat
  | _ => .other

/-! ## String level -/

/-- Lexer + duplicate-space removal + delimiter stack: the token tree of a string, if its tokens are valid and its delimiters
    balanced. -/
def tokTree (s : Str) : Option (List Tok) :=
  match lex s with
  | .error _ => none
  | .ok toks =>
    match buildTree (dedupSpaces toks false) [] [] with
    | .error _ => none
    | .ok tree => some tree

/-- The first three stages of `parse_op` (lexer, delimiter stack, `parse`): the expression tree before the `move_up` passes. -/
def parseStage (s : Str) : Res Expr :=
  match lex s with
  | .error err => .error err
  | .ok toks =>
    match buildTree (dedupSpaces toks false) [] [] with
    | .error err => .error err
    | .ok tree => parse tree 0 (lastEnd tree 0) false

/-- Well-formed at the level of `parse`: valid tokens, balanced delimiters, token tree in the grammar. -/
def WF0 (s : Str) : Prop := ∃ tree k, tokTree s = some tree ∧ Gram false tree k

end Einx.Notation
