import EinxModel.Notation.Parse
import EinxModel.Notation.Spec
/-!
# M1 Notation — declarative grammar of the notation (specification side of `Props/C03Grammar.lean`)

* `countDepth0 l s st` — string level: the number of positions of `s` at which the literal `l` starts while the bracket scan
  (`delimStep`, started with stack `st`) has an empty stack, i.e. occurrences of `l` outside every pair of delimiters.
* `Kind`, `Gram` — an attribute grammar on the token tree (`List Tok`, the output of lexer + delimiter stack): `Gram ipc ts k`
  reads "the token list `ts`, standing directly inside parentheses iff `ipc`, is a well-formed expression of kind `k`".
  It has one rule per syntactic form (empty, parenthesised, bracketed, operator application, axis / `...`, postfix ellipsis) and
  mentions neither positions nor trees nor error sites.  `Props/C03Grammar.lean` proves `parse ts b e ipc` succeeds iff
  `∃ k, Gram ipc ts k`.
* `tokTree`, `WF0` — the string-level composition: `WF0 s` iff the lexer and the delimiter stack produce a token tree in `Gram`.
-/
namespace Einx.Notation

def arrowLit : Str := ['-', '>']
def commaLit : Str := [',']

/-- Occurrences of the literal `l` in `s` outside every pair of delimiters (scan stack `st` at the start of `s`). -/
def countDepth0 (l : Str) : Str → List Char → Nat
  | [], _ => 0
  | x :: xs, st =>
    (if st.isEmpty && l.isPrefixOf (x :: xs) then 1 else 0) +
      (match delimStep st x with
       | some st' => countDepth0 l xs st'
       | none => 0)

end Einx.Notation
