import EinxModel.Notation.Tree
/-!
# M1 Notation — lexer, duplicate-space removal, delimiter stack (`parse.py` lines 64–133)

`parse_op` raises in `next_token` as soon as a token is invalid; nothing else can fail before the
delimiter stack.  The model therefore segments first (`segment`, a pure function) and then reports the
first invalid token (`lex`): same tokens, same first error.
-/
namespace Einx.Notation

/-- Kinds of `einx.errors.SyntaxError` raised by `parse_op` / `parse_args` / `parse_arg`, one per raise site. -/
inductive SynKind where
  | invalidToken          -- l.73  "The expression '…' is not allowed"
  | closingNotOpened      -- l.118
  | openingNotClosed      -- l.128
  | concatOperand         -- l.210
  | concatNotWrapped      -- l.216
  | invalidExpr (multi : Bool)  -- l.243 (multi: "Are you maybe missing a whitespace?")
  | arrowLevel            -- l.270
  | commaLevel            -- l.316
  | multipleArrows        -- l.374
  | inconsistentBrackets  -- l.397
  | argsHasArrow          -- l.412 (parse_args)
  | argHasComma           -- l.423 (parse_arg)
deriving Repr, DecidableEq, Inhabited

/-- Exceptions of `parse_op` that are not `einx.errors.SyntaxError`. -/
inductive IntKind where
  | unhandledOp (op : Str)   -- l.219 `raise AssertionError()`: an operator of `_nary_ops` without a handler
  | intLiteral               -- l.235 `int(value)` raises `ValueError`: `str.isdigit` accepted a non-decimal digit
  | assertAxisName           -- l.237 `assert _axis_name.fullmatch(...)`
  | assertDelimiter          -- l.170 `raise AssertionError()`: a front delimiter that is neither "(" nor "["
  | assertMoveUp             -- l.337 `raise AssertionError()`: an `Op` below the root in the second `move_up`
  | assertRoot               -- l.339 / l.413 `assert isinstance(...)`
deriving Repr, DecidableEq, Inhabited

inductive Err where
  /-- `SyntaxError(text, pos=pos, …)`; `alts` are the other position lists the real code may report instead
      (only for `inconsistentBrackets`, where the reported axis name depends on the iteration order of a `set`). -/
  | syntax (k : SynKind) (pos : List Int) (alts : List (List Int))
  | internal (k : IntKind)
deriving Repr, DecidableEq, Inhabited

abbrev Res := Except Err

structure Token where
  text : Str
  b : Nat
  e : Nat
deriving Repr, DecidableEq, Inhabited

def literals : List Str := Einx.Extracted.literals.map String.toList
def naryOps : List Str := Einx.Extracted.naryOps.map String.toList
def delimsFront : List Str := Einx.Extracted.delimitersFront.map String.toList
def delimsBack : List Str := Einx.Extracted.delimitersBack.map String.toList
def ellipsisLit : Str := Einx.Extracted.ellipsis.toList
def spaceLit : Str := [' ']

/-- `range(b, e)` as caret positions. -/
def posRange (b e : Int) : List Int := (List.range (e - b).toNat).map (fun (i : Nat) => b + Int.ofNat i)

/-- First literal (in list order) that `text[pos:]` starts with.  Empty literals are skipped: with an empty
    literal the real loop would not advance (`literals_nonempty` in Props/C12 shows there is none). -/
def matchLit : List Str → Str → Option Str
  | [], _ => none
  | l :: ls, cs => if !l.isEmpty && l.isPrefixOf cs then some l else matchLit ls cs

theorem matchLit_ne_nil {ls : List Str} {cs l : Str} (h : matchLit ls cs = some l) : l ≠ [] := by
  induction ls with
  | nil => simp [matchLit] at h
  | cons a as ih =>
    simp only [matchLit] at h
    split at h
    · rename_i hc
      cases h
      intro h0
      simp [h0] at hc
    · exact ih h

/-- `next_token(end_pos)` without the validity test: emit the pending characters as a token, if any. -/
def flush (cur : Str) (start pos : Nat) : List Token :=
  if cur.isEmpty then [] else [⟨cur, start, pos⟩]

/-- The `while pos < len(text)` loop: `cs` is `text[pos:]`, `cur` is `text[start:pos]`. -/
def segment (lits : List Str) (cs : Str) (pos start : Nat) (cur : Str) : List Token :=
  match cs with
  | [] => flush cur start pos
  | c :: rest =>
    match h : matchLit lits (c :: rest) with
    | some l =>
      flush cur start pos ++ (⟨l, pos, pos + l.length⟩ :: segment lits ((c :: rest).drop l.length) (pos + l.length) (pos + l.length) [])
    | none => segment lits rest (pos + 1) start (cur ++ [c])
termination_by cs.length
decreasing_by
  · have := matchLit_ne_nil h
    have : l.length ≠ 0 := by intro h0; exact this (List.length_eq_zero_iff.mp h0)
    simp only [List.length_drop, List.length_cons]
    omega
  · simp

/-! ### Token validity (`next_token`) -/

def isAsciiLetter (c : Char) : Bool := ('a' ≤ c && c ≤ 'z') || ('A' ≤ c && c ≤ 'Z')
def isAsciiDigit (c : Char) : Bool := '0' ≤ c && c ≤ '9'
def isNameStart (c : Char) : Bool := isAsciiLetter c || c == '_'
def isNameCont (c : Char) : Bool := isAsciiLetter c || isAsciiDigit c || c == '_'

/-- `_axis_name.fullmatch(s)` for the pattern `[a-zA-Z_][a-zA-Z0-9_]*` (pinned by `axis_name_pattern_exact`). -/
def isAxisName : Str → Bool
  | [] => false
  | c :: cs => isNameStart c && cs.all isNameCont

def inRanges (rs : List (Nat × Nat)) (n : Nat) : Bool := rs.any (fun r => r.1 ≤ n && n ≤ r.2)

/-- `c.isdigit()` -/
def isDigitChar (c : Char) : Bool := inRanges Einx.Extracted.digitRanges c.toNat
/-- `c.isdecimal()`: the characters `int()` accepts -/
def isDecimalChar (c : Char) : Bool := inRanges Einx.Extracted.decimalRanges c.toNat

/-- `s.isdigit()` -/
def isDigitStr (s : Str) : Bool := !s.isEmpty && s.all isDigitChar

/-- Decimal value of a decimal character: offset in its range of ten. -/
def decimalValue (c : Char) : Nat :=
  match Einx.Extracted.decimalRanges.find? (fun r => r.1 ≤ c.toNat && c.toNat ≤ r.2) with
  | some r => c.toNat - r.1
  | none => 0

/-- `int(s)` for a string of decimal characters. -/
def intOfDecimals (s : Str) : Nat := s.foldl (fun acc c => 10 * acc + decimalValue c) 0

def validToken (t : Str) : Bool :=
  literals.contains t || naryOps.contains t || isAxisName t || isDigitStr t

/-- Lexer: the token list, or the `SyntaxError` of the first invalid token. -/
def lex (text : Str) : Res (List Token) :=
  let ts := segment literals text 0 0 []
  match ts.find? (fun t => !validToken t.text) with
  | some t => .error (.syntax .invalidToken (posRange (Int.ofNat t.b) (Int.ofNat t.e)) [])
  | none => .ok ts

/-! ### Duplicate whitespace removal (lines 97–108) -/

def Token.isSpace (t : Token) : Bool := t.text == spaceLit

def dedupSpaces : List Token → Bool → List Token
  | [], _ => []
  | t :: ts, lastWasSpace =>
    if t.isSpace then
      if lastWasSpace then dedupSpaces ts true else t :: dedupSpaces ts true
    else t :: dedupSpaces ts false

/-! ### Token tree (lines 110–133) -/

inductive Tok where
  | atom (t : Token)
  /-- `TokenList([open, …inner, close], open.begin_pos)` -/
  | group (opn cls : Token) (inner : List Tok)
deriving Repr, Inhabited

mutual
def Tok.size : Tok → Nat
  | .atom _ => 1
  | .group _ _ inner => 2 + sizeL inner
def sizeL : List Tok → Nat
  | [] => 0
  | t :: ts => t.size + sizeL ts
end

def Tok.b : Tok → Nat
  | .atom t => t.b
  | .group o _ _ => o.b

def Tok.e : Tok → Nat
  | .atom t => t.e
  | .group _ c _ => c.e

/-- `t.text == s` for a token; a `TokenList`'s text starts with its opening delimiter and never equals an
    operator, the ellipsis or a space. -/
def Tok.isText (s : Str) : Tok → Bool
  | .atom t => t.text == s
  | .group .. => false

/-- `_parentheses[front]` -/
def closingOf (front : Str) : Option Str :=
  (Einx.Extracted.parentheses.find? (fun p => p.1.toList == front)).map (fun p => p.2.toList)

/-- The delimiter stack: `frames` are `stack[1:]` (innermost first) as (opening token, items so far),
    `base` is `stack[0]`. -/
def buildTree : List Token → List (Token × List Tok) → List Tok → Res (List Tok)
  | [], [], base => .ok base
  | [], (o, _) :: _, _ => .error (.syntax .openingNotClosed (posRange (Int.ofNat o.b) (Int.ofNat o.e)) [])
  | t :: ts, frames, base =>
    if delimsFront.contains t.text then buildTree ts ((t, []) :: frames) base
    else if delimsBack.contains t.text then
      match frames with
      | [] => .error (.syntax .closingNotOpened (posRange (Int.ofNat t.b) (Int.ofNat t.e)) [])
      | (o, items) :: rest =>
        if closingOf o.text != some t.text then .error (.syntax .closingNotOpened (posRange (Int.ofNat t.b) (Int.ofNat t.e)) [])
        else
          let g := Tok.group o t items
          match rest with
          | [] => buildTree ts [] (base ++ [g])
          | (o2, items2) :: rest2 => buildTree ts ((o2, items2 ++ [g]) :: rest2) base
    else
      match frames with
      | [] => buildTree ts [] (base ++ [.atom t])
      | (o, items) :: rest => buildTree ts ((o, items ++ [.atom t]) :: rest) base

/-- `ExpressionIndicator.get_pos_for_literal` -/
def posForLiteral (l : Str) : Str → Nat → List Int
  | [], _ => []
  | c :: cs, i =>
    (if !l.isEmpty && l.isPrefixOf (c :: cs) then posRange (Int.ofNat i) (Int.ofNat (i + l.length)) else []) ++ posForLiteral l cs (i + 1)

end Einx.Notation
