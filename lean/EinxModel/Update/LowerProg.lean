import EinxModel.Generic.LowerOps
import EinxModel.Order.Join
import EinxModel.Update.Model
/-!
C14 / C01 / C16 (work package "join"): the lowering of `get_at` and of `set_at` / `add_at` / `subtract_at` as functions
from the *description alone* (einx's solved stage-3 expressions) to the complete straight-line program einx traces.
Core Lean only; run by the driver (kind `lower_at`), compared instruction by instruction with the traced graph.

Mirrors, line by line where practical:
  * `adapter/namedtensor_from_decomposednamedtensor.py:Decomposer.__call__` (via `Generic.prepInput`: unflatten,
    removal of the unit axes that are not in brackets; removal of the broadcast axes from the flat output;
    `_squeeze_transpose_broadcast` to the flat output; compose),
  * `adapter/decomposednamedtensor_from_classical.py`:
      - `_ravel` (`ravel`): step 1 (a coordinate tensor with a bracketed axis `[n]` is split into `n` components by
        `classical.get_at(coord, i, axis=k)`, `[1]` is reshaped away), step 2 (`classical.arange` for every
        un-bracketed target axis), step 3 (multipliers from the last axis, `classical.multiply(coord, multiplier)` only
        `if multiplier != 1`), step 4 (`elementwise(classical.add)`: every term aligned by
        `_squeeze_transpose_broadcast(…, broadcast_to_unitary=True)`, output axes by `np.argmax`, `_ensure_output`,
        the n-ary `add` as a left fold of binary calls),
      - `get_at_ravelled` (`lowerGetAt`),
      - `update_at_ravelled` (`lowerUpdate`) with **`_join_exprs` = the C16 model `Order.Join.joinExprs`** under the
        enumeration the code uses now (`dict.fromkeys` = first-occurrence order = `enumFirst`),
  * `adapter/numpy/classical_from_numpy.py`: `get_at` (`getitem` for an integer index, `np.take` on the flat tensor),
    `update_at` (both operands broadcast to the elementwise maximum of their shapes when registered with
    `broadcast=`; `Extracted.broadcasts`), `arange`.

Order of the emitted instructions: depth-first order of the traced DAG, operand by operand (the order of
`lib/graphcap.py`); the preparation chain of a coordinate tensor is emitted where its first component is used.

An update program has three parts: `head` (over the inputs: target, coordinates, updates), the in-place numpy
primitive applied to three registers of the head, and `tail` (over the single register 0 that holds the result of the
primitive: reshape to the prepared target shape, `_squeeze_transpose_broadcast` to the flat output, compose).
-/
namespace Einx.AtLower
open Einx.IR Einx.Generic

/-- Tracing state over the extended instruction set. -/
structure SX where
  prog : List InstrX
  next : Nat
deriving Repr, Inhabited

/-- A traced tensor: register, traced shape, flat expression. -/
structure T where
  reg : Nat
  shape : List Nat
  expr : List Ax
deriving Repr, Inhabited

def SX.emit (sx : SX) (i : InstrX) : Nat × SX := (sx.next, { prog := sx.prog ++ [i], next := sx.next + 1 })

/-- Run a segment of the base tracing model (`Generic.St`) on the tensor `(reg, shape)`. -/
def SX.seg {α : Type} (sx : SX) (reg : Nat) (shape : List Nat) (f : St → Except String (α × St)) :
    Except String (α × Nat × List Nat × SX) := do
  let (a, s) ← f { reg := reg, shape := shape, prog := [], next := sx.next }
  pure (a, s.reg, s.shape, { prog := sx.prog ++ s.prog.map .base, next := s.next })

/-- An input as the decomposer receives it: register, root dimensions, names of the bracketed axes. -/
structure In where
  reg : Nat
  e : List G
  marked : List String
deriving Repr, Inhabited

/-- `Decomposer.__call__`, steps 1–2 for one input. -/
def prep (sx : SX) (i : In) : Except String (T × SX) := do
  let (sq, r, sh, sx1) ← sx.seg i.reg (gShape i.e) (fun s => prepInput i.marked s i.reg i.e)
  pure (⟨r, sh, sq⟩, sx1)

/-- How one coordinate component is obtained from the prepared coordinate tensor number `j`
(`_ravel`, step 1). -/
inductive Pick where
  | whole                    -- no bracketed axis: the tensor is the component
  | squeeze (k : Nat)        -- `[1]` at position `k`: `classical.reshape` without it
  | item (k i : Nat)         -- `[n]` at position `k`, `n > 1`: `classical.get_at(coord, i, axis=k)`
deriving Repr, DecidableEq, Inhabited

/-- The components of coordinate tensor `j`, in order. -/
def picksOf (j : Nat) (c : In) : Except String (List (Nat × Pick)) :=
  let sq := squeezedExpr c.marked c.e
  match exprToAxis c.marked sq with
  | [] => pure [(j, .whole)]
  | [k] =>
    let n := (lens sq).getD k 0
    if n == 1 then pure [(j, .squeeze k)]
    else if n > 1 then pure ((List.range n).map (fun i => (j, .item k i)))
    else throw "AssertionError: ndim > 1"
  | _ => throw "AssertionError: more than one bracketed coordinate axis"

def allPicks : Nat → List In → Except String (List (Nat × Pick))
  | _, [] => pure []
  | j, c :: cs => do
    let a ← picksOf j c
    let b ← allPicks (j + 1) cs
    pure (a ++ b)

/-- The prepared coordinate tensors so far (`none`: preparation chain not yet emitted). -/
abbrev Memo := List (Option T)

def ensurePrepared (sx : SX) (memo : Memo) (coords : List In) (j : Nat) : Except String (T × SX × Memo) :=
  match memo[j]?, coords[j]? with
  | some (some t), _ => pure (t, sx, memo)
  | some none, some c => do
    let (t, sx1) ← prep sx c
    pure (t, sx1, memo.set j (some t))
  | _, _ => throw "coordinate tensor missing"

def keyFor (rank k i : Nat) : List Key :=
  (List.range rank).map (fun a => if a == k then .idx i else .all)

/-- The tensor of one coordinate component (depth first: preparation of the coordinate tensor if it is new, then
the reshape / getitem). -/
def component (sx : SX) (memo : Memo) (coords : List In) (p : Nat × Pick) : Except String (T × SX × Memo) := do
  let (t, sx1, memo1) ← ensurePrepared sx memo coords p.1
  match p.2 with
  | .whole => pure (t, sx1, memo1)
  | .squeeze k =>
    let e := t.expr.eraseIdx k
    let ((), r, sh, sx2) ← sx1.seg t.reg t.shape (fun s => pure ((), reshapeW s (t.shape.eraseIdx k)))
    pure (⟨r, sh, e⟩, sx2, memo1)
  | .item k i =>
    let (r, sx2) := sx1.emit (.base (.index t.reg (keyFor t.shape.length k i)))
    pure (⟨r, t.shape.eraseIdx k, t.expr.eraseIdx k⟩, sx2, memo1)

/-- Step 3 for one term: `if multiplier != 1: coord = classical.multiply(coord, multiplier)`. -/
def scale (sx : SX) (t : T) (m : Nat) : T × SX :=
  if m != 1 then
    let (r, sx1) := sx.emit (.base (.ewise "multiply" [.reg t.reg, .lit (Int.ofNat m)]))
    (⟨r, t.shape, t.expr⟩, sx1)
  else (t, sx)

/-- Alignment of one term with the output expression of `elementwise_add`
(`_squeeze_transpose_broadcast(…, broadcast_to_unitary=True)`). -/
def align (tag : Nat) (sx : SX) (t : T) (out : List Ax) : Except String (T × SX) := do
  let (e, r, sh, sx1) ← sx.seg t.reg t.shape (fun s => stbU tag s t.expr out)
  pure (⟨r, sh, e⟩, sx1)

/-- Row-major multipliers of the target axes: for every axis the product of the later lengths
(`multiplier = 1; for … reversed: …; multiplier *= axis.value`). -/
def multipliers : List Nat → List Nat
  | [] => []
  | _ :: ss => Einx.prod ss :: multipliers ss

/-- Steps 1–3 and the alignment of step 4 for the terms in target order, with the binary `np.add` calls in depth-first
position (`acc` is the running sum).  `tgt`: the prepared target axes with their multipliers and bracket marks. -/
def terms (coords : List In) (out : List Ax) :
    Nat → List (Ax × Nat × Bool) → List (Nat × Pick) → SX → Memo → Option T → List (List Ax) →
    Except String (Option T × List (List Ax) × SX)
  | _, [], [], sx, _, acc, es => pure (acc, es, sx)
  | _, [], _ :: _, _, _, _, _ => throw "more coordinate components than bracketed target axes"
  | tag, (a, m, br) :: rest, picks, sx, memo, acc, es => do
    let (t, sx1, memo1, picks1) ←
      if br then
        match picks with
        | p :: ps => do
          let (t, sx1, memo1) ← component sx memo coords p
          pure (t, sx1, memo1, ps)
        | [] => throw "fewer coordinate components than bracketed target axes"
      else
        let (r, sx1) := sx.emit (.arange a.len)
        pure ((⟨r, [a.len], [a]⟩ : T), sx1, memo, picks)
    let (t2, sx2) := scale sx1 t m
    let (t3, sx3) ← align tag sx2 t2 out
    match acc with
    | none => terms coords out (tag + 1) rest picks1 sx3 memo1 (some t3) (es ++ [t3.expr])
    | some x => do
      let so ← broadcastShapes [x.shape, t3.shape]
      let (r, sx4) := sx3.emit (.base (.ewise "add" [.reg x.reg, .reg t3.reg]))
      terms coords out (tag + 1) rest picks1 sx4 memo1 (some ⟨r, so, []⟩) (es ++ [t3.expr])

/-- `_ravel(classical, expr_tensor, coords, expr_coords, expr_out)`: the ravelled index tensor. -/
def ravel (sx : SX) (tgt : T) (tmarked : List String) (coords : List In) (out : List Ax) : Except String (T × SX) := do
  let picks ← allPicks 0 coords
  let ms := multipliers (lens tgt.expr)
  let axes := (List.zip tgt.expr ms).map (fun (a, m) => (a, m, tmarked.contains a.name))
  let (acc, es, sx1) ← terms coords out 0 axes picks sx (coords.map (fun _ => none)) none []
  match acc with
  | none => throw "IndexError: in_axes[0] (a tensor without axes)"
  | some x =>
    let exprOut := pickCols out.length es
    -- `_ensure_output`
    if x.shape != lens exprOut then throw "Expected return value of the adapted function to be a tensor with another shape"
    pure (⟨x.reg, x.shape, exprOut⟩, sx1)

/-- The flat output without broadcast axes (`is_broadcast_axis`: not named by a squeezed input and not in brackets). -/
def outNoBroadcast (ins : List In) (eout : List G) (omarked : List String) : List Ax :=
  let inNames := ins.flatMap (fun i => names (squeezedExpr i.marked i.e))
  (G.leavesL eout).filter (fun a => inNames.contains a.name || omarked.contains a.name)

/-- `Decomposer.__call__` around `get_at_ravelled`: inputs in registers `0 … n-1` (target first). -/
def lowerGetAt (tgt : In) (coords : List In) (eout : List G) (omarked : List String) : Except String (List InstrX × Nat) := do
  if !omarked.isEmpty then throw "unsupported: brackets in the output"
  let sx0 : SX := { prog := [], next := coords.length + 1 }
  let out := outNoBroadcast (tgt :: coords) eout omarked
  -- `classical.reshape(tensor, (expr_tensor.value,))`
  let (t, sx1) ← prep sx0 tgt
  let ((), rflat, _, sx2) ← sx1.seg t.reg t.shape (fun s => pure ((), reshapeW s [Einx.prod t.shape]))
  let (idx, sx3) ← ravel sx2 t tgt.marked coords out
  let (r, sx4) := sx3.emit (.take rflat idx.reg)
  if idx.shape != lens out then throw "the ravelled coordinates do not have the shape of the output expression"
  -- transpose and broadcast to the flat output; compose
  let ((), r2, _, sx5) ← sx4.seg r idx.shape (fun s => do
    let s1 ← stb s out (G.leavesL eout)
    pure ((), reshapeW s1 (gShape eout)))
  pure (sx5.prog, r2)

/-- An update program (see the file header). -/
structure UProg where
  head : List InstrX
  tgt : Nat
  idx : Nat
  upd : Nat
  prim : Einx.Update.Prim
  tail : List Instr
  out : Nat             -- register of the tail that holds the result
  inter : List Ax       -- `expr_intermediate`
deriving Repr, Inhabited

/-- The expression list `_join_exprs` receives: per operand the un-bracketed axes as `(name, value)`. -/
def joinArg (e : List Ax) (marked : List String) : List Einx.Order.Join.Ax :=
  (e.filter (fun a => !marked.contains a.name)).map (fun a => (a.name, a.len))

/-- `expr_intermediate = _join_exprs([remove brackets(e) for e in expr_coords + [expr_updates, expr_tensor]])`
on the prepared (squeezed) expressions. -/
def intermediate (tgt : In) (coords : List In) (upd : In) : Except String (List Ax) :=
  let sq (i : In) := joinArg (squeezedExpr i.marked i.e) i.marked
  match Einx.Order.Join.joinExprs Einx.Order.Join.enumFirst (coords.map sq ++ [sq upd, sq tgt]) with
  | some l => pure (l.map (fun (n, v) => ⟨n, v⟩))
  | none => throw "_join_exprs raises"

def elemMax (a b : List Nat) : List Nat := List.zipWith max a b

/-- `Decomposer.__call__` around `update_at_ravelled(op)`: inputs in registers `0 … n-1` (target, coordinates,
updates).  `prim`, `broadcasts`: the numpy primitive and the `broadcast=` registration of the operation
(`Extracted.updateLowering`). -/
def lowerUpdate (prim : Einx.Update.Prim) (broadcasts : Bool) (tgt : In) (coords : List In) (upd : In)
    (eout : List G) : Except String UProg := do
  let sx0 : SX := { prog := [], next := coords.length + 2 }
  let inter ← intermediate tgt coords upd
  let (t, sx1) ← prep sx0 tgt
  let ((), rflat, shflat, sx2) ← sx1.seg t.reg t.shape (fun s => pure ((), reshapeW s [Einx.prod t.shape]))
  let (idx, sx3) ← ravel sx2 t tgt.marked coords inter
  -- the shape of the aligned updates (a dry run of their chain: the traced DAG is serialised depth first, so the
  -- `broadcast_to` of the indices precedes the chain of the updates although Python executes it afterwards)
  let (ud, sxd) ← prep sx3 upd
  let (ud2, _) ← align (t.expr.length + 1) sxd ud inter
  -- classical_from_numpy.update_at
  if idx.shape.length != ud2.shape.length then throw "Expected indices and updates to have the same number of dimensions"
  let full := elemMax idx.shape ud2.shape
  let (ridx, sx4) ←
    if broadcasts then do
      let ((), ri, _, sx4) ← sx3.seg idx.reg idx.shape (fun s => pure ((), broadcastW s full))
      pure (ri, sx4)
    else pure (idx.reg, sx3)
  let (u, sx5) ← prep sx4 upd
  let (u2, sx6) ← align (t.expr.length + 1) sx5 u inter
  let (rupd, sx7) ←
    if broadcasts then do
      let ((), ru, _, sx7) ← sx6.seg u2.reg u2.shape (fun s => pure ((), broadcastW s full))
      pure (ru, sx7)
    else pure (u2.reg, sx6)
  -- the tail: `classical.reshape(tensor, expr_tensor.shape)`, transpose/broadcast to the flat output, compose
  let s0 : St := { reg := 0, shape := shflat, prog := [], next := 1 }
  let s1 := reshapeW s0 (lens t.expr)
  let s2 ← stb s1 t.expr (G.leavesL eout)
  let s3 := reshapeW s2 (gShape eout)
  pure { head := sx7.prog, tgt := rflat, idx := ridx, upd := rupd, prim := prim, tail := s3.prog, out := s3.reg, inter := inter }

end Einx.AtLower
