import EinxModel.Update.LowerProg
/-!
Work package "join": from the description alone to the solved operation `Update.Op` of `Update/Model.lean`
(the object `update_lowering_sound` speaks about).  Until now the harness built `Op` and took the order of `Op.axes`
from the real `_join_exprs`; `descOp` computes it with the C16 model `Order.Join.joinExprs` (through
`AtLower.intermediate`, the same call the program model `AtLower.lowerUpdate` makes).  Core Lean only.
-/
namespace Einx.AtDesc
open Einx.Generic Einx.AtLower Einx.Update

/-- Position of the axis called `n` in `expr_intermediate`. -/
def posOf (inter : List Ax) (n : String) : Option Nat :=
  let i := (names inter).idxOf n
  if i < inter.length then some i else none

def tdimOf (inter : List Ax) (marked : List String) (a : Ax) : Option TDim :=
  if marked.contains a.name then some (.idx a.len) else (posOf inter a.name).map .vec

def cdimOf (inter : List Ax) (marked : List String) (a : Ax) : Option CDim :=
  if marked.contains a.name then some (.br a.len) else (posOf inter a.name).map .ax

/-- The prepared expression of an input (`Decomposer.__call__`, steps 1–2). -/
def prepared (i : In) : List Ax := squeezedExpr i.marked i.e

def coordOf (inter : List Ax) (cd : In × List Nat) : Option Coord :=
  (mapOpt (cdimOf inter cd.1.marked) (prepared cd.1)).map (fun d => { dims := d, data := cd.2 })

/-- The solved operation over a given iteration space `inter`. -/
def opOver (inter : List Ax) (tgt : In) (coords : List In) (upd : List Ax) (cdata : List (List Nat))
    (udata : List Int) : Option Op :=
  match mapOpt (tdimOf inter tgt.marked) (prepared tgt), mapOpt (coordOf inter) (coords.zip cdata),
        mapOpt (fun a => posOf inter a.name) upd with
  | some tdims, some cs, some udims => some { axes := lens inter, tdims := tdims, coords := cs, udims := udims, udata := udata }
  | _, _, _ => none

/-- **The solved update operation of a description**: the iteration space is `_join_exprs` of the prepared
expressions (C16 model), coordinate and update contents are given as flat row-major data. -/
def descOp (tgt : In) (coords : List In) (upd : In) (cdata : List (List Nat)) (udata : List Int) : Option Op :=
  match intermediate tgt coords upd with
  | .ok inter => opOver inter tgt coords (prepared upd) cdata udata
  | .error _ => none

/-- The solved `get_at` operation of a description: the iteration space is the flat output without broadcast axes. -/
def descGetOp (tgt : In) (coords : List In) (eout : List G) (cdata : List (List Nat)) : Option Op :=
  opOver (outNoBroadcast (tgt :: coords) eout []) tgt coords [] cdata []

/-- `Op.covered`, executable. -/
def coveredB (op : Op) : Bool :=
  op.axes.all (fun n => decide (0 < n)) &&
    (List.range op.axes.length).all (fun j => op.idxAxes.contains j || op.udims.contains j)

/-- All leaf lengths of an input are positive (the solver rejects zero lengths). -/
def allPos (i : In) : Bool := (G.leavesL i.e).all (fun a => decide (0 < a.len))

/-- Decidable domain of `lower_update_correct`: every operand's prepared axes are named apart, lengths are positive and
the update tensor has no bracket. -/
def updDomain (tgt : In) (coords : List In) (upd : In) : Bool :=
  (tgt :: upd :: coords).all (fun i => allPos i && noDup (names (prepared i))) && upd.marked.isEmpty

def descCovered (tgt : In) (coords : List In) (upd : In) : Bool :=
  match descOp tgt coords upd (coords.map (fun _ => [])) [] with
  | some op => coveredB op
  | none => false

def getDomain (tgt : In) (coords : List In) (eout : List G) : Bool :=
  (tgt :: coords).all (fun i => allPos i && noDup (names (prepared i))) &&
    (descGetOp tgt coords eout (coords.map (fun _ => []))).isSome

/-- `np.take(flat target, ravelled index)` at one assignment. -/
def readLowered (kernel : List Nat → List Nat → List Nat) (op : Op) (target : List Int) (σ : List Nat) : Option Int :=
  match addrLowered kernel op σ with
  | some k => target[k]?
  | none => none

/-- The value-level lowering of `get_at` (`get_at_ravelled`): `np.take` of the flat target at the ravelled index. -/
def lowerGet (kernel : List Nat → List Nat → List Nat) (op : Op) (target : List Int) : Option (List Int) :=
  mapOpt (readLowered kernel op target) (assignments op.axes)

end Einx.AtDesc
