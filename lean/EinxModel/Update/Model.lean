import EinxModel.Basic.Index
/-!
M3 (update part): the denotation of `set_at` / `add_at` / `subtract_at` as an executable definition
over flat row-major tensors, the numpy scatter primitives, and the lowering that
`adapter/decomposednamedtensor_from_classical.py` (`_ravel`, `update_at_ravelled`) and
`adapter/numpy/classical_from_numpy.py` (`update_at`) perform.  Core Lean only.

A *solved update operation* (`Op`) is what is left of a call after the description has been
solved and flattened axes have been decomposed (parentheses are reshapes of row-major data,
`Einx.ravel_append`):

* `axes`   – the lengths of all un-bracketed axes of the coordinate, update and target expressions,
             in the iteration order (`expr_intermediate` of `update_at_ravelled`);
* `tdims`  – the target expression: per dimension either a vectorised axis (position in `axes`) or a
             bracketed (indexed) axis with its length;
* `coords` – the coordinate tensors: per dimension a vectorised axis or the bracketed coordinate axis
             `[n]` (at most one, anywhere), with row-major data;
* `udims`, `udata` – the update tensor (vectorised axes only) with row-major data.
-/
namespace Einx.Update

/-! ### Generic helpers -/

/-- `mapM` in `Option`, by structural recursion (so that it is easy to reason about). -/
def mapOpt {α β : Type} (f : α → Option β) : List α → Option (List β)
  | [] => some []
  | a :: as =>
    match f a, mapOpt f as with
    | some b, some bs => some (b :: bs)
    | _, _ => none

/-- All multi-indices of a shape, in row-major order. -/
def assignments : List Nat → List (List Nat)
  | [] => [[]]
  | s :: ss => (List.range s).flatMap (fun i => (assignments ss).map (fun r => i :: r))

/-- `data[ravel shape idx]` if `idx` is a valid multi-index of `shape`; `none` otherwise (never a default). -/
def readAt {α : Type} (shape : List Nat) (data : List α) (idx : List Nat) : Option α :=
  if validb shape idx then data[ravel shape idx]? else none

/-- The entries of `σ` at the positions `pos` (`none` if a position does not exist). -/
def pick (σ : List Nat) (pos : List Nat) : Option (List Nat) := mapOpt (fun j => σ[j]?) pos

/-! ### The three update modes and the fold that applies contributions -/

inductive Mode | set | add | sub
  deriving DecidableEq, Repr, Inhabited

/-- Elementary update: old value, update value ↦ new value. -/
def Mode.apply : Mode → Int → Int → Int
  | .set, _, v => v
  | .add, o, v => o + v
  | .sub, o, v => o - v

/-- Apply a list of contributions `(flat address, value)` to a flat target, in list order. -/
def applyUpdates (m : Mode) (target : List Int) (contribs : List (Nat × Int)) : List Int :=
  contribs.foldl (fun t c => t.modify c.1 (fun o => m.apply o c.2)) target

/-! ### Solved operations -/

/-- One dimension of a coordinate tensor. -/
inductive CDim
  | ax (j : Nat)   -- vectorised axis: position in `Op.axes`
  | br (n : Nat)   -- the bracketed coordinate axis `[n]`
  deriving DecidableEq, Repr, Inhabited

/-- One dimension of the target tensor. -/
inductive TDim
  | vec (j : Nat)  -- vectorised axis: position in `Op.axes`
  | idx (n : Nat)  -- bracketed (indexed) axis of length `n`
  deriving DecidableEq, Repr, Inhabited

structure Coord where
  dims : List CDim
  data : List Nat
  deriving DecidableEq, Repr, Inhabited

structure Op where
  axes : List Nat
  tdims : List TDim
  coords : List Coord
  udims : List Nat
  udata : List Int
  deriving DecidableEq, Repr, Inhabited

def CDim.size (axes : List Nat) : CDim → Option Nat
  | .ax j => axes[j]?
  | .br n => some n

def CDim.index (σ : List Nat) (i : Nat) : CDim → Option Nat
  | .ax j => σ[j]?
  | .br _ => some i

def CDim.brLen : CDim → Option Nat
  | .ax _ => none
  | .br n => some n

/-- Number of coordinate components a coordinate tensor supplies: `n` for a bracketed axis `[n]`,
one if no axis is bracketed. -/
def Coord.count (c : Coord) : Nat :=
  match c.dims.filterMap CDim.brLen with
  | [] => 1
  | n :: _ => n

/-- At most one bracketed axis per coordinate expression (`_semantic_checks_update_at`). -/
def Coord.wf (c : Coord) : Bool := (c.dims.filterMap CDim.brLen).length ≤ 1

/-- The `i`-th coordinate component of `c` under the assignment `σ`. -/
def Coord.read (axes σ : List Nat) (c : Coord) (i : Nat) : Option Nat :=
  match mapOpt (CDim.size axes) c.dims, mapOpt (CDim.index σ i) c.dims with
  | some shape, some idx => readAt shape c.data idx
  | _, _ => none

/-- All coordinate components under `σ`, coordinate tensors concatenated in argument order. -/
def coordVector (axes σ : List Nat) (coords : List Coord) : Option (List Nat) :=
  (mapOpt (fun c => mapOpt (c.read axes σ) (List.range c.count)) coords).map List.flatten

def TDim.size (axes : List Nat) : TDim → Option Nat
  | .vec j => axes[j]?
  | .idx n => some n

def targetShape (axes : List Nat) (tdims : List TDim) : Option (List Nat) := mapOpt (TDim.size axes) tdims

/-- The multi-index into the target: vectorised axes take their value from `σ`, bracketed axes take
the next coordinate component; every component must be used. -/
def targetIndex (σ : List Nat) : List TDim → List Nat → Option (List Nat)
  | [], [] => some []
  | [], _ :: _ => none
  | .vec j :: ds, cs =>
    match σ[j]?, targetIndex σ ds cs with
    | some v, some r => some (v :: r)
    | _, _ => none
  | .idx _ :: _, [] => none
  | .idx _ :: ds, c :: cs => (targetIndex σ ds cs).map (fun r => c :: r)

/-- The update value for `σ`: the update tensor read at the projection of `σ` onto its own axes
(an axis the update tensor lacks is thereby repeated). -/
def Op.readUpd (op : Op) (σ : List Nat) : Option Int :=
  match pick op.axes op.udims, pick σ op.udims with
  | some shape, some idx => readAt shape op.udata idx
  | _, _ => none

/-- The multi-index into the target addressed under `σ`. -/
def Op.tidxAt (op : Op) (σ : List Nat) : Option (List Nat) :=
  match coordVector op.axes σ op.coords with
  | some cs => targetIndex σ op.tdims cs
  | none => none

/-- The contribution of one assignment: (flat target address, update value).  `none` when the
coordinates are not a valid index of the target (the property says nothing there). -/
def Op.contribAt (op : Op) (σ : List Nat) : Option (Nat × Int) :=
  match targetShape op.axes op.tdims, op.tidxAt σ, op.readUpd σ with
  | some tshape, some tidx, some v => if validb tshape tidx then some (ravel tshape tidx, v) else none
  | _, _, _ => none

/-- One contribution per assignment of the un-bracketed axes, in row-major order of `axes`. -/
def Op.contribs (op : Op) : Option (List (Nat × Int)) := mapOpt op.contribAt (assignments op.axes)

/-- **The denotation** of an indexed update. -/
def denote (m : Mode) (op : Op) (target : List Int) : Option (List Int) :=
  match targetShape op.axes op.tdims, op.contribs with
  | some tshape, some cs =>
    if target.length = prod tshape ∧ op.coords.all Coord.wf then some (applyUpdates m target cs) else none
  | _, _ => none

/-- The denotation of `get_at` with the same coordinates and the iteration space of the update as
output: one element per assignment. -/
def getAt (op : Op) (target : List Int) : Option (List Int) :=
  mapOpt (fun σ =>
    match targetShape op.axes op.tdims, op.tidxAt σ with
    | some tshape, some tidx => readAt tshape target tidx
    | _, _ => none) (assignments op.axes)

/-! ### numpy primitives (flattened semantics) -/

/-- Unbuffered in-place `a[i] = f(a[i], v)` for the pairs in order; an index outside the array is an
`IndexError` (`none`). -/
def scatterGo (f : Int → Int → Int) : List Int → List (Nat × Int) → Option (List Int)
  | t, [] => some t
  | t, (i, v) :: r => if i < t.length then scatterGo f (t.modify i (fun o => f o v)) r else none

/-- The first `n` elements of `vals` repeated cyclically (`none` when `vals` is empty and `n > 0`). -/
def cycle (vals : List Int) (n : Nat) : Option (List Int) :=
  mapOpt (fun k => vals[k % vals.length]?) (List.range n)

/-- `numpy.put(a, ind, v)` on a 1-d array: `a[ind.flat[k]] = v.flat[k % v.size]`; nothing happens when
`v` is empty; surplus values are ignored. -/
def npPut (t : List Int) (idx : List Nat) (vals : List Int) : Option (List Int) :=
  if vals.isEmpty then some t
  else match cycle vals idx.length with
    | some vs => scatterGo (fun _ v => v) t (idx.zip vs)
    | none => none

/-- `numpy.broadcast_to` for equal ranks: every dimension is kept or stretched from 1. -/
def broadcastTo {α : Type} (shape newShape : List Nat) (data : List α) : Option (List α) :=
  if shape.length = newShape.length ∧ (List.zipWith (fun a b => decide (a = b ∨ a = 1)) shape newShape).all id
      ∧ data.length = prod shape then
    mapOpt (fun σ => readAt shape data (List.zipWith (fun i a => if a = 1 then 0 else i) σ shape)) (assignments newShape)
  else none

/-- `numpy.<ufunc>.at(a, indices, b)` on a 1-d array `a`: `b` is broadcast to the shape of `indices`
(modelled for equal ranks, which is what einx passes), then accumulated unbuffered. -/
def npUfuncAt (f : Int → Int → Int) (t : List Int) (idxShape : List Nat) (idx : List Nat)
    (valShape : List Nat) (vals : List Int) : Option (List Int) :=
  match broadcastTo valShape idxShape vals with
  | some vb => if idx.length = prod idxShape then scatterGo f t (idx.zip vb) else none
  | none => none

def npAddAt := npUfuncAt (fun o v => o + v)
def npSubtractAt := npUfuncAt (fun o v => o - v)

/-! ### The lowering performed by einx -/

inductive Prim | put | addAt | subAt | unknown
  deriving DecidableEq, Repr, Inhabited

/-- What is read from the source tree: the index kernel of `_ravel`, and per operation whether the numpy
wrapper is registered with `broadcast=` and which numpy primitive it wraps. -/
structure Lowering where
  kernel : List Nat → List Nat → List Nat
  broadcasts : Mode → Bool
  prim : Mode → Prim

def runPrim (p : Prim) (t : List Int) (idxShape idx : List Nat) (valShape : List Nat) (vals : List Int) :
    Option (List Int) :=
  match p with
  | .put => if idx.length = prod idxShape ∧ vals.length = prod valShape then npPut t idx vals else none
  | .addAt => npAddAt t idxShape idx valShape vals
  | .subAt => npSubtractAt t idxShape idx valShape vals
  | .unknown => none

def usedBy (n : Nat) (pos : List Nat) : List Bool := (List.range n).map (fun j => pos.contains j)

def maskShape (axes : List Nat) (used : List Bool) : List Nat :=
  List.zipWith (fun n u => if u then n else 1) axes used

def TDim.axis? : TDim → Option Nat
  | .vec j => some j
  | .idx _ => none

def CDim.axis? : CDim → Option Nat
  | .ax j => some j
  | .br _ => none

/-- The un-bracketed axes on which the ravelled index tensor depends: those of the coordinate
expressions and (through the `arange` terms) the vectorised axes of the target. -/
def Op.idxAxes (op : Op) : List Nat :=
  op.tdims.filterMap TDim.axis? ++ op.coords.flatMap (fun c => c.dims.filterMap CDim.axis?)

/-- Shape of the ravelled index tensor returned by `_ravel` (`elementwise_add` leaves length 1 where
no operand has the axis). -/
def Op.idxShape (op : Op) : List Nat := maskShape op.axes (usedBy op.axes.length op.idxAxes)

/-- Shape of the update tensor after `_squeeze_transpose_broadcast(..., broadcast_to_unitary=True)`. -/
def Op.updShape (op : Op) : List Nat := maskShape op.axes (usedBy op.axes.length op.udims)

/-- `_ravel`, pointwise: one term per target dimension (`arange` value for a vectorised axis, the
coordinate component for a bracketed one), scaled by the multiplier kernel and summed.  No range check:
the real code has none. -/
def addrLowered (kernel : List Nat → List Nat → List Nat) (op : Op) (σ : List Nat) : Option Nat :=
  match targetShape op.axes op.tdims, op.tidxAt σ with
  | some tshape, some terms => some (kernel terms tshape).sum
  | _, _ => none

/-- `update_at_ravelled` followed by `classical_from_numpy.update_at`: ravelled indices and re-arranged
updates, broadcast to a common shape only if the wrapper was registered with `broadcast=`, then the numpy
primitive on the flattened target. -/
def lower (L : Lowering) (m : Mode) (op : Op) (target : List Int) : Option (List Int) :=
  match targetShape op.axes op.tdims,
        mapOpt (addrLowered L.kernel op) (assignments op.idxShape),
        mapOpt op.readUpd (assignments op.updShape) with
  | some tshape, some idxFlat, some updFlat =>
    if target.length = prod tshape ∧ op.coords.all Coord.wf then
      if L.broadcasts m then
        let full := List.zipWith max op.idxShape op.updShape
        match broadcastTo op.idxShape full idxFlat, broadcastTo op.updShape full updFlat with
        | some idxB, some updB => runPrim (L.prim m) target full idxB full updB
        | _, _ => none
      else runPrim (L.prim m) target op.idxShape idxFlat op.updShape updFlat
    else none
  | _, _, _ => none

/-- `einx_from_namedtensor.update_at.op_with_zerosized_args`: does a coordinate or update tensor have a
dimension of length 0?  (The target is not looked at.) -/
def Op.zeroSized (op : Op) : Bool :=
  op.coords.any (fun c => c.dims.any (fun d => d.size op.axes == some 0))
    || op.udims.any (fun j => op.axes[j]? == some 0)

/-- The whole call: zero-sized coordinate/update arguments short-circuit to the unchanged target,
everything else is lowered. -/
def lowerCall (L : Lowering) (m : Mode) (op : Op) (target : List Int) : Option (List Int) :=
  if op.zeroSized then some target else lower L m op target

end Einx.Update
