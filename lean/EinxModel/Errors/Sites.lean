import EinxModel.Extracted.Errors
/-!
# C03 — the reviewed `assert` / `raise <internal type>` sites of einx's front end

Every site of `Extracted.assertSites` that lies in the front end (everything that runs before the traced graph is compiled:
`frontend/`, `namedtensor/`, `util/solver.py`, `adapter/einx_from_namedtensor.py`) must be one of these (obligation
`front_sites_reviewed` in Props/C03.lean).  Sites are identified by file, enclosing function, kind and normalised text — not
by line number.  An `assert` that is added or changed on the call path is *not* in this table, the obligation breaks, and the
check searches with its large budget for an input that reaches it (DESIGN.md 2.4).

Status of a reviewed site:
* `position`  caret-range assert of an error constructor / indicator method: cannot fire for positions computed from trees that
              satisfy the position invariant (`indicator_pos_in_range`, Props/C03.lean);
* `proved`    shown unreachable in the C12 parser model (`parse_total_cases`);
* `reachable` fires on the pinned tree for a public call (D5) — reported by the search as a violation with that frame;
* `invariant` internal consistency check; no input reaching it was found by the exhaustive/random streams.
-/
namespace Einx.Errors

inductive SiteStatus where | position | proved | reachable | invariant
deriving Repr, DecidableEq

structure Reviewed where
  file : String
  func : String
  kind : String
  text : String
  status : SiteStatus
deriving Repr, DecidableEq

def reviewedSites : List Reviewed := [
  ⟨"adapter/einx_from_namedtensor.py", "_to_el_expr", "assert", "not any((stage1.is_in_brackets(c) for c in expr.nodes()))", .invariant⟩,
  ⟨"adapter/einx_from_namedtensor.py", "_parse_op", "assert", "len(el_op.children) == 2", .invariant⟩,
  ⟨"adapter/einx_from_namedtensor.py", "_parse_op._to_output", "assert", "bracket_num > 0", .reachable⟩,  -- einx.argmax("a", x)
  ⟨"adapter/einx_from_namedtensor.py", "_parse_op", "assert", "len(el_op.children[0].children) == len(el_subop.children[0].children)", .invariant⟩,
  ⟨"adapter/einx_from_namedtensor.py", "_parse_op", "assert", "len(el_op.children[1].children) == len(el_subop.children[1].children)", .reachable⟩,  -- einx.id(",b", 1.0, y)
  ⟨"adapter/einx_from_namedtensor.py", "_parse_op", "assert", "len(exprs_out) == 1", .invariant⟩,
  ⟨"adapter/einx_from_namedtensor.py", "_semantic_checks_get_at", "assert", "len(marked_axis) <= 1", .invariant⟩,
  ⟨"adapter/einx_from_namedtensor.py", "_semantic_checks_sort", "assert", "len(exprs_in) == 1 and len(exprs_out) == 1", .invariant⟩,
  ⟨"adapter/einx_from_namedtensor.py", "_semantic_checks_update_at", "assert", "len(marked_axis) <= 1", .invariant⟩,
  ⟨"adapter/einx_from_namedtensor.py", "_cast_shape", "assert", "isinstance(tensor, tracer.signature.classical.ConvertibleTensor)", .invariant⟩,
  ⟨"adapter/einx_from_namedtensor.py", "_cast_shape", "assert", "tuple(tensor.shape) == tuple(expr.shape)", .invariant⟩,
  ⟨"frontend/api.py", "_split_tensors", "assert", "isinstance(val, tuple | list)", .invariant⟩,
  ⟨"frontend/api.py", "_split_tensors", "assert", "isinstance(val, dict)", .invariant⟩,
  ⟨"frontend/api.py", "_split_tensors", "raise AssertionError", "AssertionError(f'Unknown parameter kind: {param.kind}')", .invariant⟩,
  ⟨"frontend/backend.py", "BackendRegistryState._exit", "assert", "id(self.use_stack[-1]) == id(backend)", .invariant⟩,
  ⟨"frontend/errors.py", "SyntaxError.__init__", "assert", "all((p >= 0 and p < len(expression) for p in self.pos))", .position⟩,
  ⟨"frontend/errors.py", "RankError.__init__", "assert", "all((p >= 0 and p < len(invocation.expression) for p in self.pos))", .position⟩,
  ⟨"frontend/errors.py", "RankError.__init__", "assert", "len(constraint) == 2", .invariant⟩,
  ⟨"frontend/errors.py", "AxisSizeError.__init__", "assert", "all((p >= 0 and p < len(invocation.expression) for p in self.pos))", .position⟩,
  ⟨"frontend/errors.py", "AxisSizeError.__init__", "assert", "len(constraint) == 2", .invariant⟩,
  ⟨"frontend/errors.py", "SemanticError.__init__", "assert", "isinstance(message, str)", .invariant⟩,
  ⟨"frontend/errors.py", "SemanticError.__init__", "assert", "all((p >= 0 and p < len(invocation.expression) for p in self.pos))", .position⟩,
  ⟨"namedtensor/stage1/parse.py", "TokenList.__init__", "assert", "self.tokens[0].begin_pos == pos", .invariant⟩,
  ⟨"namedtensor/stage1/parse.py", "parse_op.parse", "assert", "isinstance(in_tokens, TokenList)", .invariant⟩,
  ⟨"namedtensor/stage1/parse.py", "parse_op.parse", "assert", "len(in_tokens) >= 2 and in_tokens[-1].text in _delimiters_back", .invariant⟩,
  ⟨"namedtensor/stage1/parse.py", "parse_op.parse", "raise AssertionError", "AssertionError()", .invariant⟩,
  ⟨"namedtensor/stage1/parse.py", "parse_op.parse", "assert", "len(in_tokens) == 2", .invariant⟩,
  ⟨"namedtensor/stage1/parse.py", "parse_op.parse", "assert", "_axis_name.fullmatch(in_tokens[0].text)", .invariant⟩,
  ⟨"namedtensor/stage1/parse.py", "parse_op.move_up", "raise AssertionError", "AssertionError(f'Invalid expression type {type(expr)}')", .invariant⟩,
  ⟨"namedtensor/stage1/parse.py", "parse_op.move_up", "raise AssertionError", "AssertionError()", .invariant⟩,
  ⟨"namedtensor/stage1/parse.py", "parse_op", "assert", "isinstance(expression, Op)", .proved⟩,
  ⟨"namedtensor/stage1/parse.py", "parse_args", "assert", "isinstance(op.children[0], Args)", .invariant⟩,
  ⟨"namedtensor/stage1/tree.py", "FlattenedAxis.__init__", "assert", "not isinstance(inner, FlattenedAxis)", .invariant⟩,
  ⟨"namedtensor/stage1/tree.py", "Brackets.__init__", "assert", "inner.ndim != 0", .invariant⟩,
  ⟨"namedtensor/stage1/tree.py", "Brackets.__init__", "assert", "not isinstance(inner, Brackets)", .invariant⟩,
  ⟨"namedtensor/stage1/tree.py", "Ellipsis.__init__", "assert", "inner.ndim != 0", .invariant⟩,
  ⟨"namedtensor/stage1/tree.py", "ConcatenatedAxis.__init__", "assert", "len(children) > 1", .invariant⟩,
  ⟨"namedtensor/stage1/tree.py", "ConcatenatedAxis.__init__", "assert", "child.ndim == 1", .invariant⟩,
  ⟨"namedtensor/stage1/tree.py", "List.__init__", "assert", "len(children) != 1", .invariant⟩,
  ⟨"namedtensor/stage1/tree.py", "List.__init__", "assert", "not isinstance(child, List)", .invariant⟩,
  ⟨"namedtensor/stage1/tree.py", "Args.__init__", "assert", "not isinstance(child, Args)", .invariant⟩,
  ⟨"namedtensor/stage1/tree.py", "Op.__init__", "assert", "len(children) >= 1", .invariant⟩,
  ⟨"namedtensor/stage2/cse.py", "_value_range", "raise AssertionError", "AssertionError()", .invariant⟩,
  ⟨"namedtensor/stage2/cse.py", "cse.replace", "assert", "len(exprlist) > 0", .invariant⟩,
  ⟨"namedtensor/stage2/cse.py", "cse.replace", "raise AssertionError", "AssertionError()", .invariant⟩,
  ⟨"namedtensor/stage2/solve.py", "solve", "assert", "missing_depth >= 0", .invariant⟩,
  ⟨"namedtensor/stage2/solve.py", "solve", "assert", "len(expansions[i]) >= 1", .invariant⟩,
  ⟨"namedtensor/stage2/solve.py", "solve", "raise AssertionError", "AssertionError(f'{expr}')", .invariant⟩,
  ⟨"namedtensor/stage2/solve.py", "solve", "assert", "expr_depths[id(root1)] == expr_depths[id(root2)]", .invariant⟩,
  ⟨"namedtensor/stage2/solve.py", "solve.map", "assert", "expansion >= 0", .invariant⟩,
  ⟨"namedtensor/stage2/solve.py", "solve.map", "raise AssertionError", "AssertionError(f'{expr}')", .invariant⟩,
  ⟨"namedtensor/stage2/tree.py", "FlattenedAxis.__init__", "assert", "not isinstance(inner, FlattenedAxis)", .invariant⟩,
  ⟨"namedtensor/stage2/tree.py", "List.__init__", "assert", "len(self.children) != 1", .invariant⟩,
  ⟨"namedtensor/stage2/tree.py", "List.__init__", "assert", "not isinstance(c, List)", .invariant⟩,
  ⟨"namedtensor/stage3/solve.py", "solve", "assert", "root1.ndim == root2.ndim", .reachable⟩,  -- einx.solve_axes("[a b]...", x)
  ⟨"namedtensor/stage3/solve.py", "solve.map", "assert", "id(expr) in axis_values and axis_values[id(expr)] > 0", .invariant⟩,
  ⟨"namedtensor/stage3/solve.py", "solve.map", "raise AssertionError", "AssertionError(type(expr))", .invariant⟩,
  ⟨"namedtensor/stage3/tree.py", "FlattenedAxis.__init__", "assert", "not isinstance(inner, FlattenedAxis)", .invariant⟩,
  ⟨"namedtensor/stage3/tree.py", "List.__init__", "assert", "len(children) != 1", .invariant⟩,
  ⟨"namedtensor/stage3/tree.py", "List.__init__", "assert", "not isinstance(c, List)", .invariant⟩,
  ⟨"namedtensor/util.py", "ExpressionIndicator.get_pos_for_literal", "assert", "all((p >= 0 and p < len(self.text) for p in pos))", .position⟩,
  ⟨"namedtensor/util.py", "ExpressionIndicator.get_pos_for_exprs", "assert", "all((p >= 0 and p < len(self.text) for p in pos))", .position⟩,
  ⟨"namedtensor/util.py", "ExpressionIndicator.get_pos_for_axisnames", "assert", "all((p >= 0 and p < len(self.text) for p in pos))", .position⟩,
  ⟨"namedtensor/util.py", "ExpressionIndicator.get_pos_for_ellipses", "assert", "all((p >= 0 and p < len(self.text) for p in pos))", .position⟩,
  ⟨"namedtensor/util.py", "ExpressionIndicator.get_pos_for_concat", "assert", "all((p >= 0 and p < len(self.text) for p in pos))", .position⟩,
  ⟨"namedtensor/util.py", "ExpressionIndicator.get_pos_for_brackets", "assert", "all((p >= 0 and p < len(self.text) for p in pos))", .position⟩,
  ⟨"util/solver.py", "solve", "assert", "t1.id in classes and t2.id in classes", .invariant⟩,
  ⟨"util/solver.py", "solve", "assert", "len(class_constants) > 0", .invariant⟩,
  ⟨"util/solver.py", "solve", "assert", "n not in origvar_to_solvevar", .invariant⟩,
  ⟨"util/solver.py", "solve.replace", "raise AssertionError", "AssertionError()", .invariant⟩,
  ⟨"util/solver.py", "solve", "raise AssertionError", "AssertionError('Sympy returned unexpected result')", .invariant⟩,
  ⟨"util/solver.py", "solve", "raise AssertionError", "AssertionError()", .invariant⟩
]

/-- Files of the front end (prefix match on the path relative to `einx/_src`). -/
def frontPrefixes : List String := ["frontend/", "namedtensor/", "util/solver.py", "adapter/einx_from_namedtensor.py"]

def inFront (file : String) : Bool := frontPrefixes.any (fun p => p.isPrefixOf file)

def isReviewed (s : Einx.Extracted.Site) : Bool :=
  reviewedSites.any (fun r => r.file == s.file && r.func == s.func && r.kind == s.kind && r.text == s.text)

end Einx.Errors
