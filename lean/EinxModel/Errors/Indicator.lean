import EinxModel.Notation.Parse
/-!
# C03 — model of `ExpressionIndicator` (`einx/_src/namedtensor/util.py`)

The error constructors of `einx.errors` (`SyntaxError`, `RankError`, `AxisSizeError`, `SemanticError`) receive caret
positions computed by `ExpressionIndicator.get_pos_for_*` from expression trees and `assert` that every position lies
inside the caller's description.  The functions below mirror the Python line by line on the stage-1 tree model of C12
(`Einx.Notation.Expr`, positions as `Int` because smart constructors create nodes at `-1`).

`None` roots (an equation side that is absent) are `Option.none`.  `get_pos_for_exprs` does not test for `None`
(the only call site passes an expression), so it takes plain expressions.
-/
namespace Einx.Errors
open Einx.Notation

mutual
/-- `expr.nodes()`: pre-order traversal (every class yields itself, then its children's nodes). -/
def nodes : Expr → List Expr
  | .axis n v b e => [.axis n v b e]
  | .flat i b e => .flat i b e :: nodes i
  | .brackets i b e => .brackets i b e :: nodes i
  | .ellipsis i id b e => .ellipsis i id b e :: nodes i
  | .concat cs b e => .concat cs b e :: nodesL cs
  | .list cs b e => .list cs b e :: nodesL cs
  | .args cs b e => .args cs b e :: nodesL cs
  | .op cs b e => .op cs b e :: nodesL cs
def nodesL : List Expr → List Expr
  | [] => []
  | c :: cs => nodes c ++ nodesL cs
end

/-- Nodes of all roots that are not `None`, in order (`for expr in exprs: if expr is not None: for expr in expr.nodes()`). -/
def rootNodes (roots : List (Option Expr)) : List Expr :=
  roots.flatMap (fun r => match r with | none => [] | some x => nodes x)

/-- `get_pos_for_exprs`: `range(expr.begin_pos, expr.end_pos)` of every root (no guard). -/
def posForExprs (roots : List Expr) : List Int :=
  roots.flatMap (fun x => posRange x.b x.e)

/-- Contribution of one node to `get_pos_for_axisnames`. -/
def axisnamePos (names : List Str) : Expr → List Int
  | .axis n _ b e => if names.contains n then posRange b e else []
  | _ => []

/-- `get_pos_for_axisnames` -/
def posForAxisnames (roots : List (Option Expr)) (names : List Str) : List Int :=
  (rootNodes roots).flatMap (axisnamePos names)

/-- Contribution of one node to `get_pos_for_ellipses`: `range(end_pos - 3, end_pos)` if `begin_pos >= 0`. -/
def ellipsisPos : Expr → List Int
  | .ellipsis _ _ b e => if 0 ≤ b then posRange (e - 3) e else []
  | _ => []

/-- `get_pos_for_ellipses` -/
def posForEllipses (roots : List (Option Expr)) : List Int :=
  (rootNodes roots).flatMap ellipsisPos

/-- Contribution of one node to `get_pos_for_concat`. -/
def concatPos : Expr → List Int
  | .concat _ b e => if 0 ≤ b then posRange b e else []
  | _ => []

/-- `get_pos_for_concat` -/
def posForConcat (roots : List (Option Expr)) : List Int :=
  (rootNodes roots).flatMap concatPos

/-- Contribution of one node to `get_pos_for_brackets`: `[begin_pos, end_pos - 1]` if `begin_pos >= 0`. -/
def bracketsPos : Expr → List Int
  | .brackets _ b e => if 0 ≤ b then [b, e - 1] else []
  | _ => []

/-- `get_pos_for_brackets` -/
def posForBrackets (roots : List (Option Expr)) : List Int :=
  (rootNodes roots).flatMap bracketsPos

/-- The test of `assert all(p >= 0 and p < len(text) for p in pos)` (indicator methods and error constructors). -/
def posAssert (len : Nat) (pos : List Int) : Bool :=
  pos.all (fun p => decide (0 ≤ p) && decide (p < (len : Int)))

/-- `ExpressionIndicator.create`: the quoted expression and a line of carets. -/
def create (text : Str) (pos : List Int) : Str :=
  lit "Expression: \"" ++ text ++ lit "\"\n" ++ List.replicate 13 ' ' ++
    (List.range text.length).map (fun i => if pos.contains (Int.ofNat i) then '^' else ' ')

/-- Decidable form of the extra invariant `get_pos_for_ellipses` needs: an ellipsis node with a source position ends at least
    three characters into the string (its last token is `...`) and inside it. -/
def ellNodeOK (len : Nat) : Expr → Bool
  | .ellipsis _ _ b e => decide (b < 0) || (decide (3 ≤ e) && decide (e ≤ (len : Int)))
  | _ => true

def ellOK (len : Nat) (x : Expr) : Bool := (nodes x).all (ellNodeOK len)

/-! ## The tree rewrites of `_parse_op` whose results are handed to the indicator

`stage1.map(expr, _map, include_children=False)` (`stage1/transform.py`): a node for which `_map` returns a replacement is
replaced (the replacement is not visited); every other node is rebuilt by its smart constructor *with the node's own
positions*.  `Args`/`Op` are rebuilt by their plain constructors. -/

mutual
def mapExpr (f : Expr → Option Expr) : Expr → Expr
  | .axis n v b e => match f (.axis n v b e) with | some y => y | none => .axis n v b e
  | .flat i b e => match f (.flat i b e) with | some y => y | none => mkFlat (mapExpr f i) b e
  | .brackets i b e => match f (.brackets i b e) with | some y => y | none => mkBrackets (mapExpr f i) b e
  | .ellipsis i id b e => match f (.ellipsis i id b e) with | some y => y | none => mkEllipsis (mapExpr f i) b e id
  | .concat cs b e => match f (.concat cs b e) with | some y => y | none => mkConcat (mapExprL f cs) b e
  | .list cs b e => match f (.list cs b e) with | some y => y | none => mkList (mapExprL f cs) b e
  | .args cs b e => match f (.args cs b e) with | some y => y | none => .args (mapExprL f cs) b e
  | .op cs b e => match f (.op cs b e) with | some y => y | none => .op (mapExprL f cs) b e
def mapExprL (f : Expr → Option Expr) : List Expr → List Expr
  | [] => []
  | c :: cs => mapExpr f c :: mapExprL f cs
end

/-- `stage1.remove(expr, stage1.Brackets, keep_children=False)`: implicit output of reductions (`"a [b]"` ↦ `"a"`). -/
def removeBrackets : Expr → Expr :=
  mapExpr (fun x => match x with | .brackets .. => some emptyList | _ => none)

/-- `_to_output` of `_parse_op`: the single bracket of an `argmax`-style input becomes `[output.axis]` (all positions `-1`). -/
def toOutput : Expr → Expr :=
  mapExpr (fun x => match x with
    | .brackets .. => some (mkBrackets (.axis (lit "output.axis") none (-1) (-1)) (-1) (-1))
    | _ => none)

/-- `mark_reduced_axes`: every axis whose name is not in the output is wrapped in `Brackets(axis)` (positions `-1`). -/
def markAxes (outNames : List Str) : Expr → Expr :=
  mapExpr (fun x => match x with
    | .axis n v b e => if outNames.contains n then none else some (.brackets (.axis n v b e) (-1) (-1))
    | _ => none)

end Einx.Errors
