import EinxModel.Extracted.Errors
/-!
# C03 — classification of what an einx entry point raised (the rule the harness applies)

Input: the qualified names of `type(e).__mro__`, and where the exception was raised:

* `caller`     no einx frame in the traceback (the interpreter rejected the call itself, e.g. a missing positional argument);
* `einxRaise`  the innermost traceback frame is einx code and the statement at that line is a `raise` statement;
* `einxOther`  the innermost frame is einx code but the line is not a `raise` (e.g. `int(t)` failing inside einx);
* `foreign`    the innermost frame is not einx code (numpy, sympy, the standard library).

Rule for the built-in `ValueError`/`TypeError`, which the property documents only "for wrong argument counts/types": they are
accepted iff they come from the interpreter's own call protocol (`caller`) or from a `raise` statement in one of einx's
*argument validation functions* (`argSites`: signature binding and tensor-type checks of `frontend/api.py`, the tensor
argument check of `frontend/util.py`, backend-argument checks of `frontend/backend.py`, the description-type and
tensor-count checks of `einx_from_namedtensor._parse_op`/`op.inner`, the count/constraint-type checks of
`namedtensor/solve.py:solve` and the constraint-value checks of `stage2/solve.py:_input_expr`).  A `ValueError`/`TypeError`
escaping from numpy/sympy internals, from a non-`raise` line of einx, or from an internal constructor of einx (e.g.
`stage2.Axis.__init__`) is *not* documented.
-/
namespace Einx.Errors

inductive Origin where | caller | einxRaise | einxOther | foreign
deriving Repr, DecidableEq, Inhabited

inductive Verdict where
  | documented    -- one of the six einx.errors classes the property names
  | runtime       -- einx.errors.CallOperationError: the compiled function ran and failed
  | argument      -- ValueError/TypeError from argument validation
  | internal      -- one of the eight internal exception types the property forbids
  | undocumented  -- anything else
deriving Repr, DecidableEq, Inhabited

/-- The classes the property text lists (module `einx.errors`). -/
def documentedClasses : List String :=
  ["SyntaxError", "RankError", "AxisSizeError", "SemanticError", "OperationNotSupportedError", "BackendResolutionError"]

/-- The internal exception types the property text lists (module `builtins`). -/
def internalClasses : List String :=
  ["AssertionError", "NameError", "KeyError", "IndexError", "AttributeError", "RecursionError", "UnboundLocalError", "NotImplementedError"]

/-- (file relative to `einx/_src`, enclosing function) of einx's argument validation. -/
def argSites : List (String × String) :=
  [("frontend/api.py", "_split_tensors"), ("frontend/api.py", "_to_tracer"), ("frontend/util.py", "_get_shape"),
   ("frontend/backend.py", "BackendRegistryState._register"), ("frontend/backend.py", "BackendRegistryState._get_by_name"),
   ("frontend/backend.py", "BackendRegistryState._get"),
   ("adapter/einx_from_namedtensor.py", "_parse_op"), ("adapter/einx_from_namedtensor.py", "op.inner"),
   ("namedtensor/solve.py", "solve"), ("namedtensor/stage2/solve.py", "_input_expr"),
   -- the tensor-count check of the fixed-arity numpy elementwise wrappers ("expects 2 input tensors, but 3 were given")
   ("adapter/numpy/classical_from_numpy.py", "elementwise.inner")]

structure Raised where
  mro : List String
  origin : Origin
  file : String
  func : String
deriving Repr, DecidableEq, Inhabited

def isDocumented (r : Raised) : Bool := r.mro.any (fun c => documentedClasses.any (fun d => c == "einx.errors." ++ d))
def isRuntime (r : Raised) : Bool := r.mro.contains "einx.errors.CallOperationError"
def isInternal (r : Raised) : Bool := r.mro.any (fun c => internalClasses.any (fun d => c == "builtins." ++ d))
def isArgType (r : Raised) : Bool := r.mro.contains "builtins.ValueError" || r.mro.contains "builtins.TypeError"
def argAccepted (r : Raised) : Bool :=
  r.origin == .caller || (r.origin == .einxRaise && argSites.contains (r.file, r.func))

/-- The verdict the harness applies to every exception it observes. -/
def classify (r : Raised) : Verdict :=
  if isDocumented r then .documented
  else if isRuntime r then .runtime
  else if isInternal r then .internal
  else if isArgType r && argAccepted r then .argument
  else .undocumented

/-- Declarative reading of each verdict (what the check means by it). -/
def Holds (r : Raised) : Verdict → Prop
  | .documented => isDocumented r = true
  | .runtime => isDocumented r = false ∧ isRuntime r = true
  | .internal => isDocumented r = false ∧ isRuntime r = false ∧ isInternal r = true
  | .argument => isDocumented r = false ∧ isRuntime r = false ∧ isInternal r = false ∧ isArgType r = true ∧ argAccepted r = true
  | .undocumented => isDocumented r = false ∧ isRuntime r = false ∧ isInternal r = false ∧ (isArgType r = false ∨ argAccepted r = false)

/-- Clause (a)/(c): is this exception acceptable when a call is rejected? (`runtime` is acceptable only for calls that are not
    ill-formed by construction — the harness decides that; here it is not an accepted *rejection*.) -/
def acceptedRejection : Verdict → Bool
  | .documented | .argument => true
  | _ => false

/-! ## The extracted class hierarchy -/

open Einx.Extracted in
/-- Qualified names of the linearised ancestors of class `name` of `errors.py` (depth-first; enough for membership tests).
    Classes defined in the file are exported to module `einx.errors`; every other base name is a builtin. -/
def mroOf (cs : List ErrorClass) : Nat → String → List String
  | 0, name => [name]
  | fuel + 1, name =>
    match cs.find? (fun c => c.name == name) with
    | none => ["builtins." ++ name]
    | some c => ("einx.errors." ++ name) :: c.bases.flatMap (mroOf cs fuel)

def einxMro (name : String) : List String :=
  mroOf Einx.Extracted.errorClasses Einx.Extracted.errorClasses.length name

/-- A `Raised` record for an einx class raised by einx itself. -/
def raisedEinx (name : String) : Raised := ⟨einxMro name, .einxRaise, "", ""⟩

end Einx.Errors
