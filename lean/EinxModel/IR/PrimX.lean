import EinxModel.IR.Generic
/-
M5 (extended primitive table): reductions, einsum, matmul, flip, roll, argmax/argmin, sort/argsort, arange,
take on top of `Instr`.

Permutation-invariant reductions are modelled as an uninterpreted function `red:<f>` applied to the
*sorted* list of the reduced cells (a canonical representative of the multiset); a reduction or product
over a single cell is that cell.  These are modelling decisions about numpy (integer arithmetic is exact;
floating-point results are equal up to re-association) and live in the trusted primitive table; the
soundness theorem `validateG_sound` holds for any plan function.
-/
namespace Einx.IR
open Einx

mutual
def Cell.cmp : Cell → Cell → Ordering
  | .src r k, .src r' k' => (compare r r').then (compare k k')
  | .src _ _, _ => .lt
  | _, .src _ _ => .gt
  | .lit i, .lit j => compare i j
  | .lit _, _ => .lt
  | _, .lit _ => .gt
  | .app f as, .app g bs => (compare f g).then (Cell.cmpL as bs)
  | .app _ _, .bad => .lt
  | .bad, .app _ _ => .gt
  | .bad, .bad => .eq
def Cell.cmpL : List Cell → List Cell → Ordering
  | [], [] => .eq
  | [], _ :: _ => .lt
  | _ :: _, [] => .gt
  | a :: as, b :: bs => (Cell.cmp a b).then (Cell.cmpL as bs)
end

/-- Insertion into a sorted list (structural recursion, so that closed instances reduce in the kernel). -/
def insertCell (c : Cell) : List Cell → List Cell
  | [] => [c]
  | d :: ds => if Cell.cmp c d != .gt then c :: d :: ds else d :: insertCell c ds

def sortCells (cs : List Cell) : List Cell := cs.foldr insertCell []

/-- Canonical reduction cell. -/
def mkRed (f : String) (cs : List Cell) : Cell :=
  match cs with
  | [c] => c
  | _ => .app ("red:" ++ f) (sortCells cs)

/-- Canonical product cell: the left fold of the binary `multiply` over the factors in operand order (the same cell as the
n-ary elementwise `multiply` denotes, so a product computed by one `einsum` call and one computed by a chain of
`np.multiply` calls are the same symbolic value).  The empty product keeps the n-ary form (never produced by a plan). -/
def mkProd (cs : List Cell) : Cell :=
  match cs with
  | [] => .app "multiply" []
  | c :: rest => rest.foldl (fun acc d => .app "multiply" [acc, d]) c

inductive InstrX where
  | base (i : Instr)
  | reduce (f : String) (x : Nat) (axes : List Nat) (keepdims : Bool)
  | einsum (specIn : List (List Nat)) (specOut : List Nat) (xs : List Nat)
  | matmul (x y : Nat)
  | flip (x : Nat) (axes : List Nat)
  | roll (x : Nat) (shifts : List Int) (axes : List Nat)
  | argfind (f : String) (x axis : Nat)      -- `np.argmax` / `np.argmin` along one axis (`f` = "argmax" | "argmin")
  | sortAxis (f : String) (x axis : Nat)     -- `np.sort` / `np.argsort` along one axis (`f` = "sort" | "argsort")
  | arange (n : Nat)                         -- `np.arange(n)`
  | take (x idx : Nat)                       -- `np.take(x, idx)`: `x` is read in flattened (row-major) order
deriving Repr, Inhabited

/-- All multi-indices of a shape, row-major. -/
def allIndices (s : List Nat) : List (List Nat) := (List.range (prod s)).map (unravel s)

def lookupLabel (labels : List Nat) (vals : List Nat) (l : Nat) : Nat :=
  match labels.idxOf? l with
  | some i => vals.getD i 0
  | none => 0

def planInstrX (shapes : List (List Nat)) : InstrX → E Plan
  | .base i => planInstr shapes i
  | .reduce f x axes keepdims => do
    let sx ← getShape shapes x
    if !axes.all (· < sx.length) || axes.eraseDups.length != axes.length then throw "reduce: invalid axes"
    let kept := (List.range sx.length).filter (fun a => !axes.contains a)
    let red := (List.range sx.length).filter (fun a => axes.contains a)
    let so := if keepdims then (List.range sx.length).map (fun a => if axes.contains a then 1 else sx.getD a 0)
              else kept.map (fun a => sx.getD a 0)
    let redShape := red.map (fun a => sx.getD a 0)
    pure (tabulate so (fun o =>
      let ok := if keepdims then kept.map (fun a => o.getD a 0) else o
      mkRed f ((allIndices redShape).map (fun τ =>
        .src x (ravel sx ((List.range sx.length).map (fun a =>
          match kept.idxOf? a with
          | some i => ok.getD i 0
          | none => τ.getD ((red.idxOf? a).getD 0) 0)))))))
  | .einsum specIn specOut xs => do
    let ss ← xs.mapM (getShape shapes)
    if specIn.length != xs.length then throw "einsum: operand count"
    if !(List.zip specIn ss).all (fun (l, s) => l.length == s.length) then throw "einsum: rank mismatch"
    -- label sizes (must be consistent)
    let pairs := (List.zip specIn ss).flatMap (fun (l, s) => List.zip l s)
    let labels := (pairs.map (·.1)).eraseDups
    let sizeOf (l : Nat) : Nat := ((pairs.find? (·.1 == l)).map (·.2)).getD 0
    if !pairs.all (fun (l, n) => sizeOf l == n) then throw "einsum: inconsistent label sizes"
    if !specOut.all (labels.contains ·) || specOut.eraseDups.length != specOut.length then throw "einsum: invalid output labels"
    let contracted := labels.filter (fun l => !specOut.contains l)
    let so := specOut.map sizeOf
    let cshape := contracted.map sizeOf
    pure (tabulate so (fun o =>
      mkRed "sum" ((allIndices cshape).map (fun τ =>
        mkProd ((List.zip (List.zip specIn ss) xs).map (fun ((l, s), r) =>
          .src r (ravel s (l.map (fun lab =>
            if specOut.contains lab then lookupLabel specOut o lab else lookupLabel contracted τ lab)))))))))
  | .matmul x y => do
    let sx ← getShape shapes x
    let sy ← getShape shapes y
    if sx.length != sy.length || sx.length < 2 then throw "matmul: ranks"
    let n := sx.length
    let k := sx.getD (n - 1) 0
    if sy.getD (n - 2) 0 != k then throw "matmul: inner dimensions differ"
    let bx := sx.take (n - 2)
    let by' := sy.take (n - 2)
    let bo ← broadcastShapes [bx, by']
    let so := bo ++ [sx.getD (n - 2) 0, sy.getD (n - 1) 0]
    pure (tabulate so (fun o =>
      let b := o.take (n - 2)
      let i := o.getD (n - 2) 0
      let j := o.getD (n - 1) 0
      mkRed "sum" ((List.range k).map (fun kk =>
        mkProd [.src x (ravel sx (broadcastIndex bx bo b ++ [i, kk])),
                .src y (ravel sy (broadcastIndex by' bo b ++ [kk, j]))]))))
  | .flip x axes => do
    let sx ← getShape shapes x
    if !axes.all (· < sx.length) then throw "flip: invalid axes"
    pure (tabulate sx (fun o =>
      .src x (ravel sx ((List.zip o sx).zipIdx.map (fun ((i, d), a) => if axes.contains a then d - 1 - i else i)))))
  | .roll x shifts axes => do
    let sx ← getShape shapes x
    if shifts.length != axes.length || !axes.all (· < sx.length) then throw "roll: invalid arguments"
    -- numpy applies the shifts cumulatively per axis
    let shiftOf (a : Nat) : Int := (List.zip shifts axes).foldl (fun acc (s, ax) => if ax == a then acc + s else acc) 0
    pure (tabulate sx (fun o =>
      .src x (ravel sx ((List.zip o sx).zipIdx.map (fun ((i, d), a) =>
        if d == 0 then 0 else ((((i : Int) - shiftOf a) % (d : Int)).toNat))))))
  | .argfind f x axis => do
    -- The index of the first extremum is a function of the *ordered* line of values: the cell is the
    -- uninterpreted symbol `f` applied to the cells of the line in order (no sorting).
    let sx ← getShape shapes x
    if axis ≥ sx.length then throw "argfind: invalid axis"
    let n := sx.getD axis 0
    if n == 0 then throw "argfind: empty axis"
    pure (tabulate (removeAt sx axis) (fun o =>
      .app f ((List.range n).map (fun i => .src x (ravel sx (o.take axis ++ [i] ++ o.drop axis))))))
  | .sortAxis f x axis => do
    -- Output position `j` along `axis` is the symbol `f:j` (j-th smallest / index of the j-th smallest)
    -- applied to the cells of the line in order.
    let sx ← getShape shapes x
    if axis ≥ sx.length then throw "sort: invalid axis"
    let n := sx.getD axis 0
    pure (tabulate sx (fun o =>
      .app (f ++ ":" ++ toString (o.getD axis 0)) ((List.range n).map (fun i => .src x (ravel sx (o.set axis i))))))
  | .arange n => pure ⟨[n], (List.range n).map (fun i => .lit (Int.ofNat i))⟩
  | .take x idx => do
    -- Data-dependent read: the symbol `take` applied to the index cell followed by all cells of the
    -- flattened source (meaning: select by the integer value of the first argument).
    let sx ← getShape shapes x
    let si ← getShape shapes idx
    if prod sx == 0 && prod si != 0 then throw "take: cannot take from an empty tensor"
    let all := (List.range (prod sx)).map (fun k => Cell.src x k)
    pure ⟨si, (List.range (prod si)).map (fun k => .app "take" (.src idx k :: all))⟩

end Einx.IR
