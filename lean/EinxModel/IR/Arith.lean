import EinxModel.IR.PrimX
/-
M5 (arithmetic normalisation): index arithmetic that einx emits for get_at (`np.add` / `np.multiply` of
coordinate tensors, integer literals and `np.arange` terms) may be associated and ordered in many
equivalent ways.  `normArith` rewrites every cell into a canonical polynomial form -- a sum of products
over the non-arithmetic sub-cells ("atoms"), constants folded, equal monomials collected, zero terms
dropped, factors and terms sorted by `Cell.cmp` -- recursively inside the arguments of every other
function symbol (so that the index argument of `take` is normalised).  `validateArith` compares the
normalised symbolic result with the normalised denotation; it is sound for every interpretation in
which `add` / `multiply` are the integer operations (`Props/C01.lean: validate_sound_arith`).
-/
namespace Einx.IR
open Einx

/-- A monomial: integer coefficient and the (sorted) list of its atoms. -/
abbrev Mono := Int × List Cell
/-- A polynomial: a list of monomials (their sum). -/
abbrev Poly := List Mono

/-- Add a monomial to a polynomial, collecting it with a monomial over the same atoms if there is one. -/
def addMono (m : Mono) : Poly → Poly
  | [] => [m]
  | n :: ns => if Cell.beqL m.2 n.2 then (m.1 + n.1, n.2) :: ns else n :: addMono m ns

def padd (p q : Poly) : Poly := p.foldr addMono q

def mulMono (m n : Mono) : Mono := (m.1 * n.1, m.2.foldr insertCell n.2)

def pmul (p q : Poly) : Poly := p.foldr (fun m acc => padd (q.map (mulMono m)) acc) []

def insertMono (m : Mono) : Poly → Poly
  | [] => [m]
  | n :: ns => if Cell.cmpL m.2 n.2 != .gt then m :: n :: ns else n :: insertMono m ns

/-- Drop zero monomials and sort by the atoms. -/
def canon (p : Poly) : Poly := (p.filter (fun m => m.1 != 0)).foldr insertMono []

/-- Left-nested application of a binary symbol: `f (.. (f (f c d₁) d₂) ..) d_n`. -/
def foldApp (f : String) (c : Cell) (ds : List Cell) : Cell := ds.foldl (fun acc d => .app f [acc, d]) c

def monoCell (m : Mono) : Cell :=
  match m.2 with
  | [] => .lit m.1
  | a :: as => if m.1 == 1 then foldApp "multiply" a as else foldApp "multiply" (.lit m.1) (a :: as)

def polyCell (p : Poly) : Cell :=
  match canon p with
  | [] => .lit 0
  | m :: ms => foldApp "add" (monoCell m) (ms.map monoCell)

mutual
/-- The polynomial of a cell over its non-arithmetic sub-cells (whose arguments are normalised recursively). -/
def toPoly : Cell → Poly
  | .src r k => [(1, [.src r k])]
  | .lit i => [(i, [])]
  | .bad => [(1, [.bad])]
  | .app f args =>
    let ps := toPolyL args
    match ps with
    | [p, q] =>
      if f == "add" then padd p q
      else if f == "multiply" then pmul p q
      else [(1, [.app f (ps.map polyCell)])]
    | _ => [(1, [.app f (ps.map polyCell)])]
def toPolyL : List Cell → List Poly
  | [] => []
  | c :: cs => toPoly c :: toPolyL cs
end

/-- Canonical polynomial form of the integer arithmetic inside a cell. -/
def normArith (c : Cell) : Cell := polyCell (toPoly c)

def normTensor (t : Tensor Cell) : Tensor Cell := ⟨t.shape, t.data.map normArith⟩

/-- The validator modulo integer arithmetic: the program's symbolic result and the expected symbolic
tensors have the same normal form. -/
def validateArith {ι : Type} (planOf : List (List Nat) → ι → E Plan) (prog : List ι) (inShapes : List (List Nat))
    (outs : List Nat) (expected : List (Tensor Cell)) : Bool :=
  match symRunG planOf prog inShapes outs with
  | .ok res => tensorsBeq (res.map normTensor) (expected.map normTensor)
  | .error _ => false

end Einx.IR
