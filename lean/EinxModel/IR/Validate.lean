import EinxModel.IR.Prim
import EinxModel.Denote.Expr
/-
M5 (validator): symbolic execution of a straight-line program on symbolic inputs and comparison with
the symbolic denotation.
-/
namespace Einx.IR
open Einx

/-- The symbolic input tensor number `i` of shape `s`: element `k` is the cell `src i k`. -/
def symInput (i : Nat) (s : List Nat) : Tensor Cell := ⟨s, (List.range (prod s)).map (fun k => .src i k)⟩

def symInputs (shapes : List (List Nat)) : List (Tensor Cell) :=
  shapes.zipIdx.map (fun (s, i) => symInput i s)

def Tensor.beq (a b : Tensor Cell) : Bool := a.shape == b.shape && Cell.beqL a.data b.data

def tensorsBeq : List (Tensor Cell) → List (Tensor Cell) → Bool
  | [], [] => true
  | a :: as, b :: bs => Tensor.beq a b && tensorsBeq as bs
  | _, _ => false

def selectRegs {α : Type} (regs : List (Tensor α)) : List Nat → Option (List (Tensor α))
  | [] => some []
  | r :: rs =>
    match regs[r]?, selectRegs regs rs with
    | some t, some ts => some (t :: ts)
    | _, _ => none

/-- Run `prog` on symbolic inputs of the given shapes and select the output registers. -/
def symRun (prog : List Instr) (inShapes : List (List Nat)) (outs : List Nat) : E (List (Tensor Cell)) := do
  let regs ← evalProg symAlg prog (symInputs inShapes)
  match selectRegs regs outs with
  | some ts => pure ts
  | none => throw "output register undefined"

/-- The validator: the program's symbolic result equals the expected symbolic tensors. -/
def validate (prog : List Instr) (inShapes : List (List Nat)) (outs : List Nat) (expected : List (Tensor Cell)) : Bool :=
  match symRun prog inShapes outs with
  | .ok res => tensorsBeq res expected
  | .error _ => false

end Einx.IR
