import EinxModel.IR.Validate
/-
M5 (generic executor): straight-line programs over *any* instruction type whose meaning is given by a
plan function of the operand shapes.  Naturality and validator soundness are proved once here, for every
instruction set; `IR/PrimX.lean` instantiates it with the extended numpy primitive table.
-/
namespace Einx.IR
open Einx

/-- Execute a straight-line program over instruction type `ι`: every instruction appends one register. -/
def evalProgG {ι α : Type} (planOf : List (List Nat) → ι → E Plan) (A : Alg α) :
    List ι → List (Tensor α) → E (List (Tensor α))
  | [], regs => pure regs
  | i :: is, regs => do
    let p ← planOf (regs.map (·.shape)) i
    evalProgG planOf A is (regs ++ [runPlan A regs p])

def symRunG {ι : Type} (planOf : List (List Nat) → ι → E Plan) (prog : List ι) (inShapes : List (List Nat))
    (outs : List Nat) : E (List (Tensor Cell)) := do
  let regs ← evalProgG planOf symAlg prog (symInputs inShapes)
  match selectRegs regs outs with
  | some ts => pure ts
  | none => throw "output register undefined"

def validateG {ι : Type} (planOf : List (List Nat) → ι → E Plan) (prog : List ι) (inShapes : List (List Nat))
    (outs : List Nat) (expected : List (Tensor Cell)) : Bool :=
  match symRunG planOf prog inShapes outs with
  | .ok res => tensorsBeq res expected
  | .error _ => false

/-- Two programs (e.g. a graph before and after optimisation) are symbolically equivalent. -/
def equivG {ι : Type} (planOf : List (List Nat) → ι → E Plan) (p1 p2 : List ι) (inShapes : List (List Nat))
    (outs1 outs2 : List Nat) : Bool :=
  match symRunG planOf p1 inShapes outs1, symRunG planOf p2 inShapes outs2 with
  | .ok r1, .ok r2 => tensorsBeq r1 r2
  | _, _ => false

end Einx.IR
