import EinxModel.IR.Cell
/-
M5 (primitives): the numpy primitives that einx's generated code uses, as *plans*.  Each plan is a
function of the operand shapes only; its conformance with real numpy is checked on every run by the
primitive conformance stream (tools/props/c01.py), its use is proved sound once and for all by
`evalCell_map` (naturality).
-/
namespace Einx.IR

inductive Arg where
  | reg (r : Nat)
  | lit (i : Int)
deriving Repr, Inhabited, DecidableEq

inductive Key where
  | idx (i : Nat)       -- integer index: the dimension disappears
  | all                 -- `slice(None)`
  | newaxis             -- `None`
deriving Repr, Inhabited, DecidableEq

inductive Instr where
  | reshape (x : Nat) (shape : List Nat)
  | transpose (x : Nat) (perm : List Nat)
  | broadcastTo (x : Nat) (shape : List Nat)
  | diagonal (x : Nat) (a1 a2 : Nat)
  | concat (xs : List Nat) (axis : Nat)
  | slice (x : Nat) (axis lo hi : Nat)
  | index (x : Nat) (key : List Key)
  | ewise (f : String) (args : List Arg)
deriving Repr, Inhabited

abbrev E := Except String

def getShape (shapes : List (List Nat)) (r : Nat) : E (List Nat) :=
  match shapes[r]? with
  | some s => pure s
  | none => throw s!"register {r} undefined"

/-- All cells of a result of shape `s` whose element at multi-index `o` is `f o`. -/
def tabulate (s : List Nat) (f : List Nat → Cell) : Plan :=
  ⟨s, (List.range (prod s)).map (fun k => f (unravel s k))⟩

def isPerm (perm : List Nat) (n : Nat) : Bool :=
  perm.length == n && (List.range n).all (fun i => perm.contains i)

/-- numpy broadcasting of a shape `s` to a target `t` (trailing alignment). -/
def broadcastable (s t : List Nat) : Bool :=
  s.length ≤ t.length &&
    (List.zip s (t.drop (t.length - s.length))).all (fun (a, b) => a == b || a == 1)

/-- Index into a tensor of shape `s` that is read when the broadcast result is read at `o`. -/
def broadcastIndex (s t : List Nat) (o : List Nat) : List Nat :=
  (List.zip s (o.drop (t.length - s.length))).map (fun (a, i) => if a == 1 then 0 else i)

def broadcastShapes : List (List Nat) → E (List Nat)
  | [] => pure []
  | s :: ss => do
    let t ← broadcastShapes ss
    let n := max s.length t.length
    let s' := List.replicate (n - s.length) 1 ++ s
    let t' := List.replicate (n - t.length) 1 ++ t
    (List.zip s' t').mapM (fun (a, b) =>
      if a == b then pure a else if a == 1 then pure b else if b == 1 then pure a
      else throw s!"shapes {s} and {t} cannot be broadcast")

def removeAt {α : Type} (l : List α) (i : Nat) : List α := l.take i ++ l.drop (i + 1)

def planInstr (shapes : List (List Nat)) : Instr → E Plan
  | .reshape x s => do
    let sx ← getShape shapes x
    if prod sx != prod s then throw s!"reshape: {sx} -> {s} changes the number of elements"
    pure ⟨s, (List.range (prod s)).map (fun k => .src x k)⟩
  | .transpose x perm => do
    let sx ← getShape shapes x
    if !isPerm perm sx.length then throw s!"transpose: {perm} is not a permutation of rank {sx.length}"
    let so := perm.map (fun a => sx.getD a 0)
    pure (tabulate so (fun o =>
      .src x (ravel sx ((List.range sx.length).map (fun a => o.getD (perm.idxOf a) 0)))))
  | .broadcastTo x s => do
    let sx ← getShape shapes x
    if !broadcastable sx s then throw s!"broadcast_to: {sx} -> {s}"
    pure (tabulate s (fun o => .src x (ravel sx (broadcastIndex sx s o))))
  | .diagonal x a1 a2 => do
    let sx ← getShape shapes x
    if a1 == a2 || a1 ≥ sx.length || a2 ≥ sx.length then throw "diagonal: invalid axes"
    if sx.getD a1 0 != sx.getD a2 0 then throw "diagonal: axes of different length"
    let lo := min a1 a2
    let hi := max a1 a2
    let rest := removeAt (removeAt sx hi) lo
    let so := rest ++ [sx.getD a1 0]
    pure (tabulate so (fun o =>
      let d := o.getD rest.length 0
      -- re-insert the diagonal index at the two removed positions
      let i := (o.take rest.length)
      let i := i.take lo ++ [d] ++ i.drop lo
      let i := i.take hi ++ [d] ++ i.drop hi
      .src x (ravel sx i)))
  | .concat xs axis => do
    let ss ← xs.mapM (getShape shapes)
    match ss with
    | [] => throw "concatenate: no operands"
    | s0 :: _ =>
      if axis ≥ s0.length then throw "concatenate: invalid axis"
      if !ss.all (fun s => s.length == s0.length && removeAt s axis == removeAt s0 axis) then
        throw s!"concatenate: incompatible shapes {ss}"
      let total := (ss.map (fun s => s.getD axis 0)).foldl (· + ·) 0
      let so := s0.set axis total
      -- locate the operand that holds position `p` along `axis`
      let rec find (ops : List (Nat × List Nat)) (p : Nat) : Option (Nat × List Nat × Nat) :=
        match ops with
        | [] => none
        | (r, s) :: rest =>
          let n := s.getD axis 0
          if p < n then some (r, s, p) else find rest (p - n)
      pure (tabulate so (fun o =>
        match find (List.zip xs ss) (o.getD axis 0) with
        | some (r, s, p) => .src r (ravel s (o.set axis p))
        | none => .bad))
  | .slice x axis lo hi => do
    let sx ← getShape shapes x
    if axis ≥ sx.length || lo > hi || hi > sx.getD axis 0 then throw "slice: out of range"
    let so := sx.set axis (hi - lo)
    pure (tabulate so (fun o => .src x (ravel sx (o.set axis (o.getD axis 0 + lo)))))
  | .index x key => do
    let sx ← getShape shapes x
    if (key.filter (· != .newaxis)).length != sx.length then throw "getitem: key length must equal the rank"
    -- walk key and input shape together
    let rec outShape (key : List Key) (s : List Nat) : E (List Nat) :=
      match key, s with
      | [], _ => pure []
      | .newaxis :: ks, s => do pure (1 :: (← outShape ks s))
      | .all :: ks, d :: s => do pure (d :: (← outShape ks s))
      | .idx i :: ks, d :: s => do
        if i ≥ d then throw "getitem: index out of range"
        outShape ks s
      | _, [] => throw "getitem: too many indices"
    let so ← outShape key sx
    let rec inIndex (key : List Key) (o : List Nat) : List Nat :=
      match key, o with
      | [], _ => []
      | .newaxis :: ks, _ :: o => inIndex ks o
      | .all :: ks, i :: o => i :: inIndex ks o
      | .idx i :: ks, o => i :: inIndex ks o
      | _, [] => []
    pure (tabulate so (fun o => .src x (ravel sx (inIndex key o))))
  | .ewise f args => do
    let ss ← args.filterMapM (fun a => match a with
      | .reg r => do pure (some (← getShape shapes r))
      | .lit _ => pure none)
    if ss.isEmpty then throw "elementwise: needs at least one tensor operand"
    let so ← broadcastShapes ss
    pure (tabulate so (fun o =>
      .app f (args.map (fun a => match a with
        | .reg r =>
          let s := (shapes[r]?).getD []
          .src r (ravel s (broadcastIndex s so o))
        | .lit i => .lit i))))

/-- Execute a straight-line program: every instruction appends one register. -/
def evalProg {α : Type} (A : Alg α) : List Instr → List (Tensor α) → E (List (Tensor α))
  | [], regs => pure regs
  | i :: is, regs => do
    let p ← planInstr (regs.map (·.shape)) i
    evalProg A is (regs ++ [runPlan A regs p])

end Einx.IR
