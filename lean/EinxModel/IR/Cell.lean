import EinxModel.Basic.Index
/-
M5 (core): cells, element algebras, tensors, plans.

Every primitive of the IR is compiled -- from the *shapes* of its operands only -- into a `Plan`: for each
element of the result a `Cell` saying how it is obtained from elements of the operand registers
(`src r k` = element `k` of register `r`), integer literals and applications of uninterpreted elementary
functions.  One generic executor runs plans over any element algebra; the symbolic instance (cells over
the graph inputs) is what the validator compares, the `Int` instance is what is compared with numpy.
-/
namespace Einx.IR

inductive Cell where
  | src (r k : Nat)
  | lit (i : Int)
  | app (f : String) (args : List Cell)
  | bad                       -- out-of-range read (never produced by a well-formed plan)
deriving Repr, Inhabited

mutual
def Cell.beq : Cell → Cell → Bool
  | .src r k, .src r' k' => r == r' && k == k'
  | .lit i, .lit j => i == j
  | .app f as, .app g bs => f == g && Cell.beqL as bs
  | .bad, .bad => true
  | _, _ => false
def Cell.beqL : List Cell → List Cell → Bool
  | [], [] => true
  | a :: as, b :: bs => Cell.beq a b && Cell.beqL as bs
  | _, _ => false
end

mutual
theorem Cell.beq_eq : ∀ (a b : Cell), Cell.beq a b = true → a = b
  | .src r k, .src r' k', h => by simp [Cell.beq] at h; simp [h]
  | .lit i, .lit j, h => by simp [Cell.beq] at h; simp [h]
  | .app f as, .app g bs, h => by
    simp [Cell.beq] at h
    have := Cell.beqL_eq as bs h.2
    simp [h.1, this]
  | .bad, .bad, _ => rfl
  | .src _ _, .lit _, h | .src _ _, .app _ _, h | .src _ _, .bad, h
  | .lit _, .src _ _, h | .lit _, .app _ _, h | .lit _, .bad, h
  | .app _ _, .src _ _, h | .app _ _, .lit _, h | .app _ _, .bad, h
  | .bad, .src _ _, h | .bad, .lit _, h | .bad, .app _ _, h => by simp [Cell.beq] at h
theorem Cell.beqL_eq : ∀ (as bs : List Cell), Cell.beqL as bs = true → as = bs
  | [], [], _ => rfl
  | a :: as, b :: bs, h => by
    simp [Cell.beqL] at h
    rw [Cell.beq_eq a b h.1, Cell.beqL_eq as bs h.2]
  | [], _ :: _, h | _ :: _, [], h => by simp [Cell.beqL] at h
end

/-- An element algebra: how literals and elementary functions act on elements of type `α`. -/
structure Alg (α : Type) where
  lit : Int → α
  app : String → List α → α
  bad : α

/-- `h` is a homomorphism of element algebras. -/
structure Hom {α β : Type} (A : Alg α) (B : Alg β) (h : α → β) : Prop where
  lit : ∀ i, h (A.lit i) = B.lit i
  app : ∀ f args, h (A.app f args) = B.app f (args.map h)
  bad : h A.bad = B.bad

structure Tensor (α : Type) where
  shape : List Nat
  data : List α
deriving Repr, Inhabited

def Tensor.map {α β : Type} (h : α → β) (t : Tensor α) : Tensor β := ⟨t.shape, t.data.map h⟩

/-- Read element `k` of register `r`; out of range reads give the algebra's `bad` element. -/
def readReg {α : Type} (A : Alg α) (regs : List (Tensor α)) (r k : Nat) : α :=
  match regs[r]? with
  | some t => (t.data[k]?).getD A.bad
  | none => A.bad

mutual
def evalCell {α : Type} (A : Alg α) (regs : List (Tensor α)) : Cell → α
  | .src r k => readReg A regs r k
  | .lit i => A.lit i
  | .app f args => A.app f (evalCells A regs args)
  | .bad => A.bad
def evalCells {α : Type} (A : Alg α) (regs : List (Tensor α)) : List Cell → List α
  | [] => []
  | c :: cs => evalCell A regs c :: evalCells A regs cs
end

structure Plan where
  shape : List Nat
  cells : List Cell
deriving Repr, Inhabited

def runPlan {α : Type} (A : Alg α) (regs : List (Tensor α)) (p : Plan) : Tensor α :=
  ⟨p.shape, evalCells A regs p.cells⟩

/-- The symbolic algebra: elements are cells over the graph inputs. -/
def symAlg : Alg Cell := { lit := .lit, app := .app, bad := .bad }

theorem readReg_map {α β : Type} {A : Alg α} {B : Alg β} {h : α → β} (hh : Hom A B h)
    (regs : List (Tensor α)) (r k : Nat) :
    readReg B (regs.map (Tensor.map h)) r k = h (readReg A regs r k) := by
  unfold readReg
  rw [List.getElem?_map]
  cases regs[r]? with
  | none => simp [hh.bad]
  | some t =>
    simp only [Option.map_some, Tensor.map, List.getElem?_map]
    cases t.data[k]? with
    | none => simp [hh.bad]
    | some v => simp

mutual
/-- **Naturality of plan execution**: running a plan commutes with any homomorphism of element algebras. -/
theorem evalCell_map {α β : Type} {A : Alg α} {B : Alg β} {h : α → β} (hh : Hom A B h)
    (regs : List (Tensor α)) : ∀ c : Cell, evalCell B (regs.map (Tensor.map h)) c = h (evalCell A regs c)
  | .src r k => by simp [evalCell, readReg_map hh]
  | .lit i => by simp [evalCell, hh.lit]
  | .app f args => by simp [evalCell, hh.app, evalCells_map hh regs args]
  | .bad => by simp [evalCell, hh.bad]
theorem evalCells_map {α β : Type} {A : Alg α} {B : Alg β} {h : α → β} (hh : Hom A B h)
    (regs : List (Tensor α)) : ∀ cs : List Cell,
      evalCells B (regs.map (Tensor.map h)) cs = (evalCells A regs cs).map h
  | [] => by simp [evalCells]
  | c :: cs => by simp [evalCells, evalCell_map hh regs c, evalCells_map hh regs cs]
end

theorem runPlan_map {α β : Type} {A : Alg α} {B : Alg β} {h : α → β} (hh : Hom A B h)
    (regs : List (Tensor α)) (p : Plan) :
    runPlan B (regs.map (Tensor.map h)) p = (runPlan A regs p).map h := by
  simp [runPlan, Tensor.map, evalCells_map hh]

end Einx.IR
