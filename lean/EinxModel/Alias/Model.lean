/-!
# M5 store / alias layer (C09): which graph inputs may a traced graph write?

A traced einx graph (after optimisation, as compiled) is a straight-line program whose tensor values
are numpy arrays.  For C09 only *memory identity* matters: which values may share a buffer with which
graph input, and which buffers are written by in-place primitives.

* `aliasTable` — one row per numpy function that occurs in generated code: the result is a fresh
  allocation, *may* be a view of some positional arguments (numpy decides at run time, e.g.
  `reshape` of a non-contiguous array copies), or the function writes one positional argument in
  place and returns it (this is how `tracer.signature.python.CallInplace` is compiled:
  `np.put(a, i, v)` as a statement, the result *is* `a`).
* `Node`/`Graph` — the first-order program the driver extracts from the graph JSON (tensor registers
  only; modules, functions, integers, shapes are resolved by the driver).
* `analyse`/`writes` — the static may-alias analysis: every register evaluates to the list of graph
  inputs it may share memory with (a fresh allocation cannot be a graph input, so it is represented
  by the empty list); `writes g` = inputs that the target of some in-place node may alias.
* `exec` — the concrete store semantics: objects (= base buffers) with identity and contents; a
  may-view node shares the object of one of its sources *or* allocates a copy (chosen by an arbitrary
  oracle `Behav.choose`, because numpy chooses); an in-place node replaces the contents of exactly the
  object its target register denotes, with arbitrary new contents (`Behav.newVal`).

No Mathlib.  Theorems about these definitions: `Proofs/Alias.lean`, `Props/C09.lean`.
-/
namespace Einx.Alias

/-! ### The alias table -/

/-- Memory behaviour of a function, per table row.  Positions are indices into the positional
arguments of the call as they appear in the traced graph. -/
inductive Effect where
  /-- the result is a new allocation that shares memory with no argument -/
  | fresh
  /-- the result may share memory with the listed positional arguments (or be a copy) -/
  | view (args : List Nat)
  /-- the function writes positional argument `target` in place; the traced result is that argument -/
  | inplace (target : Nat)
deriving DecidableEq, Repr, Inhabited

/-- The numpy functions of generated code (`tracer/signature/classical/numpy.py`) and what they do to
memory.  `fresh` rows are checked against real numpy on every run (`np.shares_memory`, write-through);
`view` rows are over-approximations (each is witnessed to really alias at least once per run). -/
def aliasTable : List (String × Effect) := [
  -- shape primitives: views whenever the strides allow it
  ("numpy.asarray", .view [0]),
  ("numpy.reshape", .view [0]),
  ("numpy.transpose", .view [0]),
  ("numpy.broadcast_to", .view [0]),
  ("numpy.diagonal", .view [0]),
  ("numpy.split", .view [0]),
  ("numpy.flip", .view [0]),
  ("numpy.ndarray.__getitem__", .view [0]),
  -- einsum returns a view for pure transpositions / diagonals ("ij->ji", "ii->i")
  ("numpy.einsum", .view [1, 2, 3, 4, 5, 6, 7, 8]),
  -- allocation
  ("numpy.arange", .fresh),
  ("numpy.concatenate", .fresh),
  -- ufuncs without `out=` allocate their result
  ("numpy.add", .fresh), ("numpy.subtract", .fresh), ("numpy.multiply", .fresh), ("numpy.true_divide", .fresh),
  ("numpy.floor_divide", .fresh), ("numpy.divide", .fresh), ("numpy.logical_and", .fresh), ("numpy.logical_or", .fresh),
  ("numpy.where", .fresh), ("numpy.maximum", .fresh), ("numpy.minimum", .fresh), ("numpy.less", .fresh),
  ("numpy.less_equal", .fresh), ("numpy.greater", .fresh), ("numpy.greater_equal", .fresh), ("numpy.equal", .fresh),
  ("numpy.not_equal", .fresh), ("numpy.logaddexp", .fresh), ("numpy.exp", .fresh), ("numpy.log", .fresh),
  ("numpy.negative", .fresh), ("numpy.divmod", .fresh),
  -- reductions
  ("numpy.sum", .fresh), ("numpy.mean", .fresh), ("numpy.var", .fresh), ("numpy.std", .fresh), ("numpy.prod", .fresh),
  ("numpy.count_nonzero", .fresh), ("numpy.all", .fresh), ("numpy.any", .fresh), ("numpy.min", .fresh), ("numpy.max", .fresh),
  ("numpy.argmax", .fresh), ("numpy.argmin", .fresh),
  -- gather / contraction / reordering: copies
  ("numpy.take", .fresh), ("numpy.dot", .fresh), ("numpy.matmul", .fresh),
  ("numpy.roll", .fresh), ("numpy.sort", .fresh), ("numpy.argsort", .fresh),
  -- the in-place primitives
  ("numpy.put", .inplace 0), ("numpy.add.at", .inplace 0), ("numpy.subtract.at", .inplace 0)]

def effectOf (f : String) : Option Effect := aliasTable.lookup f

/-- Table rows that write an argument. -/
def inplaceRows : List String :=
  aliasTable.filterMap (fun (f, e) => match e with | .inplace _ => some f | _ => none)

/-! ### Programs -/

/-- One tensor-valued step of a traced graph.  Registers `0 … nin-1` are the graph inputs, node `k`
defines register `nin + k`. -/
inductive Node where
  /-- new allocation (contents computed from `reads`, which only matter for well-formedness) -/
  | fresh (reads : List Nat)
  /-- may share memory with one of `srcs`, or be a copy -/
  | view (srcs : List Nat)
  /-- the very same object (`Cast`, `Assert`, tuple component) -/
  | same (src : Nat)
  /-- in-place primitive / `UpdateItem`: writes `target`; the result is `target` -/
  | inplace (target : Nat) (reads : List Nat)
deriving DecidableEq, Repr, Inhabited

structure Graph where
  nin : Nat
  nodes : List Node
  outs : List Nat
deriving DecidableEq, Repr, Inhabited

def Node.isInplace : Node → Bool
  | .inplace _ _ => true
  | _ => false

def Node.uses : Node → List Nat
  | .fresh r => r
  | .view s => s
  | .same s => [s]
  | .inplace t r => t :: r

/-- Every node refers to earlier registers only (checked by the driver on every real graph). -/
def wfFrom : Nat → List Node → Bool
  | _, [] => true
  | n, nd :: rest => nd.uses.all (· < n) && wfFrom (n + 1) rest

def Graph.wf (g : Graph) : Bool := wfFrom g.nin g.nodes && g.outs.all (· < g.nin + g.nodes.length)

/-! ### Static may-alias analysis -/

/-- Abstract state: per register the graph inputs it may share memory with; the inputs that some
in-place node's target may alias. -/
structure Abs where
  regs : List (List Nat)
  written : List Nat
deriving DecidableEq, Repr, Inhabited

def rootsOf (regs : List (List Nat)) (r : Nat) : List Nat := (regs[r]?).getD []

def Abs.step (a : Abs) : Node → Abs
  | .fresh _ => { a with regs := a.regs ++ [[]] }
  | .view srcs => { a with regs := a.regs ++ [srcs.flatMap (rootsOf a.regs)] }
  | .same s => { a with regs := a.regs ++ [rootsOf a.regs s] }
  | .inplace t _ => { regs := a.regs ++ [rootsOf a.regs t], written := a.written ++ rootsOf a.regs t }

def Abs.init (nin : Nat) : Abs := { regs := (List.range nin).map (fun i => [i]), written := [] }

def analyseFrom : List Node → Abs → Abs
  | [], a => a
  | nd :: rest, a => analyseFrom rest (a.step nd)

def analyse (g : Graph) : Abs := analyseFrom g.nodes (Abs.init g.nin)

/-- Duplicate-free, in order of first occurrence. -/
def dedup : List Nat → List Nat
  | [] => []
  | x :: xs => x :: (dedup xs).filter (· != x)

/-- The graph inputs that executing `g` may modify. -/
def writes (g : Graph) : List Nat := dedup (analyse g).written

/-- The graph inputs that an output of `g` may share memory with. -/
def outRoots (g : Graph) : List Nat := dedup (g.outs.flatMap (rootsOf (analyse g).regs))

/-- `checkNoWrite g i`: no in-place node's target may alias input `i` (DESIGN.md C09). -/
def checkNoWrite (g : Graph) (i : Nat) : Bool := !(writes g).contains i

/-! ### Concrete store semantics -/

/-- `regs[r]` is the identity (index into `objs`) of the object register `r` denotes; `objs` are the
contents of all objects (buffers). -/
structure State (V : Type) where
  regs : List Nat
  objs : List V

/-- Everything numpy and the element functions decide: whether a may-view result actually is a view
(`choose n = some k`: of the `k`-th source) or a copy, and the contents of new / rewritten objects. -/
structure Behav (V : Type) where
  choose : Nat → Option Nat
  newVal : Nat → State V → V

def State.alloc {V} (b : Behav V) (n : Nat) (st : State V) : State V :=
  { regs := st.regs ++ [st.objs.length], objs := st.objs ++ [b.newVal n st] }

def State.bindTo {V} (st : State V) (o : Nat) : State V := { st with regs := st.regs ++ [o] }

/-- One step.  A dangling register (never produced by the driver, see `Graph.wf`) allocates. -/
def State.step {V} (b : Behav V) (n : Nat) (st : State V) : Node → State V
  | .fresh _ => st.alloc b n
  | .view srcs =>
    match ((b.choose n).bind (srcs[·]?)).bind (st.regs[·]?) with
    | some o => st.bindTo o
    | none => st.alloc b n
  | .same s =>
    match st.regs[s]? with
    | some o => st.bindTo o
    | none => st.alloc b n
  | .inplace t _ =>
    match st.regs[t]? with
    | some o => { regs := st.regs ++ [o], objs := st.objs.set o (b.newVal n st) }
    | none => st.alloc b n

def execFrom {V} (b : Behav V) : Nat → List Node → State V → State V
  | _, [], st => st
  | n, nd :: rest, st => execFrom b (n + 1) rest (st.step b n nd)

/-- Execute `g` in a store `objs` where graph input `k` is the object `inObjs[k]` (different inputs
may be the same object or views of the same buffer: `inObjs` need not be injective). -/
def exec {V} (b : Behav V) (g : Graph) (inObjs : List Nat) (objs : List V) : State V :=
  execFrom b 0 g.nodes { regs := inObjs, objs := objs }

end Einx.Alias
