import EinxModel.Solve.System
/-!
M2 (solving) — the value-level effect of einx's common-subexpression elimination
(`namedtensor/stage2/cse.py`, after fix b055d20).

CSE replaces a sub-expression that occurs several times (`b c` in `a (b c), (b c) d`) by one new
axis `cse.<n>` before stage 3 states its equations, so that `(b c)` need not be factorised.  That
is sound only if the new axis, ranging over the integers `>= min_value`, takes exactly the values
the sub-expression can take.  `_value_range` decides this; the filter in `cse` keeps a candidate
only if `_value_range(...) is not None and not _has_repeated_axis(...)`.

* `VExpr` — stage-2 value expressions (ellipses are already expanded at stage 2): an axis with a
  known value or an unknown axis with its `min_value`, list (= product), flattened axis and
  brackets (transparent), concatenation (= sum).  A Python `list` of expressions (a contiguous
  run of children of a `List`, the other kind of CSE candidate) is read as `VExpr.list`, exactly
  as `_value_range` does (`isinstance(expr, (list, List, ConcatenatedAxis))`).
* `valueRange` mirrors `_value_range` line by line; `hasRepeatedAxis` mirrors `_has_repeated_axis`.
* `evalV` is the value of an expression under an assignment of the unknown axes.
* `polyOf`, `substPoly`, `instantiate`: the value of an expression as a polynomial, and the
  system obtained from a system `sys'` by instantiating the variable `c` with the expression `e`
  (every occurrence of `c` as a factor of a monomial is replaced by the value of `e`; the unknown
  axes of `e` are declared with their lower bounds instead of `c`).  Read backwards this is CSE:
  `sys'` is `instantiate sys' c e` with every occurrence of `e` replaced by the fresh variable `c`.

No Mathlib: the driver executes `valueRange` / `hasRepeatedAxis` (request kind `value_range`).
The theorems are in `Proofs/SolveCse.lean` and `Props/C02.lean`.
-/
namespace Einx.Solve

inductive VExpr where
  /-- `stage2.Axis(name, value, min_value=…)`; `value = none` for an unknown length -/
  | axis (name : String) (value : Option Nat) (minValue : Nat)
  | list (cs : List VExpr)
  | flat (inner : VExpr)
  | concat (cs : List VExpr)
  | brackets (inner : VExpr)
  deriving Repr, Inhabited

/-- `math.prod` -/
def natProd : List Nat → Nat
  | [] => 1
  | x :: xs => x * natProd xs

/-- `max` of a list (`0` for the empty list; `_value_range` calls it on a non-empty list only) -/
def listMax : List Nat → Nat
  | [] => 0
  | x :: xs => max x (listMax xs)

/-- `unbounded = [minimum for minimum, unbounded in ranges if unbounded]` -/
def unboundedMins (rs : List (Nat × Bool)) : List Nat := (rs.filter (fun r => r.2)).map (·.1)

/-- `fixed = [minimum for minimum, unbounded in ranges if not unbounded]` -/
def fixedMins (rs : List (Nat × Bool)) : List Nat := (rs.filter (fun r => !r.2)).map (·.1)

/-- The `list / List / ConcatenatedAxis` branch of `_value_range`, given the ranges of the
children (lines 17–28 of cse.py). -/
def combineRanges (isConcat : Bool) (ranges : List (Option (Nat × Bool))) : Option (Nat × Bool) :=
  if ranges.any (fun r => r.isNone) then none                               -- any(r is None …)
  else
    let rs := ranges.filterMap id
    let unbounded := unboundedMins rs
    let fixed := fixedMins rs
    if isConcat then
      some (unbounded.sum + fixed.sum, decide (unbounded.length > 0))          -- sum rule
    else if unbounded.length = 0 then
      some (natProd fixed, false)                                             -- product of constants
    else if fixed.all (fun v => v == 1) &&
            decide ((unbounded.filter (fun v => decide (v > 1))).length ≤ 1) then
      some (listMax unbounded, true)                                          -- product rule
    else none

mutual
/-- **`_value_range`.**  `some (m, true)`: the values are exactly the integers `>= m`;
`some (m, false)`: the single value `m`; `none`: neither (e.g. `b 3`). -/
def valueRange : VExpr → Option (Nat × Bool)
  | .axis _ none minValue => some (minValue, true)
  | .axis _ (some v) _ => some (v, false)
  | .flat e => valueRange e
  | .brackets e => valueRange e
  | .list cs => combineRanges false (valueRanges cs)
  | .concat cs => combineRanges true (valueRanges cs)
def valueRanges : List VExpr → List (Option (Nat × Bool))
  | [] => []
  | c :: cs => valueRange c :: valueRanges cs
end

mutual
/-- Names of all `Axis` nodes (with or without a value), in pre-order — `_has_repeated_axis`'s
`names`. -/
def axisNames : VExpr → List String
  | .axis n _ _ => [n]
  | .flat e => axisNames e
  | .brackets e => axisNames e
  | .list cs => axisNamesL cs
  | .concat cs => axisNamesL cs
def axisNamesL : List VExpr → List String
  | [] => []
  | c :: cs => axisNames c ++ axisNamesL cs
end

/-- `len(names) != len(set(names))`: some name occurs twice. -/
def hasDup : List String → Bool
  | [] => false
  | x :: xs => xs.contains x || hasDup xs

/-- **`_has_repeated_axis`** -/
def hasRepeatedAxis (e : VExpr) : Bool := hasDup (axisNames e)

/-- The filter of `cse` (line 138): a candidate is replaced only if this is `true`. -/
def replaceable (e : VExpr) : Bool := (valueRange e).isSome && !hasRepeatedAxis e

mutual
/-- Unknown axes with their lower bounds. -/
def freeAxes : VExpr → List (Var × Nat)
  | .axis n none m => [(n, m)]
  | .axis _ (some _) _ => []
  | .flat e => freeAxes e
  | .brackets e => freeAxes e
  | .list cs => freeAxesL cs
  | .concat cs => freeAxesL cs
def freeAxesL : List VExpr → List (Var × Nat)
  | [] => []
  | c :: cs => freeAxes c ++ freeAxesL cs
end

mutual
/-- The value of an expression: product for lists, sum for concatenations. -/
def evalV (σ : Var → Nat) : VExpr → Nat
  | .axis n none _ => σ n
  | .axis _ (some v) _ => v
  | .flat e => evalV σ e
  | .brackets e => evalV σ e
  | .list cs => natProd (evalVL σ cs)
  | .concat cs => (evalVL σ cs).sum
def evalVL (σ : Var → Nat) : List VExpr → List Nat
  | [] => []
  | c :: cs => evalV σ c :: evalVL σ cs
end

/-- `σ` respects the lower bounds of the unknown axes of `e`. -/
def Admissible (e : VExpr) (σ : Var → Nat) : Prop := ∀ p ∈ freeAxes e, p.2 ≤ σ p.1

/-- All lower bounds are positive (axis lengths are positive integers; einx's default is 1). -/
def MinPos (e : VExpr) : Prop := ∀ p ∈ freeAxes e, 1 ≤ p.2

instance (e : VExpr) : Decidable (MinPos e) := inferInstanceAs (Decidable (∀ p ∈ freeAxes e, 1 ≤ p.2))

/-! ### Instantiating a variable of a system by an expression -/

def mulMono (a b : Mono) : Mono := ⟨a.coef * b.coef, a.vars ++ b.vars⟩

def mulPoly (p q : Poly) : Poly := p.flatMap (fun a => q.map (mulMono a))

mutual
/-- The value of an expression as a polynomial in its unknown axes. -/
def polyOf : VExpr → Poly
  | .axis n none _ => [⟨1, [n]⟩]
  | .axis _ (some v) _ => [⟨v, []⟩]
  | .flat e => polyOf e
  | .brackets e => polyOf e
  | .list cs => polyProdL cs
  | .concat cs => polySumL cs
def polyProdL : List VExpr → Poly
  | [] => [⟨1, []⟩]
  | c :: cs => mulPoly (polyOf c) (polyProdL cs)
def polySumL : List VExpr → Poly
  | [] => []
  | c :: cs => polyOf c ++ polySumL cs
end

/-- Replace every factor `c` of a product of variables by the polynomial `q`. -/
def substVars (c : Var) (q : Poly) : List Var → Poly
  | [] => [⟨1, []⟩]
  | x :: xs => mulPoly (if x = c then q else [⟨1, [x]⟩]) (substVars c q xs)

def substMono (c : Var) (q : Poly) (m : Mono) : Poly := mulPoly [⟨m.coef, []⟩] (substVars c q m.vars)

def substPoly (c : Var) (q : Poly) (p : Poly) : Poly := p.flatMap (substMono c q)

def substEqn (c : Var) (q : Poly) (e : Eqn) : Eqn := ⟨substPoly c q e.lhs, substPoly c q e.rhs⟩

/-- `sys'` with the variable `c` instantiated by the expression `e`: the system *before* CSE, if
`sys'` is the system after CSE replaced every occurrence of `e` by the axis `c`. -/
def instantiate (sys' : System) (c : Var) (e : VExpr) : System :=
  { vars := sys'.vars.filter (fun p => p.1 != c) ++ freeAxes e,
    eqns := sys'.eqns.map (substEqn c (polyOf e)) }

/-- `σ` with `c := v`. -/
def update (σ : Var → Nat) (c : Var) (v : Nat) : Var → Nat := fun x => if x = c then v else σ x

end Einx.Solve
