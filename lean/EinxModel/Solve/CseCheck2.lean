import EinxModel.Solve.CseCheck
/-!
M2 (solving) — the side conditions of `cseTrees_preserves_sols_partial` **split by status** (work package cse2).

`cseCheck` (Solve/CseCheck.lean) bundles everything the proof uses.  Here it is taken apart into

* `inputOK` — facts about the *input* of `cse()` (the output of stage 2): `wfForest` and `minPosForest` (every unknown
  axis has `min_value >= 1`: `Axis.__init__` default; the only other producer of a `min_value` is `cse` itself, which
  passes `_value_range(...)[0]`).  Not a statement about the algorithm.
* `freshOK` — **false for the real code** (defect D19): a copied unknown axis is never called `cse.<k>` for a used `k`.
* `rootDimsOK` — **false for the real code** (defect D20): a part replaced at root level has one dimension.
* `copiedOK` — **false for the real code** (defect D21, found by this work package): an unknown axis that is copied
  to the output does not occur inside a replaced part.  Fails when two slice candidates overlap in nodes without a
  shared name (axes with a value: `a 1` and `1 d` in `a 1 d`).
* `sharedOK` — parts replaced by the same `cse.<k>` have the same shape (not known to fail on inputs in which all unknown
  axes of one name have one `min_value`; **not proved**, needs injectivity of `__str__`); parts replaced by different
  `cse.<k>` have disjoint unknown axes (**false** for the real code, same defect D21: in
  `(1 (f + 2 + a) () b d [1]) (() b d [1] () b d [1])` the candidate `1 (f + 2 + a) ()` consumes the `()`, then `b d`
  becomes `cse.6` while `() b d` elsewhere becomes `cse.5`).

What is *not* in this list any more because it is proved for every input (`Proofs/CseTreesDischarge.lean`):
the filter facts (`FiltOK`, already in work package cse), "an unknown value has an unbounded range"
(`valueRange_fixed_value`), and the positivity of the bounds inside every replaced part (from `minPosForest`, because
every replaced part is a part of the input: `roots_decls`).

No Mathlib (the driver evaluates the parts, request kind `cse_check`).
-/
namespace Einx.Solve.CseT
open Einx.Solve

/-- every unknown axis of the input has `min_value >= 1` -/
def minPosForest (rs : List (Option VExpr)) : Bool := (rootDecls rs).all (fun p => decide (1 ≤ p.2))

/-- facts about the output of stage 2 (the input of `cse`) -/
def inputOK (rs : List (Option VExpr)) : Bool := wfForest rs && minPosForest rs

/-- D20: the number of dimensions of a root is kept -/
def rootDimOK : Ev → Bool
  | .surv _ _ => true
  | .used _ e _ atRoot => !atRoot || ndim e == 1

/-- D19: the new names are fresh -/
def freshPair : Ev → Ev → Bool
  | .surv n _, .used k _ _ _ => n != cseName k
  | _, _ => true

/-- D21: an unknown axis that is copied to the output does not occur inside a replaced part -/
def copiedPair : Ev → Ev → Bool
  | .surv n _, .used _ e _ _ => !(freeNamesB e).contains n
  | _, _ => true

/-- the conditions on pairs of replaced parts: same `cse.<k>` ⇒ same shape (unproved), different `cse.<k>` ⇒ disjoint
unknown axes (false for overlapping candidates: D21) -/
def sharedPair : Ev → Ev → Bool
  | .used k e _ _, .used k' e' _ _ =>
    if cseName k == cseName k' then sameShape e e' else disjointNames (freeNamesB e) (freeNamesB e')
  | _, _ => true

def allPairs (f : Ev → Ev → Bool) (evs : List Ev) : Bool := evs.all (fun a => evs.all (fun b => f a b))

def freshOK (evs : List Ev) : Bool := allPairs freshPair evs
def rootDimsOK (evs : List Ev) : Bool := evs.all rootDimOK
def copiedOK (evs : List Ev) : Bool := allPairs copiedPair evs
def sharedOK (evs : List Ev) : Bool := allPairs sharedPair evs

/-- The reduced side conditions: `cseCheckReduced → cseCheck` is proved (`cseCheck_of_reduced`). -/
def cseCheckReduced (opts : Opts) (rs : List (Option VExpr)) : Bool :=
  inputOK rs && freshOK (cseEvents opts rs) && rootDimsOK (cseEvents opts rs) && copiedOK (cseEvents opts rs) &&
    sharedOK (cseEvents opts rs)

end Einx.Solve.CseT
