import EinxModel.Solve.CseCheck
/-!
M2 (solving) — the side conditions of `cseTrees_preserves_sols_partial` **split by status** (work package cse2).

`cseCheck` (Solve/CseCheck.lean) bundles everything the proof uses.  Here it is taken apart into

* `inputOK` — facts about the *input* of `cse()` (the output of stage 2): `wfForest` and `minPosForest` (every unknown
  axis has `min_value >= 1`: `Axis.__init__` default; the only other producer of a `min_value` is `cse` itself, which
  passes `_value_range(...)[0]`).  Not a statement about the algorithm.
* `freshOK` — **false for the real code** (defect D19): a copied unknown axis is never called `cse.<k>` for a used `k`.
* `rootDimsOK` — **false for the real code** (defect D20): a part replaced at root level has one dimension.
* `overlapOK` — believed true for every well-formed input, **not proved**: parts replaced by the same `cse.<k>` have
  the same shape (needs injectivity of `__str__`), parts replaced by different `cse.<k>` have disjoint unknown axes, a
  copied unknown axis does not occur inside a replaced part (both need `usedOnlyInside` + longest match + injectivity
  of `__str__`).

What is *not* in this list any more because it is proved for every input (`Proofs/CseTreesDischarge.lean`):
the filter facts (`FiltOK`, already in work package cse), "an unknown value has an unbounded range"
(`valueRange_fixed_value`), and the positivity of the bounds inside every replaced part (from `minPosForest`, because
every replaced part is a part of the input: `roots_decls`).

No Mathlib (the driver evaluates the parts, request kind `cse_check`).
-/
namespace Einx.Solve.CseT
open Einx.Solve

/-- every unknown axis of the input has `min_value >= 1` -/
def minPosForest (rs : List (Option VExpr)) : Bool := (rootDecls rs).all (fun p => decide (1 ≤ p.2))

/-- facts about the output of stage 2 (the input of `cse`) -/
def inputOK (rs : List (Option VExpr)) : Bool := wfForest rs && minPosForest rs

/-- D20: the number of dimensions of a root is kept -/
def rootDimOK : Ev → Bool
  | .surv _ _ => true
  | .used _ e _ atRoot => !atRoot || ndim e == 1

/-- D19: the new names are fresh -/
def freshPair : Ev → Ev → Bool
  | .surv n _, .used k _ _ _ => n != cseName k
  | _, _ => true

/-- the conditions on pairs of events that are believed to hold for every input but are not proved -/
def overlapPair : Ev → Ev → Bool
  | .surv n _, .used _ e _ _ => !(freeNamesB e).contains n
  | .used k e _ _, .used k' e' _ _ =>
    if cseName k == cseName k' then sameShape e e' else disjointNames (freeNamesB e) (freeNamesB e')
  | _, _ => true

def allPairs (f : Ev → Ev → Bool) (evs : List Ev) : Bool := evs.all (fun a => evs.all (fun b => f a b))

def freshOK (evs : List Ev) : Bool := allPairs freshPair evs
def rootDimsOK (evs : List Ev) : Bool := evs.all rootDimOK
def overlapOK (evs : List Ev) : Bool := allPairs overlapPair evs

/-- The reduced side conditions: `cseCheckReduced → cseCheck` is proved (`cseCheck_of_reduced`). -/
def cseCheckReduced (opts : Opts) (rs : List (Option VExpr)) : Bool :=
  inputOK rs && freshOK (cseEvents opts rs) && rootDimsOK (cseEvents opts rs) && overlapOK (cseEvents opts rs)

end Einx.Solve.CseT
