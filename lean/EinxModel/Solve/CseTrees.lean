import EinxModel.Solve.Cse
/-!
M2 (solving) — **the whole of `einx/_src/namedtensor/stage2/cse.py` on stage-2 trees** (`VExpr`): the candidate
search, every filter, the selection order and the replacement (tree surgery) with the smart constructors
`List.create / FlattenedAxis.create / Brackets.create / ConcatenatedAxis.create`.

Python identifies nodes by `id(expr)`.  The model identifies a node by its *position*: `root index :: path`
(child `k` of a `List`/`ConcatenatedAxis` is `path ++ [k]`, the inner node of a `FlattenedAxis`/`Brackets` is
`path ++ [0]`).  `id(a) == id(b)` is equality of positions, `child.parent … is parent` (strict ancestor) is "proper
prefix".  An *exprlist* (a Python list of nodes: `[expr]` or a slice `children[s : e + 1]` of a `List`) is an `Occ`:
the positions of its nodes, the nodes, and the two facts about the ancestors of its nodes that the code reads through
`.parent` (`is_in_brackets`, `is_at_root`).

The steps of `cse()` and their names here (the line numbers refer to cse.py):

| cse.py | model |
|---|---|
| 47–61 collect `str_to_common_expr` (dict, insertion order) | `entries`, `groupEntries` |
| 71–93 "axes are not also used outside", `len(used_axis_ids) == 0` | `usedOnlyInside` |
| 102–114 `remove_duplicates` | `dedupe` |
| 121–133 `is_singleton` of the first exprlist | `isSingletonL` |
| 138–142 `_value_range(...) is not None and not _has_repeated_axis(...)` | `replaceable (.list nodes)` (Solve/Cse.lean) |
| 150–162 brackets (`cse_in_brackets`) | `bracketsOK` |
| 165–170 `cse_concat` | `concatOK` |
| 178–187 root level with len > 1 (first exprlist only) | `rootOK` |
| 195–208 `any_is_parent_of` against all other candidates | `notInsideOther` |
| 216–291 `replace` | `repl`, `replL`, `replC`, `matchNode`, `matchAt`, `newAxis` |
| 293 `List.create(replace(root))` | `mkList` |

The enumeration of the dict `str_to_common_expr` (`for str_expr in str_to_common_expr.keys()`) is an explicit
argument `enum` of `cseTreesEnum` (C16: the result is independent of it up to the numbering of the new axes);
`cseTrees` uses the insertion order, as CPython does.

Errors of the real code that the model can reach are `Except` errors, never defaults:
`ConcatenatedAxis.create([])` / a child of `ndim != 1` (ValueError), `_value_range(..)[0]` on `None` (TypeError).

No Mathlib: the driver executes these definitions (request kind `cse_trees`).
-/
namespace Einx.Solve.CseT
open Einx.Solve

/-- Node identity: `root index :: path`. -/
abbrev Id := List Nat

/-! ### `__str__`, `.value`, `.ndim` of stage-2 expressions -/

mutual
/-- `str(expr)` -/
def strV : VExpr → String
  | .axis n none _ => n
  | .axis _ (some v) _ => toString v
  | .list cs => " ".intercalate (strVL cs)
  | .flat e => "(" ++ strV e ++ ")"
  | .concat cs => "(" ++ " + ".intercalate (strVL cs) ++ ")"
  | .brackets e => "[" ++ strV e ++ "]"
def strVL : List VExpr → List String
  | [] => []
  | c :: cs => strV c :: strVL cs
end

/-- `" ".join([str(c) for c in children])` -/
def strSlice (nodes : List VExpr) : String := " ".intercalate (strVL nodes)

/-- `None if any(v is None …) else math.prod(values)` -/
def prodOpt : List (Option Nat) → Option Nat
  | [] => some 1
  | none :: _ => none
  | some v :: r => (prodOpt r).map (v * ·)

def sumOpt : List (Option Nat) → Option Nat
  | [] => some 0
  | none :: _ => none
  | some v :: r => (sumOpt r).map (v + ·)

mutual
/-- `expr.value` -/
def valueOf : VExpr → Option Nat
  | .axis _ v _ => v
  | .list cs => prodOpt (valuesOf cs)
  | .flat e => valueOf e
  | .concat cs => sumOpt (valuesOf cs)
  | .brackets e => valueOf e
def valuesOf : List VExpr → List (Option Nat)
  | [] => []
  | c :: cs => valueOf c :: valuesOf cs
end

mutual
/-- `expr.ndim` -/
def ndim : VExpr → Nat
  | .axis _ _ _ => 1
  | .list cs => ndimL cs
  | .flat _ => 1
  | .concat _ => 1
  | .brackets e => ndim e
def ndimL : List VExpr → Nat
  | [] => 0
  | c :: cs => ndim c + ndimL cs
end

mutual
/-- some node of the subtree is a `Brackets` -/
def hasBrackets : VExpr → Bool
  | .axis _ _ _ => false
  | .list cs => hasBracketsL cs
  | .flat e => hasBrackets e
  | .concat cs => hasBracketsL cs
  | .brackets _ => true
def hasBracketsL : List VExpr → Bool
  | [] => false
  | c :: cs => hasBrackets c || hasBracketsL cs
end

mutual
/-- some node of the subtree is a `ConcatenatedAxis` -/
def hasConcat : VExpr → Bool
  | .axis _ _ _ => false
  | .list cs => hasConcatL cs
  | .flat e => hasConcat e
  | .concat _ => true
  | .brackets e => hasConcat e
def hasConcatL : List VExpr → Bool
  | [] => false
  | c :: cs => hasConcat c || hasConcatL cs
end

/-! ### The smart constructors of stage2/tree.py -/

mutual
/-- `_add` of `List.create`: nested `List`s are spliced in. -/
def addChild : VExpr → List VExpr
  | .axis n v m => [.axis n v m]
  | .list cs => addChildren cs
  | .flat e => [.flat e]
  | .concat cs => [.concat cs]
  | .brackets e => [.brackets e]
def addChildren : List VExpr → List VExpr
  | [] => []
  | c :: cs => addChild c ++ addChildren cs
end

/-- `List.create(children, …)` -/
def mkList (children : List VExpr) : VExpr :=
  match addChildren children with
  | [c] => c
  | cs => .list cs

/-- `FlattenedAxis.create(inner, …)` -/
def mkFlat : VExpr → VExpr
  | .flat e => .flat e
  | e => .flat e

/-- `Brackets.create(inner, …)` -/
def mkBrackets : VExpr → VExpr
  | .brackets e => .brackets e
  | e => if ndim e == 0 then .list [] else .brackets e

/-- `ConcatenatedAxis.create(children, …)`; the constructor raises for a child with `ndim != 1`. -/
def mkConcat (children : List VExpr) : Except String VExpr :=
  match children with
  | [] => throw "ValueError: ConcatenatedAxis must have at least one child"
  | [c] => pure c
  | cs =>
    if cs.all (fun c => ndim c == 1) then pure (.concat cs)
    else throw "ValueError: ConcatenatedAxis can only be used on expressions of length 1"

/-! ### Exprlists and the dict `str_to_common_expr` -/

/-- An exprlist: `ids` are the identities of its nodes, `nodes` the nodes; `inBr`: some strict ancestor of its nodes is
a `Brackets`; `underFlat`: some strict ancestor is a `FlattenedAxis` (`not is_at_root(node)`). -/
structure Occ where
  ids : List Id
  nodes : List VExpr
  inBr : Bool
  underFlat : Bool
  deriving Repr, Inhabited

/-- All slices `children[s : e + 1]`, `s` outer loop, `e` inner loop (lines 56–60). -/
def slices (id : Id) (inBr underFlat : Bool) (cs : List VExpr) : List (String × Occ) :=
  (List.range cs.length).flatMap (fun s =>
    (List.range (cs.length - s)).map (fun l =>
      let nodes := (cs.drop s).take (l + 1)
      (strSlice nodes, ⟨(List.range (l + 1)).map (fun j => id ++ [s + j]), nodes, inBr, underFlat⟩)))

/-- `[(str(expr), [expr])]` if the node has a parent. -/
def selfEntry (id : Id) (inBr underFlat hasParent : Bool) (e : VExpr) : List (String × Occ) :=
  if hasParent then [(strV e, ⟨[id], [e], inBr, underFlat⟩)] else []

mutual
/-- The appends to `str_to_common_expr` caused by the nodes of one subtree, in the order of `root.nodes()`
(pre-order): the node itself, then — for a `List` that is not a root — its slices. -/
def entries (id : Id) (inBr underFlat hasParent : Bool) : VExpr → List (String × Occ)
  | .axis n v m => selfEntry id inBr underFlat hasParent (.axis n v m)
  | .list cs =>
    selfEntry id inBr underFlat hasParent (.list cs) ++
      (if hasParent then slices id inBr underFlat cs else []) ++ entriesL id inBr underFlat 0 cs
  | .flat e => selfEntry id inBr underFlat hasParent (.flat e) ++ entries (id ++ [0]) inBr true true e
  | .concat cs => selfEntry id inBr underFlat hasParent (.concat cs) ++ entriesL id inBr underFlat 0 cs
  | .brackets e => selfEntry id inBr underFlat hasParent (.brackets e) ++ entries (id ++ [0]) true underFlat true e
def entriesL (id : Id) (inBr underFlat : Bool) (k : Nat) : List VExpr → List (String × Occ)
  | [] => []
  | c :: cs => entries (id ++ [k]) inBr underFlat true c ++ entriesL id inBr underFlat (k + 1) cs
end

/-- `for root in expressions: if root is not None: …` -/
def allEntries (k : Nat) : List (Option VExpr) → List (String × Occ)
  | [] => []
  | none :: rs => allEntries (k + 1) rs
  | some r :: rs => entries [k] false false false r ++ allEntries (k + 1) rs

/-- A candidate: the dict entry `str_expr ↦ [exprlist, …]`. -/
structure Cand where
  key : String
  occs : List Occ
  deriving Repr, Inhabited

/-- `str_to_common_expr[k].append(o)` on a dict that keeps insertion order. -/
def insertEntry (k : String) (o : Occ) : List Cand → List Cand
  | [] => [⟨k, [o]⟩]
  | c :: rest => if c.key == k then ⟨c.key, c.occs ++ [o]⟩ :: rest else c :: insertEntry k o rest

def groupEntries (es : List (String × Occ)) : List Cand :=
  es.foldl (fun g e => insertEntry e.1 e.2 g) []

/-! ### The filters -/

mutual
/-- `(id(v), v.name)` for every `Axis` node `v` of the subtree at `id`. -/
def axisOccs (id : Id) : VExpr → List (Id × String)
  | .axis n _ _ => [(id, n)]
  | .list cs => axisOccsL id 0 cs
  | .flat e => axisOccs (id ++ [0]) e
  | .concat cs => axisOccsL id 0 cs
  | .brackets e => axisOccs (id ++ [0]) e
def axisOccsL (id : Id) (k : Nat) : List VExpr → List (Id × String)
  | [] => []
  | c :: cs => axisOccs (id ++ [k]) c ++ axisOccsL id (k + 1) cs
end

/-- all `Axis` nodes of all roots -/
def allAxes (k : Nat) : List (Option VExpr) → List (Id × String)
  | [] => []
  | none :: rs => allAxes (k + 1) rs
  | some r :: rs => axisOccs [k] r ++ allAxes (k + 1) rs

/-- the `Axis` nodes inside an exprlist -/
def occAxes (o : Occ) : List (Id × String) := (o.ids.zip o.nodes).flatMap (fun p => axisOccs p.1 p.2)

/-- Lines 71–93: the candidate has at least one axis and every axis node (anywhere) that bears the name of one of its
axes is one of its axis nodes. -/
def usedOnlyInside (axes : List (Id × String)) (c : Cand) : Bool :=
  let used := c.occs.flatMap occAxes
  !used.isEmpty &&
    axes.all (fun a => !(used.any (fun u => u.2 == a.2)) || used.any (fun u => u.1 == a.1))

/-- `remove_duplicates`: the first of several exprlists with the same identities is kept. -/
def dedupe : List Occ → List Occ → List Occ
  | _, [] => []
  | seen, o :: os =>
    if seen.any (fun s => s.ids == o.ids) then dedupe seen os else o :: dedupe (seen ++ [o]) os

mutual
/-- `is_singleton` -/
def isSingleton : VExpr → Bool
  | .axis _ _ _ => true
  | .list cs => isSingletonL cs
  | .flat _ => false
  | .concat _ => false
  | .brackets e => isSingleton e
def isSingletonL : List VExpr → Bool
  | [] => false
  | [c] => isSingleton c
  | _ :: _ :: _ => false
end

/-- `common_expr[0]` -/
def Cand.first? (c : Cand) : Option Occ := c.occs.head?

def notSingleton (c : Cand) : Bool :=
  match c.first? with
  | some o => !isSingletonL o.nodes
  | none => false

/-- lines 138–142 -/
def allReplaceable (c : Cand) : Bool := c.occs.all (fun o => replaceable (.list o.nodes))

/-- lines 150–162 -/
def bracketsOK (cseInBrackets : Bool) (c : Cand) : Bool :=
  if cseInBrackets then c.occs.all (fun o => !hasBracketsL o.nodes)
  else c.occs.all (fun o => !(o.inBr || hasBracketsL o.nodes))

/-- lines 165–170 -/
def concatOK (cseConcat : Bool) (c : Cand) : Bool :=
  cseConcat || c.occs.all (fun o => !hasConcatL o.nodes)

/-- lines 178–187: only the first exprlist is looked at -/
def rootOK (c : Cand) : Bool :=
  match c.first? with
  | some o =>
    !(!o.underFlat && (decide (o.nodes.length > 1) || decide ((o.nodes.head?.map ndim).getD 0 > 1)))
  | none => false

/-- `p` is a strict ancestor of `ch` -/
def properPrefix (p ch : Id) : Bool := p.isPrefixOf ch && decide (p.length < ch.length)

/-- `any_is_parent_of(c2, c)` -/
def anyIsParentOf (c2 c : Cand) : Bool :=
  c2.occs.any (fun o2 => o2.ids.any (fun p => c.occs.any (fun o => o.ids.any (fun ch => properPrefix p ch))))

/-- lines 195–208; candidates are distinct dict entries, so `id(c) != id(c2)` is inequality of the keys -/
def notInsideOther (all : List Cand) (c : Cand) : Bool :=
  !all.any (fun c2 => c2.key != c.key && anyIsParentOf c2 c)

structure Opts where
  cseConcat : Bool := true
  cseInBrackets : Bool := false
  deriving Repr, Inhabited

/-- The final `common_exprs` for the candidates `groups` (dict entries in the order of enumeration). -/
def selectFrom (opts : Opts) (roots : List (Option VExpr)) (groups : List Cand) : List Cand :=
  let axes := allAxes 0 roots
  let c1 := groups.filter (usedOnlyInside axes)
  let c2 := c1.map (fun c => ({ c with occs := dedupe [] c.occs } : Cand))
  let c3 := c2.filter notSingleton
  let c4 := c3.filter allReplaceable
  let c5 := c4.filter (bracketsOK opts.cseInBrackets)
  let c6 := c5.filter (concatOK opts.cseConcat)
  let c7 := c6.filter rootOK
  c7.filter (notInsideOther c7)

/-! ### `replace` -/

/-- First loop of `replace` (lines 219–231): index of the first candidate with the exprlist `[expr]`. -/
def matchNode (cands : List Cand) (id : Id) : Option Nat :=
  cands.findIdx? (fun c => c.occs.any (fun o => o.ids == [id]))

/-- does the exprlist match `expr[i : i + len]` of the children list (length `n`) of the node `pid`? -/
def occMatchesAt (pid : Id) (i n : Nat) (o : Occ) : Bool :=
  decide (i + o.ids.length ≤ n) && o.ids == (List.range o.ids.length).map (fun j => pid ++ [i + j])

/-- one candidate in the search of lines 238–247: a strictly longer match replaces the one found so far -/
def scanOccs (pid : Id) (i n idx : Nat) : List Occ → Option (Nat × Nat) → Option (Nat × Nat)
  | [], found => found
  | o :: os, found =>
    let found' :=
      if occMatchesAt pid i n o then
        match found with
        | none => some (idx, o.ids.length)
        | some (k, len) => if o.ids.length > len then some (idx, o.ids.length) else some (k, len)
      else found
    scanOccs pid i n idx os found'

def scanCands (pid : Id) (i n : Nat) : Nat → List Cand → Option (Nat × Nat) → Option (Nat × Nat)
  | _, [], found => found
  | idx, c :: cs, found => scanCands pid i n (idx + 1) cs (scanOccs pid i n idx c.occs found)

/-- The search at position `i` (lines 236–248): `(idx, len)` of the longest exprlist that starts there (the first of
the longest ones in the order candidates × exprlists). -/
def matchAt (cands : List Cand) (pid : Id) (i n : Nat) : Option (Nat × Nat) := scanCands pid i n 0 cands none

/-- `f"cse.{idx}"` -/
def cseName (k : Nat) : String := "cse." ++ toString k

/-- `Axis(name, value, …, min_value=_value_range(what)[0])` -/
def newAxis (name : String) (value : Option Nat) (range : Option (Nat × Bool)) : Except String VExpr :=
  match range with
  | some (m, _) => pure (.axis name value m)
  | none => throw "TypeError: 'NoneType' object is not subscriptable"

section Replace
/- `nm idx` is the name of the axis that replaces the exprlists of candidate `idx` (`cseName` in `cse`; a parameter so
that C16 can state "the same trees with the new axes numbered differently"); `mn`, `ma` are the two searches. -/
variable (nm : Nat → String) (mn : Id → Option Nat) (ma : Id → Nat → Nat → Option (Nat × Nat))

/-- the node-level test at the top of `replace(expr)` for a node -/
def nodeOr (id : Id) (e : VExpr) (other : Except String (List VExpr)) : Except String (List VExpr) :=
  match mn id with
  | some idx => do pure [← newAxis (nm idx) (valueOf e) (valueRange e)]
  | none => other

mutual
/-- `replace(expr)` for a node -/
def repl (id : Id) : VExpr → Except String (List VExpr)
  | .axis n v m => nodeOr nm mn id (.axis n v m) (pure [.axis n v m])
  | .list cs =>
    -- `replace(expr.children)`; a Python list of length one is `replace(expr[0])`
    nodeOr nm mn id (.list cs) (if cs.length == 1 then replC id 0 cs else replL id cs.length 0 0 cs)
  | .concat cs => nodeOr nm mn id (.concat cs) (do pure [← mkConcat (← replC id 0 cs)])
  | .brackets e => nodeOr nm mn id (.brackets e) (do pure [mkBrackets (mkList (← repl (id ++ [0]) e))])
  | .flat e => nodeOr nm mn id (.flat e) (do pure [mkFlat (mkList (← repl (id ++ [0]) e))])
/-- the `while i < len(expr)` loop for the children (length `n`) of the `List` node `pid`; `skip` elements are still
covered by the exprlist substituted last (`i += len(exprlist)`) -/
def replL (pid : Id) (n : Nat) (i skip : Nat) : List VExpr → Except String (List VExpr)
  | [] => pure []
  | t :: ts =>
    if skip > 0 then replL pid n (i + 1) (skip - 1) ts
    else
      match ma pid i n with
      | some (idx, len) => do
        let a ← newAxis (nm idx) (prodOpt (valuesOf ((t :: ts).take len))) (valueRange (.list ((t :: ts).take len)))
        let r ← replL pid n (i + 1) (len - 1) ts
        pure (a :: r)
      | none => do
        let a ← repl (pid ++ [i]) t
        let r ← replL pid n (i + 1) 0 ts
        pure (a ++ r)
/-- `[c2 for c1 in expr.children for c2 in replace(c1)]` -/
def replC (pid : Id) (k : Nat) : List VExpr → Except String (List VExpr)
  | [] => pure []
  | c :: cs => do
    let a ← repl (pid ++ [k]) c
    let r ← replC pid (k + 1) cs
    pure (a ++ r)
end
end Replace

/-- `[List.create(replace(root), ellipsis_indices=[]) if root is not None else None for root in expressions]` -/
def replaceRootsM (nm : Nat → String) (mn : Id → Option Nat) (ma : Id → Nat → Nat → Option (Nat × Nat)) (k : Nat) :
    List (Option VExpr) → Except String (List (Option VExpr))
  | [] => pure []
  | none :: rs => do pure (none :: (← replaceRootsM nm mn ma (k + 1) rs))
  | some r :: rs => do
    let a ← repl nm mn ma [k] r
    let rest ← replaceRootsM nm mn ma (k + 1) rs
    pure (some (mkList a) :: rest)

/-- … with the candidates `cands` and the names `cse.<idx>` -/
def replaceRoots (cands : List Cand) (k : Nat) (rs : List (Option VExpr)) : Except String (List (Option VExpr)) :=
  replaceRootsM cseName (matchNode cands) (matchAt cands) k rs

/-- `cse(expressions, cse_concat, cse_in_brackets)` with the dict enumerated by `enum`. -/
def cseTreesEnum (enum : List Cand → List Cand) (opts : Opts) (roots : List (Option VExpr)) :
    Except String (List (Option VExpr)) :=
  replaceRoots (selectFrom opts roots (enum (groupEntries (allEntries 0 roots)))) 0 roots

/-- The final candidates (for diagnostics and for the theorems). -/
def candidates (opts : Opts) (roots : List (Option VExpr)) : List Cand :=
  selectFrom opts roots (groupEntries (allEntries 0 roots))

/-- **`cse`** (insertion order, as CPython enumerates a dict). -/
def cseTrees (opts : Opts) (roots : List (Option VExpr)) : Except String (List (Option VExpr)) :=
  cseTreesEnum id opts roots

end Einx.Solve.CseT
