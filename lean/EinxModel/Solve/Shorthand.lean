import EinxModel.Solve.Tree
/-!
M2 (solving) — the stage-2/3 shorthands of C07 as transformations of `Solve.Input`
(short form ↦ documented long form).  The theorems of `Props/C07Stage2.lean` say that the
transformed input has the corresponding solutions (`Sols`) and the same tensor shapes; the driver
(`Driver/Shorthand.lean`) executes these very definitions so that `tools/props/c07_stage2.py` can
compare them with the long form einx itself produces / accepts.

* `unroll ρ idx e` — the expansion of ellipses as `stage2/solve.py:map` performs it: the inner
  expression of an ellipsis with count `ρ id` is written out `ρ id` times and every axis name gets
  the suffix `.i` of each enclosing repetition (`a` ↦ `a.0`, `a.1`, … — the names the real stage-2
  tree carries).  `unrollInput` also turns every constraint array into one scalar constraint per
  expanded axis.  Difference to the real code: `map` repeats an ellipsis by its *width*
  (`expansion_values[(id(expr), depth)]`) and not by its count; both are the same number whenever the
  repeated expression has exactly one root item (`a...`, `(a b)...`, `[a]...`, `...`); for a
  multi-item group (`[a b]...`) the real code fails (known finding of C02), so the tie compares
  single-item groups only.
* `substNum n v` — the numeric axis `v` in place of the (fresh) name `n`.
* `Constraint.broadcast d c` — the constraint array repeated `d` times along a new leading dimension
  (`b=2` ↦ `b=(2,)*d`).
* `renameE f` — consistent renaming of axis names (an anonymous `...` is the ellipsis over the axis
  `.anonymous_ellipsis_axis`; writing `s...` instead renames that axis).
* `namesOK` — the (decidable) hygiene of the variable names the model generates: the variables of
  flattened / concatenated nodes are pairwise different and different from all axis variables.
-/
namespace Einx.Solve

/-! ### Ellipsis = written-out repetition -/

mutual
/-- `stage2/solve.py:map` on stage-1 trees: repetitions written out, axis names suffixed. -/
def unroll (ρ : Var → Nat) (idx : List Nat) : Expr → Expr
  | .axis n => .axis (n ++ idxSuffix idx)
  | .num v => .num v
  | .brackets e => .brackets (unroll ρ idx e)
  | .flat e => .flat (unroll ρ idx e)
  | .concat cs => .concat (unrollL ρ idx cs)
  | .ellipsis id e => .list ((List.range (ρ id)).map (fun i => unroll ρ (idx ++ [i]) e))
  | .list cs => .list (unrollL ρ idx cs)
def unrollL (ρ : Var → Nat) (idx : List Nat) : List Expr → List Expr
  | [] => []
  | c :: cs => unroll ρ idx c :: unrollL ρ idx cs
end

/-- All expanded named axes of an input (name, ellipsis indices, variable), tensor by tensor. -/
def Input.axes (inp : Input) (ρ : Var → Nat) : List (String × List Nat × Var) :=
  (gens inp ρ).flatMap (fun p => p.2.axes)

/-- One scalar constraint per expanded axis of the constrained name (`b=(2,3)` ↦ `b.0=2, b.1=3`). -/
def unrollConstraint (axes : List (String × List Nat × Var)) (c : Constraint) : List Constraint :=
  (axes.filter (fun a => a.1 == c.name)).filterMap
    (fun a => (constraintValue c a.2.1).map (fun v => ⟨a.2.2, [], [v]⟩))

/-- The long form of an input for repetition counts `ρ`: no ellipsis is left. -/
def unrollInput (inp : Input) (ρ : Var → Nat) : Input :=
  { tensors := inp.tensors.map (fun t => ⟨unroll ρ [] t.expr, t.shape⟩),
    constraints := inp.constraints.flatMap (unrollConstraint (inp.axes ρ)) }

/-! ### Number = fresh axis with a constraint -/

mutual
/-- The numeric axis `v` written in place of the axis name `n`. -/
def substNum (n : String) (v : Nat) : Expr → Expr
  | .axis m => if m = n then .num v else .axis m
  | .num w => .num w
  | .brackets e => .brackets (substNum n v e)
  | .flat e => .flat (substNum n v e)
  | .concat cs => .concat (substNumL n v cs)
  | .ellipsis id e => .ellipsis id (substNum n v e)
  | .list cs => .list (substNumL n v cs)
def substNumL (n : String) (v : Nat) : List Expr → List Expr
  | [] => []
  | c :: cs => substNum n v c :: substNumL n v cs
end

/-- Long form: the name `n` with the keyword size `n=v`. -/
def withNumConstraint (inp : Input) (n : String) (v : Nat) : Input :=
  { inp with constraints := inp.constraints ++ [⟨n, [], [v]⟩] }

/-- Short form: the number `v` wherever `n` stood. -/
def numForm (inp : Input) (n : String) (v : Nat) : Input :=
  { inp with tensors := inp.tensors.map (fun t => ⟨substNum n v t.expr, t.shape⟩) }

/-! ### Scalar constraint = repeated tuple -/

/-- The array repeated `d` times along a new leading dimension. -/
def Constraint.broadcast (d : Nat) (c : Constraint) : Constraint :=
  ⟨c.name, d :: c.shape, (List.replicate d c.vals).flatten⟩

/-! ### Renaming of axis names -/

mutual
def renameE (f : String → String) : Expr → Expr
  | .axis n => .axis (f n)
  | .num v => .num v
  | .brackets e => .brackets (renameE f e)
  | .flat e => .flat (renameE f e)
  | .concat cs => .concat (renameEL f cs)
  | .ellipsis id e => .ellipsis id (renameE f e)
  | .list cs => .list (renameEL f cs)
def renameEL (f : String → String) : List Expr → List Expr
  | [] => []
  | c :: cs => renameE f c :: renameEL f cs
end

def renameInput (f : String → String) (inp : Input) : Input :=
  { tensors := inp.tensors.map (fun t => ⟨renameE f t.expr, t.shape⟩),
    constraints := inp.constraints.map (fun c => ⟨f c.name, c.shape, c.vals⟩) }

/-- Replace the name `a` by `b` (every other name stays). -/
def swapName (a b : String) : String → String := fun n => if n = a then b else n

/-- the variable of an expanded axis after renaming -/
def renVar (f : String → String) (a : String × List Nat × Var) : Var := f a.1 ++ idxSuffix a.2.1

def renAxis (f : String → String) (a : String × List Nat × Var) : String × List Nat × Var :=
  (f a.1, a.2.1, renVar f a)

/-- Renaming acts on the expanded variables as a bijection: two expanded axes share their variable
before the renaming iff they do after it.  (Follows from injectivity of `f` on the names when no
name contains a `.`; decidable.) -/
def renOK (f : String → String) (inp : Input) (ρ : Var → Nat) : Bool :=
  (inp.axes ρ).all (fun a => (inp.axes ρ).all (fun b => (a.2.2 == b.2.2) == (renVar f a == renVar f b)))

/-- the names of an input: axis occurrences and constraints -/
def Input.names (inp : Input) : List String := inp.occs.map (·.1) ++ inp.constraints.map (·.name)

/-! ### Printing (for examples and messages) -/

mutual
/-- The expression in einx notation (an ellipsis over a list of several items in braces). -/
def Expr.render : Expr → String
  | .axis n => n
  | .num v => toString v
  | .brackets e => "[" ++ e.render ++ "]"
  | .flat e => "(" ++ e.render ++ ")"
  | .concat cs => "(" ++ Expr.renderL " + " cs ++ ")"
  | .ellipsis _ e => "{" ++ e.render ++ "}..."
  | .list cs => Expr.renderL " " cs
def Expr.renderL (sep : String) : List Expr → String
  | [] => ""
  | [c] => c.render
  | c :: cs => c.render ++ sep ++ Expr.renderL sep cs
end

/-! ### Observables and name hygiene -/

def tval (σ : Var → Nat) : Term → Nat
  | .const n => n
  | .var x => σ x

/-- The tensor shapes under counts `ρ` and lengths `σ` (one list of dimensions per tensor). -/
def shapesOf (inp : Input) (ρ σ : Var → Nat) : List (List Nat) :=
  (gens inp ρ).map (fun p => p.2.items.map (tval σ))

mutual
/-- The variables `expand` introduces for flattened / concatenated nodes. -/
def nodeKeys (ρ : Var → Nat) (path : String) (idx : List Nat) : Expr → List Var
  | .axis _ => []
  | .num _ => []
  | .brackets e => nodeKeys ρ path idx e
  | .flat e => (path ++ idxSuffix idx) :: nodeKeys ρ (path ++ "(") idx e
  | .concat cs => (path ++ idxSuffix idx) :: nodeKeysL ρ (path ++ "+") idx 0 cs
  | .ellipsis id e => (List.range (ρ id)).flatMap (fun i => nodeKeys ρ path (idx ++ [i]) e)
  | .list cs => nodeKeysL ρ path idx 0 cs
def nodeKeysL (ρ : Var → Nat) (path : String) (idx : List Nat) (k : Nat) : List Expr → List Var
  | [] => []
  | c :: cs => nodeKeys ρ (path ++ "/" ++ toString k) idx c ++ nodeKeysL ρ path idx (k + 1) cs
end

def Input.nodeKeys (inp : Input) (ρ : Var → Nat) : List Var :=
  (inp.tensors.zip (List.range inp.tensors.length)).flatMap
    (fun p => Einx.Solve.nodeKeys ρ ("#" ++ toString p.2) [] p.1.expr)

/-- Name hygiene of the generated value system: node variables are pairwise different and none of
them is an axis variable.  (True for every input whose axis names contain no `#`; checked per
case by the driver, a hypothesis of the existence halves of the shorthand theorems.) -/
def namesOK (inp : Input) (ρ : Var → Nat) : Bool :=
  decide (inp.nodeKeys ρ).Nodup &&
  (inp.nodeKeys ρ).all (fun k => !((inp.axes ρ).any (fun a => a.2.2 == k)))

/-- The variables of the occurrences of `n` are used by no other name (freshness of `n` at the level
of expanded variables: e.g. `n = "a.0"` next to `a...` is not fresh). -/
def freshVars (inp : Input) (ρ : Var → Nat) (n : String) : Bool :=
  (inp.axes ρ).all (fun a => (inp.axes ρ).all (fun b => !(a.1 == n && b.2.2 == a.2.2) || b.1 == n))

/-- All occurrences of `n` stand under the same ellipses (in particular: `n` occurs once). -/
def sameStack (inp : Input) (n : String) : Bool :=
  inp.occs.all (fun p => inp.occs.all (fun q => !(p.1 == n && q.1 == n) || p.2 == q.2))

end Einx.Solve
