import EinxModel.Notation.Tree
import EinxModel.Solve.Tree
/-!
M2 (solving) — from the parser model's stage-1 trees (`Notation/Tree.lean`, the results of
`Notation.parseOp`) to the trees of the solving model (`Solve/Tree.lean`).  This is the Lean
counterpart of `tools/props/c02.py:tree_json`, which performs the same conversion on einx's own
stage-1 trees before they are sent to the driver: a named axis keeps its name, a numeric axis
(`value` set; its name `unnamed.<uuid>` is dropped) becomes a number, an ellipsis is identified by
its `ellipsis_id`, positions are dropped.  (`Args` / `Op` nodes do not occur below an operand; they
are mapped to lists so that the function is total.)
-/
namespace Einx.Solve

mutual
def toSolve : Einx.Notation.Expr → Expr
  | .axis n none _ _ => .axis (String.ofList n)
  | .axis _ (some v) _ _ => .num v
  | .flat i _ _ => .flat (toSolve i)
  | .brackets i _ _ => .brackets (toSolve i)
  | .ellipsis i id _ _ => .ellipsis ("e" ++ toString id) (toSolve i)
  | .concat cs _ _ => .concat (toSolveL cs)
  | .list cs _ _ => .list (toSolveL cs)
  | .args cs _ _ => .list (toSolveL cs)
  | .op cs _ _ => .list (toSolveL cs)
def toSolveL : List Einx.Notation.Expr → List Expr
  | [] => []
  | c :: cs => toSolve c :: toSolveL cs
end

/-- The operand expressions of a `parse_op` result `Op[Args[…], Args[…]]`, converted. -/
def operandExprs (t : Einx.Notation.Expr) : List Expr :=
  t.children.flatMap (fun side => side.children.map toSolve)

end Einx.Solve
