/-!
M2 (solving) — the equation language shared by the rank level and the value level, its
specification `Sat`, the Boolean checker `checkSat`, and the reference solver `propagate`
(unit propagation).

* Variables are named unknowns over `Nat` (unbounded: exact beyond 2^31 by construction) with a
  declared lower bound: `1` for axis lengths and for the values of flattened / concatenated
  nodes, `0` for ellipsis repetition counts.
* An equation is `polynomial = polynomial`, a polynomial being a sum of monomials
  `coef * x1 * … * xn`.  This covers every equation einx states:
  `root dimension = constant`, `flattened node = product of its children`,
  `concatenated node = sum of its children`, `axis = keyword size`, `count = count`,
  `rank = c0 + c1*r1 + …`.
* `propagate` repeatedly takes the first equation in which, after substituting the values known
  so far, exactly one unknown is left and occurs linearly, solves it (divisibility, sign of the
  subtraction and the lower bound are checked) and stops at a fixpoint.

No Mathlib: the driver executes these very definitions.
-/
namespace Einx.Solve

abbrev Var := String

/-- Partial assignment as an association list (the first binding of a name wins). -/
abbrev Assign := List (Var × Nat)

/-- The total function denoted by an association list; unbound names read as `0`
(`checkSat` separately demands that every variable of the system is bound). -/
def toFun (a : Assign) : Var → Nat := fun x => (a.lookup x).getD 0

structure Mono where
  coef : Nat
  vars : List Var
  deriving DecidableEq, Repr, Inhabited

abbrev Poly := List Mono

structure Eqn where
  lhs : Poly
  rhs : Poly
  deriving DecidableEq, Repr, Inhabited

structure System where
  /-- declared variables with their lower bounds -/
  vars : List (Var × Nat)
  eqns : List Eqn
  deriving DecidableEq, Repr, Inhabited

def prodVars (σ : Var → Nat) : List Var → Nat
  | [] => 1
  | x :: xs => σ x * prodVars σ xs

def evalMono (σ : Var → Nat) (m : Mono) : Nat := m.coef * prodVars σ m.vars

def evalPoly (σ : Var → Nat) : Poly → Nat
  | [] => 0
  | m :: ms => evalMono σ m + evalPoly σ ms

/-- **Specification.**  `σ` satisfies the system: every declared variable respects its lower
bound and both sides of every equation have the same value. -/
def Sat (sys : System) (σ : Var → Nat) : Prop :=
  (∀ p ∈ sys.vars, p.2 ≤ σ p.1) ∧ (∀ e ∈ sys.eqns, evalPoly σ e.lhs = evalPoly σ e.rhs)

def polyVars : Poly → List Var
  | [] => []
  | m :: ms => m.vars ++ polyVars ms

def eqnVars (e : Eqn) : List Var := polyVars e.lhs ++ polyVars e.rhs

def eqnsVars : List Eqn → List Var
  | [] => []
  | e :: es => eqnVars e ++ eqnsVars es

/-- All variables of a system: the declared ones and those occurring in equations. -/
def System.allVars (sys : System) : List Var := sys.vars.map (·.1) ++ eqnsVars sys.eqns

/-- Boolean checker: every variable is bound, bounds hold, equations hold. -/
def checkSat (sys : System) (a : Assign) : Bool :=
  sys.allVars.all (fun x => (a.lookup x).isSome) &&
  (sys.vars.all (fun p => decide (p.2 ≤ toFun a p.1)) &&
   sys.eqns.all (fun e => evalPoly (toFun a) e.lhs == evalPoly (toFun a) e.rhs))

/-! ### Reference solver -/

/-- Substitute known values into a product of variables: (product of the known factors,
remaining unknown factors in order). -/
def reduceVars (a : Assign) : List Var → Nat × List Var
  | [] => (1, [])
  | x :: xs =>
    match a.lookup x with
    | some v => (v * (reduceVars a xs).1, (reduceVars a xs).2)
    | none => ((reduceVars a xs).1, x :: (reduceVars a xs).2)

/-- Read a polynomial as `k + c * x` for the single unknown `x` after substitution;
`none` if another unknown or a non-linear occurrence of `x` is left. -/
def linPoly (a : Assign) (x : Var) : Poly → Option (Nat × Nat)
  | [] => some (0, 0)
  | m :: ms =>
    match linPoly a x ms with
    | none => none
    | some (k, c) =>
      let c' := m.coef * (reduceVars a m.vars).1
      if c' = 0 then some (k, c)            -- the monomial vanishes whatever the unknowns are
      else
        match (reduceVars a m.vars).2 with
        | [] => some (k + c', c)
        | [y] => if y = x then some (k, c + c') else none
        | _ => none

inductive Step where
  | contra
  | learn (x : Var) (v : Nat)
  | skip
  deriving DecidableEq, Repr, Inhabited

/-- Solve `c * x = hi - lo` (`c > 0`) over the naturals, respecting the declared bounds of `x`. -/
def solveLin (sys : System) (c hi lo : Nat) (x : Var) : Step :=
  if hi < lo then .contra
  else if (hi - lo) % c ≠ 0 then .contra
  else if sys.vars.any (fun p => p.1 == x && decide ((hi - lo) / c < p.2)) then .contra
  else .learn x ((hi - lo) / c)

/-- One equation under the current knowledge: contradiction, a forced value, or nothing. -/
def stepEqn (sys : System) (a : Assign) (e : Eqn) : Step :=
  match (eqnVars e).find? (fun x => (a.lookup x).isNone) with
  | none => if evalPoly (toFun a) e.lhs = evalPoly (toFun a) e.rhs then .skip else .contra
  | some x =>
    match linPoly a x e.lhs, linPoly a x e.rhs with
    | some (k1, c1), some (k2, c2) =>
      if c1 = c2 then (if k1 = k2 then .skip else .contra)
      else if c2 < c1 then solveLin sys (c1 - c2) k2 k1 x
      else solveLin sys (c2 - c1) k1 k2 x
    | _, _ => .skip

/-- First equation (in order) that yields something. -/
def scan (sys : System) (a : Assign) : List Eqn → Step
  | [] => .skip
  | e :: es =>
    match stepEqn sys a e with
    | .skip => scan sys a es
    | s => s

inductive Verdict where
  /-- every variable is determined and all equations and bounds check -/
  | unique (a : Assign)
  /-- a contradiction was derived -/
  | none
  /-- fixpoint with unknowns left; the values derived so far are forced -/
  | stuck (a : Assign)
  deriving DecidableEq, Repr, Inhabited

def finish (sys : System) (a : Assign) : Verdict :=
  if sys.allVars.all (fun x => (a.lookup x).isSome) then
    (if checkSat sys a then .unique a else .none)
  else .stuck a

def unknownCount (sys : System) (a : Assign) : Nat :=
  (sys.allVars.filter (fun x => (a.lookup x).isNone)).length

/-! Lemmas needed for termination (the measure is the number of still unknown variables). -/

theorem find_unknown_mem {a : Assign} {l : List Var} {x : Var}
    (h : l.find? (fun x => (a.lookup x).isNone) = some x) : x ∈ l ∧ a.lookup x = none := by
  have h1 := List.mem_of_find?_eq_some h
  have h2 := List.find?_some h
  refine ⟨h1, ?_⟩
  cases hx : a.lookup x with
  | none => rfl
  | some v => simp [hx] at h2

theorem solveLin_learn {sys : System} {c hi lo : Nat} {x y : Var} {v : Nat}
    (h : solveLin sys c hi lo x = .learn y v) : y = x ∧ v = (hi - lo) / c := by
  unfold solveLin at h
  split at h
  · cases h
  · split at h
    · cases h
    · split at h
      · cases h
      · injection h with h1 h2; exact ⟨h1.symm, h2.symm⟩

theorem stepEqn_learn_unknown {sys : System} {a : Assign} {e : Eqn} {x : Var} {v : Nat}
    (h : stepEqn sys a e = .learn x v) : x ∈ eqnVars e ∧ a.lookup x = none := by
  unfold stepEqn at h
  split at h
  · split at h <;> cases h
  · rename_i y hy
    have hm := find_unknown_mem hy
    split at h
    · split at h
      · split at h <;> cases h
      · split at h
        · rw [(solveLin_learn h).1]; exact hm
        · rw [(solveLin_learn h).1]; exact hm
    · cases h

theorem mem_eqnsVars {es : List Eqn} {e : Eqn} {x : Var} (he : e ∈ es) (hx : x ∈ eqnVars e) :
    x ∈ eqnsVars es := by
  induction es with
  | nil => cases he
  | cons e' es ih =>
    simp only [eqnsVars, List.mem_append]
    cases he with
    | head => exact Or.inl hx
    | tail _ h => exact Or.inr (ih h)

theorem scan_learn {sys : System} {a : Assign} {es : List Eqn} {x : Var} {v : Nat}
    (h : scan sys a es = .learn x v) : ∃ e ∈ es, stepEqn sys a e = .learn x v := by
  induction es with
  | nil => cases h
  | cons e es ih =>
    unfold scan at h
    split at h
    · obtain ⟨e', he', hs⟩ := ih h
      exact ⟨e', List.mem_cons_of_mem _ he', hs⟩
    · rename_i s hs
      exact ⟨e, List.mem_cons_self, by rw [← h]⟩

theorem filter_length_lt {l : List Var} {p q : Var → Bool} (hpq : ∀ y, q y = true → p y = true)
    {x : Var} (hx : x ∈ l) (hp : p x = true) (hq : q x = false) :
    (l.filter q).length < (l.filter p).length := by
  induction l with
  | nil => cases hx
  | cons y ys ih =>
    have hle : (ys.filter q).length ≤ (ys.filter p).length := by
      clear ih hx
      induction ys with
      | nil => simp
      | cons z zs ihz =>
        simp only [List.filter_cons]
        cases hqz : q z with
        | true => simp [hpq z hqz]; exact ihz
        | false =>
          cases hpz : p z with
          | true => simp; omega
          | false => simpa using ihz
    simp only [List.filter_cons]
    cases hx with
    | head => simp [hp, hq]; omega
    | tail _ hx' =>
      have := ih hx'
      cases hqy : q y with
      | true => simp [hpq y hqy]; exact this
      | false =>
        cases hpy : p y with
        | true => simp; omega
        | false => simpa using this

theorem lookup_cons_ne {a : Assign} {x y : Var} {v : Nat} (h : y ≠ x) :
    List.lookup y ((x, v) :: a) = a.lookup y := by
  simp only [List.lookup]
  have : (y == x) = false := by simpa using h
  rw [this]

theorem lookup_cons_self {a : Assign} {x : Var} {v : Nat} :
    List.lookup x ((x, v) :: a) = some v := by
  simp [List.lookup]

theorem learn_decreases {sys : System} {a : Assign} {x : Var} {v : Nat}
    (h : scan sys a sys.eqns = .learn x v) :
    unknownCount sys ((x, v) :: a) < unknownCount sys a := by
  obtain ⟨e, he, hs⟩ := scan_learn h
  obtain ⟨hx, hun⟩ := stepEqn_learn_unknown hs
  have hmem : x ∈ sys.allVars := by
    unfold System.allVars
    exact List.mem_append_right _ (mem_eqnsVars he hx)
  unfold unknownCount
  apply filter_length_lt (x := x) _ hmem
  · simp [hun]
  · simp
  · intro y hy
    by_cases hyx : y = x
    · subst hyx; simp at hy
    · rw [lookup_cons_ne hyx] at hy; exact hy

/-- The propagation loop from a given state of knowledge.  `fuel` bounds the number of values that
can still be learnt; `propagate` supplies the number of variables, and `propagate_stuck_fixpoint`
(Props/C02) proves that this is enough: a `stuck` verdict is always a genuine fixpoint. -/
def propagateLoop (sys : System) : Nat → Assign → Verdict
  | 0, a => finish sys a
  | fuel + 1, a =>
    match scan sys a sys.eqns with
    | .contra => .none
    | .skip => finish sys a
    | .learn x v => propagateLoop sys fuel ((x, v) :: a)

/-- **Reference solver**: unit propagation from nothing known. -/
def propagate (sys : System) : Verdict := propagateLoop sys sys.allVars.length []

end Einx.Solve
