import EinxModel.Solve.Shorthand
/-!
M2 (solving) — the `UnexpandedEllipsis(...)` branch of `stage2/solve.py:map`.

When the stage-2 solver cannot determine the expansion of an ellipsis — tolerated by `solve` only for
ellipses inside a `FlattenedAxis` (`is_at_root`) — `map` does not expand it but emits ONE free stage-2
axis named `f"UnexpandedEllipsis({expr})" + "".join(f".{idx}" …)` (branch "Ellipsis is not expanded ->
convert to named axis").  `expand` of `Solve/Tree.lean` always expands by a given count.  `expandU`
takes *optional* counts: `some k` behaves exactly as `expand` (`expandU_some`), `none` is the real
code's branch.  The name is rendered with `Expr.render` (`{b}...` where the real `__str__` prints
`b...`; the name plays no role beyond being one fresh variable).

`valueSystemU` is the value system stage 3 then states.  `Props/C02Unexpanded.lean` says when the
replacement preserves the solution set and exhibits `(3...)` against a dimension of length 2.
-/
namespace Einx.Solve

def unexpandedName (id : Var) (e : Expr) : String := "UnexpandedEllipsis(" ++ (Expr.ellipsis id e).render ++ ")"

mutual
def expandU (ρ? : Var → Option Nat) (path : String) (idx : List Nat) : Expr → Gen
  | .axis n =>
    let x := n ++ idxSuffix idx
    { items := [.var x], vars := [x], axes := [(n, idx, x)] }
  | .num v => { items := [.const v] }
  | .brackets e => expandU ρ? path idx e
  | .flat e =>
    let g := expandU ρ? (path ++ "(") idx e
    let x := path ++ idxSuffix idx
    { items := [.var x], eqns := ⟨[⟨1, [x]⟩], [prodMono g.items]⟩ :: g.eqns, vars := x :: g.vars, axes := g.axes }
  | .concat cs =>
    let g := expandUL ρ? (path ++ "+") idx 0 cs
    let x := path ++ idxSuffix idx
    { items := [.var x], eqns := ⟨[⟨1, [x]⟩], g.items.map termMono⟩ :: g.eqns, vars := x :: g.vars, axes := g.axes }
  | .ellipsis id e =>
    match ρ? id with
    | some k => Gen.concat ((List.range k).map (fun i => expandU ρ? path (idx ++ [i]) e))
    | none =>
      -- "Ellipsis is not expanded -> convert to named axis"
      let n := unexpandedName id e
      let x := n ++ idxSuffix idx
      { items := [.var x], vars := [x], axes := [(n, idx, x)] }
  | .list cs => expandUL ρ? path idx 0 cs
def expandUL (ρ? : Var → Option Nat) (path : String) (idx : List Nat) (k : Nat) : List Expr → Gen
  | [] => {}
  | c :: cs => (expandU ρ? (path ++ "/" ++ toString k) idx c).append (expandUL ρ? path idx (k + 1) cs)
end

def gensU (inp : Input) (ρ? : Var → Option Nat) : List (Tensor × Gen) :=
  (inp.tensors.zip (List.range inp.tensors.length)).map
    (fun p => (p.1, expandU ρ? ("#" ++ toString p.2) [] p.1.expr))

/-- The value system of stage 3 after `map` with partially determined expansions. -/
def valueSystemU (inp : Input) (ρ? : Var → Option Nat) : System :=
  let gs := gensU inp ρ?
  let axes := gs.flatMap (fun p => p.2.axes)
  { vars := (gs.flatMap (fun p => p.2.vars)).map (fun x => (x, 1)),
    eqns := gs.flatMap (fun p => p.2.eqns) ++ gs.flatMap (fun p => rootEqns p.1 p.2) ++
            inp.constraints.flatMap (constraintValueEqns axes) }

end Einx.Solve
