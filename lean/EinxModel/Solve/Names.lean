import EinxModel.Solve.Shorthand
/-!
M2 (solving) — the syntactic condition on the user's axis names under which the variable names the
model generates (`#t/k(….i.j` for flattened / concatenated nodes, `name.i.j` for expanded axes) decode
uniquely.  Executable (the driver evaluates `plainNames` on every case of the C07 stage-2 stream);
`Proofs/SolveNames.lean` derives `namesOK`, `freshVars`, `renOK` from it.

* `identName` — `[a-zA-Z_][a-zA-Z0-9_]*`, the axis names the einx lexer accepts
  (`stage1/parse.py:_axis_name`; the parser model's `Notation.isAxisName`).
* `plainName` — the (weaker) condition the proofs need: no `#`, and the name does not end in
  `.digits` (stated as: no `.` at all, or the last character is not a digit).  Every `identName` is
  plain, and so is the anonymous ellipsis axis `.anonymous_ellipsis_axis`, the only other name the
  stage-1 parser gives a named axis.
* `hashFree` — no `#` only; this already implies `namesOK` and survives `unrollInput`
  (whose names `a.0.1` are not plain any more).
-/
namespace Einx.Solve

def isIdentStart (c : Char) : Bool := ('a' ≤ c && c ≤ 'z') || ('A' ≤ c && c ≤ 'Z') || c == '_'
def isIdentCont (c : Char) : Bool := isIdentStart c || ('0' ≤ c && c ≤ '9')

/-- `[a-zA-Z_][a-zA-Z0-9_]*` -/
def identChars : List Char → Bool
  | [] => false
  | c :: cs => isIdentStart c && cs.all isIdentCont

def identName (s : String) : Bool := identChars s.toList

def plainChars (s : List Char) : Bool :=
  !(s.contains '#') && (!(s.contains '.') || !(s.getLast?.any Char.isDigit))

def plainName (s : String) : Bool := plainChars s.toList

/-- the axis names occurring in the expressions of an input -/
def Input.axisNames (inp : Input) : List String := inp.occs.map (·.1)

/-- **The syntactic condition**: every axis name occurring in an expression is plain. -/
def plainNames (inp : Input) : Bool := inp.axisNames.all plainName

/-- No axis name occurring in an expression contains a `#`. -/
def hashFree (inp : Input) : Bool := inp.axisNames.all (fun n => !(n.toList.contains '#'))

end Einx.Solve
