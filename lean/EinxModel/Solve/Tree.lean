import EinxModel.Solve.System
/-!
M2 (solving) — from stage-1 expression trees, tensor shapes and keyword constraints to the two
equation systems of `namedtensor/solve.py`:

* the **rank system** over ellipsis repetition counts (`stage2/solve.py`, by its meaning): the
  width of every root expression is a polynomial in the counts; a tensor of known rank fixes the
  width of its expression; occurrences of one axis name live at one ellipsis depth and share the
  counts of the enclosing ellipses level by level; a constraint array fixes the counts of the
  innermost levels around its axis (its rank may not exceed the depth).
* the **value system** over axis lengths (`stage3/solve.py`), obtained by expanding the ellipses
  with given counts (axes `name.i.j`): every root dimension of a tensor of known shape equals the
  value of its item, a flattened node is the product and a concatenated node the sum of its
  children, constraint arrays give constants (broadcast over outer levels).

The trees come from einx's own stage-1 parser (front-trusted; the parser is C12's subject).
-/
namespace Einx.Solve

inductive Expr where
  | axis (name : String)
  | num (v : Nat)
  | list (cs : List Expr)
  | flat (inner : Expr)
  | concat (cs : List Expr)
  | brackets (inner : Expr)
  | ellipsis (id : String) (inner : Expr)
  deriving Repr, Inhabited

structure Tensor where
  expr : Expr
  /-- `none` = unknown shape (`None`, tensor factory, output expression) -/
  shape : Option (List Nat)
  deriving Repr, Inhabited

structure Constraint where
  name : String
  shape : List Nat
  /-- row-major values, `vals.length = product of shape` -/
  vals : List Nat
  deriving Repr, Inhabited

structure Input where
  tensors : List Tensor
  constraints : List Constraint
  deriving Repr, Inhabited

/-- `1 = 0` -/
def contraEqn : Eqn := ⟨[⟨1, []⟩], []⟩

/-! ### Rank level -/

mutual
/-- Semantic width: number of root-level items of the expansion, given the counts. -/
def width (ρ : Var → Nat) : Expr → Nat
  | .axis _ => 1
  | .num _ => 1
  | .flat _ => 1
  | .concat _ => 1
  | .brackets e => width ρ e
  | .ellipsis id e => ρ id * width ρ e
  | .list cs => widthL ρ cs
def widthL (ρ : Var → Nat) : List Expr → Nat
  | [] => 0
  | c :: cs => width ρ c + widthL ρ cs
end

mutual
/-- The width as a polynomial in the repetition counts. -/
def widthPoly : Expr → Poly
  | .axis _ => [⟨1, []⟩]
  | .num _ => [⟨1, []⟩]
  | .flat _ => [⟨1, []⟩]
  | .concat _ => [⟨1, []⟩]
  | .brackets e => widthPoly e
  | .ellipsis id e => (widthPoly e).map (fun m => ⟨m.coef, id :: m.vars⟩)
  | .list cs => widthPolyL cs
def widthPolyL : List Expr → Poly
  | [] => []
  | c :: cs => widthPoly c ++ widthPolyL cs
end

mutual
def ellIds : Expr → List Var
  | .axis _ => []
  | .num _ => []
  | .flat e => ellIds e
  | .brackets e => ellIds e
  | .ellipsis id e => id :: ellIds e
  | .list cs => ellIdsL cs
  | .concat cs => ellIdsL cs
def ellIdsL : List Expr → List Var
  | [] => []
  | c :: cs => ellIds c ++ ellIdsL cs
end

mutual
/-- Occurrences of axis names with the ids of the enclosing ellipses, outermost first. -/
def occs (stack : List Var) : Expr → List (String × List Var)
  | .axis n => [(n, stack)]
  | .num _ => []
  | .flat e => occs stack e
  | .brackets e => occs stack e
  | .ellipsis id e => occs (stack ++ [id]) e
  | .list cs => occsL stack cs
  | .concat cs => occsL stack cs
def occsL (stack : List Var) : List Expr → List (String × List Var)
  | [] => []
  | c :: cs => occs stack c ++ occsL stack cs
end

def Input.ellIds (inp : Input) : List Var := inp.tensors.flatMap (fun t => Einx.Solve.ellIds t.expr)

def Input.occs (inp : Input) : List (String × List Var) :=
  inp.tensors.flatMap (fun t => Einx.Solve.occs [] t.expr)

def varEq (a b : Var) : Eqn := ⟨[⟨1, [a]⟩], [⟨1, [b]⟩]⟩
def varConst (a : Var) (n : Nat) : Eqn := ⟨[⟨1, [a]⟩], [⟨n, []⟩]⟩

def zipEqns : List Var → List Var → List Eqn
  | a :: as, b :: bs => (if a = b then [] else [varEq a b]) ++ zipEqns as bs
  | _, _ => []

/-- Occurrences of one name: same depth, same counts level by level (reference = first occurrence). -/
def sameNameEqns : List (String × List Var) → List (String × List Var) → List Eqn
  | _, [] => []
  | seen, (n, st) :: rest =>
    match seen.lookup n with
    | none => sameNameEqns ((n, st) :: seen) rest
    | some st0 =>
      (if st.length = st0.length then zipEqns st0 st else [contraEqn]) ++ sameNameEqns seen rest

/-- Counts fixed by the shape of a constraint array.  `inner = false` keeps only what the pinned
implementation derives (`stage2/solve.py` uses entry 0 of the array shape, and only when the rank
of the array equals the depth of the axis); that weaker system is used solely to decide when
success is *demanded* from einx.  An unused constraint is dropped, as `namedtensor/solve.py` does. -/
def constraintRankEqns (inner : Bool) (occ : List (String × List Var)) (c : Constraint) : List Eqn :=
  match occ.lookup c.name with
  | none => []
  | some st =>
    if st.length < c.shape.length then [contraEqn]
    else
      let pairs := (st.drop (st.length - c.shape.length)).zip c.shape
      let pairs := if inner then pairs else (if c.shape.length = st.length then pairs.take 1 else [])
      pairs.map (fun p => varConst p.1 p.2)

def rankEqn (t : Tensor) : List Eqn :=
  match t.shape with
  | none => []
  | some dims => [⟨widthPoly t.expr, [⟨dims.length, []⟩]⟩]

def rankSystem (inner : Bool) (inp : Input) : System :=
  { vars := inp.ellIds.map (fun id => (id, 0)),
    eqns := inp.tensors.flatMap rankEqn ++ sameNameEqns [] inp.occs ++
            inp.constraints.flatMap (constraintRankEqns inner inp.occs) }

/-! ### Value level -/

inductive Term where
  | const (n : Nat)
  | var (x : Var)
  deriving Repr, Inhabited

structure Gen where
  /-- root-level items, one per dimension -/
  items : List Term := []
  eqns : List Eqn := []
  /-- every variable introduced (axes and flattened / concatenated nodes) -/
  vars : List Var := []
  /-- expanded named axes: name, ellipsis indices, variable -/
  axes : List (String × List Nat × Var) := []
  deriving Repr, Inhabited

def Gen.append (a b : Gen) : Gen :=
  ⟨a.items ++ b.items, a.eqns ++ b.eqns, a.vars ++ b.vars, a.axes ++ b.axes⟩

def Gen.concat : List Gen → Gen
  | [] => {}
  | g :: gs => g.append (Gen.concat gs)

def termMono : Term → Mono
  | .const n => ⟨n, []⟩
  | .var x => ⟨1, [x]⟩

/-- product of the items as one monomial -/
def prodMono : List Term → Mono
  | [] => ⟨1, []⟩
  | .const n :: ts => ⟨n * (prodMono ts).coef, (prodMono ts).vars⟩
  | .var x :: ts => ⟨(prodMono ts).coef, x :: (prodMono ts).vars⟩

def idxSuffix (idx : List Nat) : String := String.join (idx.map (fun i => "." ++ toString i))

mutual
/-- Expansion of the ellipses with counts `ρ`; `path` names flattened / concatenated nodes,
`idx` are the indices of the enclosing repetitions. -/
def expand (ρ : Var → Nat) (path : String) (idx : List Nat) : Expr → Gen
  | .axis n =>
    let x := n ++ idxSuffix idx
    { items := [.var x], vars := [x], axes := [(n, idx, x)] }
  | .num v => { items := [.const v] }
  | .brackets e => expand ρ path idx e
  | .flat e =>
    let g := expand ρ (path ++ "(") idx e
    let x := path ++ idxSuffix idx
    { items := [.var x], eqns := ⟨[⟨1, [x]⟩], [prodMono g.items]⟩ :: g.eqns, vars := x :: g.vars, axes := g.axes }
  | .concat cs =>
    let g := expandL ρ (path ++ "+") idx 0 cs
    let x := path ++ idxSuffix idx
    { items := [.var x], eqns := ⟨[⟨1, [x]⟩], g.items.map termMono⟩ :: g.eqns, vars := x :: g.vars, axes := g.axes }
  | .ellipsis id e =>
    Gen.concat ((List.range (ρ id)).map (fun i => expand ρ path (idx ++ [i]) e))
  | .list cs => expandL ρ path idx 0 cs
def expandL (ρ : Var → Nat) (path : String) (idx : List Nat) (k : Nat) : List Expr → Gen
  | [] => {}
  | c :: cs => (expand ρ (path ++ "/" ++ toString k) idx c).append (expandL ρ path idx (k + 1) cs)
end

/-- Row-major position of an index tuple in an array of the given shape (`none` if out of range). -/
def ravel? : List Nat → List Nat → Option Nat
  | [], [] => some 0
  | d :: ds, i :: is =>
    if i < d then (ravel? ds is).map (fun r => i * ds.foldr (· * ·) 1 + r) else none
  | _, _ => none

/-- The constant a constraint gives to the axis with ellipsis indices `idx`: the array is aligned
with the innermost levels and broadcast over the outer ones. -/
def constraintValue (c : Constraint) (idx : List Nat) : Option Nat :=
  if idx.length < c.shape.length then none
  else
    match ravel? c.shape (idx.drop (idx.length - c.shape.length)) with
    | none => none
    | some k => c.vals[k]?

def rootEqns (t : Tensor) (g : Gen) : List Eqn :=
  match t.shape with
  | none => []
  | some dims =>
    if dims.length = g.items.length then
      (g.items.zip dims).map (fun p => ⟨[termMono p.1], [⟨p.2, []⟩]⟩)
    else [contraEqn]

def constraintValueEqns (axes : List (String × List Nat × Var)) (c : Constraint) : List Eqn :=
  (axes.filter (fun a => a.1 == c.name)).map (fun a =>
    match constraintValue c a.2.1 with
    | some v => varConst a.2.2 v
    | none => contraEqn)

def gens (inp : Input) (ρ : Var → Nat) : List (Tensor × Gen) :=
  (inp.tensors.zip (List.range inp.tensors.length)).map
    (fun p => (p.1, expand ρ ("#" ++ toString p.2) [] p.1.expr))

/-- The value system for counts given as an association list. -/
def valueSystemA (inp : Input) (counts : Assign) : System :=
  let gs := gens inp (toFun counts)
  let axes := gs.flatMap (fun p => p.2.axes)
  { vars := (gs.flatMap (fun p => p.2.vars)).map (fun x => (x, 1)),
    eqns := gs.flatMap (fun p => p.2.eqns) ++ gs.flatMap (fun p => rootEqns p.1 p.2) ++
            inp.constraints.flatMap (constraintValueEqns axes) }

def tabulate (ids : List Var) (ρ : Var → Nat) : Assign := ids.map (fun id => (id, ρ id))

/-- The value system for counts `ρ`.  `ρ` is read only at the ellipsis ids of the input. -/
def valueSystem (inp : Input) (ρ : Var → Nat) : System := valueSystemA inp (tabulate inp.ellIds ρ)

/-- **Specification of C02**: the admissible (counts, lengths) pairs. -/
def Sols (inp : Input) (ρ σ : Var → Nat) : Prop :=
  Sat (rankSystem true inp) ρ ∧ Sat (valueSystem inp ρ) σ

/-! ### The two-level reference solver -/

inductive Outcome where
  | rankNone
  | rankStuck (counts : Assign)
  | valueNone (counts : Assign)
  | valueStuck (counts values : Assign)
  | unique (counts values : Assign)
  deriving DecidableEq, Repr, Inhabited

def solveAll (inp : Input) : Outcome :=
  match propagate (rankSystem true inp) with
  | .none => .rankNone
  | .stuck c => .rankStuck c
  | .unique c =>
    match propagate (valueSystem inp (toFun c)) with
    | .none => .valueNone c
    | .stuck v => .valueStuck c v
    | .unique v => .unique c v

/-- Are the counts already determined by the weaker system that mirrors what the pinned
implementation derives from constraint arrays?  (Only used to decide when success is demanded.) -/
def strictRank (inp : Input) : Bool :=
  match propagate (rankSystem false inp) with
  | .unique _ => true
  | _ => false

/-- Checker for a complete candidate answer (counts and lengths). -/
def checkAll (inp : Input) (counts values : Assign) : Bool :=
  checkSat (rankSystem true inp) counts && checkSat (valueSystem inp (toFun counts)) values

end Einx.Solve
