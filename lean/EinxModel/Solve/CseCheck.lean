import EinxModel.Solve.CseTrees
import EinxModel.Solve.Tree
/-!
M2 (solving) — what `Props/C02Cse.lean` states about `cseTrees`, and the decidable side conditions the driver evaluates
on every real input (request kind `cse_check`).

* `forestSys`: the stage-3 value system of a list of stage-2 expressions `exprs1 ++ exprs2` as `stage3/solve.py`
  states it, by its meaning: every unknown axis is a variable with its `min_value` as lower bound; an axis with a known
  value is that constant; for every pair `(exprs1[i], exprs2[i])` without a `None` the items (`__iter__`: the
  `ndim` many root-level entries) are pairwise equal, an item being the product of a list / the sum of a concatenation
  of its parts (`polyOf`, Solve/Cse.lean).  A pair whose `ndim`s differ is unsatisfiable here (the real code asserts).
* `trace`: the events of the replacement walk `repl`, by the same control flow: `surv` — an unknown axis that is copied,
  `used` — a sub-expression (a node, or a run of children of a `List` read as their product) that is replaced by the
  axis `cse.<k>`.
* `traceOK`: the side conditions on the events under which `cseTrees_preserves_sols_partial` is proved; which of them
  are proved to hold for every input is listed in `Props/C02Cse.lean`.

No Mathlib (the driver runs `cseCheck`).
-/
namespace Einx.Solve.CseT
open Einx.Solve

/-! ### The stage-3 system of a forest -/

mutual
/-- `expr.__iter__()`: the root-level entries (one per dimension) -/
def items : VExpr → List VExpr
  | .axis n v m => [.axis n v m]
  | .list cs => itemsL cs
  | .flat e => [.flat e]
  | .concat cs => [.concat cs]
  | .brackets e => items e
def itemsL : List VExpr → List VExpr
  | [] => []
  | c :: cs => items c ++ itemsL cs
end

/-- the unknown axes of all expressions with their lower bounds -/
def rootDecls : List (Option VExpr) → List (Var × Nat)
  | [] => []
  | none :: rs => rootDecls rs
  | some r :: rs => freeAxes r ++ rootDecls rs

/-- "Same root values" (stage3/solve.py lines 49–54) -/
def pairEqns : Option VExpr → Option VExpr → List Eqn
  | some x, some y =>
    if (items x).length = (items y).length then
      List.zipWith (fun p q => (⟨polyOf p, polyOf q⟩ : Eqn)) (items x) (items y)
    else [contraEqn]
  | _, _ => []

/-- The value system of `exprs1 ++ exprs2` (both halves have the same length). -/
def forestSys (rs : List (Option VExpr)) : System :=
  { vars := rootDecls rs,
    eqns := (List.zipWith pairEqns (rs.take (rs.length / 2)) (rs.drop (rs.length / 2))).flatten }

/-! ### Events of the replacement walk -/

inductive Ev where
  /-- an unknown axis `name`, `min_value` that is copied to the output -/
  | surv (n : String) (m : Nat)
  /-- the sub-expression `e` (a node, or `.list` of a run of `len` children) is replaced by `cse.<k>`;
  `atRoot`: `is_at_root` of its nodes -/
  | used (k : Nat) (e : VExpr) (len : Nat) (atRoot : Bool)
  deriving Repr, Inhabited

section Trace
variable (mn : Id → Option Nat) (ma : Id → Nat → Nat → Option (Nat × Nat))

def evNode (lvl : Bool) (id : Id) (e : VExpr) (other : List Ev) : List Ev :=
  match mn id with
  | some k => [.used k e 1 lvl]
  | none => other

mutual
/-- the events of `repl mn ma id e`; `lvl` = `is_at_root(e)` -/
def trace (lvl : Bool) (id : Id) : VExpr → List Ev
  | .axis n v m => evNode mn lvl id (.axis n v m) (match v with | none => [.surv n m] | some _ => [])
  | .list cs =>
    evNode mn lvl id (.list cs) (if cs.length == 1 then traceC lvl id 0 cs else traceL lvl id cs.length 0 0 cs)
  | .concat cs => evNode mn lvl id (.concat cs) (traceC lvl id 0 cs)
  | .brackets e => evNode mn lvl id (.brackets e) (trace lvl (id ++ [0]) e)
  | .flat e => evNode mn lvl id (.flat e) (trace false (id ++ [0]) e)
def traceL (lvl : Bool) (pid : Id) (n : Nat) (i skip : Nat) : List VExpr → List Ev
  | [] => []
  | t :: ts =>
    if skip > 0 then traceL lvl pid n (i + 1) (skip - 1) ts
    else
      match ma pid i n with
      | some (idx, len) => .used idx (.list ((t :: ts).take len)) len lvl :: traceL lvl pid n (i + 1) (len - 1) ts
      | none => trace lvl (pid ++ [i]) t ++ traceL lvl pid n (i + 1) 0 ts
def traceC (lvl : Bool) (pid : Id) (k : Nat) : List VExpr → List Ev
  | [] => []
  | c :: cs => trace lvl (pid ++ [k]) c ++ traceC lvl pid (k + 1) cs
end
end Trace

/-- the events of all roots -/
def traceRoots (cands : List Cand) (k : Nat) : List (Option VExpr) → List Ev
  | [] => []
  | none :: rs => traceRoots cands (k + 1) rs
  | some r :: rs => trace (matchNode cands) (matchAt cands) true [k] r ++ traceRoots cands (k + 1) rs

/-! ### Side conditions -/

mutual
/-- the structural facts about stage-2 trees used by the proofs: a child of a `ConcatenatedAxis` is not a `List`
(the constructor demands `ndim == 1` of every child, and a `List` never has exactly one child) and there are at least
two children (`ConcatenatedAxis.create` returns a single child unchanged) -/
def wfV : VExpr → Bool
  | .axis _ _ _ => true
  | .list cs => wfVL cs
  | .flat e => wfV e
  | .concat cs => wfVL cs && noListL cs && decide (2 ≤ cs.length)
  | .brackets e => wfV e
def wfVL : List VExpr → Bool
  | [] => true
  | c :: cs => wfV c && wfVL cs
def noListL : List VExpr → Bool
  | [] => true
  | .list _ :: _ => false
  | .axis _ _ _ :: cs => noListL cs
  | .flat _ :: cs => noListL cs
  | .concat _ :: cs => noListL cs
  | .brackets _ :: cs => noListL cs
end

def wfForest (rs : List (Option VExpr)) : Bool :=
  rs.all (fun r => match r with | some e => wfV e | none => true)

mutual
/-- the expression with the names of its *valued* axes erased (they are not printed by `__str__`) -/
def eraseValued : VExpr → VExpr
  | .axis n none m => .axis n none m
  | .axis _ (some v) m => .axis "" (some v) m
  | .list cs => .list (eraseValuedL cs)
  | .flat e => .flat (eraseValued e)
  | .concat cs => .concat (eraseValuedL cs)
  | .brackets e => .brackets (eraseValued e)
def eraseValuedL : List VExpr → List VExpr
  | [] => []
  | c :: cs => eraseValued c :: eraseValuedL cs
end

mutual
def beqV : VExpr → VExpr → Bool
  | .axis n v m, .axis n' v' m' => n == n' && v == v' && m == m'
  | .list cs, .list cs' => beqVL cs cs'
  | .flat e, .flat e' => beqV e e'
  | .concat cs, .concat cs' => beqVL cs cs'
  | .brackets e, .brackets e' => beqV e e'
  | _, _ => false
def beqVL : List VExpr → List VExpr → Bool
  | [], [] => true
  | c :: cs, c' :: cs' => beqV c c' && beqVL cs cs'
  | _, _ => false
end

/-- a run of one child is that child (`[expr]` at the node level and `children[i : i + 1]` in the list loop are the same
exprlist) -/
def unwrap1 : VExpr → VExpr
  | .list [x] => x
  | e => e

/-- two replaced sub-expressions print alike and have the same unknown axes with the same bounds -/
def sameShape (e e' : VExpr) : Bool := beqV (eraseValued (unwrap1 e)) (eraseValued (unwrap1 e'))

def disjointNames (a b : List String) : Bool := a.all (fun x => !b.contains x)

def freeNamesB (e : VExpr) : List String := (freeAxes e).map (·.1)

/-- the filter of `cse` (`_value_range(...) is not None and not _has_repeated_axis(...)`) on what is replaced -/
def Rep (e : VExpr) : Prop := (valueRange e).isSome = true ∧ hasRepeatedAxis e = false

/-- Every replacement passed the filter and replaces at least one node.  *Proved for every input*
(`filt_cseEvents`, Proofs/CseTreesFilter.lean) — not part of the side conditions. -/
def FiltOK : Ev → Prop
  | .surv _ _ => True
  | .used _ e len _ => 0 < len ∧ Rep e

/-- decidable form of `FiltOK` (reported by the driver as a sanity check of the model) -/
def filtOKb : Ev → Bool
  | .surv _ _ => true
  | .used _ e len _ => decide (0 < len) && (valueRange e).isSome && !hasRepeatedAxis e

/-- The condition on one `used` event alone (beyond `FiltOK`). -/
def usedOK : Ev → Bool
  | .surv _ _ => true
  | .used _ e _ atRoot =>
    (freeAxes e).all (fun p => decide (1 ≤ p.2)) &&                  -- lower bounds are positive (`min_value >= 1`)
    ((valueOf e).isSome || (valueRange e).any (fun r => r.2)) &&    -- an unknown value has an unbounded range
    (!atRoot || ndim e == 1)                                        -- the number of dimensions of a root is kept

/-- The condition on a pair of events. -/
def pairOK : Ev → Ev → Bool
  | .surv n _, .used k e _ _ => n != cseName k && !(freeNamesB e).contains n
  | .used _ _ _ _, .surv _ _ => true
  | .surv _ _, .surv _ _ => true
  | .used k e _ _, .used k' e' _ _ =>
    if cseName k == cseName k' then sameShape e e' else disjointNames (freeNamesB e) (freeNamesB e')

/-- **The side conditions of `cseTrees_preserves_sols_partial`** on the events of a run. -/
def traceOK (evs : List Ev) : Bool :=
  evs.all usedOK && evs.all (fun a => evs.all (fun b => pairOK a b))

/-! ### Side conditions of the order-independence theorem (C16) -/

def candKeys (cands : List Cand) : List String := cands.map (·.key)

/-- An exprlist (a list of node identities) belongs to one candidate only.  (Python: the key of the dict entry is
computed from the nodes, so two entries cannot hold the same list of objects.) -/
def uniqueIds (cands : List Cand) : Bool :=
  cands.all (fun a => cands.all (fun b => a.occs.all (fun o => b.occs.all (fun o' => !(o.ids == o'.ids) || a.key == b.key))))

/-- the events of `cseTrees opts roots` -/
def cseEvents (opts : Opts) (roots : List (Option VExpr)) : List Ev :=
  traceRoots (candidates opts roots) 0 roots

/-- What the driver evaluates for every real input of `cse` (request kind `cse_check`). -/
def cseCheck (opts : Opts) (roots : List (Option VExpr)) : Bool :=
  wfForest roots && traceOK (cseEvents opts roots)

end Einx.Solve.CseT
