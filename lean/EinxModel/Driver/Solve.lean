import EinxModel.Driver.Util
import EinxModel.Solve.Tree
open Lean Einx.Driver Einx.Solve

/-! Request kinds `solve`, `checksat`, `checkaxes` (C02).

Tree JSON: `{"t":"axis","n":name}` | `{"t":"num","v":n}` | `{"t":"list","c":[…]}` |
`{"t":"flat","e":tree}` | `{"t":"concat","c":[…]}` | `{"t":"br","e":tree}` |
`{"t":"ell","id":string,"e":tree}`. -/
namespace Einx.Driver.Solve

partial def parseExpr (j : Json) : R Expr := do
  match ← strF j "t" with
  | "axis" => pure (.axis (← strF j "n"))
  | "num" => pure (.num (← natF j "v"))
  | "list" => pure (.list (← (← arrF j "c").mapM parseExpr))
  | "concat" => pure (.concat (← (← arrF j "c").mapM parseExpr))
  | "flat" => pure (.flat (← parseExpr (← fld j "e")))
  | "br" => pure (.brackets (← parseExpr (← fld j "e")))
  | "ell" => pure (.ellipsis (← strF j "id") (← parseExpr (← fld j "e")))
  | t => throw s!"unknown tree node {t}"

def parseTensor (j : Json) : R Tensor := do
  let e ← parseExpr (← fld j "expr")
  let s ← fld j "shape"
  if s.isNull then pure ⟨e, none⟩ else pure ⟨e, some (← (← asArr s).mapM asNat)⟩

def parseConstraint (j : Json) : R Constraint := do
  let c : Constraint := ⟨← strF j "name", ← natsF j "shape", ← natsF j "vals"⟩
  if c.vals.length ≠ c.shape.foldr (· * ·) 1 then throw "constraint: vals do not match shape"
  pure c

def parseInput (j : Json) : R Input := do
  pure ⟨← (← arrF j "tensors").mapM parseTensor, ← (← arrF j "constraints").mapM parseConstraint⟩

def parseAssign (j : Json) : R Assign := do
  (← asArr j).mapM (fun p => do
    match ← asArr p with
    | [n, v] => pure (← asStr n, ← asNat v)
    | _ => throw "assignment entry must be [name, value]")

def jAssign (a : Assign) : Json := jArr (a.map (fun p => jArr [Json.str p.1, jNat p.2]))

def termValue (v : Assign) : Einx.Solve.Term → Option Nat
  | .const n => some n
  | .var x => v.lookup x

def jOptNat : Option Nat → Json
  | some n => jNat n
  | none => Json.null

/-- per tensor: the forced value (or null) of every root item, given counts and forced lengths -/
def shapesJson (inp : Input) (counts values : Assign) : Json :=
  jArr ((gens inp (toFun (tabulate inp.ellIds (toFun counts)))).map
    (fun p => jArr (p.2.items.map (fun t => jOptNat (termValue values t)))))

def axesJson (inp : Input) (counts : Assign) : Json :=
  jArr (((gens inp (toFun (tabulate inp.ellIds (toFun counts)))).flatMap (fun p => p.2.axes)).map
    (fun a => Json.mkObj [("n", Json.str a.1), ("idx", jNats a.2.1), ("x", Json.str a.2.2)]))

def outcomeJson (inp : Input) : Json :=
  let strict := Json.bool (strictRank inp)
  match solveAll inp with
  | .rankNone => Json.mkObj [("outcome", "rankNone"), ("strict", strict)]
  | .rankStuck c => Json.mkObj [("outcome", "rankStuck"), ("counts", jAssign c), ("strict", strict)]
  | .valueNone c => Json.mkObj [("outcome", "valueNone"), ("counts", jAssign c), ("strict", strict)]
  | .valueStuck c v => Json.mkObj [("outcome", "valueStuck"), ("counts", jAssign c), ("values", jAssign v),
      ("shapes", shapesJson inp c v), ("axes", axesJson inp c), ("strict", strict)]
  | .unique c v => Json.mkObj [("outcome", "unique"), ("counts", jAssign c), ("values", jAssign v),
      ("shapes", shapesJson inp c v), ("axes", axesJson inp c), ("strict", strict)]

/-- The value system extended by `x = v` for given axis values; used to check an answer that
reports axis lengths only (node values are then derived and checked by the solver itself). -/
def withAxisValues (sys : System) (vals : Assign) : System :=
  { sys with eqns := sys.eqns ++ vals.map (fun p => varConst p.1 p.2) }

def handle (j : Json) : R Json := do
  let inp ← parseInput j
  match ← strF j "kind" with
  | "solve" => pure (outcomeJson inp)
  | "checksat" =>
    let counts ← parseAssign (← fld j "counts")
    let values ← parseAssign (← fld j "values")
    pure (Json.mkObj [("ok", Json.bool (checkAll inp counts values)),
                      ("rank_ok", Json.bool (checkSat (rankSystem true inp) counts))])
  | "checkaxes" =>
    -- counts complete, axis values possibly partial: is there exactly one completion?
    let counts ← parseAssign (← fld j "counts")
    let values ← parseAssign (← fld j "values")
    let rankOk := checkSat (rankSystem true inp) counts
    if !rankOk then pure (Json.mkObj [("ok", Json.bool false), ("rank_ok", Json.bool false)]) else
    let sys := valueSystem inp (toFun counts)
    match propagate (withAxisValues sys values) with
    | .unique v => pure (Json.mkObj [("ok", Json.bool (checkSat sys v)), ("rank_ok", Json.bool true), ("values", jAssign v),
                                     ("shapes", shapesJson inp counts v)])
    | .none => pure (Json.mkObj [("ok", Json.bool false), ("rank_ok", Json.bool true), ("why", "none")])
    | .stuck v => pure (Json.mkObj [("ok", Json.bool false), ("rank_ok", Json.bool true), ("why", "stuck"), ("values", jAssign v)])
  | k => throw s!"unknown solve kind {k}"

end Einx.Driver.Solve
