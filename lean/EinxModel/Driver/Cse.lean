import EinxModel.Driver.Util
import EinxModel.Solve.Cse
open Lean Einx.Driver Einx.Solve

/-! Request kind `value_range` (C02, CSE part): the model's `_value_range` / `_has_repeated_axis` /
filter on a stage-2 value expression.

Tree JSON: `{"t":"axis","n":name,"v":null|value,"min":min_value}` | `{"t":"list","c":[…]}` |
`{"t":"concat","c":[…]}` | `{"t":"flat","e":tree}` | `{"t":"br","e":tree}`.
Answer: `{"range": null | [minimum, unbounded], "repeated": bool, "replaceable": bool}`. -/
namespace Einx.Driver.Cse

partial def parseVExpr (j : Json) : R VExpr := do
  match ← strF j "t" with
  | "axis" =>
    let v ← fld j "v"
    let value ← if v.isNull then pure none else (some <$> asNat v)
    pure (.axis (← strF j "n") value (← natF j "min"))
  | "list" => pure (.list (← (← arrF j "c").mapM parseVExpr))
  | "concat" => pure (.concat (← (← arrF j "c").mapM parseVExpr))
  | "flat" => pure (.flat (← parseVExpr (← fld j "e")))
  | "br" => pure (.brackets (← parseVExpr (← fld j "e")))
  | t => throw s!"unknown value-expression node {t}"

def handle (j : Json) : R Json := do
  match ← strF j "kind" with
  | "value_range" =>
    let e ← parseVExpr (← fld j "expr")
    let r : Json := match valueRange e with
      | none => Json.null
      | some (m, ub) => jArr [jNat m, Json.bool ub]
    pure (Json.mkObj [("range", r), ("repeated", Json.bool (hasRepeatedAxis e)),
                      ("replaceable", Json.bool (replaceable e))])
  | k => throw s!"unknown cse kind {k}"

end Einx.Driver.Cse
