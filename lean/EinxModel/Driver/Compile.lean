import EinxModel.Driver.Util
import EinxModel.Compile.Gen
import EinxModel.Compile.Sem
import EinxModel.Extracted.Compile
open Lean Einx.Driver Einx.Compile

namespace Einx.Driver.Compile

/-! Decoding of `graphcap.graph_to_json` documents (plus `"str"` on constant applications). -/

abbrev D := StateT (Array SubGraph) R

def liftR {α} (r : R α) : D α := fun s => r.map (fun a => (a, s))

partial def decodeVal (j : Json) : D E := do
  match ← liftR (strF j "t") with
  | "ref" => pure (.var (← liftR (natF j "id")))
  | "none" => pure (.lit "None")
  | "bool" => pure (.lit (if (← liftR (boolF j "v")) then "True" else "False"))
  | "int" => pure (.lit (toString (← liftR (intF j "v"))))
  | "float" => pure (.lit (← liftR (strF j "v")))
  | "str" => pure (.lit ("\"" ++ (← liftR (strF j "v")) ++ "\""))
  | "tuple" => pure (E.mk .tuple (← (← liftR (arrF j "v")).mapM decodeVal))
  | "list" => pure (E.mk .list (← (← liftR (arrF j "v")).mapM decodeVal))
  | "dict" =>
    let ks ← (← liftR (arrF j "k")).mapM decodeVal
    let vs ← (← liftR (arrF j "v")).mapM decodeVal
    pure (E.mk .dict ((ks.zip vs).flatMap (fun (k, v) => [k, v])))
  | "slice" =>
    let parts ← liftR (arrF j "v")
    match parts with
    | [a, b, c] =>
      let isNone (x : Json) : Bool := (x.getObjVal? "t").toOption == some (Json.str "none")
      let present := [a, b, c].filter (fun x => !isNone x)
      pure (E.node (.slice (!isNone a) (!isNone b) (!isNone c)) (E.ofList (← present.mapM decodeVal)))
    | _ => throw "slice needs three parts"
  | "ellipsis" => pure (E.mk (.bad "Ellipsis") [])
  | "obj" => pure (E.mk (.bad "object") [])
  | "graph" => decodeGraph (← liftR (fld j "g"))
  | t => throw s!"unknown value tag {t}"
where
  decodeGraph (j : Json) : D E := do
    let idx := (← get).size
    modify (·.push default)
    let inputs ← liftR (natsF j "inputs")
    let output ← decodeVal (← liftR (fld j "output"))
    let name := match fldOpt j "name" with
      | some (Json.str s) => some s
      | _ => none
    modify (fun a => a.set! idx { inputs, output, name })
    pure (.gref idx)

def optStr (j : Json) (k : String) : R (Option String) :=
  match fldOpt j k with
  | some (Json.str s) => pure (some s)
  | some Json.null => pure none
  | none => pure none
  | _ => throw s!"field {k}: expected string or null"

def outVar (j : Json) : D Nat := do
  match ← decodeVal (← liftR (fld j "out")) with
  | .var t => pure t
  | _ => throw "expected a single output tracer"

def decodeKwargs (j : Json) : D (List (String × E)) := do
  (← liftR (arrF j "kwargs")).mapM (fun kv => do
    match ← liftR (asArr kv) with
    | [k, v] => pure (← liftR (asStr k), ← decodeVal v)
    | _ => throw "kwarg needs [name, value]")

def decodeApp (j : Json) : D App := do
  let vals (k : String) : D (List E) := do (← liftR (arrF j k)).mapM decodeVal
  let val (k : String) : D E := do decodeVal (← liftR (fld j k))
  match ← liftR (strF j "kind") with
  | "call" => pure (.call (← val "function") (← vals "args") (← decodeKwargs j) (← vals "deps") (← outVar j))
  | "call_inplace" => pure (.callInplace (← val "xs") (← val "function") (← vals "args") (← decodeKwargs j) (← vals "deps") (← outVar j))
  | "getattr" => pure (.getattr (← val "obj") (← liftR (strF j "key")) (← outVar j))
  | "getitem" => pure (.getitem (← val "obj") (← val "key") (← outVar j))
  | "updateitem" => pure (.updateitem (← val "obj") (← val "key") (← val "value") (← liftR (strF j "op")) (← outVar j))
  | "import" => pure (.import_ (← liftR (strF j "import")) (← liftR (optStr j "from")) (← liftR (optStr j "as")) (← outVar j))
  | "operator" => pure (.operator (← liftR (strF j "operator")) (← vals "operands") (← outVar j))
  | "builtin" => pure (.builtin (← liftR (strF j "name")) (← outVar j))
  | "assert" => pure (.assert_ (← val "xs") (← val "condition") (← liftR (optStr j "message")) (← val "out"))
  | "constant" => pure (.constant (← liftR (strF j "str")) (← outVar j))
  | "cast" => pure (.cast (← val "input") (← val "out"))
  | k => throw s!"unknown application kind {k}"

def decodeGraphDoc (j : Json) : R Graph := do
  let run : D Graph := do
    let top := ← liftR (fld j "top")
    let topE ← match fldOpt top "inlined" with
      | some v => decodeVal v
      | none => decodeVal.decodeGraph top
    let apps ← (← liftR (arrF j "apps")).mapM decodeApp
    let origin ← (← liftR (arrF j "tracers")).mapM (fun t => do
      match fldOpt t "origin" with
      | some Json.null => pure none
      | some o => pure (some (← liftR (asNat o)))
      | none => throw "tracer without origin field")
    pure { apps, origin, graphs := (← get).toList, top := topE }
  -- nested graphs decoded inside applications are appended to the table while decoding: re-read the table at the end
  let (g, tbl) ← run.run #[]
  pure { g with graphs := tbl.toList }

def decodeUCfg (j : Json) : R UCfg := do
  pure { countFirst := ← boolF j "countFirst", outputsRecursed := ← boolF j "outputsRecursed",
         aliasForward := ← boolF j "aliasForward", forceInlineWins := ← boolF j "forceInlineWins",
         unaryParens := ← boolF j "unaryParens" }

def visitJson : Visit → Json
  | .app i => jNat i
  | .enter g => Json.mkObj [("enter", jNat g)]
  | .exit g => Json.mkObj [("exit", jNat g)]

def eventJson : Event → Json
  | .call t => Json.str ("call " ++ render (fun v => s!"v{v}") t)
  | .inplace t => Json.str ("inplace " ++ render (fun v => s!"v{v}") t)
  | .update t op v => Json.str ("update " ++ render (fun v => s!"v{v}") t ++ " " ++ op ++ " " ++ render (fun v => s!"v{v}") v)
  | .check c _ => Json.str ("assert " ++ render (fun v => s!"v{v}") c)

/-- Verdicts of the decidable checkers of `Compile/Sem.lean` on this compilation (premises of the theorems
of `Props/C04.lean`), and the symbolic execution of the emitted statements against the node-by-node evaluation. -/
def checksJson (g : Graph) (up : Bool) (c : Compiled) : Json :=
  let prog := c.st.program
  let ρ (v : Nat) : Nat := c.grp[v]?.getD v
  let blocks := (List.range c.nblocks).map (fun b => (c.st.block b).map (·.stmt))
  let fuseOk := blocks.all (fun l => fuseSafe ρ l && entrySafe ρ l)
  let x := execBlock { env := unbound } prog
  let (refOk, sameTrace, sameRet, refTrace) := match evalGraph g up c.order with
    | .ok r => (true, decide (r.trace = x.trace), decide (r.ret = x.ret), r.trace)
    | .error _ => (false, false, false, [])
  Json.mkObj [
    ("closed_order", Json.bool (closedOrder g c.order [])),
    ("nodup_order", Json.bool (decide c.order.Nodup)),
    -- premise of `compile_correct_compiled` (Props/C04.lean): no variable is read before it is bound (a theorem for WF graphs: `compile_closed`)
    ("closed_prog", Json.bool (liveIn prog).isEmpty),
    -- premise of `compile_correct_wf` / `visitOrder_nodup` (Props/C04.lean): origins consistent, applications in topological order
    ("wf_graph", Json.bool g.WF),
    ("fuse_safe", Json.bool fuseOk),
    -- conclusion of `fuse_produces_safe` (Props/C04.lean; a theorem for WF graphs) and its two emission premises, re-decided per graph
    ("fuse_safe_prog", Json.bool (fuseSafe ρ prog)),
    ("single_def", Json.bool (decide (prog.flatMap Stmt.outputVars).Nodup)),
    ("blocks_bound", Json.bool (c.st.body.all (fun p => decide (p.1 < c.nblocks)))),
    ("ref_ok", Json.bool refOk), ("same_trace", Json.bool sameTrace), ("same_ret", Json.bool sameRet),
    ("trace", jArr (refTrace.map eventJson)),
    ("prog_ops", jNat (progOps prog)), ("ref_ops", jNat (refOps g c.order))]

/-- kind `compile`: graph JSON → text, eval expression, constant names, plus the verdicts of the proved checkers. -/
def handle (j : Json) : R Json := do
  let g ← decodeGraphDoc (← fld j "graph")
  let cfg ← match fldOpt j "cfg" with
    | some c => decodeUCfg c
    | none => pure Einx.Extracted.compileUCfg
  let fc : FCfg ← match fldOpt j "fcfg" with
    | some c => pure { checkLater := ← boolF c "checkLater", checkBlock := ← boolF c "checkBlock", bindResult := ← boolF c "bindResult",
                       nameKeywords := Einx.Extracted.compileFCfg.nameKeywords, skipReserved := Einx.Extracted.compileFCfg.skipReserved }
    | none => pure Einx.Extracted.compileFCfg
  match Einx.Compile.compile cfg fc g with
  | .error e => pure (Json.mkObj [("err", Json.str e)])
  | .ok c =>
    pure (Json.mkObj [("ok", Json.mkObj [
      ("text", Json.str c.text), ("eval", Json.str c.evalCode), ("constants", jStrs c.constants),
      ("order", jArr (c.order.map visitJson)),
      ("nvars", jNat c.st.vars.length), ("nstmts", jNat (c.st.body.length + c.st.comments.length)),
      ("checks", checksJson g cfg.unaryParens c)])])

end Einx.Driver.Compile
