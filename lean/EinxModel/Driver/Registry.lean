import EinxModel.Driver.Util
import EinxModel.Registry.Model
open Lean Einx.Driver Einx.Registry

namespace Einx.Driver.Registry

def parseBackend (j : Json) : R Backend := do
  pure { uid := ← natF j "uid", name := ← strF j "name", priority := ← intF j "priority",
         accepts := ← natsF j "accepts", invalid := ← boolF j "invalid" }

def parseArg (j : Json) : R BackendArg := do
  match ← strF j "t" with
  | "none" => pure .none
  | "obj" => pure (.obj (← parseBackend (← fld j "b")))
  | "name" => pure (.name (← strF j "n"))
  | "other" => pure .other
  | t => throw s!"unknown backend arg {t}"

def parseOp (j : Json) : R Op := do
  match ← strF j "op" with
  | "register" => pure (.register (← parseBackend (← fld j "b")))
  | "register_on_import" =>
    let b ← parseBackend (← fld j "b")
    pure (.registerOnImport (← strF j "m") { name := ← strF j "name", produces := b })
  | "import" => pure (.importModule (← strF j "m"))
  | "get" => pure (.get (← parseArg (← fld j "arg")) (← natsF j "tys"))
  | "get_by_name" => pure (.getByName (← strF j "n"))
  | "enter" => pure (.enter (← parseBackend (← fld j "b")))
  | "exit" => pure (.exit (← parseBackend (← fld j "b")))
  | o => throw s!"unknown registry op {o}"

def outJson : Out → Json
  | .unit => Json.str "unit"
  | .backend uid => Json.mkObj [("backend", jNat uid)]
  | .error .value => Json.str "ValueError"
  | .error (.multiple uids) => Json.mkObj [("multiple", jNats (uids.toArray.qsort (· < ·)).toList)]
  | .error .nomatch => Json.str "nomatch"
  | .error .assertion => Json.str "assertion"

def stateJson (s : State) : Json :=
  Json.mkObj [
    ("seen", jStrs (s.seen.toArray.qsort (· < ·)).toList),
    ("uninit", jArr (s.uninit.map (fun (m, fs) => Json.mkObj [("m", Json.str m), ("fs", jStrs (fs.map (·.name)))]))),
    ("backends", jNats (s.backends.map (·.uid))),
    ("memo", jArr (s.memo.map (fun (tys, b) => Json.mkObj [("tys", jNats tys), ("b", jNat b.uid)]))),
    ("names", jArr (s.names.map (fun (n, b) => Json.mkObj [("n", Json.str n), ("b", jNat b.uid)]))),
    ("stack", jNats (s.stack.map (·.uid)))]

def handle (j : Json) : R Json := do
  let cfgJ ← fld j "cfg"
  let cfg : Cfg := { registerClearsMemo := ← boolF cfgJ "registerClearsMemo" }
  let ops ← (← arrF j "ops").mapM parseOp
  let mods0 ← strsF j "mods"
  -- run step by step so that the state after every step can be reported
  let mut w : World := { st := {}, mods := mods0 }
  let mut outs : List Json := []
  for op in ops do
    let (w', o) := step cfg w op
    w := w'
    outs := outs ++ [Json.mkObj [("out", outJson o), ("state", stateJson w.st)]]
  pure (Json.mkObj [("steps", jArr outs)])

end Einx.Driver.Registry
