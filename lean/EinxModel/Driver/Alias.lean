import EinxModel.Driver.Util
import EinxModel.Alias.Model
import Std.Data.HashMap
/-!
Driver for C09.

* kind `writes`: serialised tracer graph (tools/lib/graphcap.py) → the first-order alias program
  (`Einx.Alias.Graph`) → `writes`, `outRoots`; or `unsupported` naming the function / node kind that has
  no row in `Einx.Alias.aliasTable`.
* kind `alias_table`: the table as data (the harness tests every row against real numpy).
-/
open Lean Einx.Driver Einx.Alias

namespace Einx.Driver.Alias

inductive Binding where
  | mod (name : String)
  | fn (name : String)
  | reg (r : Nat)
  | tup (rs : List Nat)
  | opaque                        -- a value without tensor memory (ints, shapes, dtypes, strings)
deriving Repr, Inhabited

structure TState where
  env : Std.HashMap Nat Binding := {}
  nodes : Array Node := #[]
  nin : Nat := 0

abbrev T := ExceptT String (StateM TState)

def failU {α} (why : String) : T α := throw why

def liftR {α} (r : R α) : T α :=
  match r with
  | .ok a => pure a
  | .error e => failU s!"graph decoding: {e}"

def emit (nd : Node) : T Nat := do
  let st ← get
  let r := st.nin + st.nodes.size
  set { st with nodes := st.nodes.push nd }
  pure r

def lookup (id : Nat) : T Binding := do
  match (← get).env[id]? with
  | some b => pure b
  | none => failU s!"tracer {id} is used before it is defined"

def bind (id : Nat) (b : Binding) : T Unit := modify (fun st => { st with env := st.env.insert id b })

def refId (j : Json) : T Nat := do
  if (← liftR (strF j "t")) != "ref" then failU "expected a tracer reference"
  liftR (natF j "id")

def bindingRegs : Binding → List Nat
  | .reg r => [r]
  | .tup rs => rs
  | _ => []

/-- All tensor registers mentioned by a serialised value (pytrees are flattened). -/
partial def regsOf (j : Json) : T (List Nat) := do
  match ← liftR (strF j "t") with
  | "ref" => pure (bindingRegs (← lookup (← liftR (natF j "id"))))
  | "tuple" | "list" | "slice" => do
    let items ← liftR (arrF j "v")
    let rs ← items.mapM regsOf
    pure rs.flatten
  | "dict" => do
    let ks ← (← liftR (arrF j "k")).mapM regsOf
    let vs ← (← liftR (arrF j "v")).mapM regsOf
    pure (ks.flatten ++ vs.flatten)
  | "graph" => failU "nested graph"
  | _ => pure []

def kwargsOf (a : Json) : T (List (String × Json)) := do
  (← liftR (arrF a "kwargs")).mapM (fun kv => do
    match ← liftR (asArr kv) with
    | [k, v] => pure (← liftR (asStr k), v)
    | _ => failU "malformed keyword argument")

def pureBuiltins : List String :=
  ["int", "float", "bool", "len", "tuple", "list", "range", "max", "min", "sum", "isinstance", "str", "slice", "abs", "divmod"]

def pureOperators : List String :=
  ["+", "-", "*", "/", "//", "%", "**", "==", "!=", "<", "<=", ">", ">=", "&", "|", "^", "~", "and", "or", "not", "@"]

def tensorAttrs : List String := ["shape", "ndim", "dtype", "size"]

/-- A call `f(args, kwargs)`; `inplaceXs` is the `xs` of a `CallInplace` node. -/
def translateCall (fname : String) (args : List Json) (kwargs : List (String × Json)) (inplaceXs : Option Json) : T Binding := do
  let argRegs ← args.mapM regsOf
  let kwRegs ← kwargs.mapM (fun (_, v) => regsOf v)
  let all := argRegs.flatten ++ kwRegs.flatten
  if fname.startsWith "builtins." then
    if inplaceXs.isSome then failU s!"{fname} traced in-place"
    if pureBuiltins.contains (fname.drop 9).toString && all.isEmpty then return .opaque
    failU s!"function {fname}"
  match effectOf fname with
  | none => failU s!"function {fname}"
  | some eff =>
    -- an `out=` keyword turns any numpy function into a write of that argument
    match kwargs.lookup "out" with
    | some o =>
      match ← regsOf o with
      | [t] => pure (.reg (← emit (.inplace t all)))
      | _ => failU s!"function {fname} with out= that is not a single tensor"
    | none =>
      match eff, inplaceXs with
      | .inplace k, xs? =>
        match argRegs[k]? with
        | some [t] =>
          match xs? with
          | some xs =>
            if (← regsOf xs) != [t] then failU s!"function {fname}: traced in-place target differs from argument {k}"
          | none => pure ()
          pure (.reg (← emit (.inplace t all)))
        | _ => failU s!"function {fname}: argument {k} is not a single tensor"
      | _, some _ => failU s!"function {fname} is traced in-place but its alias table row is not in-place"
      | .fresh, none => pure (.reg (← emit (.fresh all)))
      | .view ks, none => pure (.reg (← emit (.view (ks.flatMap (fun k => (argRegs[k]?).getD [])))))

def outRefs (out : Json) : T (List Nat) := do
  match ← liftR (strF out "t") with
  | "ref" => pure [← liftR (natF out "id")]
  | "tuple" | "list" => (← liftR (arrF out "v")).mapM refId
  | t => failU s!"output of kind {t}"

def translateApp (a : Json) : T Unit := do
  let kind ← liftR (strF a "kind")
  let out ← liftR (fld a "out")
  match kind with
  | "import" =>
    if fldOpt a "from" != some Json.null then failU "node kind from-import"
    bind (← refId out) (.mod (← liftR (strF a "import")))
  | "builtin" => bind (← refId out) (.fn ("builtins." ++ (← liftR (strF a "name"))))
  | "constant" => bind (← refId out) .opaque
  | "getattr" =>
    let key ← liftR (strF a "key")
    match ← lookup (← refId (← liftR (fld a "obj"))) with
    | .mod m => bind (← refId out) (.fn (m ++ "." ++ key))
    | .fn f => bind (← refId out) (.fn (f ++ "." ++ key))
    | .opaque => bind (← refId out) .opaque
    | _ =>
      if tensorAttrs.contains key then bind (← refId out) .opaque
      else failU s!"attribute .{key} of a tensor"
  | "call" =>
    match ← lookup (← refId (← liftR (fld a "function"))) with
    | .fn fname => bind (← refId out) (← translateCall fname (← liftR (arrF a "args")) (← kwargsOf a) none)
    | _ => failU "call of a value that is not a module function"
  | "call_inplace" =>
    match ← lookup (← refId (← liftR (fld a "function"))) with
    | .fn fname => bind (← refId out) (← translateCall fname (← liftR (arrF a "args")) (← kwargsOf a) (some (← liftR (fld a "xs"))))
    | _ => failU "in-place call of a value that is not a module function"
  | "cast" =>
    let b ← lookup (← refId (← liftR (fld a "input")))
    let outs ← outRefs out
    match b, outs with
    | .reg r, [o] => bind o (.reg (← emit (.same r)))
    | .reg r, os => for o in os do bind o (.reg (← emit (.view [r])))       -- components of a tuple result
    | .tup rs, os =>
      if rs.length != os.length then failU "cast: number of components differs"
      for (o, r) in os.zip rs do bind o (.reg (← emit (.same r)))
    | b, os => for o in os do bind o b
  | "assert" =>
    let xs ← liftR (fld a "xs")
    let xrefs ← outRefs xs
    let os ← outRefs out
    if xrefs.length != os.length then failU "assert: structure of xs and output differs"
    for (o, x) in os.zip xrefs do bind o (← lookup x)
  | "getitem" =>
    let key ← liftR (fld a "key")
    match ← lookup (← refId (← liftR (fld a "obj"))) with
    | .reg r =>
      let _ ← regsOf key
      bind (← refId out) (.reg (← emit (.view [r])))
    | .tup rs =>
      if (← liftR (strF key "t")) != "int" then failU "getitem on a tuple with a non-literal key"
      match rs[(← liftR (natF key "v"))]? with
      | some r => bind (← refId out) (.reg r)
      | none => failU "getitem on a tuple: index out of range"
    | .opaque => bind (← refId out) .opaque
    | _ => failU "getitem on a module or function"
  | "updateitem" =>
    match ← lookup (← refId (← liftR (fld a "obj"))) with
    | .reg t =>
      let reads := (← regsOf (← liftR (fld a "key"))) ++ (← regsOf (← liftR (fld a "value")))
      bind (← refId out) (.reg (← emit (.inplace t reads)))
    | _ => failU "item update on a value that is not a single tensor"
  | "operator" =>
    let op ← liftR (strF a "operator")
    if !pureOperators.contains op then failU s!"operator {op}"
    let rs ← (← liftR (arrF a "operands")).mapM regsOf
    if rs.flatten.isEmpty then bind (← refId out) .opaque
    else bind (← refId out) (.reg (← emit (.fresh rs.flatten)))
  | k => failU s!"node kind {k}"

def translate (g : Json) (ninInlined : Option Nat) : T (List Nat) := do
  let top ← liftR (fld g "top")
  match fldOpt top "inlined" with
  | some f =>
    -- InlineGraph collapsed the graph into the function it wraps: that function is called with the inputs
    let nin ← match ninInlined with
      | some n => pure n
      | none => failU "inlined graph without the number of inputs"
    modify (fun st => { st with nin := nin })
    for a in ← liftR (arrF g "apps") do translateApp a
    match ← lookup (← refId f) with
    | .fn fname =>
      let args := (List.range nin).map (fun i => Json.mkObj [("t", "ref"), ("id", jNat (1000000 + i))])
      for i in List.range nin do bind (1000000 + i) (.reg i)
      pure (bindingRegs (← translateCall fname args [] none))
    | _ => failU "inlined value is not a module function"
  | none =>
    let inputs ← liftR (natsF top "inputs")
    modify (fun st => { st with nin := inputs.length })
    for (id, k) in inputs.zip (List.range inputs.length) do bind id (.reg k)
    for a in ← liftR (arrF g "apps") do translateApp a
    regsOf (← liftR (fld top "output"))

def nodeJson : Node → Json
  | .fresh r => Json.mkObj [("n", "fresh"), ("reads", jNats r)]
  | .view s => Json.mkObj [("n", "view"), ("srcs", jNats s)]
  | .same s => Json.mkObj [("n", "same"), ("src", jNat s)]
  | .inplace t r => Json.mkObj [("n", "inplace"), ("target", jNat t), ("reads", jNats r)]

def parseNode (j : Json) : R Node := do
  match ← strF j "n" with
  | "fresh" => pure (.fresh (← natsF j "reads"))
  | "view" => pure (.view (← natsF j "srcs"))
  | "same" => pure (.same (← natF j "src"))
  | "inplace" => pure (.inplace (← natF j "target") (← natsF j "reads"))
  | k => throw s!"unknown node {k}"

def answer (g : Graph) : Json :=
  Json.mkObj [("writes", jNats (writes g)), ("out_roots", jNats (outRoots g)), ("nin", jNat g.nin),
    ("nodes", jNat g.nodes.length), ("inplace", jNat (g.nodes.filter Node.isInplace).length),
    ("prog", jArr (g.nodes.map nodeJson)), ("outs", jNats g.outs)]

/-- kind `writes`. -/
def handleWrites (j : Json) : R Json := do
  let gj ← fld j "graph"
  let ninInl ← match fldOpt j "nin" with
    | some n => pure (some (← asNat n))
    | none => pure none
  let (r, st) := (translate gj ninInl).run.run {}
  match r with
  | .error why => pure (Json.mkObj [("unsupported", Json.str why)])
  | .ok outs =>
    let g : Graph := { nin := st.nin, nodes := st.nodes.toList, outs := outs }
    if !g.wf then throw "translated graph is not well-formed"
    pure (answer g)

/-- kind `writes_prog`: the analysis on an explicit program (tests of the analysis itself). -/
def handleProg (j : Json) : R Json := do
  let g : Graph := { nin := ← natF j "nin", nodes := ← (← arrF j "nodes").mapM parseNode, outs := ← natsF j "outs" }
  if !g.wf then return Json.mkObj [("ill_formed", Json.bool true)]
  pure (answer g)

def effectJson : Effect → Json
  | .fresh => Json.mkObj [("e", "fresh")]
  | .view ks => Json.mkObj [("e", "view"), ("args", jNats ks)]
  | .inplace k => Json.mkObj [("e", "inplace"), ("target", jNat k)]

def handle (j : Json) : R Json := do
  match ← strF j "kind" with
  | "writes" => handleWrites j
  | "writes_prog" => handleProg j
  | "alias_table" => pure (Json.mkObj [("rows", jArr (aliasTable.map (fun (f, e) => Json.mkObj [("f", Json.str f), ("effect", effectJson e)])))])
  | k => throw s!"unknown kind {k}"

end Einx.Driver.Alias
