import EinxModel.Driver.Util
import EinxModel.Driver.IR
import EinxModel.Extracted.Stb
import EinxModel.Extracted.Unravel
/-!
Driver requests that *run the translated definitions* of `Extracted/Stb.lean` (regenerated from /repo by
`tools/extract/stb.py`) and the reading of Python's builtins (`Basic/PyPrelude.lean`), so that the check can
compare them with the real Python functions / with CPython on the same inputs (tie for the translator itself).

kind `xlate_stb`   {"ein": [[name, len], …], "eout": […], "unitary": bool}
                   → `Stb.squeezeTransposeBroadcast` on a tensor in register 0 of shape `lens ein`
kind `xlate_diag`  {"shape": […], "axes_in": [ints], "axis_out": int} → `Stb.diagonalInner`
kind `xlate_ids`   {"names": [...]} → `Stb.toAxisIds`
kind `xlate_unravel` {"k": nat, "sizes": […], "axis": nat|null} → `Unravel.unravelKernel`
kind `py_prelude`  {"fn": …, …} → one function of `Basic/PyPrelude.lean`
-/
open Lean
namespace Einx.Driver.Xlate
open Einx.Driver Einx.Generic Einx.Extracted

def axF (j : Json) : R Ax := do
  match ← asArr j with
  | [n, v] => pure ⟨← asStr n, ← asNat v⟩
  | _ => throw "axis: expected [name, length]"

def axesF (j : Json) (k : String) : R (List Ax) := do (← arrF j k).mapM axF

def stJson (s : St) : List (String × Json) :=
  [("prog", jArr (s.prog.map Einx.Driver.IR.instrJsonB)), ("out", jNat s.reg), ("shape", jNats s.shape)]

def exJson {α : Type} (r : Except String α) (f : α → List (String × Json)) : Json :=
  match r with
  | .ok a => Json.mkObj [("ok", Json.mkObj (f a))]
  | .error e => Json.mkObj [("err", Json.str e)]

def optIntF (j : Json) (k : String) : R (Option Int) := do
  match fldOpt j k with
  | none => pure none
  | some Json.null => pure none
  | some v => pure (some (← asInt v))

def handlePrelude (j : Json) : R Json := do
  match ← strF j "fn" with
  | "slice" => pure (Json.mkObj [("v", jInts (Py.slice (← intsF j "l") (← optIntF j "lo") (← optIntF j "hi")))])
  | "listInsert" => pure (Json.mkObj [("v", jInts (Py.listInsert (← intsF j "l") (← intF j "i") (← intF j "x")))])
  | "getInt" => pure (exJson (Py.getInt (← intsF j "l") (← intF j "i")) (fun v => [("v", jInt v)]))
  | "index" => pure (exJson (Py.index (← intsF j "l") (← intF j "x")) (fun v => [("v", jNat v)]))
  | "sortedInt" => pure (Json.mkObj [("v", jInts (Py.sortedInt (← intsF j "l")))])
  | "sumInt" => pure (Json.mkObj [("v", jInt (Py.sumInt (← intsF j "l")))])
  | "setLen" => pure (Json.mkObj [("v", jNat (Py.setOf (← intsF j "l")).length)])
  | "setDiffLen" => pure (Json.mkObj [("v", jNat (Py.setDiff (Py.setOf (← intsF j "a")) (Py.setOf (← intsF j "b"))).length)])
  | "setDiffHas" => pure (Json.mkObj [("v", Json.bool ((Py.setDiff (Py.setOf (← intsF j "a")) (Py.setOf (← intsF j "b"))).contains (← intF j "x")))])
  | "setUnionLen" => pure (Json.mkObj [("v", jNat (Py.setUnion (Py.setOf (← intsF j "a")) (Py.setOf (← intsF j "b"))).length)])
  | "setInterLen" => pure (Json.mkObj [("v", jNat (Py.setInter (Py.setOf (← intsF j "a")) (Py.setOf (← intsF j "b"))).length)])
  | "setEq" => pure (Json.mkObj [("v", Json.bool (Py.setEq (Py.setOf (← intsF j "a")) (Py.setOf (← intsF j "b"))))])
  | "floorDiv" => pure (exJson (Py.floorDiv (← intF j "a") (← intF j "b")) (fun v => [("v", jInt v)]))
  | "floorMod" => pure (exJson (Py.floorMod (← intF j "a") (← intF j "b")) (fun v => [("v", jInt v)]))
  | "enumerate" => pure (Json.mkObj [("v", jArr ((Py.enumerate (← intsF j "l")).map (fun p => jArr [jNat p.1, jInt p.2])))])
  | "range2" => pure (Json.mkObj [("v", jNats (Py.range2 (← natF j "a") (← natF j "b")))])
  | "dict" => do
    -- a sequence of assignments d[k] = v, then d.get(q, -1) for every query and the final key order
    let ks ← intsF j "keys"
    let vs ← intsF j "vals"
    let d := (ks.zip vs).foldl (fun d (p : Int × Int) => Py.dictSet d p.1 p.2) ([] : List (Int × Int))
    let qs ← intsF j "queries"
    pure (Json.mkObj [("get", jInts (qs.map (fun q => Py.dictGetD d q (-1)))), ("order", jInts (d.map (·.1))),
      ("has", jArr (qs.map (fun q => Json.bool (Py.dictHas d q))))])
  | f => throw s!"py_prelude: unknown fn {f}"

def handle (j : Json) : R Json := do
  match ← strF j "kind" with
  | "xlate_stb" => do
    let ein ← axesF j "ein"
    let eout ← axesF j "eout"
    let r := Stb.squeezeTransposeBroadcast ein ⟨0, lens ein, [], 1⟩ eout (← boolF j "unitary")
    pure (exJson r (fun p => stJson p.2 ++ [("expr_out", jArr (p.1.map (fun a => jArr [Json.str a.name, jNat a.len])))]))
  | "xlate_diag" => do
    let r := Stb.diagonalInner ⟨0, ← natsF j "shape", [], 1⟩ (← intsF j "axes_in") (← intF j "axis_out")
    pure (exJson r stJson)
  | "xlate_ids" => do
    let ns ← strsF j "names"
    pure (Json.mkObj [("ids", jArr ((Stb.toAxisIds (ns.map (fun n => ⟨n, 2⟩))).map (fun p => jArr [Json.str p.1, jNat p.2])))])
  | "xlate_unravel" => do
    let axis ← (match fldOpt j "axis" with
      | none | some Json.null => pure none
      | some v => do pure (some (← asNat v)) : R (Option Nat))
    pure (exJson (Unravel.unravelKernel (← natF j "k") (← natsF j "sizes") axis) (fun v => [("v", jNats v)]))
  | "py_prelude" => handlePrelude j
  | k => throw s!"unknown kind {k}"

end Einx.Driver.Xlate
