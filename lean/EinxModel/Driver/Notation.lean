import EinxModel.Driver.Util
import EinxModel.Notation.Parse
/-! Driver for M1: `parse` (string → tree | error kind + caret positions) and `print` (tree → string). -/
open Lean Einx.Driver Einx.Notation

namespace Einx.Driver.Notation

def jStr (s : Str) : Json := Json.str (String.ofList s)

partial def exprJson : Expr → Json
  | .axis n v b e => Json.mkObj [("t", "axis"), ("name", jStr n), ("value", match v with | none => Json.null | some k => jNat k), ("b", jInt b), ("e", jInt e)]
  | .flat i b e => Json.mkObj [("t", "flat"), ("inner", exprJson i), ("b", jInt b), ("e", jInt e)]
  | .brackets i b e => Json.mkObj [("t", "brackets"), ("inner", exprJson i), ("b", jInt b), ("e", jInt e)]
  | .ellipsis i id b e => Json.mkObj [("t", "ellipsis"), ("inner", exprJson i), ("id", jNat id), ("b", jInt b), ("e", jInt e)]
  | .concat cs b e => Json.mkObj [("t", "concat"), ("cs", jArr (cs.map exprJson)), ("b", jInt b), ("e", jInt e)]
  | .list cs b e => Json.mkObj [("t", "list"), ("cs", jArr (cs.map exprJson)), ("b", jInt b), ("e", jInt e)]
  | .args cs b e => Json.mkObj [("t", "args"), ("cs", jArr (cs.map exprJson)), ("b", jInt b), ("e", jInt e)]
  | .op cs b e => Json.mkObj [("t", "op"), ("cs", jArr (cs.map exprJson)), ("b", jInt b), ("e", jInt e)]

partial def exprOfJson (j : Json) : R Expr := do
  let b ← intF j "b"
  let e ← intF j "e"
  match ← strF j "t" with
  | "axis" =>
    let v ← fld j "value"
    let value ← if v.isNull then pure none else (some <$> asNat v)
    pure (.axis (← strF j "name").toList value b e)
  | "flat" => pure (.flat (← exprOfJson (← fld j "inner")) b e)
  | "brackets" => pure (.brackets (← exprOfJson (← fld j "inner")) b e)
  | "ellipsis" => pure (.ellipsis (← exprOfJson (← fld j "inner")) (← natF j "id") b e)
  | "concat" => pure (.concat (← (← arrF j "cs").mapM exprOfJson) b e)
  | "list" => pure (.list (← (← arrF j "cs").mapM exprOfJson) b e)
  | "args" => pure (.args (← (← arrF j "cs").mapM exprOfJson) b e)
  | "op" => pure (.op (← (← arrF j "cs").mapM exprOfJson) b e)
  | t => throw s!"unknown node type {t}"

def synKindStr : SynKind → String
  | .invalidToken => "invalidToken"
  | .closingNotOpened => "closingNotOpened"
  | .openingNotClosed => "openingNotClosed"
  | .concatOperand => "concatOperand"
  | .concatNotWrapped => "concatNotWrapped"
  | .invalidExpr true => "invalidExpr+ws"
  | .invalidExpr false => "invalidExpr"
  | .arrowLevel => "arrowLevel"
  | .commaLevel => "commaLevel"
  | .multipleArrows => "multipleArrows"
  | .inconsistentBrackets => "inconsistentBrackets"
  | .argsHasArrow => "argsHasArrow"
  | .argHasComma => "argHasComma"

def intKindJson : IntKind → Json
  | .unhandledOp op => Json.mkObj [("k", "unhandledOp"), ("op", jStr op)]
  | .intLiteral => Json.mkObj [("k", "intLiteral")]
  | .assertAxisName => Json.mkObj [("k", "assertAxisName")]
  | .assertDelimiter => Json.mkObj [("k", "assertDelimiter")]
  | .assertMoveUp => Json.mkObj [("k", "assertMoveUp")]
  | .assertRoot => Json.mkObj [("k", "assertRoot")]

def resJson : Res Expr → Json
  | .ok x => Json.mkObj [("ok", exprJson x), ("str", jStr x.print)]
  | .error (.syntax k pos alts) =>
    Json.mkObj [("error", "syntax"), ("kind", synKindStr k), ("pos", jInts pos), ("alts", jArr (alts.map jInts))]
  | .error (.internal k) => Json.mkObj [("error", "internal"), ("kind", intKindJson k)]

def handle (j : Json) : R Json := do
  match ← strF j "req" with
  | "parse" =>
    let text := (← strF j "text").toList
    match ← strF j "entry" with
    | "op" => pure (resJson (parseOp text))
    | "args" => pure (resJson (parseArgs text))
    | "arg" => pure (resJson (parseArg text))
    | e => throw s!"unknown entry {e}"
  | "print" =>
    let x ← exprOfJson (← fld j "tree")
    pure (Json.mkObj [("str", jStr x.print)])
  | "tokens" =>
    let text := (← strF j "text").toList
    match lex text with
    | .ok ts => pure (Json.mkObj [("tokens", jArr ((dedupSpaces ts false).map (fun t => Json.mkObj [("text", jStr t.text), ("b", jNat t.b), ("e", jNat t.e)])))])
    | .error _ => pure (Json.mkObj [("tokens", Json.null)])
  | r => throw s!"unknown notation request {r}"

end Einx.Driver.Notation
