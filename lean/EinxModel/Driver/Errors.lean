import EinxModel.Driver.Util
import EinxModel.Errors.Indicator
import EinxModel.Errors.Classify
/-! Driver for C03: `indicator` (description + which indicator + roots → caret positions) and `classify`
    (exception MRO + origin → verdict). -/
open Lean Einx.Driver Einx.Notation Einx.Errors

namespace Einx.Driver.Errors

/-- Follow a path of child indices from the root; an invalid path is a malformed request. -/
def follow (x : Expr) : List Nat → R Expr
  | [] => pure x
  | i :: rest =>
    match x.children[i]? with
    | some c => follow c rest
    | none => throw s!"invalid path index {i}"

def rewriteOf (name : String) (names : List Str) (x : Expr) : R Expr :=
  match name with
  | "none" => pure x
  | "removeBrackets" => pure (removeBrackets x)
  | "toOutput" => pure (toOutput x)
  | "markAxes" => pure (markAxes names x)
  | r => throw s!"unknown rewrite {r}"

def verdictStr : Verdict → String
  | .documented => "documented"
  | .runtime => "runtime"
  | .argument => "argument"
  | .internal => "internal"
  | .undocumented => "undocumented"

def originOf : String → R Origin
  | "caller" => pure .caller
  | "einxRaise" => pure .einxRaise
  | "einxOther" => pure .einxOther
  | "foreign" => pure .foreign
  | o => throw s!"unknown origin {o}"

def handle (j : Json) : R Json := do
  match ← strF j "kind" with
  | "indicator" =>
    let text := (← strF j "text").toList
    let which ← strF j "which"
    if which == "literal" then
      let pos := posForLiteral (← strF j "literal").toList text 0
      return Json.mkObj [("pos", jInts pos), ("assert", Json.bool (posAssert text.length pos))]
    if which == "create" then
      return Json.mkObj [("str", Json.str (String.ofList (create text (← intsF j "pos"))))]
    match parseOp text with
    | .error _ => pure (Json.mkObj [("parse_error", Json.bool true)])
    | .ok x =>
      let paths ← (← arrF j "paths").mapM (fun p => do (← asArr p).mapM asNat)
      let names := (← strsF j "names").map String.toList
      let rw ← strF j "rewrite"
      let rwNames := (← strsF j "rewrite_names").map String.toList
      let roots ← paths.mapM (fun p => do rewriteOf rw rwNames (← follow x p))
      let oroots := roots.map some
      let pos ← match which with
        | "exprs" => pure (posForExprs roots)
        | "axisnames" => pure (posForAxisnames oroots names)
        | "ellipses" => pure (posForEllipses oroots)
        | "concat" => pure (posForConcat oroots)
        | "brackets" => pure (posForBrackets oroots)
        | w => throw s!"unknown indicator {w}"
      pure (Json.mkObj [("pos", jInts pos), ("assert", Json.bool (posAssert text.length pos)),
                        ("ellOK", Json.bool (roots.all (ellOK text.length)))])
  | "classify" =>
    let r : Raised := ⟨← strsF j "mro", ← originOf (← strF j "origin"), ← strF j "file", ← strF j "func"⟩
    pure (Json.mkObj [("verdict", Json.str (verdictStr (classify r)))])
  | k => throw s!"unknown errors request {k}"

end Einx.Driver.Errors
