import EinxModel.Driver.Util
import EinxModel.Driver.Notation
import EinxModel.Notation.Grammar
/-! Driver for the grammar theorems of C03 (Props/C03Grammar.lean): request kind `grammar_spec` — the string-level predicates
    `countDepth0` for `->` and `,`, whether the stages up to `parse` succeed (`parseStage`, equivalent to `WF0` by
    `parse_stage_ok_iff`), and the outcomes of the three entry points of the parser model. -/
open Lean Einx.Driver Einx.Notation

namespace Einx.Driver.Grammar

def handle (j : Json) : R Json := do
  match ← strF j "kind" with
  | "grammar_spec" =>
    let text := (← strF j "text").toList
    let stageOk := match parseStage text with
      | .ok _ => true
      | .error _ => false
    pure (Json.mkObj [("arrows0", jNat (countDepth0 arrowLit text [])), ("commas0", jNat (countDepth0 commaLit text [])),
      ("stage_ok", Json.bool stageOk),
      ("parse", Einx.Driver.Notation.resJson (parseOp text)),
      ("args", Einx.Driver.Notation.resJson (parseArgs text)),
      ("arg", Einx.Driver.Notation.resJson (parseArg text))])
  | k => throw s!"unknown grammar request {k}"

end Einx.Driver.Grammar
