import EinxModel.Driver.Util
import EinxModel.Cache.Value
import EinxModel.Cache.Freeze
import EinxModel.Cache.Hash
import EinxModel.Cache.Memo
import EinxModel.Cache.Stack
import EinxModel.Cache.KeyEq
import EinxModel.Extracted.Cache
open Lean Einx.Driver Einx.Cache

namespace Einx.Driver.Cache

def parseKind (s : String) : R NumKind :=
  match s with
  | "pyInt" => pure .pyInt | "pyBool" => pure .pyBool | "pyFloat" => pure .pyFloat
  | "npBool" => pure .npBool | "npInt8" => pure .npInt8 | "npInt16" => pure .npInt16 | "npInt32" => pure .npInt32
  | "npInt64" => pure .npInt64 | "npUInt8" => pure .npUInt8 | "npFloat16" => pure .npFloat16
  | "npFloat32" => pure .npFloat32 | "npFloat64" => pure .npFloat64 | "paramKind" => pure .paramKind
  | k => throw s!"unknown numeric kind {k}"

def kindStr : NumKind → String
  | .pyInt => "pyInt" | .pyBool => "pyBool" | .pyFloat => "pyFloat"
  | .npBool => "npBool" | .npInt8 => "npInt8" | .npInt16 => "npInt16" | .npInt32 => "npInt32"
  | .npInt64 => "npInt64" | .npUInt8 => "npUInt8" | .npFloat16 => "npFloat16"
  | .npFloat32 => "npFloat32" | .npFloat64 => "npFloat64" | .paramKind => "paramKind"

def parseTag (s : String) : R TypeTag :=
  match s with
  | "ndarray" => pure .ndarray | "list" => pure .list | "tuple" => pure .tuple | "dict" => pure .dict
  | "namespace" => pure .namespace | "parameter" => pure .parameter | "bool" => pure .bool | "int" => pure .int
  | "float" => pure .float | "complex" => pure .complex | "str" => pure .str | "noneType" => pure .noneType
  | "npGeneric" => pure .npGeneric | "npNumber" => pure .npNumber | "npInteger" => pure .npInteger
  | "npFloating" => pure .npFloating | "npBool" => pure .npBool | "unknown" => pure .unknown
  | t => throw s!"unknown type tag {t}"

def tagStr : TypeTag → String
  | .ndarray => "ndarray" | .list => "list" | .tuple => "tuple" | .dict => "dict" | .namespace => "namespace"
  | .parameter => "parameter" | .bool => "bool" | .int => "int" | .float => "float" | .complex => "complex"
  | .str => "str" | .noneType => "noneType" | .npGeneric => "npGeneric" | .npNumber => "npNumber"
  | .npInteger => "npInteger" | .npFloating => "npFloating" | .npBool => "npBool" | .unknown => "unknown"

def parseAction (s : String) : R Action :=
  match s with
  | "tolist" => pure .tolist | "mapTuple" => pure .mapTuple | "mapDict" => pure .mapDict | "vars" => pure .vars
  | "fields" => pure .fields | "tagType" => pure .tagType | "ident" => pure .ident | "unknown" => pure .unknown
  | a => throw s!"unknown action {a}"

def actionStr : Action → String
  | .tolist => "tolist" | .mapTuple => "mapTuple" | .mapDict => "mapDict" | .vars => "vars"
  | .fields => "fields" | .tagType => "tagType" | .ident => "ident" | .unknown => "unknown"

/-- `{"rows": [[[tag, …], action], …], "fallthrough": action}` -/
def parseTable (j : Json) : R Table := do
  let rows ← (← arrF j "rows").mapM (fun r => do
    match ← asArr r with
    | [tags, act] =>
      let ts ← (← asArr tags).mapM (fun t => do parseTag (← asStr t))
      pure ({ tags := ts, act := ← parseAction (← asStr act) } : Row)
    | _ => throw "row must be [tags, action]")
  pure { rows := rows, fallthrough := ← parseAction (← strF j "fallthrough") }

def tableJson (T : Table) : Json :=
  Json.mkObj [("rows", jArr (T.rows.map (fun r => jArr [jStrs (r.tags.map tagStr), Json.str (actionStr r.act)]))),
              ("fallthrough", Json.str (actionStr T.fallthrough))]

/-- Values arrive in normal form (the harness sends numerator and exponent); anything else is a bad request. -/
partial def parseVal (j : Json) : R PyVal := do
  match ← strF j "t" with
  | "num" =>
    let d : Dy := ⟨← intF j "n", ← natF j "e"⟩
    if !d.normal then throw "number not in normal form"
    pure (.num (← parseKind (← strF j "k")) d)
  | "str" => pure (.str (← strF j "s"))
  | "none" => pure .none
  | "cls" => pure (.cls (← strF j "n"))
  | "obj" => pure (.obj (← natF j "id"))
  | "tuple" => pure (.tuple (← (← arrF j "xs").mapM parseVal))
  | "list" => pure (.list (← (← arrF j "xs").mapM parseVal))
  | "ndarray" => pure (.ndarray (← parseKind (← strF j "d")) (← parseVal (← fld j "x")))
  | "dict" => pure (.dict (← parseKVs (← arrF j "kvs")))
  | "ns" => pure (.ns (← parseKVs (← arrF j "kvs")))
  | "param" => pure (.param (← strF j "n") (← parseVal (← fld j "d")) (← parseVal (← fld j "a")) (← natF j "k"))
  | "tensor" => pure (.tensor (← natsF j "s"))
  | "conv" =>
    let s ← fld j "s"
    let shape ← if s.isNull then pure Option.none else (do pure (some (← (← asArr s).mapM asNat)))
    pure (.conv (← parseVal (← fld j "c")) shape)
  | t => throw s!"unknown value type {t}"
where
  parseKVs (l : List Json) : R KVs :=
    l.mapM (fun kv => do
      match ← asArr kv with
      | [k, v] => pure (← asStr k, ← parseVal v)
      | _ => throw "key-value pair expected")

partial def valJson : PyVal → Json
  | .num k d => Json.mkObj [("t", "num"), ("k", Json.str (kindStr k)), ("n", jInt d.num), ("e", jNat d.exp)]
  | .str s => Json.mkObj [("t", "str"), ("s", Json.str s)]
  | .none => Json.mkObj [("t", "none")]
  | .cls n => Json.mkObj [("t", "cls"), ("n", Json.str n)]
  | .obj i => Json.mkObj [("t", "obj"), ("id", jNat i)]
  | .tuple xs => Json.mkObj [("t", "tuple"), ("xs", jArr (xs.map valJson))]
  | .list xs => Json.mkObj [("t", "list"), ("xs", jArr (xs.map valJson))]
  | .ndarray d x => Json.mkObj [("t", "ndarray"), ("d", Json.str (kindStr d)), ("x", valJson x)]
  | .dict kvs => Json.mkObj [("t", "dict"), ("kvs", jArr (kvs.map (fun (k, v) => jArr [Json.str k, valJson v])))]
  | .ns kvs => Json.mkObj [("t", "ns"), ("kvs", jArr (kvs.map (fun (k, v) => jArr [Json.str k, valJson v])))]
  | .param n d a k => Json.mkObj [("t", "param"), ("n", Json.str n), ("d", valJson d), ("a", valJson a), ("k", jNat k)]
  | .tensor s => Json.mkObj [("t", "tensor"), ("s", jNats s)]
  | .conv c s => Json.mkObj [("t", "conv"), ("c", valJson c), ("s", match s with | some l => jNats l | Option.none => Json.null)]

/-- `{"str": [[s, h], …], "cls": [[n, h], …], "obj": [[id, h], …], "none": h}`; a missing entry is a bad request
(reported through a sentinel that the caller checks). -/
structure EnvTables where
  str : List (String × Int)
  cls : List (String × Int)
  obj : List (Nat × Int)
  none : Int

def parseEnv (j : Json) : R EnvTables := do
  let pairS (k : String) : R (List (String × Int)) := do
    (← arrF j k).mapM (fun e => do
      match ← asArr e with
      | [a, b] => pure (← asStr a, ← asInt b)
      | _ => throw "pair expected")
  let objs ← (← arrF j "obj").mapM (fun e => do
      match ← asArr e with
      | [a, b] => pure (← asNat a, ← asInt b)
      | _ => throw "pair expected")
  pure { str := ← pairS "str", cls := ← pairS "cls", obj := objs, none := ← intF j "none" }

/-- Strings not in the table hash to a value derived from their characters (the harness always sends a complete
table when it compares hashes; for requests without a table any injective-looking stand-in will do). -/
def fallbackStrHash (s : String) : Int := s.foldl (fun h c => (h * 1000003 + c.toNat) % 2305843009213693951) 7

def EnvTables.toEnv (e : EnvTables) : HashEnv :=
  { str := fun s => (e.str.lookup s).getD (fallbackStrHash s),
    cls := fun s => (e.cls.lookup s).getD (fallbackStrHash s + 1),
    obj := fun i => (e.obj.lookup i).getD (1000 + i),
    none := e.none }

def defaultEnv : EnvTables := { str := [], cls := [], obj := [], none := 4238894112 }

def getEnv (j : Json) : R EnvTables :=
  match fldOpt j "env" with
  | some e => parseEnv e
  | Option.none => pure defaultEnv

def parseCall (j : Json) : R Call := do
  let kvs ← (← arrF j "kwargs").mapM (fun kv => do
      match ← asArr kv with
      | [k, v] => pure (← asStr k, ← parseVal v)
      | _ => throw "key-value pair expected")
  pure { op := ← natF j "op", args := ← (← arrF j "args").mapM parseVal, kwargs := kvs }

def parseOutcome (j : Json) : R (Outcome Nat) := do
  match fldOpt j "ok", fldOpt j "raised" with
  | some v, Option.none => pure (.ok (← asNat v))
  | Option.none, some e => pure (.raised (← asStr e))
  | _, _ => throw "outcome must be {ok: n} or {raised: cls}"

def outcomeJson : Outcome Nat → Json
  | .ok n => Json.mkObj [("ok", jNat n)]
  | .raised e => Json.mkObj [("raised", Json.str e)]

def parseProg (fuel : Nat) (j : Json) : R Prog := do
  match fuel with
  | 0 => throw "program too deep"
  | fuel + 1 =>
    match ← strF j "p" with
    | "prim" => pure (.prim (← boolF j "raises"))
    | "seq" => pure (.seq (← parseProg fuel (← fld j "a")) (← parseProg fuel (← fld j "b")))
    | "with" => pure (.withBackend (← natF j "b") (← parseProg fuel (← fld j "body")))
    | "deps" => pure (.withDeps (← natsF j "d") (← parseProg fuel (← fld j "body")))
    | "try" => pure (.tryExcept (← parseProg fuel (← fld j "body")))
    | p => throw s!"unknown program node {p}"

def handle (j : Json) : R Json := do
  match ← strF j "kind" with
  | "cache-table" =>
    pure (Json.mkObj [("table", tableJson Einx.Extracted.freezeTable),
      ("known", Json.bool Einx.Extracted.freezeTable.known), ("respects", Json.bool Einx.Extracted.freezeTable.respects),
      ("tagsAll", Json.bool Einx.Extracted.freezeTable.tagsAll), ("tagsNone", Json.bool Einx.Extracted.freezeTable.tagsNone),
      ("stackOk", Json.bool Einx.Extracted.stackCfg.ok), ("convEqFrozen", Json.bool Einx.Extracted.convEqFrozen)])
  | "freeze" =>
    let T ← parseTable (← fld j "table")
    pure (Json.mkObj [("v", valJson (freeze T (← parseVal (← fld j "v"))))])
  | "pyeq" =>
    -- a pair of raw values: what the cache sees (frozen ==, frozen hash equality) and the typed observation
    let T ← parseTable (← fld j "table")
    let env := (← getEnv j).toEnv
    let a ← parseVal (← fld j "a")
    let b ← parseVal (← fld j "b")
    let fa := freeze T a
    let fb := freeze T b
    pure (Json.mkObj [("raw_eq", Json.bool (pyEq a b)), ("eq", Json.bool (pyEq fa fb)),
      ("hash_eq", Json.bool (pyHash T env fa == pyHash T env fb)), ("hit", Json.bool (keyHit T env fa fb)),
      ("typed", Json.bool (typedEq (observe a) (observe b))),
      -- the comparison of the tree being checked (`ConvertibleTensor.__eq__` on frozen concretes), the exact observation
      -- and the guards of `pyEq_hash` / `frozen_key_eq_iff` (Props/C06Hash.lean)
      ("eqF", Json.bool (keyEq T fa fb)), ("hitF", Json.bool (keyHitF T env fa fb)),
      ("exact", Json.bool (exactEq (observeX a) (observeX b))),
      ("wf", Json.bool (wfKeys fa && wfKeys fb)), ("flat", Json.bool (flatConv a && flatConv b))])
  | "pyhash" =>
    let T ← parseTable (← fld j "table")
    let env := (← getEnv j).toEnv
    let v ← parseVal (← fld j "v")
    pure (Json.mkObj [("h", jInt (pyHash T env v)), ("fh", jInt (pyHash T env (freeze T v)))])
  | "memo" =>
    -- distinct calls, their fresh outcomes, and a history of indices into them
    let T ← parseTable (← fld j "table")
    let env := (← getEnv j).toEnv
    let calls ← (← arrF j "calls").mapM parseCall
    let fresh ← (← arrF j "fresh").mapM parseOutcome
    if calls.length != fresh.length then throw "calls and fresh outcomes differ in length"
    let hist ← natsF j "history"
    if hist.any (· ≥ calls.length) then throw "history index out of range"
    let callsA := calls.toArray
    let freshA := fresh.toArray
    let key : Nat → PyVal := fun i => keyOf T (callsA.getD i default)
    let compute : Nat → Outcome Nat := fun i => freshA.getD i (.raised "?")
    let hit := if Einx.Extracted.convEqFrozen then keyHitF T env else keyHit T env
    let (m, outs) := run key hit id compute [] hist
    pure (Json.mkObj [("outs", jArr (outs.map outcomeJson)), ("stored", jNat m.length)])
  | "stack" =>
    let cfgJ ← fld j "cfg"
    let cfg : StackCfg := { useExitUnconditional := ← boolF cfgJ "useExitUnconditional", depExitUnconditional := ← boolF cfgJ "depExitUnconditional",
                            useExitReturnsFalsy := ← boolF cfgJ "useExitReturnsFalsy", depExitReturnsFalsy := ← boolF cfgJ "depExitReturnsFalsy",
                            traceInsideWith := ← boolF cfgJ "traceInsideWith" }
    let p ← parseProg 64 (← fld j "prog")
    let (s, st) := exec cfg p ⟨[], []⟩
    pure (Json.mkObj [("use", jNats s.use), ("dep", jNat s.dep.length),
      ("status", Json.str (match st with | .normal => "normal" | .raised => "raised" | .corrupt => "corrupt"))])
  | k => throw s!"unknown cache kind {k}"

end Einx.Driver.Cache
