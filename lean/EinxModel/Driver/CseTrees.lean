import EinxModel.Driver.Util
import EinxModel.Driver.Cse
import EinxModel.Solve.CseTrees
import EinxModel.Solve.CseCheck
import EinxModel.Solve.CseCheck2
open Lean Einx.Driver Einx.Solve

/-! Request kind `cse_trees` (C02 / C16): the model of the whole of `stage2/cse.py` on stage-2 trees.

Request: `{"kind":"cse_trees","roots":[tree|null,…],"cse_concat":bool,"cse_in_brackets":bool}` (tree JSON as for
`value_range`).  Answer: `{"ok":true,"out":[tree|null,…],"cands":[{"key":str,"occs":[[[root,path…],…],…]},…]}` or
`{"ok":false,"error":msg}` when the model reaches one of the exceptions of the real code.
`cse_check` (same request fields): `{"wf","used_ok","pairs_ok","check","events","used","filter_ok","unique_ids","reduced","input_ok","fresh_ok","root_dims_ok","copied_ok","shared_ok"}` (`filter_ok`, `unique_ids`: decidable
forms of the proved facts `cse_trees_is_cse_step`, `candidates_unique_ids` — sanity checks of the model).
`cse_enum` (same fields + `"order":"reverse"|"rotate"|"insertion"`): `{"result":{"ok",…},"unique_ids","candidates"}` — the
model with another enumeration of the dict.
`forest_sys` (`{"kind":"forest_sys","roots":[…]}`): `{"vars":[[name,min],…],"eqns":[[poly,poly],…]}` with
`poly = [{"c":coef,"v":[name,…]},…]` — `forestSys roots`, compared by the harness with the equations the real
`stage3.solve` hands to `util.solver.solve` (work package cse2). -/
namespace Einx.Driver.CseTrees
open Einx.Solve.CseT

partial def vexprJson : VExpr → Json
  | .axis n v m =>
    Json.mkObj [("t", "axis"), ("n", Json.str n), ("v", match v with | some x => jNat x | none => Json.null), ("min", jNat m)]
  | .list cs => Json.mkObj [("t", "list"), ("c", jArr (cs.map vexprJson))]
  | .concat cs => Json.mkObj [("t", "concat"), ("c", jArr (cs.map vexprJson))]
  | .flat e => Json.mkObj [("t", "flat"), ("e", vexprJson e)]
  | .brackets e => Json.mkObj [("t", "br"), ("e", vexprJson e)]

def parseRoots (j : Json) : R (List (Option VExpr)) := do
  (← arrF j "roots").mapM (fun r => if r.isNull then pure none else (some <$> Einx.Driver.Cse.parseVExpr r))

def parseOpts (j : Json) : R Opts := do
  pure { cseConcat := (← boolF j "cse_concat"), cseInBrackets := (← boolF j "cse_in_brackets") }

def candJson (c : Cand) : Json :=
  Json.mkObj [("key", Json.str c.key), ("occs", jArr (c.occs.map (fun o => jArr (o.ids.map jNats))))]

def rootsJson (rs : List (Option VExpr)) : Json :=
  jArr (rs.map (fun r => match r with | some e => vexprJson e | none => Json.null))

def handle (j : Json) : R Json := do
  match ← strF j "kind" with
  | "cse_trees" =>
    let roots ← parseRoots j
    let opts ← parseOpts j
    match cseTrees opts roots with
    | .ok out =>
      pure (Json.mkObj [("ok", Json.bool true), ("out", rootsJson out),
                        ("cands", jArr ((candidates opts roots).map candJson))])
    | .error e => pure (Json.mkObj [("ok", Json.bool false), ("error", Json.str e)])
  | "cse_check" =>
    -- the decidable side conditions of `cseTrees_preserves_sols_partial` (Props/C02Cse.lean) on this input
    let roots ← parseRoots j
    let opts ← parseOpts j
    let evs := cseEvents opts roots
    let nUsed := (evs.filter (fun e => match e with | .used _ _ _ _ => true | _ => false)).length
    pure (Json.mkObj [("wf", Json.bool (wfForest roots)), ("used_ok", Json.bool (evs.all usedOK)),
                      ("pairs_ok", Json.bool (evs.all (fun a => evs.all (fun b => pairOK a b)))),
                      ("check", Json.bool (cseCheck opts roots)), ("events", jNat evs.length), ("used", jNat nUsed),
                      ("filter_ok", Json.bool (evs.all filtOKb)),
                      -- the parts of `cseCheckReduced` (Solve/CseCheck2.lean; `cseCheck_of_reduced`)
                      ("reduced", Json.bool (cseCheckReduced opts roots)), ("input_ok", Json.bool (inputOK roots)),
                      ("fresh_ok", Json.bool (freshOK evs)), ("root_dims_ok", Json.bool (rootDimsOK evs)),
                      ("copied_ok", Json.bool (copiedOK evs)), ("shared_ok", Json.bool (sharedOK evs)),
                      ("unique_ids", Json.bool (uniqueIds (candidates opts roots)))])
  | "cse_enum" =>
    -- C16: the model with another enumeration of the dict `str_to_common_expr` (`order`: "reverse" | "rotate")
    let roots ← parseRoots j
    let opts ← parseOpts j
    let enum : List Cand → List Cand ← match ← strF j "order" with
      | "reverse" => pure List.reverse
      | "rotate" => pure (fun l => l.drop 1 ++ l.take 1)
      | "insertion" => pure id
      | o => throw s!"unknown enumeration {o}"
    let res : Json := match cseTreesEnum enum opts roots with
      | .ok out => Json.mkObj [("ok", Json.bool true), ("out", rootsJson out)]
      | .error e => Json.mkObj [("ok", Json.bool false), ("error", Json.str e)]
    pure (Json.mkObj [("result", res), ("unique_ids", Json.bool (uniqueIds (candidates opts roots))),
                      ("candidates", jNat (candidates opts roots).length)])
  | "forest_sys" =>
    -- the stage-3 value system `forestSys` of the theorems (Solve/CseCheck.lean) for a list `exprs1 ++ exprs2`
    let roots ← parseRoots j
    let sys := forestSys roots
    let polyJ (p : Poly) : Json := jArr (p.map (fun m => Json.mkObj [("c", jNat m.coef), ("v", jArr (m.vars.map Json.str))]))
    pure (Json.mkObj [("vars", jArr (sys.vars.map (fun p => jArr [Json.str p.1, jNat p.2]))),
                      ("eqns", jArr (sys.eqns.map (fun e => jArr [polyJ e.lhs, polyJ e.rhs])))])
  | k => throw s!"unknown cse_trees kind {k}"

end Einx.Driver.CseTrees
