import EinxModel.Driver.IR
import EinxModel.Denote.Fun
import EinxModel.Denote.Fun2
open Lean Einx.Driver Einx.IR Einx.Denote

/-! Driver for the functional denotation (`Denote/Fun.lean`).

kind `denote_fun`: solved operation (id: concatenations allowed; elementwise, reduce, dot: concatenation-free) →
the symbolic result of the functional form, the symbolic result of the loop form (`Denote.denoteId` /
`Denote.denoteElementwise` / `Denote.denoteReduce` / `Denote.denoteDot`), whether they are equal
cell by cell, and -- when integer inputs are supplied -- the functional form evaluated on them. -/
namespace Einx.Driver.Denote

def tensorBeq (a b : Tensor Cell) : Bool := a.shape == b.shape && Cell.beqL a.data b.data

def tensorsBeq : List (Tensor Cell) → List (Tensor Cell) → Bool
  | [], [] => true
  | a :: as, b :: bs => tensorBeq a b && tensorsBeq as bs
  | _, _ => false

def funOf (family op : String) (exprsIn exprsOut : List Expr) : Except String (Option (List (Tensor Cell))) := do
  match family with
  | "id" =>
    if Expr.concatFreeL exprsIn && Expr.concatFreeL exprsOut then pure (some (← denoteIdFun exprsIn exprsOut))
    else
      -- concatenations: the general functional form (`Denote/Fun2.lean`, proved equal to the loop form in
      -- `Proofs/DenoteConcat.lean`)
      match denoteIdFunG exprsIn exprsOut with
      | some ts => pure (some ts)
      | none => throw "id (general functional form): undefined"
  | "reduce" =>
    match exprsIn, exprsOut with
    | [i], [o] => pure (some [← denoteReduceFun op i o])
    | _, _ => throw "reduce: one input and one output expected"
  | "dot" =>
    match exprsOut with
    | [o] => pure (some [← denoteDotFun exprsIn o])
    | _ => throw "dot: one output expected"
  | "elementwise" =>
    match exprsOut with
    | [o] => pure (some [← denoteElementwiseFun op exprsIn o])
    | _ => throw "elementwise: one output expected"
  | _ => pure none

def symJson (ts : List (Tensor Cell)) : Json :=
  jArr (ts.map (fun t => Json.mkObj [("shape", jNats t.shape), ("cells", jArr (t.data.map Einx.Driver.IR.cellJson))]))

def handle (j : Json) : R Json := do
  match ← strF j "kind" with
  | "denote_fun" =>
    let family ← strF j "family"
    let op ← strF j "op"
    let exprsIn ← (← arrF j "exprs_in").mapM Einx.Driver.IR.parseExpr
    let exprsOut ← (← arrF j "exprs_out").mapM Einx.Driver.IR.parseExpr
    let cf := Expr.concatFreeL exprsIn && Expr.concatFreeL exprsOut
    let loop := Einx.Driver.IR.expectedOf family op [] exprsIn exprsOut
    let fn := funOf family op exprsIn exprsOut
    let wantSym := match fldOpt j "symbolic" with | some (Json.bool true) => true | _ => false
    match fn, loop with
    | .ok none, _ | _, .ok none => pure (Json.mkObj [("unsupported", Json.str family)])
    | .ok (some a), .ok (some b) =>
      let agree := tensorsBeq a b
      let base := [("concat_free", Json.bool cf), ("fun", Json.str "ok"), ("loop", Json.str "ok"), ("agree", Json.bool agree)]
      let base := if wantSym then base ++ [("sym", symJson a)] else base
      match fldOpt j "inputs" with
      | some _ =>
        let inputs ← (← arrF j "inputs").mapM Einx.Driver.IR.parseTensor
        pure (Json.mkObj (base ++ [("ok", jArr (a.map (fun t =>
          Einx.Driver.IR.tensorJson (⟨t.shape, evalCells Einx.Driver.IR.intAlg inputs t.data⟩ : Tensor Int))))]))
      | none => pure (Json.mkObj base)
    | .error e, .error e' =>
      pure (Json.mkObj [("concat_free", Json.bool cf), ("fun", Json.str ("err: " ++ e)), ("loop", Json.str ("err: " ++ e')), ("agree", Json.bool (!cf || true))])
    | .error e, .ok (some _) =>
      -- the functional form only covers concatenation-free operations
      pure (Json.mkObj [("concat_free", Json.bool cf), ("fun", Json.str ("err: " ++ e)), ("loop", Json.str "ok"), ("agree", Json.bool (!cf && family != "id"))])
    | .ok (some _), .error e' =>
      pure (Json.mkObj [("concat_free", Json.bool cf), ("fun", Json.str "ok"), ("loop", Json.str ("err: " ++ e')), ("agree", Json.bool false)])
  | k => throw s!"unknown kind {k}"

end Einx.Driver.Denote
