import EinxModel.Driver.Util
import EinxModel.Update.Model
import EinxModel.Extracted.Update
open Lean Einx.Driver Einx.Update

/-! Request kinds of the update area (C14):
`update_denote` (denotation), `update_lower` (the lowering with the facts extracted from /repo),
`update_get` (read back), `update_addr` (ravelled addresses: lowered kernel and denotation),
`np_put`, `np_ufunc_at` (primitive conformance), `assignments`. -/
namespace Einx.Driver.Update

def parseMode (s : String) : R Mode :=
  match s with
  | "set" => pure .set
  | "add" => pure .add
  | "sub" => pure .sub
  | m => throw s!"unknown mode {m}"

def parseTDim (j : Json) : R TDim :=
  match fldOpt j "vec", fldOpt j "idx" with
  | some v, none => do pure (.vec (← asNat v))
  | none, some n => do pure (.idx (← asNat n))
  | _, _ => throw "target dim must be {vec:j} or {idx:n}"

def parseCDim (j : Json) : R CDim :=
  match fldOpt j "ax", fldOpt j "br" with
  | some v, none => do pure (.ax (← asNat v))
  | none, some n => do pure (.br (← asNat n))
  | _, _ => throw "coordinate dim must be {ax:j} or {br:n}"

def parseCoord (j : Json) : R Coord := do
  pure { dims := ← (← arrF j "dims").mapM parseCDim, data := ← natsF j "data" }

def parseOp (j : Json) : R Op := do
  pure { axes := ← natsF j "axes", tdims := ← (← arrF j "tdims").mapM parseTDim,
         coords := ← (← arrF j "coords").mapM parseCoord, udims := ← natsF j "udims", udata := ← intsF j "udata" }

def optInts : Option (List Int) → Json
  | some l => Json.mkObj [("ok", jInts l)]
  | none => Json.mkObj [("none", Json.bool true)]

def optNat : Option Nat → Json
  | some n => jNat n
  | none => Json.null

def handle (j : Json) : R Json := do
  match ← strF j "kind" with
  | "update_denote" =>
    let op ← parseOp j
    pure (optInts (denote (← parseMode (← strF j "mode")) op (← intsF j "target")))
  | "update_lower" =>
    let op ← parseOp j
    pure (optInts (lowerCall Einx.Extracted.updateLowering (← parseMode (← strF j "mode")) op (← intsF j "target")))
  | "update_get" =>
    let op ← parseOp j
    pure (optInts (getAt op (← intsF j "target")))
  | "update_addr" =>
    let op ← parseOp j
    let σs := assignments op.axes
    pure (Json.mkObj [
      ("lowered", jArr (σs.map (fun σ => optNat (addrLowered Einx.Extracted.ravelKernel op σ)))),
      ("denoted", jArr (σs.map (fun σ => optNat ((op.contribAt σ).map (·.1)))))])
  | "np_put" =>
    pure (optInts (npPut (← intsF j "target") (← natsF j "idx") (← intsF j "vals")))
  | "np_ufunc_at" =>
    let f : Int → Int → Int ← (match ← strF j "ufunc" with
      | "add" => pure (fun o v => o + v)
      | "subtract" => pure (fun o v => o - v)
      | u => throw s!"unknown ufunc {u}")
    pure (optInts (npUfuncAt f (← intsF j "target") (← natsF j "idx_shape") (← natsF j "idx")
      (← natsF j "val_shape") (← intsF j "vals")))
  | "assignments" =>
    pure (jArr ((assignments (← natsF j "shape")).map jNats))
  | k => throw s!"unknown update kind {k}"

end Einx.Driver.Update
