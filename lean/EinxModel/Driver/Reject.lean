import EinxModel.Driver.Util
import EinxModel.Driver.Notation
import EinxModel.Driver.Elab
import EinxModel.Notation.Spec
import EinxModel.Elab.Spec
/-! Driver for the rejection theorems of C03 (Props/C03Reject.lean, Props/C03Elab.lean):
    `reject_spec` — the string-level predicates `alphabetChar` / `delimRun` / `balanced` and the parser model's outcome;
    `elab_rules`  — for a family and a description: the defect list (`Einx.Elab.defects`, the hypotheses of the rule theorems),
                    `flagsSafe`, the outcome of the `_parse_op` model in both modes and whether it is a `SemanticError` site. -/
open Lean Einx.Driver Einx.Notation Einx.Elab

namespace Einx.Driver.Reject

def errSemantic : PRes (List Expr × List Expr) → Bool
  | .ok _ => false
  | .error e => e.isSemantic

def handle (j : Json) : R Json := do
  match ← strF j "kind" with
  | "reject_spec" =>
    let text := (← strF j "text").toList
    let bad := (text.zipIdx.filter (fun p => !alphabetChar p.1)).map (·.2)
    let scan := match delimRun text [] with
      | none => Json.null
      | some st => Json.str (String.ofList st)
    pure (Json.mkObj [("bad", jNats bad), ("balanced", Json.bool (balanced text)), ("scan", scan),
      ("plus0", Json.bool (atDepth0 '+' text [])),
      ("parse", Einx.Driver.Notation.resJson (parseOp text))])
  | "elab_rules" =>
    let famS ← strF j "family"
    let fam ← match Family.ofKey famS with
      | some f => pure f
      | none => throw s!"unknown family {famS}"
    let desc := (← strF j "description").toList
    let kd ← match fldOpt j "keepdims" with
      | some v => asBool v
      | none => pure false
    let fl ← match flagsOf fam with
      | some fl => pure fl
      | none => throw s!"no flags for family {famS}"
    let (parsed, ds) := match parseOp desc with
      | .ok (.op [.args ins _ _] _ _) => (true, defects fam fl ins none)
      | .ok (.op [.args ins _ _, .args outs _ _] _ _) => (true, defects fam fl ins (some outs))
      | _ => (false, [])
    let t := parseOpModel .tree fam kd desc
    pure (Json.mkObj [("parsed", Json.bool parsed), ("defects", jStrs ds), ("flags_safe", Json.bool (flagsSafe fam fl)),
      ("tree", Einx.Driver.Elab.resJson t), ("string", Einx.Driver.Elab.resJson (parseOpModel .string fam kd desc)),
      ("semantic", Json.bool (errSemantic t))])
  | k => throw s!"unknown reject request {k}"

end Einx.Driver.Reject
