import EinxModel.Driver.Util
import EinxModel.Adapt.Model
import EinxModel.Extracted.Adapt
open Lean Einx.Driver Einx.Adapt Einx.Denote

/-! Request kinds of the adapter area (C15):
`adapt_check` (serialised real graph + expected call → ok | first failing requirement),
`split_kwargs` (signature, description axis names, call keywords → options / parameters / error),
`expr_to_axis` (marks and sizes of a flat expression → `axis` tuple, expected result shape),
`elementwise_shape` (aligned input shapes → expected result shape).
The adapter configurations are the ones extracted from /repo (`Extracted/Adapt.lean`). -/
namespace Einx.Driver.Adapt

partial def parseVal (j : Json) : R Val := do
  match ← strF j "t" with
  | "ref" => pure (.ref (← natF j "id"))
  | "int" => pure (.int (← intF j "v"))
  | "float" => pure (.float (← strF j "v"))
  | "bool" => pure (.bool (← boolF j "v"))
  | "str" => pure (.str (← strF j "v"))
  | "none" => pure .none
  | "tuple" => pure (.tuple (← (← arrF j "v").mapM parseVal))
  | "list" => pure (.list (← (← arrF j "v").mapM parseVal))
  | "dict" => pure (.dict (← (← arrF j "k").mapM parseVal) (← (← arrF j "v").mapM parseVal))
  | "obj" => pure (.obj (← natF j "idx"))
  | "slice" => pure (.other "slice")
  | "ellipsis" => pure (.other "ellipsis")
  | "graph" => pure (.other "graph")
  | t => throw s!"unknown value tag {t}"

def parseKw (j : Json) : R (String × Val) := do
  match ← asArr j with
  | [k, v] => pure (← asStr k, ← parseVal v)
  | _ => throw "keyword must be [name, value]"

def refOut (a : Json) : R Nat := do
  match ← parseVal (← fld a "out") with
  | .ref id => pure id
  | _ => throw "node output is not a single tracer"

def parseApp (a : Json) : R App := do
  match ← strF a "kind" with
  | "import" =>
    -- `from x import y` is not the module itself
    if (fldOpt a "from").getD Json.null != Json.null then pure (.other "from-import" [] (← parseVal (← fld a "out")))
    else pure (.import_ (← strF a "import") (← refOut a))
  | "builtin" => pure (.builtin (← strF a "name") (← refOut a))
  | "constant" => pure (.constant (← parseVal (← fld a "value")) (← refOut a))
  | "getattr" => pure (.getattr (← parseVal (← fld a "obj")) (← strF a "key") (← refOut a))
  | "call" =>
    pure (.call (← parseVal (← fld a "function")) (← (← arrF a "args").mapM parseVal) (← (← arrF a "kwargs").mapM parseKw)
      (← parseVal (← fld a "out")))
  | "operator" => pure (.operator (← strF a "operator") (← (← arrF a "operands").mapM parseVal) (← refOut a))
  | "assert" => pure (.assert_ (← parseVal (← fld a "xs")) (← parseVal (← fld a "condition")) (← refOut a))
  | "cast" => pure (.cast (← parseVal (← fld a "input")) (← parseVal (← fld a "out")))
  | "call_inplace" =>
    pure (.other "call_inplace" ([← parseVal (← fld a "xs"), ← parseVal (← fld a "function")] ++ (← (← arrF a "args").mapM parseVal)
      ++ (← (← arrF a "kwargs").mapM parseKw).map (·.2)) (← parseVal (← fld a "out")))
  | "getitem" => pure (.other "getitem" [← parseVal (← fld a "obj"), ← parseVal (← fld a "key")] (← parseVal (← fld a "out")))
  | "updateitem" =>
    pure (.other "updateitem" [← parseVal (← fld a "obj"), ← parseVal (← fld a "key"), ← parseVal (← fld a "value")] (← parseVal (← fld a "out")))
  | k => throw s!"unknown node kind {k}"

def parseGraph (g : Json) : R Graph := do
  let top ← fld g "top"
  if (fldOpt top "inlined").isSome then throw "graph inlined into a single function"
  let apps ← (← arrF g "apps").mapM parseApp
  let mut shapes : List (Nat × List Nat) := []
  for t in ← arrF g "tracers" do
    let ty ← fld t "type"
    if (← strF ty "ty") == "tensor" then
      shapes := shapes ++ [(← natF t "id", ← natsF ty "shape")]
  pure { apps := apps, shapes := shapes, output := ← parseVal (← fld top "output") }

def cfgOf (family : String) : R Cfg :=
  match family with
  | "reduce" => pure Einx.Extracted.Adapt.reduceCfg
  | "elementwise" => pure Einx.Extracted.Adapt.elementwiseCfg
  | f => throw s!"unknown adapter family {f}"

def parseKind (s : String) : R ParamKind :=
  match s with
  | "POSITIONAL_ONLY" => pure .posOnly
  | "POSITIONAL_OR_KEYWORD" => pure .posOrKw
  | "VAR_POSITIONAL" => pure .varPos
  | "KEYWORD_ONLY" => pure .kwOnly
  | "VAR_KEYWORD" => pure .varKw
  | k => throw s!"unknown parameter kind {k}"

def parseParam (j : Json) : R Param := do
  match ← asArr j with
  | [n, k] => pure ⟨← asStr n, ← parseKind (← asStr k)⟩
  | _ => throw "parameter must be [name, kind]"

def parseRawKw (j : Json) : R (String × Json) := do
  match ← asArr j with
  | [k, v] => pure (← asStr k, v)
  | _ => throw "keyword must be [name, value]"

def kwJson (l : List (String × Json)) : Json := jArr (l.map (fun (k, v) => jArr [Json.str k, v]))

def handle (j : Json) : R Json := do
  match ← strF j "kind" with
  | "adapt_check" =>
    let spec : Spec := {
      argShapes := ← (← arrF j "arg_shapes").mapM (fun s => do (← asArr s).mapM asNat),
      axis := ← (match fldOpt j "axis" with
        | some Json.null | none => pure none
        | some a => do pure (some (← (← asArr a).mapM asNat))),
      options := ← (← arrF j "options").mapM parseKw,
      outShape := ← natsF j "out_shape" }
    match parseGraph (← fld j "graph") with
    | .error e => pure (Json.mkObj [("ok", Json.bool false), ("bool", Json.bool false), ("reason", Json.str s!"graph decoding: {e}")])
    | .ok g =>
      let b := adaptOK g spec
      match adaptCheck g spec with
      | .ok () => pure (Json.mkObj [("ok", Json.bool true), ("bool", Json.bool b), ("nodes", jNat g.apps.length)])
      | .error e => pure (Json.mkObj [("ok", Json.bool false), ("bool", Json.bool b), ("reason", Json.str e)])
  | "split_kwargs" =>
    let cfg ← cfgOf (← strF j "family")
    let params ← (← arrF j "params").mapM parseParam
    let used ← strsF j "used"
    let kwargs ← (← arrF j "kwargs").mapM parseRawKw
    match kwargNames cfg params with
    | .error e => pure (Json.mkObj [("value_error", Json.str e)])
    | .ok names =>
      match opInner cfg (iskwarg cfg names) used kwargs with
      | .error (.semantic ns) => pure (Json.mkObj [("semantic", jStrs ns), ("names", jStrs names)])
      | .ok (opts, ps) => pure (Json.mkObj [("options", kwJson opts), ("parameters", kwJson ps), ("names", jStrs names)])
  | "expr_to_axis" =>
    let marks ← (← arrF j "marks").mapM asBool
    let sizes ← natsF j "sizes"
    if marks.length != sizes.length then throw "marks and sizes differ in length"
    let ls : List Leaf := (List.zip marks sizes).map (fun (m, s) => ⟨"", s, m⟩)
    pure (Json.mkObj [("axis", jNats (exprToAxis marks)), ("extracted", jNats (Einx.Extracted.Adapt.exprToAxis marks)),
      ("out_shape", jNats (reduceOutShape ls))])
  | "elementwise_shape" =>
    let shapes ← (← arrF j "shapes").mapM (fun s => do (← asArr s).mapM asNat)
    match elementwiseOutShape shapes with
    | some s => pure (Json.mkObj [("out_shape", jNats s)])
    | none => pure (Json.mkObj [("none", Json.bool true)])
  | k => throw s!"unknown adapt kind {k}"

end Einx.Driver.Adapt
