import EinxModel.Driver.Util
import EinxModel.Factory.Check
open Lean Einx.Driver Einx.Factory

/-! Driver for C13: kinds `factory_check` (graph JSON of `tools/lib/graphcap.py` + call description →
ok | reason, plus the trace-purity verdict) and `factory_model` (argument kinds + shapes → the node list the
model of `namedtensor_calltensorfactory` inserts). -/
namespace Einx.Driver.Factory

partial def parseV (j : Json) : R V := do
  match ← strF j "t" with
  | "ref" => pure (.ref (← natF j "id"))
  | "int" => pure (.int (← intF j "v"))
  | "str" => pure (.str (← strF j "v"))
  | "tuple" => pure (.seq "tuple" (← (← arrF j "v").mapM parseV))
  | "list" => pure (.seq "list" (← (← arrF j "v").mapM parseV))
  | "slice" => pure (.seq "slice" (← (← arrF j "v").mapM parseV))
  | "dict" => pure (.seq "dict" ((← (← arrF j "k").mapM parseV) ++ (← (← arrF j "v").mapM parseV)))
  | "none" => pure (.atom "none")
  | "bool" => pure (.atom "bool")
  | "float" => pure (.atom "float")
  | "ellipsis" => pure (.atom "ellipsis")
  | "obj" => pure (.atom ("obj:" ++ (← strF j "repr")))
  | "graph" => pure (.atom "graph")
  | t => throw s!"unknown value tag {t}"

def parseKwargs (j : Json) : R (List (String × V)) := do
  (← asArr j).mapM (fun kv => do
    match ← asArr kv with
    | [k, v] => pure (← asStr k, ← parseV v)
    | _ => throw "keyword entry is not a pair")

def vF (j : Json) (k : String) : R V := do parseV (← fld j k)
def vsF (j : Json) (k : String) : R (List V) := do (← arrF j k).mapM parseV

def parseApp (j : Json) : R GApp := do
  let out ← vF j "out"
  let node ← match ← strF j "kind" with
    | "call" => pure (GNode.call (← vF j "function") (← vsF j "args") (← parseKwargs (← fld j "kwargs")) (← vsF j "deps"))
    | "cast" => pure (GNode.cast (← vF j "input"))
    | "assert" => pure (GNode.assert (← vF j "xs") (← vF j "condition"))
    | "getattr" => pure (GNode.getattr (← vF j "obj") (← strF j "key"))
    | "operator" => pure (GNode.operator (← strF j "operator") (← vsF j "operands"))
    | "builtin" => pure (GNode.builtin (← strF j "name"))
    | "call_inplace" =>
      pure (GNode.other "call_inplace" ([← vF j "xs", ← vF j "function"] ++ (← vsF j "args") ++ (← parseKwargs (← fld j "kwargs")).map (·.2)))
    | "getitem" => pure (GNode.other "getitem" [← vF j "obj", ← vF j "key"])
    | "updateitem" => pure (GNode.other "updateitem" [← vF j "obj", ← vF j "key", ← vF j "value"])
    | "import" => pure (GNode.other "import" [])
    | "constant" => pure (GNode.other "constant" [])
    | k => throw s!"unknown application kind {k}"
  pure ⟨node, out⟩

def parseTInfo (j : Json) : R TInfo := do
  let ty ← fld j "type"
  let shape ← match fldOpt ty "shape" with
    | some (Json.arr a) => pure (some (← a.toList.mapM asNat))
    | _ => pure none
  let concrete := match fldOpt ty "concrete" with
    | some (Json.str s) => s
    | _ => ""
  let origin ← match fldOpt j "origin" with
    | some Json.null => pure none
    | some o => pure (some (← asNat o))
    | none => throw "tracer without origin field"
  pure { ty := ← strF ty "ty", shape := shape, concrete := concrete, origin := origin }

/-- `none` when InlineGraph collapsed the whole graph (`{"inlined": …}`): there is no graph to inspect. -/
def parseGraph (j : Json) : R (Option Graph) := do
  let top ← fld j "top"
  match fldOpt top "inlined" with
  | some _ => pure none
  | none =>
    let tracers ← (← arrF j "tracers").mapM parseTInfo
    -- tracer ids are their positions
    let ids ← (← arrF j "tracers").mapM (fun t => natF t "id")
    if ids != List.range ids.length then throw "tracer ids are not consecutive"
    pure (some { inputs := ← natsF top "inputs", output := ← vF top "output",
                 apps := ← (← arrF j "apps").mapM parseApp, tracers := tracers })

def parseSig (j : Json) : R Sig := do
  let ps ← (← arrF j "params").mapM (fun p => do
    match ← asArr p with
    | [n, k] =>
      match ParamKind.ofPyName? (← asStr k) with
      | some kind => pure (← asStr n, kind)
      | none => throw "unknown parameter kind"
    | _ => throw "parameter is not a [name, kind] pair")
  pure ⟨ps⟩

def optSig (j : Json) : R (Option Sig) := do
  match fldOpt j "factory" with
  | some Json.null => pure none
  | some s => pure (some (← parseSig s))
  | none => throw "missing field factory"

def optStr (j : Json) (k : String) : R (Option String) := do
  match fldOpt j k with
  | some Json.null => pure none
  | some s => pure (some (← asStr s))
  | none => throw s!"missing field {k}"

def parseArgD (j : Json) : R ArgD := do
  pure { factory := ← optSig j, solved := ← natsF j "solved", argIndex := ← natF j "arg_index" }

def refJson : Ref → Json
  | .ext id => Json.mkObj [("ext", jNat id)]
  | .node k => Json.mkObj [("node", jNat k)]

def kwValJson : KwVal → Json
  | .signature => Json.str "signature"
  | .argIndex i => Json.mkObj [("int", jNat i)]
  | .opName s => Json.mkObj [("str", Json.str s)]
  | .unknown k => Json.mkObj [("unknown", Json.str k)]

def argValJson : ArgVal → Json
  | .shape s => Json.mkObj [("shape", jNats s)]
  | .unknown w => Json.mkObj [("unknown", Json.str w)]

def nodeJson : Node → Json
  | .call fn args kwargs deps => Json.mkObj [("n", "call"), ("fn", refJson fn), ("args", jArr (args.map argValJson)),
      ("kwargs", jArr (kwargs.map (fun kv => jArr [Json.str kv.1, kwValJson kv.2]))), ("deps", jArr (deps.map refJson))]
  | .isinstance x deps => Json.mkObj [("n", "isinstance"), ("x", refJson x), ("deps", jArr (deps.map refJson))]
  | .assert x c => Json.mkObj [("n", "assert"), ("x", refJson x), ("cond", refJson c)]
  | .getShape x => Json.mkObj [("n", "getshape"), ("x", refJson x)]
  | .tupleOf x deps => Json.mkObj [("n", "tuple"), ("x", refJson x), ("deps", jArr (deps.map refJson))]
  | .eqShape x s => Json.mkObj [("n", "eqshape"), ("x", refJson x), ("shape", jNats s)]
  | .castTensor x s => Json.mkObj [("n", "cast"), ("x", refJson x), ("shape", jNats s)]

def parseModelArg (j : Json) : R Arg := do
  let api ← match ← optSig j with
    | some sig => pure (ApiArg.factory sig)
    | none => pure (ApiArg.tensor (← natsF j "api_shape"))
  pure (Arg.ofApi (.ext (← natF j "value")) api (← natsF j "solved"))

def handle (j : Json) : R Json := do
  match ← strF j "kind" with
  | "factory_check" =>
    let d : Descr := { opName := ← optStr j "op_name", args := ← (← arrF j "args").mapM parseArgD }
    match ← parseGraph (← fld j "graph") with
    | none => pure (Json.mkObj [("ok", Json.bool false), ("reason", "inlined")])
    | some g =>
      let ok := factoryOK g d
      let calls := (List.range g.inputs.length).map (fun p =>
        match g.inputs[p]? with
        | some t => jNats ((List.range g.apps.length).filter (callsInput g t))
        | none => jNats [])
      pure (Json.mkObj [("ok", Json.bool ok), ("reason", Json.str (if ok then "ok" else explain g d)),
                        ("trace_pure", Json.bool (tracePure g)), ("calls", jArr calls),
                        ("reachable", jNat (reachable g).length), ("apps", jNat g.apps.length)])
  | "factory_model" =>
    let deps ← natsF j "deps"
    let c : Ctx := { opName := ← optStr j "op_name", deps := deps.map Ref.ext }
    let args ← (← arrF j "args").mapM parseModelArg
    let r := inner c args
    pure (Json.mkObj [("nodes", jArr (r.1.map nodeJson)), ("outs", jArr (r.2.map refJson)),
                      ("tracer_shapes", jArr (args.map (fun a => match a.tshape with | some s => jNats s | none => Json.null)))])
  | k => throw s!"unknown factory kind {k}"

end Einx.Driver.Factory
