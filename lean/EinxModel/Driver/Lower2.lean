import EinxModel.Driver.Lower
import EinxModel.Generic.LowerSim
/-!
Driver for the continuation of the lowering models (work package lower2; C01 / C17).

kind `lower_generic`: family (`elementwise` | `reduce`), operation name and einx's solved stage-3 expressions of one
description under TWO length assignments → whether the pair satisfies the hypotheses of
`lower_elementwise_size_generic` / `lower_reduce_size_generic` (Props/C17LowerOps.lean: both in `ewDomain` / `redDomain`,
related by `gsimLL` / `gsimL`) and the recomputed instance of the theorem's conclusion (both lowered ⇒ equal skeletons
and equal result registers).
-/
open Lean Einx.Driver Einx.Generic

namespace Einx.Driver.Lower2
open Einx.Driver.Generic (GErr)
open Einx.Driver.Lower (toGM)

def conv (j : Json) : R (Option (List G × List String)) :=
  match toGM false j with
  | .ok x => pure (some x)
  | .error (.bad e) => throw s!"lower_generic: {e}"
  | .error (.unsupported _) => pure none

def skelJson (p : List Einx.IR.InstrX) : String := (Einx.Driver.Lower.progXJson (progSkeletonX p)).compress

def handleGeneric (j : Json) : R Json := do
  let family ← strF j "family"
  let op ← strF j "op"
  let ins1 ← (← arrF j "exprs_in").mapM conv
  let ins2 ← (← arrF j "exprs_in2").mapM conv
  let out1 ← match ← arrF j "exprs_out" with
    | [eo] => conv eo
    | _ => throw "lower_generic: exactly one output expression expected"
  let out2 ← match ← arrF j "exprs_out2" with
    | [eo] => conv eo
    | _ => throw "lower_generic: exactly one output expression expected"
  let unsupported := Json.mkObj [("unsupported", Json.bool true)]
  match out1, out2, ins1.all (·.isSome), ins2.all (·.isSome) with
  | some (go, mo), some (go', mo'), true, true =>
    let gis := ins1.filterMap id
    let gis' := ins2.filterMap id
    if !mo.isEmpty || !mo'.isEmpty then pure unsupported
    else
    match family with
    | "elementwise" =>
      if gis.any (fun x => !x.2.isEmpty) || gis'.any (fun x => !x.2.isEmpty) then pure unsupported
      else
        let a := gis.map (·.1)
        let b := gis'.map (·.1)
        let related := gsimLL a b && gsimL go go'
        let dom := Einx.Lower.ewDomain a go && Einx.Lower.ewDomain b go'
        let inst := match lowerElementwise op a go, lowerElementwise op b go' with
          | .ok s, .ok s' => skelJson (s.prog.map .base) == skelJson (s'.prog.map .base) && s.reg == s'.reg
          | _, _ => true
        let bothOk := match lowerElementwise op a go, lowerElementwise op b go' with
          | .ok _, .ok _ => true
          | _, _ => false
        pure (Json.mkObj [("related", Json.bool related), ("domain", Json.bool dom), ("instance", Json.bool inst),
          ("both_lowered", Json.bool bothOk), ("positive", Json.bool ((a.all posLens) && (b.all posLens)))])
    | "reduce" =>
      match gis, gis' with
      | [(gi, m)], [(gi', m')] =>
        let related := gsimL gi gi' && gsimL go go' && m == m'
        let dom := Einx.Lower.redDomain m gi go && Einx.Lower.redDomain m gi' go'
        let inst := match lowerReduce op m gi go, lowerReduce op m gi' go' with
          | .ok l, .ok l' => skelJson l.prog == skelJson l'.prog && l.reg == l'.reg
          | _, _ => true
        let bothOk := match lowerReduce op m gi go, lowerReduce op m gi' go' with
          | .ok _, .ok _ => true
          | _, _ => false
        pure (Json.mkObj [("related", Json.bool related), ("domain", Json.bool dom), ("instance", Json.bool inst),
          ("both_lowered", Json.bool bothOk), ("positive", Json.bool (posLens gi && posLens gi'))])
      | _, _ => pure unsupported
    | f => throw s!"lower_generic: unknown family {f}"
  | _, _, _, _ => pure unsupported

def handle (j : Json) : R Json := do
  match ← strF j "kind" with
  | "lower_generic" => handleGeneric j
  | k => throw s!"unknown kind {k}"

end Einx.Driver.Lower2
