import EinxModel.Driver.Util
import EinxModel.Driver.IR
import EinxModel.Driver.Lower
import EinxModel.Update.LowerProg
import EinxModel.Update.Desc
import EinxModel.Extracted.Update
/-!
Driver for the lowering models of `Update/LowerProg.lean` (work package "join": C14, C01, C16).

kind `lower_at`: family (`get_at` | `update`), operation name and einx's solved stage-3 expressions of one call → the
model's complete program (`lowerGetAt` / `lowerUpdate`, the latter with `_join_exprs` = `Order.Join.joinExprs`); when
the serialised traced graph is supplied (for an update: the part before the in-place primitive with the three
operands of the primitive as outputs, the name of the primitive, and the part after it with the result of the
primitive as the only input) it is translated by `Driver/IR.lean` and compared instruction by instruction.

Per call the proved validator (`validate_sound_extended`) is run on the **model's** program:
  * get_at: program = `Denote.denoteGetAt` (syntactically, no arithmetic normalisation);
  * update: the index operand of the primitive, broadcast to the shape of `expr_intermediate` and used by `np.take` on
    the flat target, = `denoteGetAt (target, coordinates → expr_intermediate)` (so by `get_at_index_meaning` the index
    tensor holds the row-major address of the coordinates for all contents), and the update operand broadcast to that
    shape = `Denote.denoteId (updates → expr_intermediate)`.
These are recomputed instances (tests of the model's program per traced call), not universal theorems.
-/
open Lean Einx.Driver Einx.Generic Einx.AtLower

namespace Einx.Driver.AtLower
open Einx.Driver.Generic (GErr)
open Einx.Driver.Lower (toGM progXJson progXEq)

def primName : Einx.Update.Prim → String
  | .put => "numpy.put"
  | .addAt => "numpy.add.at"
  | .subAt => "numpy.subtract.at"
  | .unknown => "unknown"

def modeOf (op : String) : R Einx.Update.Mode :=
  match op with
  | "set_at" => pure .set
  | "add_at" => pure .add
  | "subtract_at" => pure .sub
  | o => throw s!"lower_at: unknown update operation {o}"

def axJson (a : Ax) : Json := Json.mkObj [("name", Json.str a.name), ("len", jNat a.len)]

def interExpr (inter : List Ax) : Einx.Denote.Expr := .list (inter.map (fun a => .axis a.name a.len))

mutual
def mapSrc (f : Nat → Nat) : Einx.IR.Cell → Einx.IR.Cell
  | .src r k => .src (f r) k
  | .lit i => .lit i
  | .app g as => .app g (mapSrcL f as)
  | .bad => .bad
def mapSrcL (f : Nat → Nat) : List Einx.IR.Cell → List Einx.IR.Cell
  | [] => []
  | c :: cs => mapSrc f c :: mapSrcL f cs
end

def conv (j : Json) : R (Option (List G × List String) × String) :=
  match toGM false j with
  | .ok x => pure (some x, "")
  | .error (.bad e) => throw s!"lower_at: {e}"
  | .error (.unsupported w) => pure (none, w)

def handleGet (j : Json) (eis : List Json) (eo : Json) : R Json := do
  let ins ← eis.mapM conv
  let (out, ow) ← conv eo
  let realIn ← eis.mapM Einx.Driver.IR.parseExpr
  let realOut ← Einx.Driver.IR.parseExpr eo
  match out, ins.all (·.1.isSome), ins.filterMap (·.1) with
  | some (go, mo), true, (gt, mt) :: cs =>
    let tgt : In := ⟨0, gt, mt⟩
    let coords : List In := cs.zipIdx.map (fun ((g, m), i) => ⟨i + 1, g, m⟩)
    let inShapes := realIn.map Einx.Denote.shapeOf
    match lowerGetAt tgt coords go mo with
    | .error e => pure (Json.mkObj [("model", Json.mkObj [("err", Json.str e)])])
    | .ok (p, r) =>
      let inst := match Einx.Denote.denoteGetAt realIn realOut with
        | .ok t => Einx.IR.validateG Einx.IR.planInstrX p inShapes [r] [t]
        | .error _ => false
      let mj := [("model", Json.mkObj [("ok", progXJson p), ("out", jNat r)]), ("instance", Json.bool inst),
                 ("desc_domain", Json.bool (Einx.AtDesc.getDomain tgt coords go))]
      match fldOpt j "graph" with
      | none => pure (Json.mkObj mj)
      | some g =>
        match Einx.Driver.IR.runTranslate g with
        | .unsupported why => pure (Json.mkObj (mj ++ [("real", Json.mkObj [("unsupported", Json.str why)])]))
        | .rejected why => pure (Json.mkObj (mj ++ [("real", Json.mkObj [("rejected", Json.str why)])]))
        | .ok prog _ outs =>
          pure (Json.mkObj (mj ++ [("real", Json.mkObj [("ok", progXJson prog), ("outs", jNats outs)]),
            ("equal", Json.bool (progXEq p prog && outs == [r]))]))
  | _, _, _ =>
    let w := (ins.map (·.2) ++ [ow]).foldl (fun acc x => if acc.isEmpty then x else acc) ""
    pure (Json.mkObj [("model", Json.mkObj [("err", Json.str s!"unsupported: {w}")])])

def splitLast {α : Type} (l : List α) : Option (List α × α) :=
  match l.reverse with
  | [] => none
  | x :: r => some (r.reverse, x)

def handleUpdate (j : Json) (op : String) (eis : List Json) (eo : Json) : R Json := do
  let mode ← modeOf op
  let ins ← eis.mapM conv
  let (out, ow) ← conv eo
  let realIn ← eis.mapM Einx.Driver.IR.parseExpr
  match out, ins.all (·.1.isSome), ins.filterMap (·.1) with
  | some (go, _), true, (gt, mt) :: rest =>
    match splitLast rest with
    | none => throw "lower_at: an update needs a target, coordinates and updates"
    | some (cs, (gu, mu)) =>
    let n := cs.length
    let tgt : In := ⟨0, gt, mt⟩
    let coords : List In := cs.zipIdx.map (fun ((g, m), i) => ⟨i + 1, g, m⟩)
    let upd : In := ⟨n + 1, gu, mu⟩
    let inShapes := realIn.map Einx.Denote.shapeOf
    let L := Einx.Extracted.updateLowering
    match lowerUpdate (L.prim mode) (L.broadcasts mode) tgt coords upd go with
    | .error e => pure (Json.mkObj [("model", Json.mkObj [("err", Json.str e)])])
    | .ok P =>
      let full := lens P.inter
      let k := inShapes.length + P.head.length
      -- the index operand, used by `np.take` on the flat target, is the get_at denotation over `expr_intermediate`
      let idxInst := match Einx.Denote.denoteGetAt (realIn.take (n + 1)) (interExpr P.inter) with
        | .ok t => Einx.IR.validateG Einx.IR.planInstrX
            (P.head ++ [.base (.broadcastTo P.idx full), .take P.tgt k]) inShapes [k + 1] [t]
        | .error _ => false
      -- the update operand is the update tensor re-arranged to `expr_intermediate`
      let updInst := match realIn[n + 1]? with
        | some eu =>
          (match Einx.Denote.denoteId [eu] [interExpr P.inter] with
          | .ok [t] => Einx.IR.validateG Einx.IR.planInstrX (P.head ++ [.base (.broadcastTo P.upd full)]) inShapes [k]
              [⟨t.shape, mapSrcL (fun _ => n + 1) t.data⟩]
          | _ => false)
        | none => false
      let mj := [("model", Json.mkObj [("head", progXJson P.head), ("args", jNats [P.tgt, P.idx, P.upd]),
                    ("prim", Json.str (primName P.prim)), ("tail", progXJson (P.tail.map .base)), ("out", jNat P.out),
                    ("inter", jArr (P.inter.map axJson))]),
                 ("idx_instance", Json.bool idxInst), ("upd_instance", Json.bool updInst),
                 ("desc_domain", Json.bool (Einx.AtDesc.updDomain tgt coords upd)),
                 ("desc_covered", Json.bool (Einx.AtDesc.descCovered tgt coords upd))]
      match fldOpt j "graph", fldOpt j "tail", fldOpt j "prim" with
      | some g, some tl, some pn =>
        match Einx.Driver.IR.runTranslate g, Einx.Driver.IR.runTranslate tl with
        | .ok prog _ outs, .ok tprog _ touts =>
          let eq := progXEq P.head prog && outs == [P.tgt, P.idx, P.upd] && pn == Json.str (primName P.prim)
            && progXEq (P.tail.map .base) tprog && touts == [P.out]
          pure (Json.mkObj (mj ++ [("real", Json.mkObj [("head", progXJson prog), ("args", jNats outs), ("prim", pn),
            ("tail", progXJson tprog), ("out", jNats touts)]), ("equal", Json.bool eq)]))
        | .unsupported why, _ | _, .unsupported why => pure (Json.mkObj (mj ++ [("real", Json.mkObj [("unsupported", Json.str why)])]))
        | .rejected why, _ | _, .rejected why => pure (Json.mkObj (mj ++ [("real", Json.mkObj [("rejected", Json.str why)])]))
      | _, _, _ => pure (Json.mkObj mj)
  | _, _, _ =>
    let w := (ins.map (·.2) ++ [ow]).foldl (fun acc x => if acc.isEmpty then x else acc) ""
    pure (Json.mkObj [("model", Json.mkObj [("err", Json.str s!"unsupported: {w}")])])

def handle (j : Json) : R Json := do
  match ← strF j "kind" with
  | "lower_at" =>
    let family ← strF j "family"
    let op ← strF j "op"
    let eis ← arrF j "exprs_in"
    let eo ← match ← arrF j "exprs_out" with
      | [eo] => pure eo
      | _ => throw "lower_at: exactly one output expression expected"
    match family with
    | "get_at" => handleGet j eis eo
    | "update" => handleUpdate j op eis eo
    | f => throw s!"lower_at: unknown family {f}"
  | k => throw s!"unknown kind {k}"

end Einx.Driver.AtLower
