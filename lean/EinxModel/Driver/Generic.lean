import EinxModel.Driver.Util
import EinxModel.Driver.IR
import EinxModel.Generic.Grammar
import EinxModel.Generic.Stb
import EinxModel.Generic.StbDenote
/-!
Driver for C17.

kind `py_grammar`: a JSON rendering of Python's `ast` of an emitted text is decoded into the restricted
statement grammar of `Generic/Grammar.lean`.  The decoder has no case for any other node kind: a `For`,
`While`, `If`, `IfExp`, comprehension, `Lambda`, `Try`, `With`, `BoolOp`, chained comparison, starred
argument, decorator, default value … makes it answer `{"ok": false, "offending": <kind>}`.

kind `stb_model`: solved expressions of an `einx.id` call → the model's `Instr` program (`lowerId`); when
the serialised traced graph is supplied, it is translated with the machinery of `Driver/IR.lean` and
compared with the model's program.
-/
open Lean Einx.Driver Einx.Generic

namespace Einx.Driver.Generic

/-- Decoding outcome: a malformed document is a harness bug (`bad`), a node outside the grammar is the
verdict the tie is about (`offending`). -/
inductive DErr where
  | bad (msg : String)
  | offending (kind : String)

abbrev D := Except DErr

def liftR {α} (r : R α) : D α :=
  match r with
  | .ok a => pure a
  | .error e => throw (.bad e)

def kindOf (j : Json) : D String := liftR (strF j "_")

def isNull (j : Json) (k : String) : D Bool := do
  pure ((← liftR (fld j k)) == Json.null)

def opName (j : Json) (k : String) : D String := do kindOf (← liftR (fld j k))

partial def decodeExpr (j : Json) : D PyExpr := do
  match ← kindOf j with
  | "Name" => pure (.name (← liftR (strF j "id")))
  | "Attribute" => pure (.attr (← decodeExpr (← liftR (fld j "value"))) (← liftR (strF j "attr")))
  | "Call" =>
    let f ← decodeExpr (← liftR (fld j "func"))
    let args ← (← liftR (arrF j "args")).mapM decodeExpr
    let kws ← liftR (arrF j "keywords")
    let kn ← kws.mapM (fun k => do
      if ← isNull k "arg" then throw (.offending "keyword(**)")
      liftR (strF k "arg"))
    let kv ← kws.mapM (fun k => do decodeExpr (← liftR (fld k "value")))
    pure (.call f args kn kv)
  | "Subscript" => pure (.subscript (← decodeExpr (← liftR (fld j "value"))) (← decodeExpr (← liftR (fld j "slice"))))
  | "Slice" =>
    let part (k : String) : D PyExpr := do
      if ← isNull j k then pure .absent else decodeExpr (← liftR (fld j k))
    pure (.slice (← part "lower") (← part "upper") (← part "step"))
  | "Tuple" => pure (.tuple (← (← liftR (arrF j "elts")).mapM decodeExpr))
  | "List" => pure (.list (← (← liftR (arrF j "elts")).mapM decodeExpr))
  | "Dict" =>
    let ks ← liftR (arrF j "keys")
    if ks.any (· == Json.null) then throw (.offending "Dict(**)")
    pure (.dict (← ks.mapM decodeExpr) (← (← liftR (arrF j "values")).mapM decodeExpr))
  | "Constant" =>
    match ← liftR (strF j "t") with
    | "int" => pure (.const (.int (← liftR (intF j "v"))))
    | "str" => pure (.const (.str (← liftR (strF j "v"))))
    | "float" => pure (.const (.float (← liftR (strF j "v"))))
    | "bool" => pure (.const (.bool (← liftR (boolF j "v"))))
    | "none" => pure (.const .none)
    | "ellipsis" => pure (.const .ellipsis)
    | t => throw (.offending s!"Constant({t})")
  | "UnaryOp" => pure (.unary (← opName j "op") (← decodeExpr (← liftR (fld j "operand"))))
  | "BinOp" => pure (.binop (← opName j "op") (← decodeExpr (← liftR (fld j "left"))) (← decodeExpr (← liftR (fld j "right"))))
  | "Compare" =>
    let ops ← liftR (arrF j "ops")
    let cs ← liftR (arrF j "comparators")
    match ops, cs with
    | [o], [c] => pure (.compare (← kindOf o) (← decodeExpr (← liftR (fld j "left"))) (← decodeExpr c))
    | _, _ => throw (.offending "Compare(chained)")
  | k => throw (.offending k)

def decodeAliases (j : Json) : D (List (String × Option String)) := do
  (← liftR (arrF j "names")).mapM (fun a => do
    let n ← liftR (strF a "name")
    if ← isNull a "asname" then pure (n, none) else pure (n, some (← liftR (strF a "asname"))))

partial def decodeStmt (j : Json) : D Stmt := do
  match ← kindOf j with
  | "Import" => pure (.import_ (← decodeAliases j))
  | "ImportFrom" =>
    if (← liftR (natF j "level")) != 0 then throw (.offending "ImportFrom(relative)")
    pure (.importFrom (← liftR (strF j "module")) (← decodeAliases j))
  | "FunctionDef" =>
    let a ← liftR (fld j "args")
    for k in ["posonlyargs", "kwonlyargs", "defaults", "kw_defaults"] do
      if !(← liftR (arrF a k)).isEmpty then throw (.offending s!"FunctionDef({k})")
    for k in ["vararg", "kwarg"] do
      if !(← isNull a k) then throw (.offending s!"FunctionDef({k})")
    if !(← liftR (arrF j "decorator_list")).isEmpty then throw (.offending "FunctionDef(decorator)")
    let ps ← (← liftR (arrF a "args")).mapM (fun p => liftR (strF p "arg"))
    pure (.funcDef (← liftR (strF j "name")) ps (← (← liftR (arrF j "body")).mapM decodeStmt))
  | "Assign" =>
    pure (.assign (← (← liftR (arrF j "targets")).mapM decodeExpr) (← decodeExpr (← liftR (fld j "value"))))
  | "AugAssign" =>
    pure (.augAssign (← decodeExpr (← liftR (fld j "target"))) (← opName j "op") (← decodeExpr (← liftR (fld j "value"))))
  | "Expr" =>
    match ← decodeExpr (← liftR (fld j "value")) with
    | .call f as kn kv => pure (.exprCall f as kn kv)
    | _ => throw (.offending "Expr(non-call)")
  | "Assert" =>
    let t ← decodeExpr (← liftR (fld j "test"))
    if ← isNull j "msg" then pure (.assert_ t none)
    else
      match ← decodeExpr (← liftR (fld j "msg")) with
      | .const (.str m) => pure (.assert_ t (some m))
      | _ => throw (.offending "Assert(non-constant message)")
  | "Return" =>
    if ← isNull j "value" then pure (.return_ .absent) else pure (.return_ (← decodeExpr (← liftR (fld j "value"))))
  | k => throw (.offending k)

def decodeModule (j : Json) : D (List Stmt) := do
  if (← kindOf j) != "Module" then throw (.bad "expected a Module")
  (← liftR (arrF j "body")).mapM decodeStmt

/-! ### canonical rendering (for the digest) -/

def sepBy (xs : List String) : String := ",".intercalate xs

partial def renderConst : Const → String
  | .int i => s!"i{i}"
  | .str s => "s" ++ s.quote
  | .float r => s!"f{r}"
  | .bool b => s!"b{b}"
  | .none => "None"
  | .ellipsis => "..."
  | .hole => "□"

partial def renderE : PyExpr → String
  | .name n => n
  | .attr e a => s!"{renderE e}.{a}"
  | .call f as kn kv => s!"{renderE f}({sepBy (as.map renderE)};{sepBy ((List.zip kn kv).map (fun (k, v) => k ++ "=" ++ renderE v))})"
  | .subscript e i => s!"{renderE e}[{renderE i}]"
  | .slice a b c => s!"{renderE a}:{renderE b}:{renderE c}"
  | .absent => "_"
  | .tuple es => s!"T({sepBy (es.map renderE)})"
  | .list es => s!"L({sepBy (es.map renderE)})"
  | .dict ks vs => s!"D({sepBy (ks.map renderE)};{sepBy (vs.map renderE)})"
  | .const c => renderConst c
  | .unary o e => s!"{o}({renderE e})"
  | .binop o l r => s!"{o}({renderE l},{renderE r})"
  | .compare o l r => s!"{o}({renderE l},{renderE r})"

def renderAliases (ns : List (String × Option String)) : String :=
  sepBy (ns.map (fun (n, a) => n ++ "/" ++ a.getD "-"))

partial def renderS : Stmt → String
  | .import_ ns => s!"import {renderAliases ns}"
  | .importFrom m ns => s!"from {m} import {renderAliases ns}"
  | .funcDef n ps body => s!"def {n}({sepBy ps})\{{";".intercalate (body.map renderS)}}"
  | .assign ts v => s!"{sepBy (ts.map renderE)}={renderE v}"
  | .augAssign t o v => s!"{renderE t} {o}= {renderE v}"
  | .exprCall f as kn kv => renderE (.call f as kn kv)
  | .assert_ t m => s!"assert {renderE t},{(m.map String.quote).getD "-"}"
  | .return_ v => s!"return {renderE v}"

def renderBlock (b : List Stmt) : String := "\n".intercalate (b.map renderS)

/-- kind `py_grammar`. -/
def handleGrammar (j : Json) : R Json := do
  let m ← fld j "ast"
  match decodeModule m with
  | .error (.bad e) => throw s!"py_grammar: {e}"
  | .error (.offending k) => pure (Json.mkObj [("ok", Json.bool false), ("offending", Json.str k)])
  | .ok prog =>
    let sk := skeleton prog
    let text := renderBlock sk
    let base := [("ok", Json.bool true), ("skeleton", Json.str (toString (hash text))),
      ("calls", jNat (callCount prog)), ("cost", jNat (cost prog)), ("flat_calls", jNat (flatCalls prog)),
      ("statements", jNat prog.length)]
    let extra := match fldOpt j "render" with
      | some (Json.bool true) => [("rendered", Json.str text)]
      | _ => []
    pure (Json.mkObj (base ++ extra))

/-! ### `stb_model` -/

inductive GErr where
  | unsupported (why : String)
  | bad (why : String)

partial def toG (j : Json) : Except GErr (List G) := do
  let r {α} (x : R α) : Except GErr α := match x with
    | .ok a => pure a
    | .error e => throw (.bad e)
  match ← r (strF j "k") with
  | "axis" => pure [.ax ⟨← r (strF j "name"), ← r (natF j "value")⟩]
  | "list" => do
    let cs ← (← r (arrF j "c")).mapM toG
    pure cs.flatten
  | "flat" => do pure [.grp (← toG (← r (fld j "c")))]
  | "concat" => throw (.unsupported "concatenation")
  | "br" => throw (.unsupported "brackets")
  | k => throw (.bad s!"unknown expr kind {k}")

def progJson (p : List Einx.IR.Instr) : Json := jArr (p.map Einx.Driver.IR.instrJsonB)

/-- The translated real program, if it only uses the base instruction set. -/
def baseOnly : List Einx.IR.InstrX → Option (List Einx.IR.Instr)
  | [] => some []
  | .base i :: rest => (baseOnly rest).map (i :: ·)
  | _ :: _ => none

/-- Structural equality of instruction lists through their canonical JSON. -/
def progEq (a b : List Einx.IR.Instr) : Bool := (progJson a).compress == (progJson b).compress

def handleStb (j : Json) : R Json := do
  let eis ← arrF j "exprs_in"
  let eos ← arrF j "exprs_out"
  -- besides the program: whether the pair satisfies the hypotheses of `lower_id_correct` (Props/C01Lower.lean)
  -- and the computed instance of its conclusion (the validator accepts the program against `denoteId`)
  let (model, thm) : Except String (List Einx.IR.Instr × Nat) × Option (Bool × Bool) ← (do
    match eis, eos with
    | [ei], [eo] =>
      match toG ei, toG eo with
      | .error (.bad e), _ | _, .error (.bad e) => throw s!"stb_model: {e}"
      | .error (.unsupported w), _ | _, .error (.unsupported w) => pure (.error s!"unsupported: {w}", none)
      | .ok gi, .ok go =>
        match lowerId gi go with
        | .ok s =>
          -- the instance of `lower_id_correct` is a symbolic run over every element: computed unless the request opts out
          -- (size variants of a description whose base assignment has already been checked)
          let want := match fldOpt j "instance" with
            | some (Json.bool false) => false
            | _ => true
          pure (.ok (s.prog, s.reg), some (Einx.Lower.inTheoremDomain gi go, if want then Einx.Lower.theoremInstance gi go else true))
        | .error e => pure (.error e, none)
    | _, _ => pure ((.error "unsupported: more than one input or output" : Except String (List Einx.IR.Instr × Nat)), none))
  let tj := match thm with
    | some (d, i) => [("theorem_domain", Json.bool d), ("theorem_instance", Json.bool i)]
    | none => []
  let mj := (match model with
    | .ok (p, r) => [("model", Json.mkObj [("ok", progJson p), ("out", jNat r), ("skeleton", progJson (progSkeleton p))])]
    | .error e => [("model", Json.mkObj [("err", Json.str e)])]) ++ tj
  match fldOpt j "graph" with
  | none => pure (Json.mkObj mj)
  | some g =>
    match Einx.Driver.IR.runTranslate g with
    | .unsupported why => pure (Json.mkObj (mj ++ [("real", Json.mkObj [("unsupported", Json.str why)])]))
    | .rejected why => pure (Json.mkObj (mj ++ [("real", Json.mkObj [("rejected", Json.str why)])]))
    | .ok progX _ outs =>
      match baseOnly progX with
      | none => pure (Json.mkObj (mj ++ [("real", Json.mkObj [("unsupported", Json.str "extended instruction")])]))
      | some prog =>
      let rj := [("real", Json.mkObj [("ok", progJson prog), ("outs", jNats outs), ("skeleton", progJson (progSkeleton prog))])]
      let cmp := match model with
        | .ok (p, r) => [("equal", Json.bool (progEq p prog && outs == [r])),
                         ("skeleton_equal", Json.bool (progEq (progSkeleton p) (progSkeleton prog)))]
        | .error _ => []
      pure (Json.mkObj (mj ++ rj ++ cmp))

def handle (j : Json) : R Json := do
  match ← strF j "kind" with
  | "py_grammar" => handleGrammar j
  | "stb_model" => handleStb j
  | k => throw s!"unknown kind {k}"

end Einx.Driver.Generic
