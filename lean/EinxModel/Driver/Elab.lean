import EinxModel.Driver.Util
import EinxModel.Driver.Notation
import EinxModel.Elab.ParseOp
/-! Driver for M2a: `parse_op_model` (family + description [+ keepdims] → `(exprs_in, exprs_out)` stage-1 trees or the
    error kind), in both modes of building the elementary signature (`string` = what the code does, `tree` = what the
    theorems of Props/C07 are about). -/
open Lean Einx.Driver Einx.Notation Einx.Elab

namespace Einx.Driver.Elab

def pintStr : PInt → String
  | .noFlags => "noFlags" | .assertRoot => "assertRoot" | .assertConcatBrackets => "assertConcatBrackets"
  | .assertElArrow => "assertElArrow" | .assertBracketNum => "assertBracketNum" | .assertElCount => "assertElCount"
  | .assertOneOutput => "assertOneOutput" | .indexError => "indexError" | .invalidImplicit => "invalidImplicit"

def errJson : PErr → Json
  | .syntax e => Json.mkObj [("error", "syntax"), ("parse", Einx.Driver.Notation.resJson (.error e))]
  | .concatNotAllowed => Json.mkObj [("error", "concatNotAllowed")]
  | .concatBrackets => Json.mkObj [("error", "concatBrackets")]
  | .noArrow => Json.mkObj [("error", "noArrow")]
  | .inputCount a b => Json.mkObj [("error", "inputCount"), ("expected", jNat a), ("found", jNat b)]
  | .outputCount a b => Json.mkObj [("error", "outputCount"), ("expected", jNat a), ("found", jNat b)]
  | .noUniqueParent => Json.mkObj [("error", "noUniqueParent")]
  | .notOneBracket => Json.mkObj [("error", "notOneBracket")]
  | .bracketsNotAllowed i o => Json.mkObj [("error", "bracketsNotAllowed"), ("i", jNat i), ("output", Json.bool o)]
  | .bracketsRequired i o => Json.mkObj [("error", "bracketsRequired"), ("i", jNat i), ("output", Json.bool o)]
  | .markDuplicate ns => Json.mkObj [("error", "markDuplicate"), ("names", jArr (ns.map Einx.Driver.Notation.jStr))]
  | .outputDuplicate => Json.mkObj [("error", "outputDuplicate")]
  | .bracketDuplicate => Json.mkObj [("error", "bracketDuplicate")]
  | .elReparse e => Json.mkObj [("error", "elReparse"), ("parse", Einx.Driver.Notation.resJson (.error e))]
  | .internal k => Json.mkObj [("error", "internal"), ("kind", pintStr k)]

def resJson : PRes (List Expr × List Expr) → Json
  | .ok (ins, outs) =>
    Json.mkObj [("ok", Json.mkObj [("ins", jArr (ins.map Einx.Driver.Notation.exprJson)), ("outs", jArr (outs.map Einx.Driver.Notation.exprJson)),
      ("ins_str", jArr (ins.map (fun x => Einx.Driver.Notation.jStr x.print))), ("outs_str", jArr (outs.map (fun x => Einx.Driver.Notation.jStr x.print)))])]
  | .error e => errJson e

def handle (j : Json) : R Json := do
  match ← strF j "kind" with
  | "parse_op_model" =>
    let famS ← strF j "family"
    let fam ← match Family.ofKey famS with
      | some f => pure f
      | none => throw s!"unknown family {famS}"
    let desc := (← strF j "description").toList
    let kd ← match fldOpt j "keepdims" with
      | some v => asBool v
      | none => pure false
    pure (Json.mkObj [("string", resJson (parseOpModel .string fam kd desc)), ("tree", resJson (parseOpModel .tree fam kd desc))])
  | k => throw s!"unknown elab request {k}"

end Einx.Driver.Elab
