import EinxModel.Driver.Util
import EinxModel.Order.Join
import EinxModel.Order.Cse
import EinxModel.Order.Implicit
open Lean Einx.Driver

/-! Driver kinds of C16: `join_exprs` (model of `_join_exprs` with the observed set enumerations), `cse_replace` (model of
the substitution phase of `cse()` for the observed candidate list), `implicit_output`. -/
namespace Einx.Driver.Order
open Einx.Order

def optNatJ (j : Json) : R (Option Nat) := if j.isNull then pure none else (do pure (some (← asNat j)))
def jOptNat : Option Nat → Json | some n => jNat n | none => Json.null

/-- The enumeration oracle given by a table "list of first names ↦ observed order"; anything not in the table is
enumerated in first-occurrence order (and reported as missing by `joinTrace`). -/
def enumTable (tbl : List (List String × List String)) (l : List String) : List String :=
  match tbl.lookup l with
  | some prio => Join.enumBy prio l
  | none => Join.enumFirst l

/-- The lists of first names the loop of `joinLoop` presents to the oracle, step by step. -/
def joinTrace (enum : List String → List String) : Nat → List (List String) → List (List String)
  | 0, _ => []
  | fuel + 1, axes =>
    if axes.any (fun l => !l.isEmpty) then
      match Join.takeOne enum axes with
      | some n => Join.firsts axes :: joinTrace enum fuel (Join.removeName axes n)
      | none => [Join.firsts axes]
    else []

def handleJoin (j : Json) : R Json := do
  let exprs ← (← arrF j "exprs").mapM (fun e => do
    (← asArr e).mapM (fun a => do
      match ← asArr a with
      | [n, v] => pure ((← asStr n, ← asNat v) : Join.Ax)
      | _ => throw "axis must be [name, value]"))
  let tbl ← (← arrF j "orders").mapM (fun o => do pure (← strsF o "firsts", ← strsF o "order"))
  let enum := enumTable tbl
  let axes := Join.nonUnit exprs
  let queried := joinTrace enum (Join.total axes) axes
  let missing := queried.filter (fun q => (tbl.lookup q).isNone)
  let res := match Join.joinExprs enum exprs with
    | some r => jArr (r.map (fun a => jArr [Json.str a.1, jNat a.2]))
    | none => Json.null
  pure (Json.mkObj [("joined", res), ("missing", jArr (missing.map jStrs)), ("steps", jNat queried.length)])

partial def parseTree (j : Json) : R Cse.Tree := do
  let nid ← natF j "id"
  match ← strF j "t" with
  | "axis" => pure (.axis nid (← strF j "name") (← optNatJ (← fld j "value")))
  | "list" => pure (.list nid (← (← arrF j "c").mapM parseTree))
  | "concat" => pure (.concat nid (← (← arrF j "c").mapM parseTree))
  | "flat" => pure (.flat nid (← parseTree (← fld j "i")))
  | "br" => pure (.br nid (← parseTree (← fld j "i")))
  | t => throw s!"unknown tree node {t}"

def tokJson : Cse.Tok Nat → Json
  | .cse l v => jArr [Json.str "cse", jNat l, jOptNat v]
  | .ax n v => jArr [Json.str "ax", Json.str n, jOptNat v]
  | .lpar => Json.str "(" | .rpar => Json.str ")" | .lbr => Json.str "[" | .rbr => Json.str "]"
  | .lcat => Json.str "(+" | .plus => Json.str "+" | .rcat => Json.str "+)" | .err => Json.str "err"

def handleCse (j : Json) : R Json := do
  let roots ← (← arrF j "roots").mapM parseTree
  let cands ← (← arrF j "cands").mapM (fun c => do (← asArr c).mapM (fun el => do (← asArr el).mapM asNat))
  if cands.any (fun c => c.any (fun el => el.isEmpty)) then throw "empty exprlist"
  pure (Json.mkObj [
    ("out", jArr (roots.map (fun r => jArr ((Cse.replace cands r).map tokJson)))),
    ("nonOverlapping", Json.bool (Cse.nonOverlapping cands))])

def handleImplicit (j : Json) : R Json := do
  let exprs ← strsF j "exprs"
  let names ← (← arrF j "names").mapM (fun n => do (← asArr n).mapM asStr)
  let guarded ← boolF j "guarded"
  let order ← strsF j "order"
  let enum : List String → List String := fun l => Join.enumBy order l
  pure (Json.mkObj [
    ("valid", jStrs (Implicit.validParents exprs names)),
    ("out", match Implicit.implicitOutput guarded enum exprs names with | some e => Json.str e | none => Json.null)])

def handle (j : Json) : R Json := do
  match ← strF j "kind" with
  | "join_exprs" => handleJoin j
  | "cse_replace" => handleCse j
  | "implicit_output" => handleImplicit j
  | k => throw s!"unknown order kind {k}"

end Einx.Driver.Order
