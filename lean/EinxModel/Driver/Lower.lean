import EinxModel.Driver.Util
import EinxModel.Driver.IR
import EinxModel.Driver.Generic
import EinxModel.Generic.LowerOps
import EinxModel.Generic.LowerOpsDenote
import EinxModel.Generic.LowerSim
/-!
Driver for the lowering models of `Generic/LowerOps.lean` (C01 / C17).

kind `lower_model`: family (`elementwise` | `reduce`), operation name and einx's solved stage-3 expressions of one
call → the model's program (`lowerElementwise` / `lowerReduce`), whether the description satisfies the decidable
hypotheses of `lower_elementwise_correct` / `lower_reduce_correct` and the recomputed instance of the theorem's
conclusion; when the serialised traced graph is supplied it is translated with the machinery of `Driver/IR.lean`
and compared, instruction by instruction, with the model's program.
-/
open Lean Einx.Driver Einx.Generic

namespace Einx.Driver.Lower
open Einx.Driver.Generic (GErr)

/-- Root dimensions of a solved expression and the names of its bracketed axes (`br` marks everything below it). -/
partial def toGM (inBr : Bool) (j : Json) : Except GErr (List G × List String) := do
  let r {α} (x : R α) : Except GErr α := match x with
    | .ok a => pure a
    | .error e => throw (.bad e)
  match ← r (strF j "k") with
  | "axis" =>
    let n ← r (strF j "name")
    pure ([.ax ⟨n, ← r (natF j "value")⟩], if inBr then [n] else [])
  | "list" => do
    let cs ← (← r (arrF j "c")).mapM (toGM inBr)
    pure ((cs.map (·.1)).flatten, (cs.map (·.2)).flatten)
  | "flat" => do
    let (g, m) ← toGM inBr (← r (fld j "c"))
    pure ([.grp g], m)
  | "concat" => throw (.unsupported "concatenation")
  | "br" => toGM true (← r (fld j "c"))
  | k => throw (.bad s!"unknown expr kind {k}")

def progXJson (p : List Einx.IR.InstrX) : Json := jArr (p.map Einx.Driver.IR.instrJson)

def progXEq (a b : List Einx.IR.InstrX) : Bool := (progXJson a).compress == (progXJson b).compress

/-- The skeleton the theorems `lower_*_size_generic` (Props/C17LowerOps.lean) speak about. -/
def skeletonX : Einx.IR.InstrX → Einx.IR.InstrX := instrSkeletonX

/-- The stage-3 expression the theorems speak about has the same dimensions as einx's tree. -/
def sameDims (e1 e2 : Einx.Denote.Expr) : Bool :=
  toString (repr (Einx.Denote.dims false e1)) == toString (repr (Einx.Denote.dims false e2))

structure Model where
  prog : Except String (List Einx.IR.InstrX × Nat)
  domain : Bool
  inst : Bool
  dimsOk : Bool

def buildModel (family op : String) (eis : List Json) (eo : Json) : R Model := do
  let conv (j : Json) : R (Option (List G × List String) × String) :=
    match toGM false j with
    | .ok x => pure (some x, "")
    | .error (.bad e) => throw s!"lower_model: {e}"
    | .error (.unsupported w) => pure (none, w)
  let ins ← eis.mapM conv
  let (out, ow) ← conv eo
  match out, ins.all (·.1.isSome) with
  | some (go, mo), true =>
    let gis := ins.filterMap (·.1)
    let realIn ← eis.mapM Einx.Driver.IR.parseExpr
    let realOut ← Einx.Driver.IR.parseExpr eo
    if !mo.isEmpty then pure ⟨.error "unsupported: brackets in the output", false, false, true⟩
    else
    match family with
    | "elementwise" =>
      if gis.any (fun x => !x.2.isEmpty) then pure ⟨.error "unsupported: brackets in an elementwise operation", false, false, true⟩
      else
        let gs := gis.map (·.1)
        let dimsOk := (List.zip realIn (gs.map Einx.Lower.rootExpr)).all (fun (a, b) => sameDims a b) && sameDims realOut (Einx.Lower.rootExpr go)
        match lowerElementwise op gs go with
        | .ok s => pure ⟨.ok (s.prog.map .base, s.reg), Einx.Lower.ewDomain gs go, Einx.Lower.ewInstance op gs go, dimsOk⟩
        | .error e => pure ⟨.error e, Einx.Lower.ewDomain gs go, false, dimsOk⟩
    | "reduce" =>
      match gis with
      | [(gi, m)] =>
        let dimsOk := (match realIn with
          | [a] => sameDims a (Einx.Lower.rootExprM m gi)
          | _ => false) && sameDims realOut (Einx.Lower.rootExpr go)
        match lowerReduce op m gi go with
        | .ok l => pure ⟨.ok (l.prog, l.reg), Einx.Lower.redDomain m gi go, Einx.Lower.redInstance op m gi go, dimsOk⟩
        | .error e => pure ⟨.error e, Einx.Lower.redDomain m gi go, false, dimsOk⟩
      | _ => pure ⟨.error "unsupported: a reduction has one input", false, false, true⟩
    | f => throw s!"lower_model: unknown family {f}"
  | _, _ =>
    let w := (ins.map (·.2) ++ [ow]).foldl (fun acc x => if acc.isEmpty then x else acc) ""
    pure ⟨.error s!"unsupported: {w}", false, false, true⟩

def handleLower (j : Json) : R Json := do
  let family ← strF j "family"
  let op ← strF j "op"
  let eis ← arrF j "exprs_in"
  let eos ← arrF j "exprs_out"
  let eo ← match eos with
    | [eo] => pure eo
    | _ => throw "lower_model: exactly one output expression expected"
  let m ← buildModel family op eis eo
  let mj := (match m.prog with
    | .ok (p, r) => [("model", Json.mkObj [("ok", progXJson p), ("out", jNat r), ("skeleton", progXJson (p.map skeletonX))])]
    | .error e => [("model", Json.mkObj [("err", Json.str e)])]) ++
    [("theorem_domain", Json.bool m.domain), ("theorem_instance", Json.bool m.inst), ("dims_equal", Json.bool m.dimsOk)]
  match fldOpt j "graph" with
  | none => pure (Json.mkObj mj)
  | some g =>
    match Einx.Driver.IR.runTranslate g with
    | .unsupported why => pure (Json.mkObj (mj ++ [("real", Json.mkObj [("unsupported", Json.str why)])]))
    | .rejected why => pure (Json.mkObj (mj ++ [("real", Json.mkObj [("rejected", Json.str why)])]))
    | .ok prog _ outs =>
      let rj := [("real", Json.mkObj [("ok", progXJson prog), ("outs", jNats outs), ("skeleton", progXJson (prog.map skeletonX))])]
      let cmp := match m.prog with
        | .ok (p, r) => [("equal", Json.bool (progXEq p prog && outs == [r])),
                         ("skeleton_equal", Json.bool (progXEq (p.map skeletonX) (prog.map skeletonX)))]
        | .error _ => []
      pure (Json.mkObj (mj ++ rj ++ cmp))

def handle (j : Json) : R Json := do
  match ← strF j "kind" with
  | "lower_model" => handleLower j
  | k => throw s!"unknown kind {k}"

end Einx.Driver.Lower
