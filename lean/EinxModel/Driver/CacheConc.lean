import EinxModel.Driver.Util
import EinxModel.Cache.Concurrent
open Lean Einx.Driver Einx.Cache Einx.Cache.Conc

/-! Driver requests for the interleaving model of the compiled-function cache (`Cache/Concurrent.lean`).

`cache_sched`   run the programs under one schedule; answer: what every scheduled step was (hit / miss / compute /
                raise / insert / noop), the results per thread, the final cache, the (thread, key) of every run of the
                wrapped function.  `mode = "det"`: the function is the table `f`; `mode = "token"`: a successful run
                returns the number of the step at which it ran (so that it is visible *whose* value a call got).
`cache_explore` all complete executions (every interleaving of the micro steps): the distinct observable outcomes.
-/
namespace Einx.Driver.CacheConc

def parseOutcome (j : Json) : R (Outcome Nat) := do
  match fldOpt j "ok", fldOpt j "raised" with
  | some v, Option.none => pure (.ok (← asNat v))
  | Option.none, some e => pure (.raised (← asStr e))
  | _, _ => throw "outcome must be {ok: n} or {raised: cls}"

def outcomeJson : Outcome Nat → Json
  | .ok n => Json.mkObj [("ok", jNat n)]
  | .raised e => Json.mkObj [("raised", Json.str e)]

structure Req where
  progs : List (List Nat)
  f : Nat → Outcome Nat
  comp : Comp Nat Nat

def parseReq (j : Json) : R Req := do
  let progs ← (← arrF j "progs").mapM (fun p => do (← asArr p).mapM asNat)
  let table ← (← arrF j "f").mapM (fun e => do
    match ← asArr e with
    | [k, o] => pure (← asNat k, ← parseOutcome o)
    | _ => throw "f entries must be [key, outcome]")
  for p in progs do
    for k in p do
      if (table.lookup k).isNone then throw s!"key {k} has no entry in f"
  let f : Nat → Outcome Nat := fun k => (table.lookup k).getD (.raised "?")
  let comp : Comp Nat Nat ← match ← strF j "mode" with
    | "det" => pure (fun _ _ _ k => f k)
    | "token" => pure (fun _ clock _ k => match f k with
        | .ok _ => .ok clock
        | .raised e => .raised e)
    | m => throw s!"unknown mode {m}"
  pure { progs := progs, f := f, comp := comp }

def confJson (c : Conf Nat Nat) : Json :=
  Json.mkObj [("finished", Json.bool c.finished),
    ("outs", jArr (c.threads.map (fun th => jArr (th.outs.map outcomeJson)))),
    ("cache", jArr (c.cache.map (fun (k, v) => jNats [k, v]))),
    ("computes", jArr (c.computes.map (fun (t, k) => jNats [t, k])))]

/-- What the step of thread `i` from `c` was. -/
def stepKind (c : Conf Nat Nat) (i : Nat) (c' : Option (Conf Nat Nat)) : String :=
  match c', c.threads[i]? with
  | some c', some th =>
    match th.pc with
    | .idle => (match c'.threads[i]? with
        | some th' => if th'.pc == .missed then "miss" else "hit"
        | Option.none => "?")
    | .missed => (match c'.threads[i]? with
        | some th' => (match th'.pc with
            | .computed _ => "compute"
            | _ => "raise")
        | Option.none => "?")
    | .computed _ => "insert"
  | _, _ => "noop"

/-- All complete executions (depth-first over the enabled threads); `fuel` bounds the depth by the measure. -/
def explore (comp : Comp Nat Nat) : Nat → Conf Nat Nat → List (Conf Nat Nat)
  | 0, c => [c]
  | fuel + 1, c =>
    if c.finished then [c]
    else (List.range c.threads.length).flatMap (fun i =>
      match stepThread comp id c i with
      | some c' => explore comp fuel c'
      | Option.none => [])

def sortPairs (l : List (Nat × Nat)) : List (Nat × Nat) :=
  (l.toArray.qsort (fun a b => a.1 < b.1 || (a.1 == b.1 && a.2 < b.2))).toList

def handle (j : Json) : R Json := do
  match ← strF j "kind" with
  | "cache_sched" =>
    let r ← parseReq j
    let sched ← natsF j "schedule"
    let (c, kinds) := sched.foldl (fun (acc : Conf Nat Nat × List (Nat × String × Nat)) i =>
      let c := acc.1
      let c' := stepThread r.comp id c i
      (c'.getD c, acc.2 ++ [(i, stepKind c i c', c.clock)])) (init r.progs, [])
    pure (Json.mkObj [("conf", confJson c),
      ("steps", jArr (kinds.map (fun (i, k, n) => jArr [jNat i, Json.str k, jNat n]))),
      ("serial", confJson (run r.comp id (init r.progs) (serialSchedule r.progs)))])
  | "cache_explore" =>
    let r ← parseReq j
    let c0 : Conf Nat Nat := init r.progs
    if c0.measure > 24 then throw "cache_explore: programs too long"
    let finals := explore r.comp c0.measure c0
    let obs := finals.map (fun c =>
      (Json.mkObj [("outs", jArr (c.threads.map (fun th => jArr (th.outs.map outcomeJson)))),
                   ("cache", jArr ((sortPairs c.cache).map (fun (k, v) => jNats [k, v]))),
                   ("computes", jArr ((sortPairs (c.computes.map (fun (t, k) => (k, t)))).map (fun (k, t) => jNats [k, t]))),
                   ("finished", Json.bool c.finished)]).compress)
    let distinct := obs.foldl (fun acc s => if acc.contains s then acc else acc ++ [s]) ([] : List String)
    pure (Json.mkObj [("executions", jNat finals.length), ("outcomes", jStrs distinct)])
  | k => throw s!"unknown cache-concurrency kind {k}"

end Einx.Driver.CacheConc
