import Lean.Data.Json
/-! JSON helpers for the line-protocol driver.  Malformed requests are errors, never defaults. -/
open Lean

namespace Einx.Driver

abbrev R := Except String

def fld (j : Json) (k : String) : R Json :=
  match j.getObjVal? k with
  | .ok v => pure v
  | .error _ => throw s!"missing field {k}"

def fldOpt (j : Json) (k : String) : Option Json :=
  match j.getObjVal? k with
  | .ok v => some v
  | .error _ => none

def asStr (j : Json) : R String :=
  match j.getStr? with
  | .ok v => pure v
  | .error _ => throw "expected string"

def asNat (j : Json) : R Nat :=
  match j.getNat? with
  | .ok v => pure v
  | .error _ => throw "expected nat"

def asInt (j : Json) : R Int :=
  match j.getInt? with
  | .ok v => pure v
  | .error _ => throw "expected int"

def asBool (j : Json) : R Bool :=
  match j.getBool? with
  | .ok v => pure v
  | .error _ => throw "expected bool"

def asArr (j : Json) : R (List Json) :=
  match j.getArr? with
  | .ok v => pure v.toList
  | .error _ => throw "expected array"

def strF (j : Json) (k : String) : R String := fld j k >>= asStr
def natF (j : Json) (k : String) : R Nat := fld j k >>= asNat
def intF (j : Json) (k : String) : R Int := fld j k >>= asInt
def boolF (j : Json) (k : String) : R Bool := fld j k >>= asBool
def arrF (j : Json) (k : String) : R (List Json) := fld j k >>= asArr
def natsF (j : Json) (k : String) : R (List Nat) := do (← arrF j k).mapM asNat
def intsF (j : Json) (k : String) : R (List Int) := do (← arrF j k).mapM asInt
def strsF (j : Json) (k : String) : R (List String) := do (← arrF j k).mapM asStr

def jNats (l : List Nat) : Json := Json.arr (l.map (fun n => Json.num (JsonNumber.fromNat n))).toArray
def jInts (l : List Int) : Json := Json.arr (l.map (fun n => Json.num (JsonNumber.fromInt n))).toArray
def jStrs (l : List String) : Json := Json.arr (l.map Json.str).toArray
def jArr (l : List Json) : Json := Json.arr l.toArray
def jNat (n : Nat) : Json := Json.num (JsonNumber.fromNat n)
def jInt (n : Int) : Json := Json.num (JsonNumber.fromInt n)

end Einx.Driver
