import EinxModel.Driver.Cache
import EinxModel.Cache.NumHash
open Lean Einx.Driver Einx.Cache

/-! Driver request `numhash`: the three hashes of one number – the specification `numHash`, and CPython's algorithms
`hashInt` (`long_hash`) / `hashDouble` (`_Py_HashDouble`) as modelled in `Cache/NumHash.lean`. -/
namespace Einx.Driver.NumHash

/-- `{"kind":"numhash","k":<NumKind>,"n":<int>,"e":<nat>}` (value `n / 2^e`, normal form) -/
def handle (j : Json) : R Json := do
  match ← strF j "kind" with
  | "numhash" =>
    let k ← Einx.Driver.Cache.parseKind (← strF j "k")
    let d : Dy := ⟨← intF j "n", ← natF j "e"⟩
    if !d.normal then throw "numhash: value not in normal form"
    let base := [("spec", jInt (numHash d)), ("double", jInt (Einx.Cache.NumHash.hashDouble d)),
                 ("kind", jInt (Einx.Cache.NumHash.hashNum k d))]
    pure (Json.mkObj (if d.exp == 0 then ("int", jInt (Einx.Cache.NumHash.hashInt d.num)) :: base else base))
  | k => throw s!"unknown numhash request {k}"

end Einx.Driver.NumHash
