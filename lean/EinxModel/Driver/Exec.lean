import EinxModel.Driver.Util
import EinxModel.Driver.Compile
import EinxModel.Driver.Factory
import EinxModel.Driver.Adapt
import EinxModel.Exec.View
import EinxModel.Extracted.Compile
open Lean Einx.Driver Einx.Compile Einx.Exec

/-! Driver for the work package "exec" (C13/C15 with C04): kind `exec_check`.

One captured graph (the JSON of `graphcap.graph_to_json`, with `str` on constants) is decoded as the C04 graph, compiled by
the model of the code generator, and *translated* (`Exec/View.lean`) into the C13 graph (`mode = "factory"`) or the C15 graph
(`mode = "adapt"`); the proved checkers run on the translated graph.  The answer reports
  * the premises of `Props/C13Exec.lean:exec_from_compile` (`wf_graph`, `supported`, `fwf`) and the instance of its
    conclusion on this graph (`exec_ok`),
  * whether the translated graph equals the directly decoded one (`same_graph`; atoms are compared by kind only),
  * the emitted text (to be compared with the real text by the harness),
  * the checker's verdict on the translated graph, and per factory position / for the user constant: the nodes of the
    schedule that call it, the number of emitted statements for that node and the events they produce. -/
namespace Einx.Driver.Exec

/-! ### Comparison of a translated graph with the directly decoded one -/

mutual
def vSim : Factory.V → Factory.V → Bool
  | .ref a, .ref b => a == b
  | .int a, .int b => a == b
  | .str a, .str b => a == b
  | .seq t vs, .seq t' vs' => t == t' && vSimL vs vs'
  | .atom a, .atom b => (a.startsWith "obj") == (b.startsWith "obj")
  | _, _ => false
def vSimL : List Factory.V → List Factory.V → Bool
  | [], [] => true
  | a :: as, b :: bs => vSim a b && vSimL as bs
  | _, _ => false
end

def kwSim : List (String × Factory.V) → List (String × Factory.V) → Bool
  | [], [] => true
  | (k, v) :: r, (k', v') :: r' => k == k' && vSim v v' && kwSim r r'
  | _, _ => false

def nodeSim : Factory.GNode → Factory.GNode → Bool
  | .call f a k d, .call f' a' k' d' => vSim f f' && vSimL a a' && kwSim k k' && vSimL d d'
  | .cast i, .cast i' => vSim i i'
  | .assert x c, .assert x' c' => vSim x x' && vSim c c'
  | .getattr o k, .getattr o' k' => vSim o o' && k == k'
  | .operator op os, .operator op' os' => op == op' && vSimL os os'
  | .builtin n, .builtin n' => n == n'
  | .other k us, .other k' us' => k == k' && vSimL us us'
  | _, _ => false

def appsSim : List Factory.GApp → List Factory.GApp → Bool
  | [], [] => true
  | a :: as, b :: bs => nodeSim a.node b.node && vSim a.out b.out && appsSim as bs
  | _, _ => false

def tinfoEq (a b : Factory.TInfo) : Bool :=
  a.ty == b.ty && a.shape == b.shape && a.concrete == b.concrete && a.origin == b.origin

def tracersEq : List Factory.TInfo → List Factory.TInfo → Bool
  | [], [] => true
  | a :: as, b :: bs => tinfoEq a b && tracersEq as bs
  | _, _ => false

def graphSim (a b : Factory.Graph) : Bool :=
  a.inputs == b.inputs && vSim a.output b.output && appsSim a.apps b.apps && tracersEq a.tracers b.tracers

mutual
def valSim : Adapt.Val → Adapt.Val → Bool
  | .ref a, .ref b => a == b
  | .int a, .int b => a == b
  | .float a, .float b => a == b
  | .bool a, .bool b => a == b
  | .str a, .str b => a == b
  | .none, .none => true
  | .tuple a, .tuple b => valSimL a b
  | .list a, .list b => valSimL a b
  | .dict k v, .dict k' v' => valSimL k k' && valSimL v v'
  | .obj a, .obj b => a == b
  | .obj _, .other t => t == "object"
  | .other t, .obj _ => t == "object"
  | .other a, .other b => a == b
  | _, _ => false
def valSimL : List Adapt.Val → List Adapt.Val → Bool
  | [], [] => true
  | a :: as, b :: bs => valSim a b && valSimL as bs
  | _, _ => false
end

def kwValSim : List (String × Adapt.Val) → List (String × Adapt.Val) → Bool
  | [], [] => true
  | (k, v) :: r, (k', v') :: r' => k == k' && valSim v v' && kwValSim r r'
  | _, _ => false

def adaptAppSim : Adapt.App → Adapt.App → Bool
  | .import_ n o, .import_ n' o' => n == n' && o == o'
  | .builtin n o, .builtin n' o' => n == n' && o == o'
  | .constant v o, .constant v' o' => valSim v v' && o == o'
  | .getattr x k o, .getattr x' k' o' => valSim x x' && k == k' && o == o'
  | .call f a k o, .call f' a' k' o' => valSim f f' && valSimL a a' && kwValSim k k' && valSim o o'
  | .operator op os o, .operator op' os' o' => op == op' && valSimL os os' && o == o'
  | .assert_ x c o, .assert_ x' c' o' => valSim x x' && valSim c c' && o == o'
  | .cast i o, .cast i' o' => valSim i i' && valSim o o'
  | .other k is o, .other k' is' o' => k == k' && valSimL is is' && valSim o o'
  | _, _ => false

def adaptAppsSim : List Adapt.App → List Adapt.App → Bool
  | [], [] => true
  | a :: as, b :: bs => adaptAppSim a b && adaptAppsSim as bs
  | _, _ => false

def adaptGraphSim (a b : Adapt.Graph) : Bool :=
  adaptAppsSim a.apps b.apps && a.shapes == b.shapes && valSim a.output b.output

/-! ### Annotations the C04 graph does not carry -/

def parseAux (j : Json) : R (List TAux) := do
  (← arrF j "tracers").mapM (fun t => do
    let ti ← Einx.Driver.Factory.parseTInfo t
    pure { ty := ti.ty, shape := ti.shape, concrete := ti.concrete })

def parseShapes (j : Json) : R (List (Nat × List Nat)) := do
  let mut shapes : List (Nat × List Nat) := []
  for t in ← arrF j "tracers" do
    let ty ← fld t "type"
    if (← strF ty "ty") == "tensor" then
      shapes := shapes ++ [(← natF t "id", ← natsF ty "shape")]
  pure shapes

def parseConstVals (j : Json) : R (List (Option Adapt.Val)) := do
  (← arrF j "apps").mapM (fun a => do
    if (← strF a "kind") == "constant" then pure (some (← Einx.Driver.Adapt.parseVal (← fld a "value"))) else pure none)

/-! ### Answers -/

def eventJson (p : Option Nat × Event) : Json :=
  let shape := match callShape p.2 with
    | some (_, pos, names) => Json.mkObj [("call", Json.bool true), ("npos", jNat pos.length), ("kwnames", jStrs names)]
    | none => Json.mkObj [("call", Json.bool false)]
  Json.mkObj [("tag", match p.1 with | some i => jNat i | none => Json.null), ("event", shape)]

def common (g : Graph) (c : Compiled) (up : Bool) : List (String × Json) :=
  let x0 : XState := { env := unbound }
  let tt := taggedTrace x0 (sstmts c.st)
  let refTrace := match evalGraph g up c.order with
    | .ok r => some r.trace
    | .error _ => none
  [("text", Json.str c.text), ("sched_len", jNat (appsOf c.order).length),
   ("trace_len", jNat tt.length),
   ("trace_is_ref", Json.bool (decide (some (tt.map (·.2)) = refTrace)))]

def handle (j : Json) : R Json := do
  let gj ← fld j "graph"
  let g ← Einx.Driver.Compile.decodeGraphDoc gj
  let cfg := Einx.Extracted.compileUCfg
  let fc := Einx.Extracted.compileFCfg
  let base : List (String × Json) := [("wf_graph", Json.bool g.WF), ("supported", Json.bool (Supported g))]
  match ← strF j "mode" with
  | "factory" =>
    let d : Factory.Descr := { opName := ← Einx.Driver.Factory.optStr j "op_name", args := ← (← arrF j "args").mapM Einx.Driver.Factory.parseArgD }
    let aux ← parseAux gj
    match toFactory g aux, ← Einx.Driver.Factory.parseGraph gj with
    | some fg, some direct =>
      let ok := Factory.factoryOK fg d
      let view : List (String × Json) := [("translated", Json.bool true), ("same_graph", Json.bool (graphSim fg direct)),
        ("fwf", Json.bool (Factory.wf fg)), ("factory_ok", Json.bool ok), ("factory_ok_direct", Json.bool (Factory.factoryOK direct d)),
        ("reason", Json.str (if ok then "ok" else Factory.explain fg d)),
        ("reachable_len", jNat (Factory.reachable fg).length)]
      match compile cfg fc g with
      | .error e => pure (Json.mkObj (base ++ view ++ [("compile_err", Json.str e)]))
      | .ok c =>
        let sched := appsOf c.order
        let tt := taggedTrace { env := unbound } (sstmts c.st)
        let positions := (List.range fg.inputs.length).filterMap (fun p =>
          match d.args[p]?, fg.inputs[p]? with
          | some ad, some t =>
            match ad.factory with
            | some sig =>
              let calls := sched.filter (Factory.callsInput fg t)
              some (Json.mkObj [("pos", jNat p), ("calls", jNats calls),
                ("stmt_counts", jNats (calls.map (fun i => (c.st.body.filter (fun q => q.2.src == some i)).length))),
                ("events", jArr ((tt.filter (byCallerOf fg t)).map eventJson)),
                -- value level (`factory_call_value_compiled`): call events whose function term is the object of input `t`
                ("value_events", jArr (((tt.filter (fun q => trackedCall (isInAtom t) q.2))).map eventJson)),
                ("casts_plain", Json.bool (castsPlain g fg t)),
                ("passed_names", jStrs ((Factory.passed d.ctx ad.argIndex sig).map (·.1)))])
            | none => none
          | _, _ => none)
        pure (Json.mkObj (base ++ view ++ common g c cfg.unaryParens ++
          [("exec_ok", Json.bool (execOK fg sched)), ("factories", jArr positions),
           ("root_stable", Json.bool (rootStable fg))]))
    | _, _ => pure (Json.mkObj (base ++ [("translated", Json.bool false)]))
  | "adapt" =>
    let spec : Adapt.Spec := {
      argShapes := ← (← arrF j "arg_shapes").mapM (fun s => do (← asArr s).mapM asNat),
      axis := ← (match fldOpt j "axis" with
        | some Json.null | none => pure none
        | some a => do pure (some (← (← asArr a).mapM asNat))),
      options := ← (← arrF j "options").mapM Einx.Driver.Adapt.parseKw,
      outShape := ← natsF j "out_shape" }
    let shapes ← parseShapes gj
    let constVals ← parseConstVals gj
    let aux ← parseAux gj
    match toAdapt g shapes constVals, toFactory g aux, Einx.Driver.Adapt.parseGraph gj with
    | some ag, some fg, .ok direct =>
      let ok := Adapt.adaptOK ag spec
      let view : List (String × Json) := [("translated", Json.bool true), ("same_graph", Json.bool (adaptGraphSim ag direct)),
        ("fwf", Json.bool (Factory.wf fg)), ("adapt_ok", Json.bool ok), ("adapt_ok_direct", Json.bool (Adapt.adaptOK direct spec)),
        ("reason", Json.str (match Adapt.adaptCheck ag spec with | .ok _ => "ok" | .error e => e)),
        ("reachable_len", jNat (Factory.reachable fg).length)]
      match compile cfg fc g with
      | .error e => pure (Json.mkObj (base ++ view ++ [("compile_err", Json.str e)]))
      | .ok c =>
        let sched := appsOf c.order
        let tt := taggedTrace { env := unbound } (sstmts c.st)
        let consts := ag.apps.filterMap (fun a => match a with | .constant _ o => some o | _ => none)
        let users := consts.map (fun cst =>
          let calls := sched.filter (callsTracer ag cst)
          let allCalls := (List.range ag.apps.length).filter (callsTracer ag cst)
          Json.mkObj [("const", jNat cst), ("calls", jNats calls), ("all_calls", jNats allCalls),
            ("reachable", Json.bool (callsReachable ag fg cst)),
            ("stmt_counts", jNats (calls.map (fun i => (c.st.body.filter (fun q => q.2.src == some i)).length))),
            ("events", jArr ((tt.filter (byCallOf ag cst)).map eventJson))])
        pure (Json.mkObj (base ++ view ++ common g c cfg.unaryParens ++
          [("exec_ok", Json.bool (execOK fg sched)), ("users", jArr users),
           -- value level (`adapter_call_value_compiled`): call events whose function term is a constant object
           ("const_events", jArr ((tt.filter (fun q => trackedCall isConstAtom q.2)).map eventJson)),
           ("spec_kwnames", jStrs (spec.kwargs.map (·.1))), ("spec_npos", jNat spec.argShapes.length)]))
    | _, _, .error e => pure (Json.mkObj (base ++ [("translated", Json.bool false), ("decode_err", Json.str e)]))
    | _, _, _ => pure (Json.mkObj (base ++ [("translated", Json.bool false)]))
  | m => throw s!"unknown exec mode {m}"

end Einx.Driver.Exec
