import EinxModel.Driver.Util
import EinxModel.IR.Validate
import EinxModel.IR.PrimX
import EinxModel.IR.Arith
import EinxModel.Denote.Expr2
import EinxModel.Denote.Expr3
import Std.Data.HashMap
open Lean Einx.Driver Einx.IR Einx.Denote

namespace Einx.Driver.IR

/-! ### JSON decoding of solved expressions and instructions -/

partial def parseExpr (j : Json) : R Expr := do
  match ← strF j "k" with
  | "axis" => pure (.axis (← strF j "name") (← natF j "value"))
  | "list" => pure (.list (← (← arrF j "c").mapM parseExpr))
  | "flat" => pure (.flat (← parseExpr (← fld j "c")))
  | "concat" => pure (.concat (← (← arrF j "c").mapM parseExpr))
  | "br" => pure (.br (← parseExpr (← fld j "c")))
  | k => throw s!"unknown expr kind {k}"

def parseKey (j : Json) : R Key := do
  match ← strF j "k" with
  | "idx" => pure (.idx (← natF j "i"))
  | "all" => pure .all
  | "newaxis" => pure .newaxis
  | k => throw s!"unknown key {k}"

def parseArg (j : Json) : R Arg := do
  match fldOpt j "reg" with
  | some r => pure (.reg (← asNat r))
  | none => pure (.lit (← intF j "lit"))

def parseInstr (j : Json) : R InstrX := do
  match ← strF j "i" with
  | "reshape" => pure (.base (.reshape (← natF j "x") (← natsF j "shape")))
  | "transpose" => pure (.base (.transpose (← natF j "x") (← natsF j "perm")))
  | "broadcast_to" => pure (.base (.broadcastTo (← natF j "x") (← natsF j "shape")))
  | "diagonal" => pure (.base (.diagonal (← natF j "x") (← natF j "a1") (← natF j "a2")))
  | "concat" => pure (.base (.concat (← natsF j "xs") (← natF j "axis")))
  | "slice" => pure (.base (.slice (← natF j "x") (← natF j "axis") (← natF j "lo") (← natF j "hi")))
  | "index" => pure (.base (.index (← natF j "x") (← (← arrF j "key").mapM parseKey)))
  | "ewise" => pure (.base (.ewise (← strF j "f") (← (← arrF j "args").mapM parseArg)))
  | "reduce" => pure (.reduce (← strF j "f") (← natF j "x") (← natsF j "axes") (← boolF j "keepdims"))
  | "einsum" => pure (.einsum (← (← arrF j "spec_in").mapM (fun l => do (← asArr l).mapM asNat)) (← natsF j "spec_out") (← natsF j "xs"))
  | "matmul" => pure (.matmul (← natF j "x") (← natF j "y"))
  | "flip" => pure (.flip (← natF j "x") (← natsF j "axes"))
  | "roll" => pure (.roll (← natF j "x") (← intsF j "shifts") (← natsF j "axes"))
  | "argfind" => pure (.argfind (← strF j "f") (← natF j "x") (← natF j "axis"))
  | "sort" => pure (.sortAxis (← strF j "f") (← natF j "x") (← natF j "axis"))
  | "arange" => pure (.arange (← natF j "n"))
  | "take" => pure (.take (← natF j "x") (← natF j "idx"))
  | k => throw s!"unknown instruction {k}"

partial def cellJson : Cell → Json
  | .src r k => Json.mkObj [("s", jNats [r, k])]
  | .lit i => Json.mkObj [("l", jInt i)]
  | .app f args => Json.mkObj [("f", Json.str f), ("a", jArr (args.map cellJson))]
  | .bad => Json.str "bad"

partial def parseCell (j : Json) : R Cell := do
  match j with
  | Json.str "bad" => pure .bad
  | _ =>
    match fldOpt j "s", fldOpt j "l", fldOpt j "f" with
    | some s, _, _ =>
      match ← (← asArr s).mapM asNat with
      | [r, k] => pure (.src r k)
      | _ => throw "cell: src needs [register, position]"
    | _, some l, _ => pure (.lit (← asInt l))
    | _, _, some f => do
      match f.getStr? with
      | .ok name => pure (.app name (← (← arrF j "a").mapM parseCell))
      | .error _ => throw "cell: function name"
    | _, _, _ => throw "cell: unknown form"

/-! ### Concrete integer algebra (primitive conformance, model-vs-oracle runs) -/

/-- Index of the first element that is strictly better than all earlier ones. -/
def argBest (better : Int → Int → Bool) (args : List Int) : Int :=
  Int.ofNat (args.zipIdx.foldl (fun (best : Int × Nat) (v, i) => if better v best.1 then (v, i) else best) (args.headD 0, 0)).2

/-- Values with their positions, sorted by value (ties by position). -/
def sortedPairs (args : List Int) : Array (Int × Nat) :=
  args.zipIdx.toArray.qsort (fun a b => a.1 < b.1 || (a.1 == b.1 && a.2 < b.2))

def intApp (f : String) (args : List Int) : Int :=
  if f == "red:sum" then args.foldl (· + ·) 0
  else if f == "argmax" then argBest (· > ·) args
  else if f == "argmin" then argBest (· < ·) args
  else if f.startsWith "sort:" then
    match (f.drop 5).toString.toNat? with
    | some k => ((sortedPairs args)[k]?.map (·.1)).getD (-999981)
    | none => -999981
  else if f.startsWith "argsort:" then
    match (f.drop 8).toString.toNat? with
    | some k => ((sortedPairs args)[k]?.map (fun p => Int.ofNat p.2)).getD (-999981)
    | none => -999981
  else if f == "take" then
    match args with
    | i :: data =>
      let j := if i < 0 then i + data.length else i
      if j < 0 then -999981 else data.getD j.toNat (-999981)
    | [] => -999981
  else if f == "red:prod" then args.foldl (· * ·) 1
  else if f == "red:max" then args.foldl max (args.headD 0)
  else if f == "red:min" then args.foldl min (args.headD 0)
  else if f == "multiply" then args.foldl (· * ·) 1
  else
  match f, args with
  | "add", [a, b] => a + b
  | "subtract", [a, b] => a - b
  | "multiply", [a, b] => a * b
  | "maximum", [a, b] => max a b
  | "minimum", [a, b] => min a b
  | "negative", [a] => -a
  | "floor_divide", [a, b] => Int.fdiv a b
  | "remainder", [a, b] => Int.fmod a b
  | _, _ => -999983      -- an uninterpreted function: any fixed value (never compared)

def intAlg : Alg Int := { lit := id, app := intApp, bad := -999979 }

def tensorJson (t : Tensor Int) : Json := Json.mkObj [("shape", jNats t.shape), ("data", jInts t.data)]

def parseTensor (j : Json) : R (Tensor Int) := do pure ⟨← natsF j "shape", ← intsF j "data"⟩

/-- kind `ir_run`: run instructions on integer tensors; returns all registers (or the error). -/
def handleRun (j : Json) : R Json := do
  let prog ← (← arrF j "prog").mapM parseInstr
  let inputs ← (← arrF j "inputs").mapM parseTensor
  match evalProgG planInstrX intAlg prog inputs with
  | .ok regs => pure (Json.mkObj [("ok", jArr (regs.map tensorJson))])
  | .error e => pure (Json.mkObj [("err", Json.str e)])

/-! ### Translation of a serialised tracer graph into a straight-line program -/

inductive Binding where
  | mod (name : String)
  | fn (name : String)
  | reg (r : Nat)
  | regs (rs : List Nat)
  | pending (r : Nat)            -- result of a call before its Cast
  | pendingList (rs : List Nat)
deriving Repr, Inhabited

structure TState where
  env : Std.HashMap Nat Binding := {}
  prog : List InstrX := []
  shapes : List (List Nat) := []

def ewiseNames : List String :=
  ["add", "subtract", "multiply", "true_divide", "floor_divide", "divide", "logical_and", "logical_or", "where",
   "maximum", "minimum", "less", "less_equal", "greater", "greater_equal", "equal", "not_equal", "logaddexp",
   "exp", "log", "negative"]

def refId (j : Json) : R Nat := do
  if (← strF j "t") != "ref" then throw "expected a tracer reference"
  natF j "id"

def intList (j : Json) : R (List Nat) := do
  let t ← strF j "t"
  if t != "tuple" && t != "list" then throw "expected tuple of ints"
  (← arrF j "v").mapM (fun x => do
    if (← strF x "t") != "int" then throw "expected int"
    natF x "v")

def kwarg (kwargs : List Json) (name : String) : Option Json :=
  kwargs.findSome? (fun kv => match kv.getArr? with
    | .ok a => if a.size == 2 && a[0]! == Json.str name then some a[1]! else none
    | .error _ => none)

/-- Result of the translation of one graph. -/
inductive Outcome where
  | ok (prog : List InstrX) (inShapes : List (List Nat)) (outs : List Nat)
  | unsupported (why : String)
  | rejected (why : String)       -- e.g. a traced shape differs from the computed shape

abbrev T := ExceptT Outcome (StateM TState)

def failU {α} (why : String) : T α := throw (.unsupported why)
def failR {α} (why : String) : T α := throw (.rejected why)

def liftR {α} (r : R α) : T α :=
  match r with
  | .ok a => pure a
  | .error e => failU s!"graph decoding: {e}"

def emitX (i : InstrX) : T Nat := do
  let st ← get
  match planInstrX st.shapes i with
  | .ok p =>
    let r := st.shapes.length
    set { st with prog := st.prog ++ [i], shapes := st.shapes ++ [p.shape] }
    pure r
  | .error e => failR s!"ill-formed primitive call: {e}"

def emit (i : Instr) : T Nat := emitX (.base i)

def lookup (id : Nat) : T Binding := do
  match (← get).env[id]? with
  | some b => pure b
  | none => failU s!"tracer {id} has no binding"

def bind (id : Nat) (b : Binding) : T Unit := modify (fun st => { st with env := st.env.insert id b })

def regOf (j : Json) : T Nat := do
  let id ← liftR (refId j)
  match ← lookup id with
  | .reg r => pure r
  | _ => failU "operand is not a tensor register"

def argOf (j : Json) : T Arg := do
  match (j.getObjVal? "t").toOption.bind (·.getStr?.toOption) with
  | some "ref" => pure (.reg (← regOf j))
  | some "int" => pure (.lit (← liftR (intF j "v")))
  | _ => failU "elementwise operand is neither tensor nor int"

def reduceNames : List String := ["sum", "mean", "var", "std", "prod", "count_nonzero", "all", "any", "min", "max"]

def natsOrNat (j : Json) : R (List Nat) := do
  match ← strF j "t" with
  | "int" => pure [← natF j "v"]
  | _ => intList j

def intsOrInt (j : Json) : R (List Int) := do
  match ← strF j "t" with
  | "int" => pure [← intF j "v"]
  | _ => do
    (← arrF j "v").mapM (fun x => do
      if (← strF x "t") != "int" then throw "expected int"
      intF x "v")

def parseEinsumSpec (spec : String) : Option (List (List Nat) × List Nat) :=
  match spec.splitOn "->" with
  | [ins, out] =>
    let lab (s : String) : List Nat := (s.toList.filter (· != ' ')).map (·.toNat)
    some ((ins.splitOn ",").map lab, lab out)
  | _ => none

def translateCall (fname : String) (args : List Json) (kwargs : List Json) : T Binding := do
  let natKw (n : String) : T Nat := do
    match kwarg kwargs n with
    | some v => do
      if (← liftR (strF v "t")) != "int" then failU s!"keyword {n} is not an int"
      let i ← liftR (intF v "v")
      if i < 0 then failU s!"negative {n}" else pure i.toNat
    | none => failU s!"missing keyword {n}"
  match fname, args with
  | "numpy.reshape", [x, s] => do pure (.pending (← emit (.reshape (← regOf x) (← liftR (intList s)))))
  | "numpy.transpose", [x, p] => do pure (.pending (← emit (.transpose (← regOf x) (← liftR (intList p)))))
  | "numpy.broadcast_to", [x, s] => do pure (.pending (← emit (.broadcastTo (← regOf x) (← liftR (intList s)))))
  | "numpy.diagonal", [x] => do pure (.pending (← emit (.diagonal (← regOf x) (← natKw "axis1") (← natKw "axis2"))))
  | "numpy.concatenate", [xs] => do
    let items ← liftR (arrF xs "v")
    let rs ← items.mapM regOf
    pure (.pending (← emit (.concat rs (← natKw "axis"))))
  | "numpy.split", [x, idx] => do
    let r ← regOf x
    let axis ← natKw "axis"
    let cuts ← liftR (intList idx)
    let st ← get
    let n := ((st.shapes[r]?).getD []).getD axis 0
    let bounds := List.zip ([0] ++ cuts) (cuts ++ [n])
    let rs ← bounds.mapM (fun (lo, hi) => emit (.slice r axis lo hi))
    pure (.pendingList rs)
  | "numpy.matmul", [x, y] => do pure (.pending (← emitX (.matmul (← regOf x) (← regOf y))))
  | "numpy.argmax", [x] => do
    if kwargs.length != 1 then failU "argmax with extra keywords"
    pure (.pending (← emitX (.argfind "argmax" (← regOf x) (← natKw "axis"))))
  | "numpy.argmin", [x] => do
    if kwargs.length != 1 then failU "argmin with extra keywords"
    pure (.pending (← emitX (.argfind "argmin" (← regOf x) (← natKw "axis"))))
  | "numpy.sort", [x] => do
    if kwargs.length != 1 then failU "sort with extra keywords"
    pure (.pending (← emitX (.sortAxis "sort" (← regOf x) (← natKw "axis"))))
  | "numpy.argsort", [x] => do
    if kwargs.length != 1 then failU "argsort with extra keywords"
    pure (.pending (← emitX (.sortAxis "argsort" (← regOf x) (← natKw "axis"))))
  | "numpy.divmod", [x, k] => do
    -- numpy returns the pair (floor_divide(x, k), remainder(x, k)); the graph casts it to a tuple of tensors
    if !kwargs.isEmpty then failU "divmod with keywords"
    let a ← argOf x
    let b ← argOf k
    let q ← emit (.ewise "floor_divide" [a, b])
    let r ← emit (.ewise "remainder" [a, b])
    pure (.pendingList [q, r])
  | "numpy.arange", [n] => do
    -- only the integer dtypes einx passes for coordinates; the values are exact integers in the model
    match kwargs with
    | [] => pure ()
    | [_] =>
      match kwarg kwargs "dtype" with
      | some d =>
        let dt ← liftR (strF d "v")
        if !(["int32", "int64", "int16", "int8", "uint8", "uint16", "uint32", "uint64"].contains dt) then failU s!"arange with dtype {dt}"
      | none => failU "arange with an unknown keyword"
    | _ => failU "arange with extra keywords"
    if (← liftR (strF n "t")) != "int" then failU "arange: size is not an int"
    let i ← liftR (intF n "v")
    if i < 0 then failU "arange: negative size"
    pure (.pending (← emitX (.arange i.toNat)))
  | "numpy.take", [x, idx] => do
    if !kwargs.isEmpty then failU "take with keywords"
    pure (.pending (← emitX (.take (← regOf x) (← regOf idx))))
  | "numpy.flip", [x] => do
    match kwarg kwargs "axis" with
    | some a => pure (.pending (← emitX (.flip (← regOf x) (← liftR (natsOrNat a)))))
    | none => failU "flip without axis"
  | "numpy.roll", [x] => do
    match kwarg kwargs "axis", kwarg kwargs "shift" with
    | some a, some sh => pure (.pending (← emitX (.roll (← regOf x) (← liftR (intsOrInt sh)) (← liftR (natsOrNat a)))))
    | _, _ => failU "roll without axis/shift"
  | _, _ =>
    if fname == "numpy.einsum" then do
      match args with
      | spec :: ops =>
        let sp ← liftR (strF spec "v")
        match parseEinsumSpec sp with
        | some (li, lo) => pure (.pending (← emitX (.einsum li lo (← ops.mapM regOf))))
        | none => failU "einsum spec"
      | [] => failU "einsum without spec"
    else if fname.startsWith "numpy." && reduceNames.contains (fname.drop 6).toString && args.length == 1 then do
      let x ← regOf (args.getD 0 Json.null)
      let st ← get
      let rank := ((st.shapes[x]?).getD []).length
      let axes ← match kwarg kwargs "axis" with
        | some a => if (a.getObjVal? "t").toOption == some (Json.str "none") then pure (List.range rank) else liftR (natsOrNat a)
        | none => pure (List.range rank)
      let keep ← match kwarg kwargs "keepdims" with
        | some k => liftR (boolF k "v")
        | none => pure false
      if kwargs.any (fun kv => match kv.getArr? with
          | .ok a => a[0]! != Json.str "axis" && a[0]! != Json.str "keepdims"
          | .error _ => true) then failU s!"{fname} with extra keywords"
      pure (.pending (← emitX (.reduce (fname.drop 6).toString x axes keep)))
    else if fname.startsWith "numpy." && ewiseNames.contains (fname.drop 6).toString && kwargs.isEmpty then do
      let as ← args.mapM argOf
      pure (.pending (← emit (.ewise (fname.drop 6).toString as)))
    else failU s!"primitive {fname}/{args.length}"

def typeShape (tracers : Array Json) (id : Nat) : T (Option (List Nat)) := do
  match tracers[id]? with
  | none => failU "unknown tracer"
  | some t =>
    let ty ← liftR (fld t "type")
    match ← liftR (strF ty "ty") with
    | "value" => pure none
    | _ =>
      match fldOpt ty "shape" with
      | some (Json.arr a) => pure (some (← liftR (a.toList.mapM asNat)))
      | _ => pure none

def checkCast (tracers : Array Json) (outId : Nat) (r : Nat) : T Unit := do
  match ← typeShape tracers outId with
  | some s =>
    let st ← get
    if (st.shapes[r]?).getD [] != s then
      failR s!"traced shape {s} of tracer {outId} differs from the computed shape {(st.shapes[r]?).getD []}"
  | none => pure ()

def translateApp (tracers : Array Json) (a : Json) : T Unit := do
  let kind ← liftR (strF a "kind")
  let out ← liftR (fld a "out")
  match kind with
  | "import" =>
    let name ← liftR (strF a "import")
    if fldOpt a "from" != some Json.null then failU "from-import"
    bind (← liftR (refId out)) (.mod name)
  | "getattr" =>
    let key ← liftR (strF a "key")
    let obj ← liftR (fld a "obj")
    match ← lookup (← liftR (refId obj)) with
    | .mod m => bind (← liftR (refId out)) (.fn (m ++ "." ++ key))
    | .fn f => bind (← liftR (refId out)) (.fn (f ++ "." ++ key))
    | _ => failU "getattr on a non-module value"
  | "builtin" => bind (← liftR (refId out)) (.fn ("builtins." ++ (← liftR (strF a "name"))))
  | "call" =>
    let f ← liftR (fld a "function")
    match ← lookup (← liftR (refId f)) with
    | .fn fname =>
      let b ← translateCall fname (← liftR (arrF a "args")) (← liftR (arrF a "kwargs"))
      bind (← liftR (refId out)) b
    | _ => failU "call of a non-primitive"
  | "cast" =>
    let inp ← liftR (fld a "input")
    match ← lookup (← liftR (refId inp)) with
    | .pending r | .reg r =>
      let oid ← liftR (refId out)
      checkCast tracers oid r
      bind oid (.reg r)
    | .pendingList rs | .regs rs =>
      let items ← liftR (arrF out "v")
      if items.length != rs.length then failR "cast: number of results differs"
      for (it, r) in List.zip items rs do
        let oid ← liftR (refId it)
        checkCast tracers oid r
        bind oid (.reg r)
    | _ => failU "cast of a non-tensor"
  | "getitem" =>
    let obj ← liftR (fld a "obj")
    let key ← liftR (fld a "key")
    match ← lookup (← liftR (refId obj)) with
    | .reg r =>
      if (← liftR (strF key "t")) != "tuple" then failU "getitem: key is not a tuple"
      let ks ← (← liftR (arrF key "v")).mapM (fun k => do
        match ← liftR (strF k "t") with
        | "int" => do
          let i ← liftR (intF k "v")
          if i < 0 then failU "negative index" else pure (Key.idx i.toNat)
        | "none" => pure Key.newaxis
        | "slice" =>
          let parts ← liftR (arrF k "v")
          if parts.all (fun p => (p.getObjVal? "t").toOption == some (Json.str "none")) then pure Key.all
          else failU "getitem: general slice"
        | t => failU s!"getitem: key element {t}")
      bind (← liftR (refId out)) (.pending (← emit (.index r ks)))
    | _ => failU "getitem on a non-tensor"
  | k => failU s!"node kind {k}"

def translate (g : Json) : T (List Nat) := do
  let top ← liftR (fld g "top")
  let tracers := (← liftR (arrF g "tracers")).toArray
  if (fldOpt top "inlined").isSome then failU "graph inlined into a single function"
  let inputs ← liftR (natsF top "inputs")
  for id in inputs do
    match ← typeShape tracers id with
    | some s =>
      let st ← get
      set { st with shapes := st.shapes ++ [s], env := st.env.insert id (.reg st.shapes.length) }
    | none => failU "input without a shape"
  for a in ← liftR (arrF g "apps") do
    translateApp tracers a
  let out ← liftR (fld top "output")
  match ← liftR (strF out "t") with
  | "ref" => pure [← regOf out]
  | "tuple" | "list" => (← liftR (arrF out "v")).mapM regOf
  | t => failU s!"graph output of kind {t}"

def runTranslate (g : Json) : Outcome :=
  let (r, st) := (translate g).run.run {}
  match r with
  | .ok outs =>
    let nin := match (g.getObjVal? "top").toOption.bind (fun t => (t.getObjVal? "inputs").toOption.bind (·.getArr?.toOption)) with
      | some a => a.size
      | none => 0
    .ok st.prog (st.shapes.take nin) outs
  | .error o => o

def instrJsonB : Instr → Json
  | .reshape x s => Json.mkObj [("i", "reshape"), ("x", jNat x), ("shape", jNats s)]
  | .transpose x p => Json.mkObj [("i", "transpose"), ("x", jNat x), ("perm", jNats p)]
  | .broadcastTo x s => Json.mkObj [("i", "broadcast_to"), ("x", jNat x), ("shape", jNats s)]
  | .diagonal x a b => Json.mkObj [("i", "diagonal"), ("x", jNat x), ("a1", jNat a), ("a2", jNat b)]
  | .concat xs a => Json.mkObj [("i", "concat"), ("xs", jNats xs), ("axis", jNat a)]
  | .slice x a lo hi => Json.mkObj [("i", "slice"), ("x", jNat x), ("axis", jNat a), ("lo", jNat lo), ("hi", jNat hi)]
  | .index x key => Json.mkObj [("i", "index"), ("x", jNat x), ("key", jArr (key.map (fun k => match k with
      | .idx i => Json.mkObj [("k", "idx"), ("i", jNat i)]
      | .all => Json.mkObj [("k", "all")]
      | .newaxis => Json.mkObj [("k", "newaxis")])))]
  | .ewise f args => Json.mkObj [("i", "ewise"), ("f", Json.str f), ("args", jArr (args.map (fun a => match a with
      | .reg r => Json.mkObj [("reg", jNat r)]
      | .lit i => Json.mkObj [("lit", jInt i)])))]

def instrJson : InstrX → Json
  | .base i => instrJsonB i
  | .reduce f x axes k => Json.mkObj [("i", "reduce"), ("f", Json.str f), ("x", jNat x), ("axes", jNats axes), ("keepdims", Json.bool k)]
  | .einsum li lo xs => Json.mkObj [("i", "einsum"), ("spec_in", jArr (li.map jNats)), ("spec_out", jNats lo), ("xs", jNats xs)]
  | .matmul x y => Json.mkObj [("i", "matmul"), ("x", jNat x), ("y", jNat y)]
  | .flip x axes => Json.mkObj [("i", "flip"), ("x", jNat x), ("axes", jNats axes)]
  | .roll x sh axes => Json.mkObj [("i", "roll"), ("x", jNat x), ("shifts", jInts sh), ("axes", jNats axes)]
  | .argfind f x a => Json.mkObj [("i", "argfind"), ("f", Json.str f), ("x", jNat x), ("axis", jNat a)]
  | .sortAxis f x a => Json.mkObj [("i", "sort"), ("f", Json.str f), ("x", jNat x), ("axis", jNat a)]
  | .arange n => Json.mkObj [("i", "arange"), ("n", jNat n)]
  | .take x idx => Json.mkObj [("i", "take"), ("x", jNat x), ("idx", jNat idx)]

/-- The expected symbolic tensors of a solved operation (`none`: family not covered by the validator). -/
def expectedOf (family op : String) (shifts : List Int) (exprsIn exprsOut : List Expr) : Except String (Option (List (Tensor Cell))) := do
  match family, exprsIn, exprsOut with
  | "id", _, _ => pure (some (← denoteId exprsIn exprsOut))
  | "elementwise", _, [o] => pure (some [← denoteElementwise op exprsIn o])
  | "reduce", [i], [o] =>
    if reduceNames.contains op then pure (some [← denoteReduce op i o]) else pure none
  | "dot", _, [o] => pure (some [← denoteDot exprsIn o])
  | "preserve_shape", [i], [o] =>
    if op == "flip" || op == "roll" then pure (some [← denoteMove op shifts i o]) else pure none
  | _, _, _ => pure none

/-- n-ary elementwise operations ("takes any number of scalars"): a left fold of the binary function. -/
def naryNames : List String := ["add", "multiply", "logical_and", "logical_or", "maximum", "minimum", "logaddexp"]

/-- `expectedOf` extended by the families that only the validator / `denote` kinds use: n-ary
elementwise (≥ 3 operands), argmax/argmin, get_at, sort/argsort.  (`expectedOf` itself is also the loop
form that `denote_fun` compares with the functional form and is left as it is.) -/
def expectedOfX (family op : String) (shifts : List Int) (exprsIn exprsOut : List Expr) : Except String (Option (List (Tensor Cell))) := do
  match family, exprsIn, exprsOut with
  | "elementwise", _, [o] =>
    if exprsIn.length ≥ 3 then
      if naryNames.contains op then pure (some [← denoteElementwiseFold op exprsIn o]) else pure none
    else expectedOf family op shifts exprsIn exprsOut
  | "argfind", [i], [o] =>
    if op == "argmax" || op == "argmin" then pure (some [← denoteArgfind op i o]) else pure none
  | "get_at", _, [o] => pure (some [← denoteGetAt exprsIn o])
  | "preserve_shape", [i], [o] =>
    if op == "sort" || op == "argsort" then pure (some [← denoteSort op i o])
    else expectedOf family op shifts exprsIn exprsOut
  | _, _, _ => expectedOf family op shifts exprsIn exprsOut

/-- kind `validate`: graph JSON + solved operation → verdict. -/
def handleValidate (j : Json) : R Json := do
  let g ← fld j "graph"
  let family ← strF j "family"
  let op ← strF j "op"
  let exprsIn ← (← arrF j "exprs_in").mapM parseExpr
  let exprsOut ← (← arrF j "exprs_out").mapM parseExpr
  let shifts ← match fldOpt j "shifts" with
    | some sh => (← asArr sh).mapM asInt
    | none => pure []
  match expectedOfX family op shifts exprsIn exprsOut with
  | .error e =>
    if e.startsWith "unsupported:" then pure (Json.mkObj [("verdict", "unsupported"), ("why", Json.str e)])
    else pure (Json.mkObj [("verdict", "denote-error"), ("why", Json.str e)])
  | .ok none => pure (Json.mkObj [("verdict", "unsupported"), ("why", Json.str s!"family {family}")])
  | .ok (some expected) =>
    match runTranslate g with
    | .unsupported why => pure (Json.mkObj [("verdict", "unsupported"), ("why", Json.str why)])
    | .rejected why => pure (Json.mkObj [("verdict", "rejected"), ("why", Json.str why)])
    | .ok prog inShapes outs =>
      if inShapes != exprsIn.map shapeOf then
        pure (Json.mkObj [("verdict", "rejected"), ("why", Json.str s!"input shapes {inShapes} differ from the expressions' shapes")])
      else if validateG planInstrX prog inShapes outs expected then
        pure (Json.mkObj [("verdict", "accepted"), ("mode", "syntactic"), ("instrs", jNat prog.length), ("prog", jArr (prog.map instrJson))])
      else if family == "elementwise" && exprsIn.length ≥ 3 && (match exprsOut with
          | [o] => (match denoteElementwise op exprsIn o with
            | .ok t => validateG planInstrX prog inShapes outs [t]
            | .error _ => false)
          | _ => false) then
        -- an n-ary operation lowered to one call with all operands (the einsum backend's `multiply`): the program
        -- equals the documented flat form `f(in_1, …, in_n)` (`denoteElementwise`) instead of the left fold
        pure (Json.mkObj [("verdict", "accepted"), ("mode", "flat-nary"), ("instrs", jNat prog.length), ("prog", jArr (prog.map instrJson))])
      else if family == "get_at" && validateArith planInstrX prog inShapes outs expected then
        -- index arithmetic in another association / order: equal modulo integer arithmetic (`validate_sound_arith`)
        pure (Json.mkObj [("verdict", "accepted"), ("mode", "arith"), ("instrs", jNat prog.length), ("prog", jArr (prog.map instrJson))])
      else
        let got := match symRunG planInstrX prog inShapes outs with
          | .ok res => jArr (res.map (fun t => Json.mkObj [("shape", jNats t.shape), ("cells", jArr ((t.data.take 12).map cellJson))]))
          | .error e => Json.str e
        pure (Json.mkObj [("verdict", "rejected"), ("why", "symbolic result differs from the denotation"),
          ("got", got), ("expected", jArr (expected.map (fun t => Json.mkObj [("shape", jNats t.shape), ("cells", jArr ((t.data.take 12).map cellJson))]))),
          ("prog", jArr (prog.map instrJson))])

/-- kind `denote`: solved operation + integer inputs → outputs of the Lean denotation (for the oracle cross-check). -/
def handleDenote (j : Json) : R Json := do
  let family ← strF j "family"
  let op ← strF j "op"
  let exprsIn ← (← arrF j "exprs_in").mapM parseExpr
  let exprsOut ← (← arrF j "exprs_out").mapM parseExpr
  let inputs ← (← arrF j "inputs").mapM parseTensor
  let shifts ← match fldOpt j "shifts" with
    | some sh => (← asArr sh).mapM asInt
    | none => pure []
  match expectedOfX family op shifts exprsIn exprsOut with
  | .error e =>
    if e.startsWith "unsupported:" then pure (Json.mkObj [("unsupported", Json.str e)])
    else pure (Json.mkObj [("err", Json.str e)])
  | .ok none => pure (Json.mkObj [("unsupported", Json.str family)])
  | .ok (some ts) =>
    pure (Json.mkObj [("ok", jArr (ts.map (fun t => tensorJson (⟨t.shape, evalCells intAlg inputs t.data⟩ : Tensor Int))))])

/-- kind `norm_arith`: cells → their arithmetic normal forms and, when integer inputs are given, the values
of the cells and of their normal forms (self-check of `IR.normArith` on every run). -/
def handleNormArith (j : Json) : R Json := do
  let cells ← (← arrF j "cells").mapM parseCell
  let norm := cells.map normArith
  match fldOpt j "inputs" with
  | some _ =>
    let inputs ← (← arrF j "inputs").mapM parseTensor
    pure (Json.mkObj [("norm", jArr (norm.map cellJson)), ("values", jInts (evalCells intAlg inputs cells)),
      ("norm_values", jInts (evalCells intAlg inputs norm))])
  | none => pure (Json.mkObj [("norm", jArr (norm.map cellJson))])

def handle (j : Json) : R Json := do
  match ← strF j "kind" with
  | "ir_run" => handleRun j
  | "norm_arith" => handleNormArith j
  | "validate" => handleValidate j
  | "denote" => handleDenote j
  | k => throw s!"unknown kind {k}"

end Einx.Driver.IR
