import EinxModel.Driver.Solve
import EinxModel.Solve.Shorthand
import EinxModel.Solve.Names
open Lean Einx.Driver Einx.Solve

/-! Request kind `shorthand` (C07, stage-2/3 shorthands).

`{"kind":"shorthand","op":…, "tensors":[…], "constraints":[…], …}` (trees as in `Driver/Solve.lean`)

* `op = "unroll"`: `counts` optional (`[[id, n], …]`; default: the counts the reference solver derives at
  the rank level).  Answer: the long form `unrollInput inp ρ`, hypotheses of `ellipsis_unroll`
  (`rank_ok`, `wf`, `names_ok_short`, `names_ok_long`), `solveAll` of both forms.
* `op = "num"`: `name`, `value`; the request carries the LONG form *without* the constraint `name=value`.
  Answer: short form `numForm`, long form `withNumConstraint`, hypotheses (`same_stack`, `fresh`,
  `no_other_constraint`, `names_ok_*`), `solveAll` of both.
* `op = "broadcast"`: `index` (position of the constraint), `d`.  Answer: the input with that constraint
  array repeated `d` times (`Constraint.broadcast`), the ellipsis stack of the first occurrence, `solveAll`
  of both.
* `op = "rename"`: `from`, `to`.  Answer: `renameInput (swapName from to)`, `solveAll` of both.

Every answer carries `plain`: the syntactic condition `plainNames` of `Solve/Names.lean` on the request's
trees (for `rename` also `plainName to`), from which `Props/C07Names.lean` derives `names_ok_*`, `fresh`, `ren_ok`.
-/
namespace Einx.Driver.Shorthand
open Einx.Driver.Solve

partial def exprJson : Expr → Json
  | .axis n => Json.mkObj [("t", "axis"), ("n", Json.str n)]
  | .num v => Json.mkObj [("t", "num"), ("v", jNat v)]
  | .list cs => Json.mkObj [("t", "list"), ("c", jArr (cs.map exprJson))]
  | .concat cs => Json.mkObj [("t", "concat"), ("c", jArr (cs.map exprJson))]
  | .flat e => Json.mkObj [("t", "flat"), ("e", exprJson e)]
  | .brackets e => Json.mkObj [("t", "br"), ("e", exprJson e)]
  | .ellipsis id e => Json.mkObj [("t", "ell"), ("id", Json.str id), ("e", exprJson e)]

def inputJson (inp : Input) : Json :=
  Json.mkObj [
    ("tensors", jArr (inp.tensors.map (fun t => Json.mkObj [("expr", exprJson t.expr),
      ("shape", match t.shape with | none => Json.null | some d => jNats d)]))),
    ("constraints", jArr (inp.constraints.map (fun c =>
      Json.mkObj [("name", Json.str c.name), ("shape", jNats c.shape), ("vals", jNats c.vals)]))),
    ("text", jStrs (inp.tensors.map (fun t => t.expr.render)))]

def countsOf (inp : Input) (j : Json) : R (Option Assign) :=
  match fldOpt j "counts" with
  | some c => do pure (some (← parseAssign c))
  | none =>
    match propagate (rankSystem true inp) with
    | .unique c => pure (some c)
    | _ => pure none

def wfConstraints (inp : Input) : Bool :=
  inp.constraints.all (fun c => c.vals.length == c.shape.foldr (· * ·) 1)

def handle (j : Json) : R Json := do
  let inp ← parseInput j
  match ← strF j "op" with
  | "unroll" =>
    match ← countsOf inp j with
    | none => pure (Json.mkObj [("ok", Json.bool false), ("why", "counts not determined at the rank level")])
    | some c =>
      let ρ := toFun c
      let long := unrollInput inp ρ
      pure (Json.mkObj [("ok", Json.bool true), ("counts", jAssign c), ("long", inputJson long),
        ("plain", Json.bool (plainNames inp)),
        ("rank_ok", Json.bool (checkSat (rankSystem true inp) c)),
        ("wf", Json.bool (wfConstraints inp)),
        ("names_ok_short", Json.bool (namesOK inp ρ)),
        ("names_ok_long", Json.bool (namesOK long (toFun []))),
        ("long_ellipses", jNat long.ellIds.length),
        ("long_rank_ok", Json.bool (checkSat (rankSystem true long) [])),
        ("solve_short", outcomeJson inp), ("solve_long", outcomeJson long)])
  | "num" =>
    let n ← strF j "name"
    let v ← natF j "value"
    let short := numForm inp n v
    let long := withNumConstraint inp n v
    let c ← countsOf long j
    let ρ := toFun (c.getD [])
    pure (Json.mkObj [("ok", Json.bool true), ("short", inputJson short), ("long", inputJson long),
      ("counts_known", Json.bool c.isSome),
      ("plain", Json.bool (plainNames inp)),
      ("value_pos", Json.bool (decide (1 ≤ v))),
      ("no_other_constraint", Json.bool (inp.constraints.all (fun c => c.name != n))),
      ("same_stack", Json.bool (sameStack inp n)),
      ("fresh", Json.bool (freshVars inp ρ n)),
      ("names_ok_short", Json.bool (namesOK short ρ)),
      ("names_ok_long", Json.bool (namesOK long ρ)),
      ("solve_short", outcomeJson short), ("solve_long", outcomeJson long)])
  | "broadcast" =>
    let i ← natF j "index"
    let d ← natF j "d"
    match inp.constraints[i]? with
    | none => throw "broadcast: no such constraint"
    | some c =>
      let long : Input := { inp with constraints := inp.constraints.take i ++ c.broadcast d :: inp.constraints.drop (i + 1) }
      let st := inp.occs.lookup c.name
      let level : Option Var := st.bind (fun st => if c.shape.length < st.length then st[st.length - c.shape.length - 1]? else none)
      pure (Json.mkObj [("ok", Json.bool true), ("long", inputJson long),
        ("plain", Json.bool (plainNames inp)),
        ("wf", Json.bool (c.vals.length == c.shape.foldr (· * ·) 1)),
        ("stack", match st with | none => Json.null | some s => jStrs s),
        ("level", match level with | none => Json.null | some s => Json.str s),
        ("solve_short", outcomeJson inp), ("solve_long", outcomeJson long)])
  | "rename" =>
    let a ← strF j "from"
    let b ← strF j "to"
    let long := renameInput (swapName a b) inp
    let c ← countsOf inp j
    let ρ := toFun (c.getD [])
    pure (Json.mkObj [("ok", Json.bool true), ("long", inputJson long),
      ("counts_known", Json.bool c.isSome),
      ("plain", Json.bool (plainNames inp && plainName b)),
      ("target_unused", Json.bool (!inp.names.contains b)),
      ("ren_ok", Json.bool (renOK (swapName a b) inp ρ)),
      ("names_ok_short", Json.bool (namesOK inp ρ)),
      ("names_ok_long", Json.bool (namesOK long ρ)),
      ("solve_short", outcomeJson inp), ("solve_long", outcomeJson long)])
  | k => throw s!"unknown shorthand op {k}"

end Einx.Driver.Shorthand
