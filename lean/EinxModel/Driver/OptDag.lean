import EinxModel.Driver.Util
import EinxModel.Optimize.DagSem
import EinxModel.Optimize.DagMeasure
open Lean Einx.Driver

/-! Driver kind `optdag` (C05): run the model of the real optimiser traversal (`Optimize/Dag.lean: optimizeDag`) on a
serialised store (tools/lib/dagcap.py) with a serialised pattern list, and return the resulting store, the `changed`
flag of every pass, or the exception class Python would raise.

JSON encoding: token `["r", i] | ["g", k] | ["a", kind, value?] | ["o", container, n]`; type `["value"] |
["tensor", shape] | ["conv", shape | null, cid]`; head `[name, fields…]`; node `{"ty", "origin": null | {"app": …} |
{"proj": [src, k]}}`; program `{"nodes", "graphs", "top"}`. -/
namespace Einx.Driver.OptDag
open Einx.OptDag

def optStr (j : Json) : R (Option String) :=
  if j.isNull then pure none else do pure (some (← asStr j))

def parseTok (j : Json) : R Tok := do
  match ← asArr j with
  | [k, a] =>
    match ← asStr k with
    | "r" => pure (.ref (← asNat a))
    | "g" => pure (.gref (← asNat a))
    | "a" => if (← asStr a) == "none" then pure (.atom .none) else throw "bad atom"
    | _ => throw "bad token"
  | [k, a, b] =>
    match ← asStr k with
    | "a" =>
      match ← asStr a with
      | "int" => pure (.atom (.int (← asInt b)))
      | "str" => pure (.atom (.str (← asStr b)))
      | "float" => pure (.atom (.float (← asStr b)))
      | "bool" => pure (.atom (.bool (← asBool b)))
      | "other" => pure (.atom (.other (← asStr b)))
      | _ => throw "bad atom"
    | "o" =>
      let n ← asNat b
      match ← asStr a with
      | "tuple" => pure (.open_ .tuple n)
      | "list" => pure (.open_ .list n)
      | "dict" => pure (.open_ .dict n)
      | "slice" => pure (.open_ .slice n)
      | _ => throw "bad container"
    | _ => throw "bad token"
  | _ => throw "bad token"

def parseToks (j : Json) : R (List Tok) := do (← asArr j).mapM parseTok

def parseTy (j : Json) : R Ty := do
  match ← asArr j with
  | [k] => if (← asStr k) == "value" then pure .value else throw "bad type"
  | [k, s] => if (← asStr k) == "tensor" then do pure (.tensor (← (← asArr s).mapM asNat)) else throw "bad type"
  | [k, s, c] =>
    if (← asStr k) == "conv" then do
      let sh ← (if s.isNull then pure none else do pure (some (← (← asArr s).mapM asNat)))
      pure (.convertible sh (← asNat c))
    else throw "bad type"
  | _ => throw "bad type"

def parseHead (j : Json) : R Head := do
  match ← asArr j with
  | [k] =>
    match ← asStr k with
    | "call" => pure .call
    | "call_inplace" => pure .callInplace
    | "getitem" => pure .getitem
    | "cast" => pure .cast
    | _ => throw "bad head"
  | [k, a] =>
    match ← asStr k with
    | "getattr" => pure (.getattr (← asStr a))
    | "updateitem" => pure (.updateitem (← asStr a))
    | "operator" => pure (.operator (← asStr a))
    | "builtin" => pure (.builtin (← asStr a))
    | "assert" => pure (.assert_ (← optStr a))
    | "constant" => pure (.constant (← asStr a))
    | _ => throw "bad head"
  | [k, a, b, c] =>
    if (← asStr k) == "import" then pure (.import_ (← asStr a) (← optStr b) (← optStr c)) else throw "bad head"
  | _ => throw "bad head"

def parseApp (j : Json) : R App := do
  let kw ← (← arrF j "kwargs").mapM (fun e => do
    match ← asArr e with
    | [k, v] => pure ((← asStr k), (← parseToks v))
    | _ => throw "bad kwarg")
  pure { head := ← parseHead (← fld j "head"), pre := ← (← arrF j "pre").mapM parseToks, args := ← (← arrF j "args").mapM parseToks,
         kwargs := kw, deps := ← (← arrF j "deps").mapM parseToks, out := ← parseToks (← fld j "out") }

def parseNode (j : Json) : R Node := do
  let ty ← parseTy (← fld j "ty")
  let o ← fld j "origin"
  if o.isNull then pure ⟨ty, .none⟩ else
  match fldOpt o "app", fldOpt o "proj" with
  | some a, _ => pure ⟨ty, .app (← parseApp a)⟩
  | none, some p =>
    match ← (← asArr p).mapM asNat with
    | [src, k] => pure ⟨ty, .proj src k⟩
    | _ => throw "bad proj"
  | none, none => throw "bad origin"

def parseGraph (j : Json) : R GraphV := do
  pure ⟨← natsF j "inputs", ← parseToks (← fld j "output"), ← optStr (← fld j "name")⟩

def parseProg (j : Json) : R Prog := do
  pure ⟨⟨← (← arrF j "nodes").mapM parseNode, ← (← arrF j "graphs").mapM parseGraph⟩, ← parseToks (← fld j "top")⟩

def parseFnPat (j : Json) : R FnPat := do
  pure ⟨← strF j "import", ← optStr (← fld j "from"), ← optStr (← fld j "as"), ← strsF j "path"⟩

def parsePattern (j : Json) : R Pattern := do
  match ← strF j "name" with
  | "SkipReshape" => pure (.skipReshape (← parseFnPat (← fld j "fn")))
  | "SkipTranspose" => pure (.skipTranspose (← parseFnPat (← fld j "fn")))
  | "SkipBroadcastTo" => pure (.skipBroadcastTo (← parseFnPat (← fld j "fn")))
  | "SkipConcatenate" => pure (.skipConcatenate (← parseFnPat (← fld j "fn")))
  | "InlineGraph" => pure .inlineGraph
  | "SkipCast" => pure .skipCast
  | k => throw s!"unknown pattern {k}"

def jOptStr : Option String → Json
  | some s => Json.str s
  | none => Json.null

def tokJson : Tok → Json
  | .ref i => jArr ["r", jNat i]
  | .gref k => jArr ["g", jNat k]
  | .atom (.int v) => jArr ["a", "int", jInt v]
  | .atom (.str s) => jArr ["a", "str", Json.str s]
  | .atom (.float s) => jArr ["a", "float", Json.str s]
  | .atom (.bool b) => jArr ["a", "bool", Json.bool b]
  | .atom .none => jArr ["a", "none"]
  | .atom (.other s) => jArr ["a", "other", Json.str s]
  | .open_ c n => jArr ["o", (match c with | .tuple => "tuple" | .list => "list" | .dict => "dict" | .slice => "slice"), jNat n]

def toksJson (v : List Tok) : Json := jArr (v.map tokJson)

def tyJson : Ty → Json
  | .value => jArr ["value"]
  | .tensor s => jArr ["tensor", jNats s]
  | .convertible s c => jArr ["conv", (match s with | some s => jNats s | none => Json.null), jNat c]

def headJson : Head → Json
  | .call => jArr ["call"]
  | .callInplace => jArr ["call_inplace"]
  | .getattr k => jArr ["getattr", Json.str k]
  | .getitem => jArr ["getitem"]
  | .updateitem op => jArr ["updateitem", Json.str op]
  | .import_ i f a => jArr ["import", Json.str i, jOptStr f, jOptStr a]
  | .operator op => jArr ["operator", Json.str op]
  | .builtin n => jArr ["builtin", Json.str n]
  | .assert_ m => jArr ["assert", jOptStr m]
  | .constant r => jArr ["constant", Json.str r]
  | .cast => jArr ["cast"]

def appJson (a : App) : Json :=
  Json.mkObj [("head", headJson a.head), ("pre", jArr (a.pre.map toksJson)), ("args", jArr (a.args.map toksJson)),
    ("kwargs", jArr (a.kwargs.map (fun (k, v) => jArr [Json.str k, toksJson v]))), ("deps", jArr (a.deps.map toksJson)),
    ("out", toksJson a.out)]

def nodeJson (n : Node) : Json :=
  Json.mkObj [("ty", tyJson n.ty), ("origin", match n.origin with
    | .none => Json.null
    | .app a => Json.mkObj [("app", appJson a)]
    | .proj s k => Json.mkObj [("proj", jNats [s, k])])]

def graphJson (g : GraphV) : Json :=
  Json.mkObj [("inputs", jNats g.inputs), ("output", toksJson g.output), ("name", jOptStr g.name)]

def progJson (p : Prog) : Json :=
  Json.mkObj [("nodes", jArr (p.store.nodes.map nodeJson)), ("graphs", jArr (p.store.graphs.map graphJson)), ("top", toksJson p.top)]

def errJson : Err → Json
  | .fuel => Json.mkObj [("error_kind", "fuel")]
  | .py e => Json.mkObj [("error_kind", "py"), ("exc", Json.str e)]
  | .unsupported w => Json.mkObj [("error_kind", "unsupported"), ("why", Json.str w)]

/-- `Prog.weight` before the first pass and after every pass of the run (the measure of `Props/C05Dag2.lean: pass_decreases_dag`). -/
def weightsRun (pats : List Pattern) : Nat → Prog → List Nat
  | 0, p => [p.weight]
  | n + 1, p =>
    p.weight :: (match pass pats p.fuel p with
      | .ok (p', true) => weightsRun pats n p'
      | .ok (p', false) => [p'.weight]
      | _ => [])

def hasEffects (p : Prog) : Bool :=
  p.store.nodes.any (fun n => match n.origin with | .app a => a.head.isEffect | _ => false)

/-- kind `optdag`: `{"prog", "patterns", "max_passes"}` → `{"prog", "changed"}` | `{"error_kind", …}`. -/
def handle (j : Json) : R Json := do
  match ← strF j "kind" with
  | "optdag" =>
    let p ← parseProg (← fld j "prog")
    let pats ← (← arrF j "patterns").mapM parsePattern
    let n ← natF j "max_passes"
    match optimizeDag pats n p with
    | .ok (q, log) =>
      -- `good_run`: the decidable side conditions of `Props/C05Dag.lean: optimizeDag_sound` hold for this run
      pure (Json.mkObj [("prog", progJson q), ("changed", jArr (log.map Json.bool)), ("good_run", Json.bool (goodRun pats n p)),
        ("wf_top", Json.bool p.wfTop), ("pure_lang", Json.bool p.pureLang), ("fuel_run", Json.bool (fuelRun pats n p)), ("no_top_inline", Json.bool (noTopInline pats p)),
        -- input-only side conditions of `Props/C05Dag2.lean` and the one run condition `noInlineRun`
        ("topo_ok", Json.bool p.topoOK), ("measure_ok", Json.bool p.measureOK), ("no_inline_run", Json.bool (noInlineRun pats n p)),
        ("weights", jNats (weightsRun pats n p)), ("has_effects", Json.bool (hasEffects p)),
        -- the graph is inside the domain of `optimizeDag_sound_input` (structural part: the evaluator's node language)
        ("in_domain", Json.bool (p.wfTop && p.topoOK && noInlineRun pats n p && p.pureLang))])
    | .error e => pure (errJson e)
  | k => throw s!"unknown kind {k}"

end Einx.Driver.OptDag
