import EinxModel.Driver.Util
import EinxModel.Proofs.NotationNFDefs
/-! Driver for the normal form of `parse_op`'s output (C12 `parse_print_parse`): for a text, the model's verdicts
`NRoot`, `Excluded` (with its components) and `Printable` on the tree of `parseOp`, and the printed form. -/
open Lean Einx.Driver Einx.Notation

namespace Einx.Driver.NotationNF

def handle (j : Json) : R Json := do
  let text := (← strF j "text").toList
  match parseOp text with
  | .error _ => pure (Json.mkObj [("ok", Json.bool false)])
  | .ok t =>
    pure (Json.mkObj [("ok", Json.bool true), ("str", Json.str (String.ofList t.print)),
      ("nroot", Json.bool (NRoot t)), ("excluded", Json.bool (Excluded t)), ("printable", Json.bool (Printable t)),
      ("ellList", Json.bool (anyNode patEllList t)), ("ellEll", Json.bool (anyNode patEllEll t)),
      ("flatConcat", Json.bool (anyNode patFlatConcat t)),
      ("adjSpaces", Json.bool (hasAdjSpaces (textsL t.ptree)))])

end Einx.Driver.NotationNF
