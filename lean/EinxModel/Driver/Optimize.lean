import EinxModel.Driver.IR
import EinxModel.Optimize.Rules
import EinxModel.Extracted.Kernels
open Lean Einx.Driver Einx.IR Einx.Driver.IR

/-! Driver kinds of the optimiser area (C05):

* `equiv`: two serialised tracer graphs (before / after `tracer.optimize`) are translated into straight-line
  programs by the translation of `Driver/IR.lean` and compared by `Optimize.equivProgs` (symbolic results
  identical cell by cell; `Props/C05.lean: equiv_sound` turns acceptance into equality for all tensor contents).
  When `InlineGraph` collapsed the whole graph into the function it wraps, the post graph is the bare function:
  it is read as "call that function on the graph inputs".
* `equiv_progs`: the same comparison for two programs given directly.
* `kernel`: the extracted kernels evaluated on concrete arguments (correspondence with the real patterns). -/
namespace Einx.Driver.Optimize

/-- Translation of `{"inlined": f}`: the compiled function is `f` itself, applied to the graph inputs. -/
def translateInlined (g : Json) (inShapes : List (List Nat)) : T (List Nat) := do
  let top ← liftR (fld g "top")
  let tracers := (← liftR (arrF g "tracers")).toArray
  let f ← liftR (fld top "inlined")
  -- fresh ids for the inputs, beyond every serialised tracer
  let base := tracers.size
  let mut refs : List Json := []
  for s in inShapes do
    let st ← get
    let id := base + st.shapes.length
    set { st with shapes := st.shapes ++ [s], env := st.env.insert id (.reg st.shapes.length) }
    refs := refs ++ [Json.mkObj [("t", "ref"), ("id", jNat id)]]
  for a in ← liftR (arrF g "apps") do
    translateApp tracers a
  match ← lookup (← liftR (refId f)) with
  | .fn fname =>
    match ← translateCall fname refs [] with
    | .pending r => pure [r]
    | .pendingList rs => pure rs
    | _ => failU "inlined function does not return tensors"
  | _ => failU "inlined value is not a primitive function"

def isInlined (g : Json) : Bool :=
  match g.getObjVal? "top" with
  | .ok top => (fldOpt top "inlined").isSome
  | .error _ => false

def runTranslateWith (g : Json) (inShapes : List (List Nat)) : Outcome :=
  if isInlined g then
    let (r, st) := (translateInlined g inShapes).run.run {}
    match r with
    | .ok outs => .ok st.prog (st.shapes.take inShapes.length) outs
    | .error o => o
  else runTranslate g

def cellsPreview (ts : List (Tensor Cell)) : Json :=
  jArr (ts.map (fun t => Json.mkObj [("shape", jNats t.shape), ("cells", jArr ((t.data.take 8).map cellJson))]))

/-- First position at which two lists of symbolic tensors differ. -/
def firstDiff (as bs : List (Tensor Cell)) : Json :=
  let rec go (i : Nat) : List (Tensor Cell) → List (Tensor Cell) → Json
    | [], [] => Json.null
    | a :: as, b :: bs =>
      if a.shape != b.shape then Json.mkObj [("output", jNat i), ("shape_pre", jNats a.shape), ("shape_post", jNats b.shape)]
      else
        match (List.zip (List.range a.data.length) (List.zip a.data b.data)).find? (fun (_, (x, y)) => !Cell.beq x y) with
        | some (k, (x, y)) => Json.mkObj [("output", jNat i), ("shape", jNats a.shape), ("flat", jNat k), ("pre", cellJson x), ("post", cellJson y)]
        | none => if a.data.length != b.data.length then Json.mkObj [("output", jNat i), ("lengths", jNats [a.data.length, b.data.length])] else go (i + 1) as bs
    | _, _ => Json.mkObj [("outputs", "different number of outputs")]
  go 0 as bs

def compareProgs (prog1 : List InstrX) (outs1 : List Nat) (prog2 : List InstrX) (outs2 : List Nat) (inShapes : List (List Nat)) : Json :=
  -- symbolic equivalence over the extended instruction set (sound by `IR.equivG_sound`; for programs over the
  -- base instruction set this coincides with `Optimize.equivProgs`, whose soundness is `equiv_sound`)
  if equivG planInstrX prog1 prog2 inShapes outs1 outs2 then
    Json.mkObj [("verdict", "equal"), ("instrs_pre", jNat prog1.length), ("instrs_post", jNat prog2.length)]
  else
    match symRunG planInstrX prog1 inShapes outs1, symRunG planInstrX prog2 inShapes outs2 with
    | .ok r1, .ok r2 =>
      Json.mkObj [("verdict", "differs"), ("where", firstDiff r1 r2), ("pre", cellsPreview r1), ("post", cellsPreview r2),
        ("prog_pre", jArr (prog1.map instrJson)), ("prog_post", jArr (prog2.map instrJson))]
    | .error e, _ => Json.mkObj [("verdict", "rejected"), ("side", "pre"), ("why", Json.str e)]
    | _, .error e => Json.mkObj [("verdict", "rejected"), ("side", "post"), ("why", Json.str e)]

/-- kind `equiv`. -/
def handleEquiv (j : Json) : R Json := do
  let pre ← fld j "pre"
  let post ← fld j "post"
  match runTranslate pre with
  | .unsupported why => pure (Json.mkObj [("verdict", "unsupported"), ("side", "pre"), ("why", Json.str why)])
  | .rejected why => pure (Json.mkObj [("verdict", "rejected"), ("side", "pre"), ("why", Json.str why)])
  | .ok prog1 inShapes outs1 =>
    match runTranslateWith post inShapes with
    | .unsupported why => pure (Json.mkObj [("verdict", "unsupported"), ("side", "post"), ("why", Json.str why)])
    | .rejected why => pure (Json.mkObj [("verdict", "rejected"), ("side", "post"), ("why", Json.str why),
        ("prog_pre", jArr (prog1.map instrJson))])
    | .ok prog2 inShapes2 outs2 =>
      if inShapes != inShapes2 then
        pure (Json.mkObj [("verdict", "differs"), ("where", Json.mkObj [("input_shapes_pre", jArr (inShapes.map jNats)), ("input_shapes_post", jArr (inShapes2.map jNats))])])
      else pure (compareProgs prog1 outs1 prog2 outs2 inShapes)

/-- kind `equiv_progs`. -/
def handleEquivProgs (j : Json) : R Json := do
  let prog1 ← (← arrF j "prog_pre").mapM parseInstr
  let prog2 ← (← arrF j "prog_post").mapM parseInstr
  let inShapes ← (← arrF j "in_shapes").mapM (fun s => do (← asArr s).mapM asNat)
  pure (compareProgs prog1 (← natsF j "outs_pre") prog2 (← natsF j "outs_post") inShapes)

def jOptNats : Option (List Nat) → Json
  | some l => jNats l
  | none => Json.null

/-- kind `kernel`: evaluate an extracted kernel. -/
def handleKernel (j : Json) : R Json := do
  match ← strF j "name" with
  | "composePerm" => pure (Json.mkObj [("r", jOptNats (Einx.Extracted.composePerm (← natsF j "perm1") (← natsF j "perm2")))])
  | "reshapeNoop" => pure (Json.mkObj [("r", Json.bool (Einx.Extracted.reshapeNoop (← natsF j "shape") (← natsF j "input_shape")))])
  | "transposeNoop" => pure (Json.mkObj [("r", Json.bool (Einx.Extracted.transposeNoop (← natsF j "perm") (← natF j "ndim")))])
  | "broadcastNoop" => pure (Json.mkObj [("r", Json.bool (Einx.Extracted.broadcastNoop (← natsF j "shape") (← natsF j "input_shape")))])
  | "concatNoop" => pure (Json.mkObj [("r", Json.bool (Einx.Extracted.concatNoop (← natF j "n")))])
  | k => throw s!"unknown kernel {k}"

def handle (j : Json) : R Json := do
  match ← strF j "kind" with
  | "equiv" => handleEquiv j
  | "equiv_progs" => handleEquivProgs j
  | "kernel" => handleKernel j
  | k => throw s!"unknown kind {k}"

end Einx.Driver.Optimize
