import EinxModel.Driver.Util
import EinxModel.Driver.Registry
import EinxModel.Registry.Concurrent
open Lean Einx.Driver Einx.Registry Einx.Registry.Conc

/-!
Driver for the interleaving semantics (C10).

* `sched`            lock cfg + initial ops + per-thread programs + schedule → outcomes per thread, final state,
                     finished / deadlock, commit order
* `serial_outcomes`  programs → outcomes of all serial interleavings at call granularity
* `explore`          lock cfg + programs → all outcomes reachable under *any* schedule of the micro-step semantics
                     (each with one witness schedule), for small programs
-/
namespace Einx.Driver.Concurrent

def parseLocks (j : Json) : R LockCfg := do
  pure { register := ← boolF j "register", registerOnImport := ← boolF j "register_on_import",
         getByTensors := ← boolF j "get_by_tensors", getByName := ← boolF j "get_by_name",
         get := ← boolF j "get", enter := ← boolF j "enter", exit := ← boolF j "exit" }

structure Req where
  rc : Cfg
  w0 : World
  progs : List (List Op)

def parseReq (j : Json) : R Req := do
  let cfgJ ← fld j "cfg"
  let rc : Cfg := { registerClearsMemo := ← boolF cfgJ "registerClearsMemo" }
  let mods ← strsF j "mods"
  let initOps ← (← arrF j "init").mapM Registry.parseOp
  let w0 := (runOps rc { st := {}, mods := mods } initOps).1
  let progs ← (← arrF j "progs").mapM (fun p => do (← asArr p).mapM Registry.parseOp)
  pure { rc, w0, progs }

def outcomeJson (o : Outcome) : Json :=
  Json.mkObj [("outs", jArr (o.outs.map (fun l => jArr (l.map Registry.outJson)))),
              ("state", Registry.stateJson o.st), ("mods", jStrs o.mods)]

def pcJson : PC → Json
  | .idle => "idle"
  | .acquired => "acquired"
  | .read _ => "read"
  | .releasing => "releasing"

def handleSched (j : Json) : R Json := do
  let r ← parseReq j
  let lc ← parseLocks (← fld j "locks")
  let sched ← natsF j "schedule"
  for i in sched do
    if i ≥ r.progs.length then throw s!"schedule names thread {i}"
  let c := run r.rc lc (init r.w0 r.progs) sched
  pure (Json.mkObj [
    ("finished", Json.bool c.finished),
    ("deadlock", Json.bool (!c.finished && !c.anyEnabled r.rc lc)),
    ("outcome", outcomeJson c.outcome),
    ("pcs", jArr (c.threads.map (fun t => pcJson t.pc))),
    ("lock", match c.lock with | none => Json.null | some i => jNat i),
    ("commit_order", jNats (c.lin.map (·.1)))])

def handleSerial (j : Json) : R Json := do
  let r ← parseReq j
  let total := (r.progs.map List.length).sum
  if total > 9 then throw "serial_outcomes: programs too long"
  let orders := serialOrders r.progs
  pure (Json.mkObj [("outcomes", jArr (orders.map (fun o =>
    let oc := serialOutcome r.rc r.w0 r.progs.length o
    Json.mkObj [("order", jNats (o.map (·.1))), ("outcome", outcomeJson oc)])))])

/-- Exhaustive exploration of the micro-step semantics (worklist, configurations compared without the ghost history). -/
partial def exploreLoop (rc : Cfg) (lc : LockCfg) (n : Nat) (work : List (Conf × List Nat)) (seen : Array Conf)
    (acc : Array (Outcome × Bool × List Nat)) (budget : Nat) : Except String (Array (Outcome × Bool × List Nat) × Nat) :=
  match work with
  | [] => .ok (acc, seen.size)
  | (c, path) :: rest =>
    if budget = 0 then .error "explore: budget exhausted" else
    let succs := (List.range n).filterMap (fun i => (stepThread rc lc c i).map (fun c' => ({ c' with lin := [] }, path ++ [i])))
    if succs.isEmpty then
      let oc := c.outcome
      let dead := !c.finished
      if acc.any (fun a => a.1 == oc && a.2.1 == dead) then exploreLoop rc lc n rest seen acc (budget - 1)
      else exploreLoop rc lc n rest seen (acc.push (oc, dead, path)) (budget - 1)
    else
      let (fresh, seen') := succs.foldl
        (fun (acc : List (Conf × List Nat) × Array Conf) x =>
          if acc.2.contains x.1 then acc else (acc.1 ++ [x], acc.2.push x.1)) ([], seen)
      exploreLoop rc lc n (fresh ++ rest) seen' acc (budget - 1)

def handleExplore (j : Json) : R Json := do
  let r ← parseReq j
  let lc ← parseLocks (← fld j "locks")
  let total := (r.progs.map List.length).sum
  if total > 8 then throw "explore: programs too long"
  let c0 := init r.w0 r.progs
  let (acc, nconf) ← exploreLoop r.rc lc r.progs.length [(c0, [])] #[c0] #[] 200000
  pure (Json.mkObj [("configurations", jNat nconf), ("outcomes", jArr (acc.toList.map (fun (oc, dead, path) =>
    Json.mkObj [("outcome", outcomeJson oc), ("deadlock", Json.bool dead), ("schedule", jNats path)])))])

def handle (j : Json) : R Json := do
  match ← strF j "kind" with
  | "sched" => handleSched j
  | "serial_outcomes" => handleSerial j
  | "explore" => handleExplore j
  | k => throw s!"unknown kind {k}"

end Einx.Driver.Concurrent
