import EinxModel.Generic.Stb
import EinxModel.IR.Validate
/-
Bridge between the lowering model of `Generic/Stb.lean` and the loop-notation denotation of
`Denote/Expr.lean` (core Lean only; used by `Props/C01Lower.lean` and by the driver kind `stb_model`):
the stage-3 expression of a `Generic.G` expression, the decidable hypotheses of `lower_id_correct`, and
the instance of the theorem's conclusion for one pair of expressions (run by the driver on every traced
`einx.id` call of the `stb_model` stream).
-/
namespace Einx.Lower
open Einx Einx.IR Einx.Generic Einx.Denote

mutual
def toExpr : G → Expr
  | .ax a => .axis a.name a.len
  | .grp gs => .flat (.list (toExprL gs))
def toExprL : List G → List Expr
  | [] => []
  | g :: gs => toExpr g :: toExprL gs
end

/-- The stage-3 expression of a list of root dimensions. -/
def rootExpr (e : List G) : Expr := .list (toExprL e)

/-- Executable form of "an axis name has the same length in input and output". -/
def consistentLens (Li Lo : List Ax) : Bool :=
  Li.all (fun a => Lo.all (fun b => a.name != b.name || a.len == b.len))

/-- The two decidable hypotheses of `lower_id_correct`: output names pairwise different, lengths consistent. -/
def inTheoremDomain (gi go : List G) : Bool :=
  noDup (names (G.leavesL go)) && consistentLens (G.leavesL gi) (G.leavesL go)

/-- The conclusion of `lower_id_validates` for one pair of expressions, computed: the validator accepts the
model's program against the denotation (`false` if the lowering or the denotation fails). -/
def theoremInstance (gi go : List G) : Bool :=
  match lowerId gi go, denoteId [rootExpr gi] [rootExpr go] with
  | .ok s, .ok exp => validate s.prog [gShape gi] [s.reg] exp
  | _, _ => false

end Einx.Lower
