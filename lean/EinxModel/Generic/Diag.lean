import EinxModel.Generic.StbPrims
/-
Hand model of the inner function of `einx/_src/adapter/numpy/classical_from_numpy.py:diagonal`
(`axis_always_last=False`, the numpy registration), on canonical (non-negative) axes:

    axes_in = sorted(canon_axis(a) for a in axes_in);  axis_out = canon_axis(axis_out)
    while len(axes_in) > 1:   # diagonal of the two highest axes; the result axis is the new last axis
        x = np.diagonal(x, axis1=axes_in[-2], axis2=axes_in[-1]);  axes_in = axes_in[:-2] + (x.ndim - 1,)
    perm = [i for i in range(x.ndim) if i != axes_in[0]];  perm.insert(axis_out, axes_in[0])
    x = transpose(x, perm)

`Props/C17Xlate.lean` proves it equal to the translation of the source (`Extracted.Stb.diagonalInner`), and
`movePerm_spec`: the final permutation *moves* the diagonal axis to `axis_out` and keeps the order of all
other axes (the defect D1 was a swap).
-/
namespace Einx.Generic
open Einx.IR

/-- The loop of `diagonal.inner`: while more than one in-axis is left, take the diagonal of the two
highest ones (the list is sorted) and replace them by the new last axis.  `fuel` bounds the number of
iterations (the wrapper passes `len(axes_in)`; every iteration shortens the list by one). -/
def diagLoop : Nat → St → List Nat → Except String (St × List Nat)
  | 0, s, axes => if axes.length > 1 then .error "FuelExhausted" else .ok (s, axes)
  | fuel + 1, s, axes =>
    if axes.length > 1 then
      match axes.drop (axes.length - 2) with
      | [a1, a2] =>
        match s.npDiagonal a1 a2 with
        | .error e => .error e
        | .ok s' => diagLoop fuel s' (axes.take (axes.length - 2) ++ [s'.shape.length - 1])
      | _ => .error "IndexError"
    else .ok (s, axes)

/-- `perm = [i for i in range(n) if i != axis_in]; perm.insert(axis_out, axis_in)`. -/
def movePerm (n axisIn axisOut : Nat) : List Nat :=
  let rest := (List.range n).filter (fun i => i != axisIn)
  rest.take axisOut ++ axisIn :: rest.drop axisOut

/-- `diagonal.inner(x, axes_in, axis_out)` for non-negative axes. -/
def diagW (s : St) (axesIn : List Nat) (axisOut : Nat) : Except String St :=
  if !(axesIn.all (fun a => a < s.shape.length)) || !(axisOut < s.shape.length) then .error "ValueError"
  else
    match diagLoop (Py.sortedNat axesIn).length s (Py.sortedNat axesIn) with
    | .error e => .error e
    | .ok (s', axes) =>
      match axes with
      | [] => .error "IndexError"
      | axisIn :: _ => .ok (transposeW s' (movePerm s'.shape.length axisIn axisOut))

end Einx.Generic
