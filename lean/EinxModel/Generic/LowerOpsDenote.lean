import EinxModel.Generic.LowerOps
import EinxModel.Generic.StbDenote
import EinxModel.IR.Generic
import EinxModel.Denote.Expr3
/-
Bridge between the lowering models of `Generic/LowerOps.lean` and the loop-notation denotation (core Lean only;
used by `Props/C01LowerOps.lean` and by the driver kind `lower_model`): the stage-3 expression of a `Generic.G`
expression with bracketed axes, the decidable hypotheses of `lower_elementwise_correct` / `lower_reduce_correct`,
and the instance of each theorem's conclusion for one description (recomputed by the driver on every traced
call of the `lower_model` stream).
-/
namespace Einx.Lower
open Einx Einx.IR Einx.Generic Einx.Denote

mutual
/-- The stage-3 expression of `g` when the axes named in `m` are in brackets. -/
def toExprM (m : List String) : G → Expr
  | .ax a => if m.contains a.name then .br (.axis a.name a.len) else .axis a.name a.len
  | .grp gs => .flat (.list (toExprML m gs))
def toExprML (m : List String) : List G → List Expr
  | [] => []
  | g :: gs => toExprM m g :: toExprML m gs
end

def rootExprM (m : List String) (e : List G) : Expr := .list (toExprML m e)

/-! ### elementwise -/

/-- The decidable hypotheses of `lower_elementwise_correct`: output names pairwise different; an axis name has the
same length in every input and in the output. -/
def ewDomain (ins : List (List G)) (go : List G) : Bool :=
  noDup (names (G.leavesL go)) && ins.all (fun gi => consistentLens (G.leavesL gi) (G.leavesL go))

/-- The denotation an elementwise call is compared with: the documented one (`f` applied to the operands) for the
operations of fixed arity, the left fold of the binary function for the operations that "take any number of
scalars". -/
def ewExpected (f : String) (ins : List (List G)) (go : List G) : Denote.E (Tensor Cell) :=
  match ewKindOf f with
  | some .nary => denoteElementwiseFold f (ins.map rootExpr) (rootExpr go)
  | some (.fixed _) => denoteElementwise f (ins.map rootExpr) (rootExpr go)
  | none => throw "unsupported: elementwise operation"

/-- The conclusion of `lower_elementwise_validates` for one description, computed. -/
def ewInstance (f : String) (ins : List (List G)) (go : List G) : Bool :=
  match lowerElementwise f ins go, ewExpected f ins go with
  | .ok s, .ok exp => validate s.prog (ins.map gShape) [s.reg] [exp]
  | _, _ => false

/-! ### reductions -/

/-- The decidable hypotheses of `lower_reduce_correct`. -/
def redDomain (m : List String) (gi go : List G) : Bool :=
  noDup (names (G.leavesL go)) && consistentLens (G.leavesL gi) (G.leavesL go) &&
    (names (G.leavesL go)).all (fun n => !m.contains n)

/-- The conclusion of `lower_reduce_validates` for one description, computed. -/
def redInstance (f : String) (m : List String) (gi go : List G) : Bool :=
  match lowerReduce f m gi go, denoteReduce f (rootExprM m gi) (rootExpr go) with
  | .ok l, .ok exp => validateG planInstrX l.prog [gShape gi] [l.reg] [exp]
  | _, _ => false

end Einx.Lower
