import EinxModel.Generic.LowerOps
/-
C17, lowering part: the decidable relation "two solved expressions are the same description with two length
assignments that agree on which lengths are 1" on the grouped expressions `Generic.G` of the lowering models, and the
skeleton of programs over the extended instruction set.  Core Lean only (used by the driver and by
`Props/C17LowerOps.lean`).
-/
namespace Einx.Generic
open Einx.IR

mutual
/-- Same tree, same axis names, and every leaf has length 1 in both or in neither. -/
def gsim : G → G → Bool
  | .ax a, .ax b => a.name == b.name && ((a.len == 1) == (b.len == 1))
  | .grp gs, .grp hs => gsimL gs hs
  | .ax _, .grp _ => false
  | .grp _, .ax _ => false
def gsimL : List G → List G → Bool
  | [], [] => true
  | g :: gs, h :: hs => gsim g h && gsimL gs hs
  | [], _ :: _ => false
  | _ :: _, [] => false
end

/-- The same for the list of the input expressions of an operation. -/
def gsimLL : List (List G) → List (List G) → Bool
  | [], [] => true
  | e :: es, e' :: es' => gsimL e e' && gsimLL es es'
  | [], _ :: _ => false
  | _ :: _, [] => false

/-- Skeleton of an instruction of the extended set: shapes of `reshape` / `broadcast_to` and slice bounds are
abstracted (`instrSkeleton`); a reduction, an einsum, … carry registers, axes and labels only. -/
def instrSkeletonX : InstrX → InstrX
  | .base i => .base (instrSkeleton i)
  | i => i

def progSkeletonX (p : List InstrX) : List InstrX := p.map instrSkeletonX

/-- All leaf lengths are positive (what einx's solver guarantees: it rejects a zero length with `AxisSizeError`). -/
def posLens (e : List G) : Bool := (G.leavesL e).all (fun a => decide (0 < a.len))

end Einx.Generic
