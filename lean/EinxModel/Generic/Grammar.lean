/-
M6 (statement grammar of emitted code), used by C17.

`PyExpr`/`Stmt` are the *restricted* grammar that einx's Python compiler
(`einx/_src/tracer/compiler/python/__init__.py`) can emit: one statement per effectful node of the
traced graph, expressions inlined.  There is **no** constructor for `for`, `while`, `if`, conditional
expressions, comprehensions, generator expressions, lambdas, `try`, `with`, boolean short-circuit
operators or chained comparisons: every sub-expression of a statement is evaluated exactly once
when the statement is executed, and statements are executed in sequence.

`skeleton` abstracts every integer literal to a hole (and the digit runs inside `assert` messages,
which quote shapes); `callCount` counts call nodes; `exec` is an environment-parametric cost semantics.
-/
namespace Einx.Generic

inductive Const where
  | int (i : Int)
  | str (s : String)
  | float (repr : String)
  | bool (b : Bool)
  | none
  | ellipsis
  | hole                      -- an abstracted integer literal (only produced by `skeleton`)
deriving Repr, Inhabited, DecidableEq

/-- Expressions.  Keyword arguments are two parallel lists (names, values); an omitted slice bound is
`absent`.  `compare` carries exactly one operator (no chained, short-circuiting comparison). -/
inductive PyExpr where
  | name (id : String)
  | attr (e : PyExpr) (a : String)
  | call (f : PyExpr) (args : List PyExpr) (kwNames : List String) (kwVals : List PyExpr)
  | subscript (e : PyExpr) (idx : PyExpr)
  | slice (lo hi step : PyExpr)
  | absent
  | tuple (es : List PyExpr)
  | list (es : List PyExpr)
  | dict (ks vs : List PyExpr)
  | const (c : Const)
  | unary (op : String) (e : PyExpr)
  | binop (op : String) (l r : PyExpr)
  | compare (op : String) (l r : PyExpr)
deriving Repr, Inhabited

/-- Statements.  An `assert` message is a string constant or absent (Python evaluates the message
only when the assertion fails, so an arbitrary expression there would not be executed exactly once);
an expression statement is a call by construction. -/
inductive Stmt where
  | import_ (names : List (String × Option String))
  | importFrom (module : String) (names : List (String × Option String))
  | funcDef (name : String) (params : List String) (body : List Stmt)
  | assign (targets : List PyExpr) (value : PyExpr)
  | augAssign (target : PyExpr) (op : String) (value : PyExpr)
  | exprCall (f : PyExpr) (args : List PyExpr) (kwNames : List String) (kwVals : List PyExpr)
  | assert_ (test : PyExpr) (msg : Option String)
  | return_ (value : PyExpr)
deriving Repr, Inhabited

/-! ### Skeleton: integer literals become holes -/

def Const.skel : Const → Const
  | .int _ => .hole
  | c => c

/-- Replace every maximal run of ASCII digits by one `#`. -/
def holeDigits : List Char → List Char
  | [] => []
  | c :: cs =>
    if c.isDigit then
      match holeDigits cs with
      | '#' :: rest => '#' :: rest
      | rest => '#' :: rest
    else c :: holeDigits cs

def holeStr (s : String) : String := String.ofList (holeDigits s.toList)

mutual
def PyExpr.skel : PyExpr → PyExpr
  | .name n => .name n
  | .attr e a => .attr e.skel a
  | .call f as kn kv => .call f.skel (PyExpr.skelL as) kn (PyExpr.skelL kv)
  | .subscript e i => .subscript e.skel i.skel
  | .slice a b c => .slice a.skel b.skel c.skel
  | .absent => .absent
  | .tuple es => .tuple (PyExpr.skelL es)
  | .list es => .list (PyExpr.skelL es)
  | .dict ks vs => .dict (PyExpr.skelL ks) (PyExpr.skelL vs)
  | .const c => .const c.skel
  | .unary o e => .unary o e.skel
  | .binop o l r => .binop o l.skel r.skel
  | .compare o l r => .compare o l.skel r.skel
def PyExpr.skelL : List PyExpr → List PyExpr
  | [] => []
  | e :: es => e.skel :: PyExpr.skelL es
end

mutual
def Stmt.skel : Stmt → Stmt
  | .import_ ns => .import_ ns
  | .importFrom m ns => .importFrom m ns
  | .funcDef n ps body => .funcDef n ps (Stmt.skelL body)
  | .assign ts v => .assign (PyExpr.skelL ts) v.skel
  | .augAssign t o v => .augAssign t.skel o v.skel
  | .exprCall f as kn kv => .exprCall f.skel (PyExpr.skelL as) kn (PyExpr.skelL kv)
  | .assert_ t m => .assert_ t.skel (m.map holeStr)
  | .return_ v => .return_ v.skel
def Stmt.skelL : List Stmt → List Stmt
  | [] => []
  | s :: ss => s.skel :: Stmt.skelL ss
end

/-- The skeleton of a program (a block of statements). -/
def skeleton (b : List Stmt) : List Stmt := Stmt.skelL b

/-! ### Call counts -/

mutual
def PyExpr.calls : PyExpr → Nat
  | .name _ => 0
  | .attr e _ => e.calls
  | .call f as _ kv => f.calls + PyExpr.callsL as + PyExpr.callsL kv + 1
  | .subscript e i => e.calls + i.calls
  | .slice a b c => a.calls + b.calls + c.calls
  | .absent => 0
  | .tuple es => PyExpr.callsL es
  | .list es => PyExpr.callsL es
  | .dict ks vs => PyExpr.callsL ks + PyExpr.callsL vs
  | .const _ => 0
  | .unary _ e => e.calls
  | .binop _ l r => l.calls + r.calls
  | .compare _ l r => l.calls + r.calls
def PyExpr.callsL : List PyExpr → Nat
  | [] => 0
  | e :: es => e.calls + PyExpr.callsL es
end

/-- Calls performed by executing a statement once; a `def` only binds a name. -/
def Stmt.flatCalls : Stmt → Nat
  | .import_ _ => 0
  | .importFrom _ _ => 0
  | .funcDef _ _ _ => 0
  | .assign ts v => PyExpr.callsL ts + v.calls
  | .augAssign t _ v => t.calls + v.calls
  | .exprCall f as _ kv => f.calls + PyExpr.callsL as + PyExpr.callsL kv + 1
  | .assert_ t _ => t.calls
  | .return_ v => v.calls

def flatCalls : List Stmt → Nat
  | [] => 0
  | s :: ss => s.flatCalls + flatCalls ss

mutual
/-- All call nodes of a statement, including those of nested function bodies. -/
def Stmt.callCount : Stmt → Nat
  | .import_ _ => 0
  | .importFrom _ _ => 0
  | .funcDef _ _ body => Stmt.callCountL body
  | .assign ts v => PyExpr.callsL ts + v.calls
  | .augAssign t _ v => t.calls + v.calls
  | .exprCall f as _ kv => f.calls + PyExpr.callsL as + PyExpr.callsL kv + 1
  | .assert_ t _ => t.calls
  | .return_ v => v.calls
def Stmt.callCountL : List Stmt → Nat
  | [] => 0
  | s :: ss => s.callCount + Stmt.callCountL ss
end

/-- Number of call nodes in a program. -/
def callCount (b : List Stmt) : Nat := Stmt.callCountL b

/-! ### Cost semantics

An environment interprets every construct over an arbitrary value type `V`; `call` is the only
effectful construct.  Evaluation returns the value and the number of calls performed.  Nothing in the
semantics inspects a value: there is no construct that could. -/

structure Env (V : Type) where
  lookup : String → V
  attr : V → String → V
  call : V → List V → List String → List V → V
  subscript : V → V → V
  slice : V → V → V → V
  absent : V
  tuple : List V → V
  list : List V → V
  dict : List V → List V → V
  const : Const → V
  unary : String → V → V
  binop : String → V → V → V
  compare : String → V → V → V
  closure : String → List String → V      -- the value bound by a `def`
  module : String → V

mutual
def evalE {V : Type} (ρ : Env V) (σ : String → V) : PyExpr → V × Nat
  | .name n => (σ n, 0)
  | .attr e a => let (v, n) := evalE ρ σ e; (ρ.attr v a, n)
  | .call f as kn kv =>
    let (vf, n0) := evalE ρ σ f
    let (vs, n1) := evalL ρ σ as
    let (ks, n2) := evalL ρ σ kv
    (ρ.call vf vs kn ks, n0 + n1 + n2 + 1)
  | .subscript e i => let (v, n) := evalE ρ σ e; let (w, m) := evalE ρ σ i; (ρ.subscript v w, n + m)
  | .slice a b c =>
    let (va, n0) := evalE ρ σ a
    let (vb, n1) := evalE ρ σ b
    let (vc, n2) := evalE ρ σ c
    (ρ.slice va vb vc, n0 + n1 + n2)
  | .absent => (ρ.absent, 0)
  | .tuple es => let (vs, n) := evalL ρ σ es; (ρ.tuple vs, n)
  | .list es => let (vs, n) := evalL ρ σ es; (ρ.list vs, n)
  | .dict ks vs => let (a, n) := evalL ρ σ ks; let (b, m) := evalL ρ σ vs; (ρ.dict a b, n + m)
  | .const c => (ρ.const c, 0)
  | .unary o e => let (v, n) := evalE ρ σ e; (ρ.unary o v, n)
  | .binop o l r => let (v, n) := evalE ρ σ l; let (w, m) := evalE ρ σ r; (ρ.binop o v w, n + m)
  | .compare o l r => let (v, n) := evalE ρ σ l; let (w, m) := evalE ρ σ r; (ρ.compare o v w, n + m)
def evalL {V : Type} (ρ : Env V) (σ : String → V) : List PyExpr → List V × Nat
  | [] => ([], 0)
  | e :: es => let (v, n) := evalE ρ σ e; let (vs, m) := evalL ρ σ es; (v :: vs, n + m)
end

def bindName {V : Type} (σ : String → V) (n : String) (v : V) : String → V :=
  fun m => if m = n then v else σ m

/-- Assignment to a target: a name is rebound; any other target (subscript, attribute, tuple) has
its sub-expressions evaluated and leaves the name store unchanged (the store of objects is part of
the opaque values). -/
def assignTo {V : Type} (ρ : Env V) (σ : String → V) (v : V) : PyExpr → (String → V) × Nat
  | .name n => (bindName σ n v, 0)
  | .subscript e i => (σ, (evalE ρ σ e).2 + (evalE ρ σ i).2)
  | .attr e _ => (σ, (evalE ρ σ e).2)
  | .tuple es => (σ, (evalL ρ σ es).2)
  | .list es => (σ, (evalL ρ σ es).2)
  | t => (σ, (evalE ρ σ t).2)

def assignAll {V : Type} (ρ : Env V) (v : V) : (String → V) → List PyExpr → (String → V) × Nat
  | σ, [] => (σ, 0)
  | σ, t :: ts => let (σ', n) := assignTo ρ σ v t; let (σ'', m) := assignAll ρ v σ' ts; (σ'', n + m)

/-- Execute one statement (non-raising run): new name store and number of calls performed. -/
def execStmt {V : Type} (ρ : Env V) (σ : String → V) : Stmt → (String → V) × Nat
  | .import_ ns => (ns.foldl (fun σ (n, a) => bindName σ (a.getD n) (ρ.module n)) σ, 0)
  | .importFrom m ns => (ns.foldl (fun σ (n, a) => bindName σ (a.getD n) (ρ.attr (ρ.module m) n)) σ, 0)
  | .funcDef n ps _ => (bindName σ n (ρ.closure n ps), 0)
  | .assign ts v => let (x, n) := evalE ρ σ v; let (σ', m) := assignAll ρ x σ ts; (σ', m + n)
  | .augAssign t o v =>
    let (x, n) := evalE ρ σ t
    let (y, m) := evalE ρ σ v
    match t with
    | .name nm => (bindName σ nm (ρ.binop o x y), n + m)
    | _ => (σ, n + m)
  | .exprCall f as kn kv => (σ, (evalE ρ σ (.call f as kn kv)).2)
  | .assert_ t _ => (σ, (evalE ρ σ t).2)
  | .return_ v => (σ, (evalE ρ σ v).2)

/-- Execute a block once, statement after statement. -/
def exec {V : Type} (ρ : Env V) : (String → V) → List Stmt → (String → V) × Nat
  | σ, [] => (σ, 0)
  | σ, s :: ss => let (σ', n) := execStmt ρ σ s; let (σ'', m) := exec ρ σ' ss; (σ'', n + m)

mutual
/-- Cost of a program: the calls of one execution of the block plus one activation of the body of
every (nested) function definition. -/
def Stmt.cost : Stmt → Nat
  | .funcDef _ _ body => Stmt.costL body
  | s => s.flatCalls
def Stmt.costL : List Stmt → Nat
  | [] => 0
  | s :: ss => s.cost + Stmt.costL ss
end

def cost (b : List Stmt) : Nat := Stmt.costL b

/-! ### "Differ only in integer literals" -/

def Const.same : Const → Const → Prop
  | .int _, c => (∃ j, c = .int j) ∨ c = .hole
  | .hole, c => (∃ j, c = .int j) ∨ c = .hole
  | c, c' => c' = c

mutual
/-- `a.same b`: `b` is `a` with some integer literals replaced by other integers. -/
def PyExpr.same : PyExpr → PyExpr → Prop
  | .name n, b => b = .name n
  | .attr e a, b => ∃ e', b = .attr e' a ∧ e.same e'
  | .call f as kn kv, b => ∃ f' as' kv', b = .call f' as' kn kv' ∧ f.same f' ∧ PyExpr.sameL as as' ∧ PyExpr.sameL kv kv'
  | .subscript e i, b => ∃ e' i', b = .subscript e' i' ∧ e.same e' ∧ i.same i'
  | .slice x y z, b => ∃ x' y' z', b = .slice x' y' z' ∧ x.same x' ∧ y.same y' ∧ z.same z'
  | .absent, b => b = .absent
  | .tuple es, b => ∃ es', b = .tuple es' ∧ PyExpr.sameL es es'
  | .list es, b => ∃ es', b = .list es' ∧ PyExpr.sameL es es'
  | .dict ks vs, b => ∃ ks' vs', b = .dict ks' vs' ∧ PyExpr.sameL ks ks' ∧ PyExpr.sameL vs vs'
  | .const c, b => ∃ c', b = .const c' ∧ c.same c'
  | .unary o e, b => ∃ e', b = .unary o e' ∧ e.same e'
  | .binop o l r, b => ∃ l' r', b = .binop o l' r' ∧ l.same l' ∧ r.same r'
  | .compare o l r, b => ∃ l' r', b = .compare o l' r' ∧ l.same l' ∧ r.same r'
def PyExpr.sameL : List PyExpr → List PyExpr → Prop
  | [], bs => bs = []
  | a :: as, bs => ∃ b bs', bs = b :: bs' ∧ a.same b ∧ PyExpr.sameL as bs'
end

mutual
/-- Statements that differ only in integer literals (and in the digits quoted by `assert` messages). -/
def Stmt.same : Stmt → Stmt → Prop
  | .import_ ns, b => b = .import_ ns
  | .importFrom m ns, b => b = .importFrom m ns
  | .funcDef n ps body, b => ∃ body', b = .funcDef n ps body' ∧ Stmt.sameL body body'
  | .assign ts v, b => ∃ ts' v', b = .assign ts' v' ∧ PyExpr.sameL ts ts' ∧ v.same v'
  | .augAssign t o v, b => ∃ t' v', b = .augAssign t' o v' ∧ t.same t' ∧ v.same v'
  | .exprCall f as kn kv, b => ∃ f' as' kv', b = .exprCall f' as' kn kv' ∧ f.same f' ∧ PyExpr.sameL as as' ∧ PyExpr.sameL kv kv'
  | .assert_ t m, b => ∃ t' m', b = .assert_ t' m' ∧ t.same t' ∧ m.map holeStr = m'.map holeStr
  | .return_ v, b => ∃ v', b = .return_ v' ∧ v.same v'
def Stmt.sameL : List Stmt → List Stmt → Prop
  | [], bs => bs = []
  | a :: as, bs => ∃ b bs', bs = b :: bs' ∧ a.same b ∧ Stmt.sameL as bs'
end

/-- Two programs differ only in integer literals. -/
def SameUpToInts (a b : List Stmt) : Prop := Stmt.sameL a b

end Einx.Generic
