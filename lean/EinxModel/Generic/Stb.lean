import EinxModel.IR.Prim
/-
M4 (first family): the data-movement lowering of `einx.id` without concatenation and without repeated
axes, as a function from solved expressions (axis names with lengths) to a straight-line `Instr`
program of IR/Prim.lean.

Mirrors, line by line where practical:
  * `einx/_src/adapter/numpy/classical_from_numpy.py`: `reshape`, `transpose`, `broadcast_to`
    (the wrappers that skip a call when it would be a no-op: `tuple(x.shape) == shape`,
    `perm == tuple(range(len(perm)))`),
  * `einx/_src/adapter/_util.py:_squeeze_transpose_broadcast` (`stb`),
  * `einx/_src/adapter/namedtensor_from_decomposednamedtensor.py`: `Decomposer.__call__` for one
    input and one output (`_decompose_single` for flattened axes, removal of unit axes,
    `_compose_next` without concatenation) (`lowerId`).

`instrSkeleton` abstracts shapes (every entry becomes 0, the rank is kept) and slice bounds; what
remains (primitive, operand registers, permutations, axes, ranks) is the structure of the program.
-/
namespace Einx.Generic
open Einx.IR

/-- A solved axis: name and length. -/
structure Ax where
  name : String
  len : Nat
deriving Repr, DecidableEq, Inhabited

def lens (l : List Ax) : List Nat := l.map (·.len)
def names (l : List Ax) : List String := l.map (·.name)

/-- Tracing state: the register that holds the current tensor, its traced shape, the instructions
emitted so far and the number of the next register. -/
structure St where
  reg : Nat
  shape : List Nat
  prog : List Instr
  next : Nat
deriving Repr, Inhabited

def St.emit (s : St) (i : Instr) (shape : List Nat) : St :=
  { reg := s.next, shape := shape, prog := s.prog ++ [i], next := s.next + 1 }

/-- `classical_from_numpy.reshape`: `if tuple(x.shape) == shape: return x`. -/
def reshapeW (s : St) (target : List Nat) : St :=
  if s.shape == target then s else s.emit (.reshape s.reg target) target

/-- `classical_from_numpy.transpose`: `if perm == tuple(range(len(perm))): return x`. -/
def transposeW (s : St) (perm : List Nat) : St :=
  if perm == List.range perm.length then s
  else s.emit (.transpose s.reg perm) (perm.map (fun p => s.shape.getD p 0))

/-- `classical_from_numpy.broadcast_to`: `if tuple(x.shape) == shape: return x`. -/
def broadcastW (s : St) (target : List Nat) : St :=
  if s.shape == target then s else s.emit (.broadcastTo s.reg target) target

/-- `_to_axis_ids`: every axis name paired with the number of earlier occurrences of that name. -/
def idsAux : List String → List String → List (String × Nat)
  | _, [] => []
  | seen, n :: ns => (n, seen.count n) :: idsAux (n :: seen) ns

def idsOf (ns : List String) : List (String × Nat) := idsAux [] ns

/-- First part of `_squeeze_transpose_broadcast`: squeeze the unit axes of the input that the output
does not name. -/
def squeezeStep (s : St) (ein eout : List Ax) : List Ax × St :=
  let squeezable := names (ein.filter (fun a => a.len == 1))
  let outNames := names eout
  let squeezeAxes := squeezable.filter (fun n => !outNames.contains n)
  if squeezeAxes.length > 0 then
    let ein' := ein.filter (fun a => !squeezeAxes.contains a.name)
    (ein', reshapeW s (lens ein'))
  else (ein, s)

/-- Python's `set(a) == set(b)` on lists. -/
def setEq (a b : List (String × Nat)) : Bool :=
  a.all (fun x => b.contains x) && b.all (fun x => a.contains x)

/-- Second part: the permutation that brings the input axes into output order
(`if set(out_axes_intersect) != set(in_axes): raise ValueError`). -/
def transposeStep (s : St) (ein eout : List Ax) : Except String St :=
  let inIds := idsOf (names ein)
  let outIds := idsOf (names eout)
  let inter := outIds.filter (fun o => inIds.contains o)
  if setEq inter inIds then
    .ok (transposeW s (inter.map (fun o => inIds.idxOf o)))
  else
    .error "an input axis does not appear in the corresponding output expression"

/-- Third part (`broadcast_to_unitary=False`): insert the missing output axes with length 1 and
broadcast them. -/
def broadcastStep (s : St) (ein eout : List Ax) : St :=
  let inNames := names ein
  let bc := (names eout).filter (fun n => !inNames.contains n)
  if bc.length > 0 then
    let pre := eout.map (fun a => if bc.contains a.name then 1 else a.len)
    broadcastW (reshapeW s pre) (lens eout)
  else s

/-- `_squeeze_transpose_broadcast(classical, expr_in, tensor, expr_out)` on flat expressions. -/
def stb (s : St) (ein eout : List Ax) : Except String St := do
  let (ein1, s1) := squeezeStep s ein eout
  let s2 ← transposeStep s1 ein1 eout
  pure (broadcastStep s2 ein1 eout)

/-- The program `_squeeze_transpose_broadcast` emits for a tensor in register 0 whose shape is that
of `ein`, and the register that holds the result. -/
def stbProg (ein eout : List Ax) : Except String (List Instr × Nat) :=
  (stb { reg := 0, shape := lens ein, prog := [], next := 1 } ein eout).map (fun s => (s.prog, s.reg))

/-! ### Skeleton of instructions -/

def holes (s : List Nat) : List Nat := s.map (fun _ => 0)

def instrSkeleton : Instr → Instr
  | .reshape x s => .reshape x (holes s)
  | .transpose x p => .transpose x p
  | .broadcastTo x s => .broadcastTo x (holes s)
  | .diagonal x a b => .diagonal x a b
  | .concat xs a => .concat xs a
  | .slice x a _ _ => .slice x a 0 0
  | .index x k => .index x k
  | .ewise f args => .ewise f args

def progSkeleton (p : List Instr) : List Instr := p.map instrSkeleton

/-! ### The whole `id` pipeline for one input and one output -/

/-- Solved expressions with (nested) flattened axes. -/
inductive G where
  | ax (a : Ax)
  | grp (gs : List G)
deriving Repr, Inhabited

mutual
def G.size : G → Nat
  | .ax a => a.len
  | .grp gs => G.sizeL gs
def G.sizeL : List G → Nat
  | [] => 1
  | g :: gs => g.size * G.sizeL gs
end

mutual
def G.depth : G → Nat
  | .ax _ => 0
  | .grp gs => G.depthL gs + 1
def G.depthL : List G → Nat
  | [] => 0
  | g :: gs => max g.depth (G.depthL gs)
end

mutual
def G.leaves : G → List Ax
  | .ax a => [a]
  | .grp gs => G.leavesL gs
def G.leavesL : List G → List Ax
  | [] => []
  | g :: gs => g.leaves ++ G.leavesL gs
end

def gShape (e : List G) : List Nat := e.map G.size

def isGrp : G → Bool
  | .grp _ => true
  | .ax _ => false

/-- One level of `unflatten`. -/
def unflatten1 (e : List G) : List G :=
  e.flatMap (fun g => match g with
    | .grp gs => gs
    | .ax a => [.ax a])

/-- `_decompose_single` (flattened axes only): while a root dimension is a flattened axis, replace
the flattened axes by their members and reshape. -/
def decompose : Nat → St → List G → St × List G
  | 0, s, e => (s, e)
  | fuel + 1, s, e =>
    if e.any isGrp then
      let e' := unflatten1 e
      decompose fuel (reshapeW s (gShape e')) e'
    else (s, e)

def noDup : List String → Bool
  | [] => true
  | x :: xs => !xs.contains x && noDup xs

/-- `Decomposer.__call__` around the identity, one input and one output, no concatenation, no
repeated axis name in the input. -/
def lowerId (ein eout : List G) : Except String St := do
  let s0 : St := { reg := 0, shape := gShape ein, prog := [], next := 1 }
  if !noDup (names (G.leavesL ein)) then throw "unsupported: repeated axis name (diagonal)"
  let (s1, e1) := decompose (G.depthL ein) s0 ein
  let flatIn := G.leavesL e1
  let flatOut := G.leavesL eout
  -- remove unitary axes from the input
  let sq := flatIn.filter (fun a => !(a.len == 1))
  let s2 := reshapeW s1 (lens sq)
  -- the inner function is the identity; transpose and broadcast to the flat output
  let s3 ← stb s2 sq flatOut
  -- compose
  pure (reshapeW s3 (gShape eout))

end Einx.Generic
