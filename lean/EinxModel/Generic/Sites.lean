/-
C17: classification of the places in einx's lowering modules where Python control flow looks at an
axis length or a shape (T-src: the inventory `Einx.Extracted.sizeSites` is regenerated from /repo by
tools/extract/generic.py on every run).
-/
namespace Einx.Generic

inductive SizeClass where
  /-- `length == 1` / `length != 1` (also of a product of lengths, which is 1 iff every factor is). -/
  | eq1
  /-- equality of two whole shapes / tuples (no-op tests of reshape, broadcast_to, SkipReshape …). -/
  | shapeEq
  /-- a comparison that only decides whether an exception is raised (`assert`, `if …: raise`). -/
  | validationRaises
  /-- iteration over the entries of a shape / over axes: the trip count is a rank, not a length. -/
  | iterShapeEntries
  /-- `_ravel`: `for i in range(ndim)` over the components of a coordinate axis `[ndim]`; `ndim` is the
  number of bracketed axes of the indexed tensor, fixed by the description. -/
  | coordComponents
  /-- `elementwise`: `np.argmax` over the lengths found at one output position, which are 1 or the
  common length of that position (selects the first non-unit operand). -/
  | selectUnitOrCommon
  /-- `update_at`: elementwise maximum of two broadcast-compatible shapes. -/
  | broadcastShapeMax
  /-- a loop / comprehension over `range(<axis length>)`. -/
  | rangeLen
  /-- a `while` whose test mentions an axis length. -/
  | whileLen
  /-- a list/tuple repeated `<axis length>` times. -/
  | repeatLen
  /-- an axis length used as a truth value. -/
  | truthiness
  /-- any other comparison that involves an axis length or shape entry. -/
  | otherCompare
  /-- any other order-sensitive selection (`max`, `argmax`, `sorted` …) over lengths. -/
  | otherSelect
  /-- an anchor function was not found / the extractor failed. -/
  | lostAnchor
deriving DecidableEq, Repr, Inhabited

/-- The forms under which the emitted structure can depend on lengths only through "is it 1". -/
def SizeClass.allowed : SizeClass → Bool
  | .eq1 | .shapeEq | .validationRaises | .iterShapeEntries | .coordComponents
  | .selectUnitOrCommon | .broadcastShapeMax => true
  | _ => false

structure SizeSite where
  file : String
  line : Nat
  func : String
  construct : String
  cls : SizeClass
deriving Repr, Inhabited

/-- Node kinds of the traced IR that stand for one straight-line statement or an inlined expression. -/
def straightLineKinds : List String :=
  ["GetAttr", "GetItem", "UpdateItem", "Call", "CallInplace", "Import", "OperatorApplication", "Builtin",
   "Assert", "Constant", "Cast"]

end Einx.Generic
