import EinxModel.Generic.Stb
import EinxModel.IR.PrimX
/-
M4 (second and third family): the lowering of elementwise operations and of reductions through einx's
decomposer, as functions from solved expressions to straight-line programs of IR/Prim(X).lean.

Mirrors, line by line where practical:
  * `einx/_src/adapter/_util.py:_squeeze_transpose_broadcast` with `broadcast_to_unitary=True` (`stbU`): the
    missing output axes become unit dimensions (`classical.reshape(tensor, pre_broadcast_shape)`), nothing is
    broadcast, and the returned expression has a fresh unnamed axis of length 1 in their place;
  * `einx/_src/adapter/namedtensor_from_decomposednamedtensor.py:Decomposer.__call__` for several inputs and
    one output (`_decompose_single` for flattened axes, removal of the unit axes that are not in brackets,
    removal of the broadcast axes from the flat output, the inner function, `_squeeze_transpose_broadcast` to
    the flat output, `_compose_next` without concatenation);
  * `einx/_src/adapter/decomposednamedtensor_from_classical.py:elementwise` (align every operand with the
    output by `stbU`, choose the output axes by `np.argmax` over the aligned axis lengths, `_ensure_output`,
    the numpy call) and `reduce` (`_expr_to_axis`, `stage3.remove(expr_in, Brackets)`, `_ensure_output`);
  * `einx/_src/adapter/numpy/classical_from_numpy.py`: `elementwise(op, num_inputs=…)`,
    `_associative_binary_to_nary` (left fold of the binary ufunc), `reduce` (always passes `axis=`, never
    `keepdims`; a one-element tuple becomes an int, which the IR does not distinguish).

Order of the emitted instructions.  A traced graph is a DAG; the harness serialises it depth first from
the output (`lib/graphcap.py`), operand by operand.  The model emits the same linearisation: the whole chain
of input 0 (unflatten, remove unit axes, transpose, insert unit dimensions), then that of input 1, …, and for
an n-ary fold `f(f(x0, x1), x2)` the call `f(x0, x1)` before the chain of `x2`.  Python runs phase by phase
(decompose all inputs, squeeze all inputs, align all operands, call); both are topological orders of the same
DAG, and what the phases exchange besides tensors -- the names of the squeezed inputs, needed to remove the
broadcast axes from the output -- is computed from the expressions alone (`squeezedExpr`).

Domain: named axes, parenthesised groups to any depth, unit axes, broadcast output axes; no concatenation, no
repeated axis name inside one expression (the model rejects it: that is the `diagonal` path).
-/
namespace Einx.Generic
open Einx.IR

/-! ### `_squeeze_transpose_broadcast(…, broadcast_to_unitary=True)` -/

/-- The name of a `stage3.Axis.new_unnamed(1)`.  In Python it is `unnamed.<uuid4>` (unique); the model uses
the operand number and the position, which is unique within one lowering and cannot be a user's axis name
(those are identifiers or `unnamed.<digits>`). -/
def unnamedName (tag k : Nat) : String := "unnamed.m" ++ toString tag ++ "." ++ toString k

/-- `[(axis if axis.name in in_axes else stage3.Axis.new_unnamed(1)) for axis in expr_out]`. -/
def unitaryExprAux (tag : Nat) (inNames : List String) : Nat → List Ax → List Ax
  | _, [] => []
  | k, a :: as =>
    (if inNames.contains a.name then a else ⟨unnamedName tag k, 1⟩) :: unitaryExprAux tag inNames (k + 1) as

def unitaryExpr (tag : Nat) (ein eout : List Ax) : List Ax := unitaryExprAux tag (names ein) 0 eout

/-- Third part with `broadcast_to_unitary=True`: insert the missing output axes with length 1, no
`broadcast_to`. -/
def broadcastStepU (s : St) (ein eout : List Ax) : St :=
  let inNames := names ein
  let bc := (names eout).filter (fun n => !inNames.contains n)
  if bc.length > 0 then
    let pre := eout.map (fun a => if bc.contains a.name then 1 else a.len)
    reshapeW s pre
  else s

/-- `_squeeze_transpose_broadcast(classical, expr_in, tensor, expr_out, broadcast_to_unitary=True)` on flat
expressions: the returned expression and the tracing state. -/
def stbU (tag : Nat) (s : St) (ein eout : List Ax) : Except String (List Ax × St) := do
  let (ein1, s1) := squeezeStep s ein eout
  let s2 ← transposeStep s1 ein1 eout
  pure (unitaryExpr tag ein1 eout, broadcastStepU s2 ein1 eout)

/-! ### the decomposer's preparation of one input -/

/-- A named tensor during tracing: flat expression, register, traced shape. -/
structure Opnd where
  expr : List Ax
  reg : Nat
  shape : List Nat
deriving Repr, Inhabited

/-- Continue tracing with the tensor in register `r` of shape `shape` as the current one. -/
def St.focus (s : St) (r : Nat) (shape : List Nat) : St := { s with reg := r, shape := shape }

/-- `Decomposer.__call__`, first two steps for one input held in register `r`: `_decompose_single` (flattened
axes only; a repeated name is the `diagonal` path, outside the model) and the removal of the unit axes that
are not in brackets (`marked` lists the bracketed names; empty for elementwise operations). -/
def prepInput (marked : List String) (s : St) (r : Nat) (e : List G) : Except String (List Ax × St) := do
  if !noDup (names (G.leavesL e)) then throw "unsupported: repeated axis name (diagonal)"
  let (s1, e1) := decompose (G.depthL e) (s.focus r (gShape e)) e
  let flat := G.leavesL e1
  -- is_squeezable_axis: an axis, not in brackets, of length 1
  let sq := flat.filter (fun a => !(a.len == 1 && !marked.contains a.name))
  pure (sq, reshapeW s1 (lens sq))

/-- `stage3.remove(expr, is_broadcast_axis)` on the flat output: keep the axes that some (squeezed) input has. -/
def withoutBroadcast (inNames : List String) (flatOut : List Ax) : List Ax :=
  flatOut.filter (fun a => inNames.contains a.name)

/-! ### `decomposednamedtensor_from_classical.elementwise` -/

/-- `in_axes_i[np.argmax([axis.value for axis in in_axes_i])]`: the first axis of maximal length. -/
def pickAxis : List Ax → Option Ax
  | [] => none
  | a :: as =>
    match pickAxis as with
    | none => some a
    | some b => if b.len > a.len then some b else some a

def heads (rows : List (List Ax)) : List Ax := rows.filterMap List.head?
def tails (rows : List (List Ax)) : List (List Ax) := rows.map List.tail

/-- `out_axes`: for every position the chosen axis of the aligned input expressions. -/
def pickCols : Nat → List (List Ax) → List Ax
  | 0, _ => []
  | n + 1, rows =>
    (match pickAxis (heads rows) with
      | some a => [a]
      | none => []) ++ pickCols n (tails rows)

/-- How `classical_from_numpy.ops` wraps the numpy function of an elementwise operation. -/
inductive EwKind where
  | nary                -- `_associative_binary_to_nary(np.f)`: any number of operands, left fold
  | fixed (n : Nat)     -- `num_inputs=n`
deriving Repr, DecidableEq, Inhabited

/-- The table of `classical_from_numpy.ops.__init__` (elementwise operations of `adapter/ops.py`). -/
def ewKindOf (f : String) : Option EwKind :=
  if ["add", "multiply", "logaddexp", "logical_and", "logical_or", "maximum", "minimum"].contains f then some .nary
  else if ["subtract", "true_divide", "floor_divide", "divide", "less", "less_equal", "greater", "greater_equal",
      "equal", "not_equal"].contains f then some (.fixed 2)
  else if f == "where" then some (.fixed 3)
  else if ["exp", "log", "negative"].contains f then some (.fixed 1)
  else none

/-- One traced numpy call `np.f(*operands)`: the result shape is numpy's broadcast of the operand shapes. -/
def ewiseCall (f : String) (s : St) (ops : List Opnd) : Except String St := do
  if ops.isEmpty then throw "elementwise: needs at least one tensor operand"
  let so ← broadcastShapes (ops.map (·.shape))
  pure (s.emit (.ewise f (ops.map (fun o => .reg o.reg))) so)

/-- The flat expression of an input after the decomposer's first two steps (no tensor involved): the leaf axes
without the unit axes that are not in brackets. -/
def squeezedExpr (marked : List String) (e : List G) : List Ax :=
  (G.leavesL e).filter (fun a => !(a.len == 1 && !marked.contains a.name))

/-- The chain of one input held in register `i`: the decomposer's preparation (`prepInput`) and the alignment
loop body of `elementwise` (`_squeeze_transpose_broadcast(…, broadcast_to_unitary=True)`). -/
def chainInput (out : List Ax) (s : St) (i : Nat) (e : List G) : Except String (List Ax × St) := do
  let (sq, s1) ← prepInput [] s i e
  stbU i s1 sq out

/-- All inputs in order (input `i` is in register `i`): the aligned expressions and operands. -/
def alignAll (out : List Ax) : Nat → St → List (List G) → Except String (List (List Ax) × List Opnd × St)
  | _, s, [] => pure ([], [], s)
  | i, s, e :: es => do
    let (e1, s1) ← chainInput out s i e
    let (xs, os', s2) ← alignAll out (i + 1) s1 es
    pure (e1 :: xs, ⟨e1, s1.reg, s1.shape⟩ :: os', s2)

/-- The same for an operation wrapped by `_associative_binary_to_nary`, with the binary calls
`x = binary_op(x, y)` in depth-first position: the accumulator `x` is the current tensor of `s`; every further
input is prepared, aligned and immediately combined. -/
def alignFold (f : String) (out : List Ax) : Nat → St → List (List G) → Except String (List (List Ax) × St)
  | _, s, [] => pure ([], s)
  | i, s, e :: es => do
    let (e1, s1) ← chainInput out s i e
    let s2 ← ewiseCall f s1 [⟨[], s.reg, s.shape⟩, ⟨e1, s1.reg, s1.shape⟩]
    let (xs, s3) ← alignFold f out (i + 1) s2 es
    pure (e1 :: xs, s3)

/-- `elementwise(op, classical).inner(*tensors, out=out)` on the prepared inputs: the expression of the result and
the state. -/
def ewInner (f : String) (s : St) (ins : List (List G)) (out : List Ax) : Except String (List Ax × St) := do
  let kind ← match ewKindOf f with
    | some k => pure k
    | none => throw s!"unsupported: elementwise operation {f}"
  match kind, ins with
  | _, [] => throw "elementwise: no operand"      -- `in_axes[0]`: IndexError
  | .fixed n, _ => do
    let (xs, os', s1) ← alignAll out 0 s ins
    let exprOut := pickCols out.length xs
    -- classical_from_numpy.elementwise: `if num_inputs is not None and len(xs) != num_inputs: raise ValueError`
    if os'.length != n then throw s!"The operation expects {n} input tensors"
    let s2 ← ewiseCall f s1 os'
    -- `_ensure_output`: the static shape of the result must be that of the chosen expression
    if s2.shape != lens exprOut then throw "Expected return value of the adapted function to be a tensor with another shape"
    pure (exprOut, s2)
  | .nary, e :: es => do
    let (e0, s0) ← chainInput out s 0 e
    let (xs, s1) ← alignFold f out 1 s0 es
    let exprOut := pickCols out.length (e0 :: xs)
    if s1.shape != lens exprOut then throw "Expected return value of the adapted function to be a tensor with another shape"
    pure (exprOut, s1)

/-- `Decomposer.__call__` around an elementwise operation: inputs in registers `0 … n-1`, one output. -/
def lowerElementwise (f : String) (ins : List (List G)) (eout : List G) : Except String St := do
  let s0 : St := { reg := 0, shape := [], prog := [], next := ins.length }
  let flatOut := G.leavesL eout
  -- remove broadcast axes from the output: the names of the decomposed, squeezed inputs
  let inNames := ins.flatMap (fun e => names (squeezedExpr [] e))
  let outNoBc := withoutBroadcast inNames flatOut
  -- decompose, remove unitary axes from the inputs, the inner function
  let (exprRes, s2) ← ewInner f s0 ins outNoBc
  -- transpose and broadcast to the flat output; compose
  let s3 ← stb s2 exprRes flatOut
  pure (reshapeW s3 (gShape eout))

/-! ### `decomposednamedtensor_from_classical.reduce` -/

/-- Result of a lowering that uses the extended instruction set. -/
structure LX where
  prog : List InstrX
  reg : Nat
deriving Repr, Inhabited

/-- The reductions that `classical_from_numpy.ops` wraps with `reduce(np.f)` (not `logsumexp`, which is composed of
other operations in `classical_from_classical`). -/
def redOps : List String := ["sum", "mean", "var", "std", "prod", "count_nonzero", "any", "all", "max", "min"]

/-- `_expr_to_axis`: positions of the bracketed axes. -/
def exprToAxis (marked : List String) (e : List Ax) : List Nat :=
  (List.range e.length).filter (fun k => match e[k]? with
    | some a => marked.contains a.name
    | none => false)

/-- The shape of `np.f(x, axis=axes)` (no `keepdims`), as `planInstrX` computes it. -/
def reducedShape (sx : List Nat) (axes : List Nat) : List Nat :=
  ((List.range sx.length).filter (fun a => !axes.contains a)).map (fun a => sx.getD a 0)

/-- `Decomposer.__call__` around a reduction: one input (register 0) whose bracketed axes are named by `marked`,
one output. -/
def lowerReduce (f : String) (marked : List String) (ein eout : List G) : Except String LX := do
  if !redOps.contains f then throw s!"unsupported: reduction {f}"
  let s0 : St := { reg := 0, shape := gShape ein, prog := [], next := 1 }
  let (sq, s1) ← prepInput marked s0 0 ein
  let flatOut := G.leavesL eout
  let _outNoBc := withoutBroadcast (names sq) flatOut      -- passed to the inner function, which ignores it
  -- reduce.inner
  let exprRes := sq.filter (fun a => !marked.contains a.name)       -- stage3.remove(expr_in, Brackets)
  let axes := exprToAxis marked sq
  let shape := reducedShape s1.shape axes
  -- `_ensure_output`
  if shape != lens exprRes then throw "Expected return value of the adapted function to be a tensor with another shape"
  let r := s1.next
  -- transpose and broadcast to the flat output; compose
  let s2 : St := { reg := r, shape := shape, prog := [], next := r + 1 }
  let s3 ← stb s2 exprRes flatOut
  let s4 := reshapeW s3 (gShape eout)
  pure ⟨s1.prog.map .base ++ [.reduce f s1.reg axes false] ++ s4.prog.map .base, s4.reg⟩

end Einx.Generic
