import EinxModel.Generic.Stb
import EinxModel.Basic.PyPrelude
/-
The three numpy primitives as they act on the tracing state of `Generic/Stb.lean`, and the stand-in for
`stage3.Axis.new_unnamed`.  These are the only hand-written ingredients of `Extracted/Stb.lean` (which
`tools/extract/stb.py` regenerates from /repo on every run): everything else there is translated from the
Python source.  `Props/C17Xlate.lean` proves the hand model of `Generic/Stb.lean` equal to that translation.
-/
namespace Einx.Generic
open Einx.IR

/-- Tracing `np.reshape(x, shape)`: one `reshape` instruction, the result has shape `shape`. -/
def St.npReshape (s : St) (shape : List Nat) : St := s.emit (.reshape s.reg shape) shape

/-- Tracing `np.transpose(x, perm)`: one `transpose` instruction, the result has the permuted shape. -/
def St.npTranspose (s : St) (perm : List Nat) : St :=
  s.emit (.transpose s.reg perm) (perm.map (fun p => s.shape.getD p 0))

/-- Tracing `np.broadcast_to(x, shape)`: one `broadcast_to` instruction, the result has shape `shape`. -/
def St.npBroadcastTo (s : St) (shape : List Nat) : St := s.emit (.broadcastTo s.reg shape) shape

/-- `stage3.Axis.new_unnamed(v)`: all fresh unnamed axes are represented by one reserved name (their
names are never compared by the translated functions after creation). -/
def Ax.unnamed (v : Nat) : Ax := ⟨"unnamed.", v⟩

end Einx.Generic
