import EinxModel.Generic.Stb
import EinxModel.Basic.PyPrelude
/-
The three numpy primitives as they act on the tracing state of `Generic/Stb.lean`, and the stand-in for
`stage3.Axis.new_unnamed`.  These are the only hand-written ingredients of `Extracted/Stb.lean` (which
`tools/extract/stb.py` regenerates from /repo on every run): everything else there is translated from the
Python source.  `Props/C17Xlate.lean` proves the hand model of `Generic/Stb.lean` equal to that translation.
-/
namespace Einx.Generic
open Einx.IR

/-- Tracing `np.reshape(x, shape)`: one `reshape` instruction, the result has shape `shape`. -/
def St.npReshape (s : St) (shape : List Nat) : St := s.emit (.reshape s.reg shape) shape

/-- Tracing `np.transpose(x, perm)`: one `transpose` instruction, the result has the permuted shape. -/
def St.npTranspose (s : St) (perm : List Nat) : St :=
  s.emit (.transpose s.reg perm) (perm.map (fun p => s.shape.getD p 0))

/-- Tracing `np.broadcast_to(x, shape)`: one `broadcast_to` instruction, the result has shape `shape`. -/
def St.npBroadcastTo (s : St) (shape : List Nat) : St := s.emit (.broadcastTo s.reg shape) shape

/-- Shape of `np.diagonal(x, axis1=a1, axis2=a2)`: both axes removed, the diagonal appended as last axis
(as in `IR/Prim.lean:planInstr`). -/
def diagShape (sx : List Nat) (a1 a2 : Nat) : List Nat :=
  removeAt (removeAt sx (max a1 a2)) (min a1 a2) ++ [sx.getD a1 0]

/-- Tracing `np.diagonal(x, axis1=a1, axis2=a2)` for canonical (non-negative) axes: numpy raises
`ValueError` for equal or out-of-range axes; axes of different lengths are rejected as in `planInstr`
(numpy would return the shorter diagonal; einx never asks for it). -/
def St.npDiagonal (s : St) (a1 a2 : Nat) : Except String St :=
  if a1 == a2 || a1 ≥ s.shape.length || a2 ≥ s.shape.length then .error "ValueError"
  else if s.shape.getD a1 0 != s.shape.getD a2 0 then .error "ValueError"
  else .ok (s.emit (.diagonal s.reg a1 a2) (diagShape s.shape a1 a2))

/-- `diagonal(x, **kwargs)` with `kwargs = {"axis1": a1, "axis2": a2}` (the keyword names are the defaults
`argname_axis1="axis1"`, `argname_axis2="axis2"` of `classical_from_numpy.diagonal`). -/
def St.npDiagonalKw (s : St) (kwargs : List (String × Int)) : Except String St := do
  let a1 ← Py.dictGet kwargs "axis1"
  let a2 ← Py.dictGet kwargs "axis2"
  if kwargs.length != 2 then throw "TypeError"
  St.npDiagonal s (← Py.natOfInt a1) (← Py.natOfInt a2)

/-- `stage3.Axis.new_unnamed(v)`: all fresh unnamed axes are represented by one reserved name (their
names are never compared by the translated functions after creation). -/
def Ax.unnamed (v : Nat) : Ax := ⟨"unnamed.", v⟩

end Einx.Generic
