import EinxModel.Denote.Expr
/-
C15 model: what the adapters `adapt_numpylike_reduce` / `adapt_numpylike_elementwise` do between the call of
the adapted operation and the invocation of the user function.

* `kwargNames` / `iskwarg`      -- `frontend/impl/_util.py:_make_iskwarg` and the lambdas of `frontend/impl/numpy.py`
* `splitKwargs` / `opInner`     -- `adapter/einx_from_namedtensor.py:op.inner` (clash check, then the split loop)
* `exprToAxis`                  -- `adapter/decomposednamedtensor_from_classical.py:_expr_to_axis`
* `reduceOutShape`, `elementwiseOutShape` -- the shape handed to `_ensure_output`
* `reduceNodes` / `elementwiseNodes`      -- the nodes the adapter + `_ensure_output` trace around the user constant
* `Graph`, `adaptOK`            -- a checker for *real* serialised graphs (proved sound in `Proofs/Adapt.lean`)
* `adaptReduce`, `denoteReduceAt`         -- flat-tensor semantics of the adapted call and the loop notation

Core Lean only (compiled into the driver).
-/
namespace Einx.Adapt
open Einx Einx.Denote

/-! ### `_make_iskwarg` -/

/-- `inspect.Parameter.kind`. -/
inductive ParamKind where
  | posOnly | posOrKw | varPos | kwOnly | varKw
deriving DecidableEq, Repr, Inhabited

structure Param where
  name : String
  kind : ParamKind
deriving DecidableEq, Repr, Inhabited

/-- Facts about one adapter that are read from the source tree (see `Extracted/Adapt.lean`). -/
structure Cfg where
  /-- parameter kinds whose names `_make_iskwarg` collects -/
  optionKinds : List ParamKind
  /-- parameter kinds for which `_make_iskwarg` raises `ValueError` -/
  rejectedKinds : List ParamKind
  /-- names the adapter's `iskwarg` lambda excludes (`name != "axis" and …` for reduce) -/
  excluded : List String
  /-- keywords `op.inner` pops before the split (`add_keepdims_param=True` ⇒ `keepdims`) -/
  reserved : List String
  /-- the keyword under which the bracketed positions are passed (`axis=` for reduce), if any -/
  axisKeyword : Option String
deriving DecidableEq, Repr, Inhabited

/-- The configuration of `adapt_numpylike_reduce` as the model understands it. -/
def reduceCfg : Cfg :=
  { optionKinds := [.kwOnly], rejectedKinds := [.varKw], excluded := ["axis"], reserved := ["keepdims"], axisKeyword := some "axis" }

/-- The configuration of `adapt_numpylike_elementwise`. -/
def elementwiseCfg : Cfg :=
  { optionKinds := [.kwOnly], rejectedKinds := [.varKw], excluded := [], reserved := [], axisKeyword := none }

/-- The loop of `_make_iskwarg`: names of keyword-only parameters in signature order; a `**kwargs` parameter is
an error (`ValueError`). -/
def kwargNames (cfg : Cfg) : List Param → Except String (List String)
  | [] => .ok []
  | p :: ps =>
    if cfg.optionKinds.contains p.kind then (kwargNames cfg ps).map (p.name :: ·)
    else if cfg.rejectedKinds.contains p.kind then .error s!"ValueError: var-keyword parameter **{p.name}"
    else kwargNames cfg ps

/-- The predicate handed to `einx_from_namedtensor.op(…, iskwarg=…)`. -/
def iskwarg (cfg : Cfg) (names : List String) (name : String) : Bool :=
  !cfg.excluded.contains name && names.contains name

/-! ### `op.inner`: clash check and split -/

/-- The split loop of `op.inner`:
```
for key, value in kwargs.items():
    if iskwarg(key): new_kwargs[key] = value
    else:            parameters[key] = value
```
Returns `(options, parameters)`; both keep the call order.  `α` is the type of Python values: the function is
parametric in it, i.e. values are moved, never inspected or rebuilt. -/
def splitKwargs {α : Type} (isk : String → Bool) : List (String × α) → List (String × α) × List (String × α)
  | [] => ([], [])
  | (k, v) :: rest =>
    let r := splitKwargs isk rest
    if isk k then ((k, v) :: r.1, r.2) else (r.1, (k, v) :: r.2)

inductive Err where
  /-- `SemanticError`: these axis names of the description are keyword arguments of the elementary operation -/
  | semantic (names : List String)
deriving DecidableEq, Repr, Inhabited

/-- `op.inner` between `_parse_op` and `solve`: reserved keywords are popped, a description that uses an option
name as an axis name is rejected, then the keywords are split.  `used` are the axis names of the description.
Result: `(options forwarded to the user function, parameters handed to the solver)`. -/
def opInner {α : Type} (cfg : Cfg) (isk : String → Bool) (used : List String) (kwargs : List (String × α)) :
    Except Err (List (String × α) × List (String × α)) :=
  let kwargs := kwargs.filter (fun kv => !cfg.reserved.contains kv.1)
  if used.any isk then .error (.semantic (used.filter isk))
  else .ok (splitKwargs isk kwargs)

/-! ### `_expr_to_axis` and the expected result shape -/

def exprToAxisFrom : Nat → List Bool → List Nat
  | _, [] => []
  | i, m :: ms => if m then i :: exprToAxisFrom (i + 1) ms else exprToAxisFrom (i + 1) ms

/-- `_expr_to_axis` on a flat expression given as the bracket marks of its root dims:
the positions of the marked dims. -/
def exprToAxis (marks : List Bool) : List Nat := exprToAxisFrom 0 marks

def marksOf (ls : List Leaf) : List Bool := ls.map (·.marked)

/-- `stage3.remove(expr_in, Brackets, keep_children=False).shape` for a flat expression. -/
def reduceOutShape (ls : List Leaf) : List Nat := (ls.filter (fun l => l.marked == false)).map (·.size)

/-- The shape `elementwise.inner` expects back: per position the largest length among the aligned inputs
(`np.argmax` over the `i`-th axes of all inputs, then that axis' value). `none` if the ranks differ
(the `assert len({len(a) for a in in_axes}) == 1`) or there is no input. -/
def elementwiseOutShape : List (List Nat) → Option (List Nat)
  | [] => none
  | s :: ss =>
    if ss.all (fun t => t.length == s.length) then
      some (ss.foldl (fun acc t => List.zipWith max acc t) s)
    else none

/-! ### Traced nodes around the user constant (model of the graph builder) -/

inductive Node (α : Type) where
  /-- `op(*tensors, axis=…, **options)` on the constant that holds the user function -/
  | callUser (args : List (List Nat)) (axis : Option (List Nat)) (options : List (String × α))
  /-- `assert isinstance(result, expected_type)` -/
  | assertIsinstance
  /-- `assert tuple(result.shape) == shape` -/
  | assertShape (shape : List Nat)
  /-- `tracer.cast(result, Tensor(shape))`: from here on the value is used as a tensor of that shape -/
  | castTensor (shape : List Nat)
deriving Repr

/-- `reduce.inner` with `_ensure_output(op, (expr_out.shape,), expected_type)`. -/
def reduceNodes {α : Type} (ls : List Leaf) (options : List (String × α)) : List (Node α) :=
  [.callUser [ls.map (·.size)] (some (exprToAxis (marksOf ls))) options,
   .assertIsinstance, .assertShape (reduceOutShape ls), .castTensor (reduceOutShape ls)]

/-- `elementwise.inner` after the inputs were aligned to the output (`shapes`: the aligned shapes). -/
def elementwiseNodes {α : Type} (shapes : List (List Nat)) (options : List (String × α)) : Option (List (Node α)) :=
  (elementwiseOutShape shapes).map (fun s =>
    [.callUser shapes none options, .assertIsinstance, .assertShape s, .castTensor s])

/-! ### Real graphs (decoded from `graphcap.graph_to_json`) and the checker -/

/-- Python values occurring as arguments in a serialised graph. -/
inductive Val where
  | ref (id : Nat)
  | int (i : Int)
  | float (repr : String)
  | bool (b : Bool)
  | str (s : String)
  | none
  | tuple (items : List Val)
  | list (items : List Val)
  | dict (keys : List Val) (vals : List Val)
  | obj (idx : Nat)
  | other (tag : String)
deriving Repr, Inhabited

mutual
def Val.beq : Val → Val → Bool
  | .ref a, .ref b => a == b
  | .int a, .int b => a == b
  | .float a, .float b => a == b
  | .bool a, .bool b => a == b
  | .str a, .str b => a == b
  | .none, .none => true
  | .tuple a, .tuple b => Val.beqL a b
  | .list a, .list b => Val.beqL a b
  | .dict k v, .dict k' v' => Val.beqL k k' && Val.beqL v v'
  | .obj a, .obj b => a == b
  | .other a, .other b => a == b
  | _, _ => false
def Val.beqL : List Val → List Val → Bool
  | [], [] => true
  | a :: as, b :: bs => Val.beq a b && Val.beqL as bs
  | _, _ => false
end

instance : BEq Val := ⟨Val.beq⟩

mutual
/-- Number of occurrences of tracer `id` in a value. -/
def Val.uses (id : Nat) : Val → Nat
  | .ref a => if a == id then 1 else 0
  | .tuple l | .list l => Val.usesL id l
  | .dict k v => Val.usesL id k + Val.usesL id v
  | _ => 0
def Val.usesL (id : Nat) : List Val → Nat
  | [] => 0
  | v :: vs => v.uses id + Val.usesL id vs
end

def intsVal (l : List Nat) : Val := .tuple (l.map (fun n => .int (Int.ofNat n)))

/-- One application node of a traced graph. `out` is the tracer (or pytree of tracers) it defines. -/
inductive App where
  | import_ (name : String) (out : Nat)
  | builtin (name : String) (out : Nat)
  | constant (value : Val) (out : Nat)
  | getattr (obj : Val) (key : String) (out : Nat)
  | call (fn : Val) (args : List Val) (kwargs : List (String × Val)) (out : Val)
  | operator (op : String) (operands : List Val) (out : Nat)
  | assert_ (xs : Val) (cond : Val) (out : Nat)
  | cast (input : Val) (out : Val)
  | other (kind : String) (inputs : List Val) (out : Val)
deriving Repr, Inhabited

def App.uses (id : Nat) : App → Nat
  | .import_ _ _ | .builtin _ _ => 0
  | .constant v _ => v.uses id
  | .getattr o _ _ => o.uses id
  | .call f args kwargs _ => f.uses id + Val.usesL id args + Val.usesL id (kwargs.map (·.2))
  | .operator _ ops _ => Val.usesL id ops
  | .assert_ xs c _ => xs.uses id + c.uses id
  | .cast i _ => i.uses id
  | .other _ ins _ => Val.usesL id ins

structure Graph where
  apps : List App
  /-- traced tensor shapes: tracer id ↦ shape (tracers of type `Tensor`) -/
  shapes : List (Nat × List Nat)
  output : Val
deriving Repr, Inhabited

/-- Total number of uses of tracer `id` (as operand of any node, or as graph output). -/
def Graph.uses (g : Graph) (id : Nat) : Nat :=
  (g.apps.map (App.uses id)).sum + g.output.uses id

def Graph.shapeOf (g : Graph) (id : Nat) : Option (List Nat) := g.shapes.lookup id

/-- What a graph of an adapted call has to contain. -/
structure Spec where
  /-- shapes of the aligned tensors the user function must receive (in order) -/
  argShapes : List (List Nat)
  /-- expected `axis=` tuple (reduce), `none` for adapters without it -/
  axis : Option (List Nat)
  /-- the forwarded options, in call order, verbatim -/
  options : List (String × Val)
  /-- the shape asserted on the result -/
  outShape : List Nat
deriving Repr, Inhabited

def Spec.kwargs (s : Spec) : List (String × Val) :=
  (match s.axis with | some a => [("axis", intsVal a)] | none => []) ++ s.options

def kwBeq : List (String × Val) → List (String × Val) → Bool
  | [], [] => true
  | (k, v) :: r, (k', v') :: r' => k == k' && Val.beq v v' && kwBeq r r'
  | _, _ => false

def isUserConstant : App → Bool
  | .constant (.obj _) _ => true
  | _ => false

def isAnyConstant : App → Bool
  | .constant _ _ => true
  | _ => false

def isCallOf (c : Nat) : App → Bool
  | .call (.ref f) _ _ _ => f == c
  | _ => false

def isAssertOn (r : Nat) : App → Bool
  | .assert_ (.ref x) _ _ => x == r
  | _ => false

def isCastOf (r : Nat) : App → Bool
  | .cast (.ref x) _ => x == r
  | _ => false

def App.isBuiltin (name : String) (o : Nat) : App → Bool
  | .builtin n o' => n == name && o' == o
  | _ => false

def App.isImport (name : String) (o : Nat) : App → Bool
  | .import_ n o' => n == name && o' == o
  | _ => false

/-- `cnd` is defined as `isinstance(r, numpy.ndarray)`. -/
def isinstanceCond (g : Graph) (cnd r : Nat) : Bool :=
  g.apps.any (fun a => match a with
    | .call (.ref b) [.ref x, .ref nd] [] (.ref o) =>
      o == cnd && x == r && g.apps.any (App.isBuiltin "isinstance" b)
      && g.apps.any (fun a' => match a' with
        | .getattr (.ref m) k nd' => k == "ndarray" && nd' == nd && g.apps.any (App.isImport "numpy" m)
        | _ => false)
    | _ => false)

/-- `cnd` is defined as `tuple(r.shape) == shape`. -/
def shapeCond (g : Graph) (cnd r : Nat) (shape : List Nat) : Bool :=
  g.apps.any (fun a => match a with
    | .operator op [.ref ts, lit] o =>
      op == "==" && o == cnd && Val.beq lit (intsVal shape) && g.apps.any (fun a' => match a' with
        | .call (.ref tp) [.ref sh] [] (.ref ts') =>
          ts' == ts && g.apps.any (App.isBuiltin "tuple" tp)
          && g.apps.any (fun a'' => match a'' with
            | .getattr (.ref x) k sh' => k == "shape" && sh' == sh && x == r
            | _ => false)
        | _ => false)
    | _ => false)

def argsOK (g : Graph) : List Val → List (List Nat) → Bool
  | [], [] => true
  | .ref t :: as, s :: ss => g.shapeOf t == some s && argsOK g as ss
  | _, _ => false

/-- The checker for the graph of an adapted call:
1. exactly one constant node, holding an opaque Python object (the user function) `c`;
2. `c` is used exactly once, as the function of exactly one call;
3. the positional arguments are tracers whose traced shapes are the aligned shapes of `spec`, the keywords are
   exactly `axis=<spec.axis>` (if any) followed by the options of `spec`, verbatim and in order;
4. the result `r` is used only by `isinstance(r, numpy.ndarray)` and by an assert on that condition giving `r1`;
   `r1` is used only by `r1.shape` and by an assert on `tuple(r1.shape) == spec.outShape` giving `r2`;
   `r2` is used only by a cast to a tensor of the traced shape `spec.outShape`. -/
def adaptOK (g : Graph) (s : Spec) : Bool :=
  match g.apps.filter isAnyConstant with
  | [.constant (.obj _) c] =>
    match g.apps.filter (isCallOf c) with
    | [.call _ args kwargs (.ref r)] =>
      g.uses c == 1 && argsOK g args s.argShapes && kwBeq kwargs s.kwargs &&
      match g.apps.filter (isAssertOn r) with
      | [.assert_ _ (.ref c1) r1] =>
        isinstanceCond g c1 r && g.uses r == 2 &&
        match g.apps.filter (isAssertOn r1) with
        | [.assert_ _ (.ref c2) r2] =>
          shapeCond g c2 r1 s.outShape && g.uses r1 == 2 && g.uses r2 == 1 &&
          match g.apps.filter (isCastOf r2) with
          | [.cast _ (.ref r3)] => g.shapeOf r3 == some s.outShape
          | _ => false
        | _ => false
      | _ => false
    | _ => false
  | _ => false

/-- Same as `adaptOK`, with the first failing requirement as a message (for the driver). -/
def adaptCheck (g : Graph) (s : Spec) : Except String Unit :=
  match g.apps.filter isAnyConstant with
  | [.constant (.obj _) c] =>
    match g.apps.filter (isCallOf c) with
    | [.call _ args kwargs (.ref r)] =>
      if g.uses c != 1 then .error "the user constant is used outside the call"
      else if !argsOK g args s.argShapes then .error s!"positional arguments are not tracers of the aligned shapes {s.argShapes}"
      else if !kwBeq kwargs s.kwargs then .error s!"keywords {kwargs.map (·.1)} differ from axis/options {s.kwargs.map (·.1)} (names or values)"
      else match g.apps.filter (isAssertOn r) with
        | [.assert_ _ (.ref c1) r1] =>
          if !isinstanceCond g c1 r then .error "first assert is not isinstance(result, numpy.ndarray)"
          else if g.uses r != 2 then .error "the raw result is used outside isinstance/assert"
          else match g.apps.filter (isAssertOn r1) with
            | [.assert_ _ (.ref c2) r2] =>
              if !shapeCond g c2 r1 s.outShape then .error s!"second assert is not tuple(result.shape) == {s.outShape}"
              else if g.uses r1 != 2 then .error "the type-checked result is used outside shape/assert"
              else if g.uses r2 != 1 then .error "the checked result is used other than by one cast"
              else match g.apps.filter (isCastOf r2) with
                | [.cast _ (.ref r3)] =>
                  if g.shapeOf r3 == some s.outShape then .ok () else .error "cast shape differs from the asserted shape"
                | _ => .error "the checked result is not cast exactly once"
            | _ => .error "no unique shape assert on the type-checked result"
        | _ => .error "no unique assert on the raw result"
    | l => .error s!"{l.length} calls of the user constant (exactly one expected)"
  | l => .error s!"{l.length} constant nodes / not an opaque object (exactly one user constant expected)"

/-! ### Flat-tensor semantics (for `reduce_axis_semantics`) -/

/-- Marks of the positions `0 … n-1` given the tuple `A` of bracketed positions. -/
def marksAt (A : List Nat) (n : Nat) : List Bool := (List.range n).map (fun i => A.contains i)

/-- Components of `l` at the marked (`b = true`) or unmarked positions. -/
def select {α : Type} (b : Bool) : List Bool → List α → List α
  | m :: ms, x :: xs => if m == b then x :: select b ms xs else select b ms xs
  | _, _ => []

/-- Multi-index of the whole tensor from the index `ρ` over the unmarked and `τ` over the marked dims. -/
def interleave : List Bool → List Nat → List Nat → List Nat
  | [], _, _ => []
  | true :: ms, ρ, t :: τ => t :: interleave ms ρ τ
  | true :: ms, ρ, [] => 0 :: interleave ms ρ []
  | false :: ms, r :: ρ, τ => r :: interleave ms ρ τ
  | false :: ms, [], τ => 0 :: interleave ms [] τ

/-- All multi-indices of a shape in row-major order. -/
def allIdx : List Nat → List (List Nat)
  | [] => [[]]
  | s :: ss => (List.range s).flatMap (fun i => (allIdx ss).map (fun r => i :: r))

/-- A flat tensor: row-major offset ↦ element. -/
abbrev Flat (α : Type) := Nat → α

/-- The sub-tensor of `x` (shape `shape`) at index `ρ` of the dims not in `A`, as the row-major list of its elements. -/
def subTensor {α : Type} (shape : List Nat) (A : List Nat) (x : Flat α) (ρ : List Nat) : List α :=
  let marks := marksAt A shape.length
  (allIdx (select true marks shape)).map (fun τ => x (ravel shape (interleave marks ρ τ)))

/-- The documented numpy-like contract of a reduce function `F` (called as `F shape A x`, result a flat tensor of
the shape without the positions `A`) with elementary operation `Fel` (sub-shape and row-major elements ↦ value):
`F(x, axis=A)[ρ] = Fel(x[ρ, :])`. -/
def NumpyLike {α β : Type} (F : List Nat → List Nat → Flat α → Flat β) (Fel : List Nat → List α → β) : Prop :=
  ∀ (shape A : List Nat) (x : Flat α) (ρ : List Nat),
    Valid (select false (marksAt A shape.length) shape) ρ →
    F shape A x (ravel (select false (marksAt A shape.length) shape) ρ)
      = Fel (select true (marksAt A shape.length) shape) (subTensor shape A x ρ)

/-- The adapter: the whole aligned tensor and `axis = _expr_to_axis(expr_in)`. -/
def adaptReduce {α β : Type} (F : List Nat → List Nat → Flat α → Flat β) (ls : List Leaf) (x : Flat α) : Flat β :=
  F (ls.map (·.size)) (exprToAxis (marksOf ls)) x

def axesOfMarked (b : Bool) (ls : List Leaf) : List (String × Nat) :=
  (ls.filter (fun l => l.marked == b)).map (fun l => (l.name, l.size))

/-- The loop notation for a reduction over a flat concat-free expression at the assignment `σ` of the un-bracketed
axes: gather the sub-tensor over all assignments `τ` of the bracketed axes (row-major, expression order) through
`Denote.position`, apply the elementary operation.  (`lib/denote.py:denote_reduce`.) -/
def denoteReduceAt {α β : Type} (Fel : List Nat → List α → β) (ls : List Leaf) (x : Flat α) (σ : Assign) : Option β := do
  let view := ls.map Dim.axis
  let shape := ls.map (·.size)
  let sub ← (assignments (axesOfMarked true ls)).mapM (fun τ =>
    (position view (σ ++ τ)).map (fun p => x (ravel shape p)))
  pure (Fel ((axesOfMarked true ls).map (·.2)) sub)

/-- Where the value for `σ` is stored in the output (`expr_out` = the un-bracketed axes in order). -/
def outPosition (ls : List Leaf) (σ : Assign) : Option Nat :=
  (position ((ls.filter (fun l => l.marked == false)).map Dim.axis) σ).map (ravel (reduceOutShape ls))

end Einx.Adapt
