/-!
C16 / M2: the implicit-output choice of `_parse_op` (`einx/_src/adapter/einx_from_namedtensor.py`) for operations whose
elementary inputs and outputs are scalars (elementwise operations):

```
in_axis_names = [{expr.name for expr in root.nodes() if isinstance(expr, stage1.Axis) and expr.value != 1} for root in exprs_in]
valid_parents = set()
for i, parent in enumerate(in_axis_names):
    for j, child in enumerate(in_axis_names):
        if i != j and not child.issubset(parent):
            break
    else:
        valid_parents.add(exprs_in[i])
if len(valid_parents) != 1:
    raise SemanticError(...)
exprs_out = [valid_parents.pop().__deepcopy__()]
```
Stage-1 expressions hash and compare structurally, so the set holds the *distinct* valid parents.  `enum` is the order in
which the set enumerates its members; `set.pop()` returns the first one.  Whether the length check is present is read
from the source (`Einx.Extracted.Sets.validParentsPopGuarded`).  Core Lean only.
-/
namespace Einx.Order.Implicit

/-- Input `i` contains the (non-unit) axis names of every other input. -/
def isValidParent (names : List (List String)) (i : Nat) : Bool :=
  match names[i]? with
  | none => false
  | some parent => names.zipIdx.all (fun cj => i == cj.2 || cj.1.all (fun n => parent.contains n))

/-- The members of `valid_parents`, in insertion order. -/
def validParents {α : Type} [BEq α] (exprs : List α) (names : List (List String)) : List α :=
  ((exprs.zipIdx.filter (fun ei => isValidParent names ei.2)).map (·.1)).eraseDups

/-- The chosen output expression; `none` = `SemanticError` (or `KeyError` of `pop` on an empty set). -/
def implicitOutput {α : Type} [BEq α] (guarded : Bool) (enum : List α → List α) (exprs : List α)
    (names : List (List String)) : Option α :=
  let vp := validParents exprs names
  if guarded && vp.length != 1 then none else (enum vp).head?

end Einx.Order.Implicit
