import EinxModel.Update.Model
/-!
C16 / M3: what the (hash-seed dependent) axis order chosen by `_join_exprs` does to an indexed update.

`update_at_ravelled` aligns every operand to `expr_intermediate = _join_exprs(...)` **by axis name**
(`_ravel(..., expr_intermediate)` and `_squeeze_transpose_broadcast(..., expr_intermediate)`); a different
enumeration order of the set in `take_one` therefore yields the *same* solved operation with its un-bracketed axes
listed in a different order.  In the model of C14 (`Einx.Update.Op`) operands refer to the iteration axes by position,
so a different order is `Op.reorder p`: `p` lists, for every new position, the old position of the axis placed there,
and every reference `j` becomes the new position of old axis `j`.  Core Lean only.
-/
namespace Einx.Order
open Einx.Update

/-- New position of the old axis `j` under the order `p` (`p.length` if `j` does not occur: an invalid reference stays
invalid). -/
def newPos (p : List Nat) (j : Nat) : Nat := p.idxOf j

def reorderC (p : List Nat) : CDim → CDim
  | .ax j => .ax (newPos p j)
  | .br n => .br n

def reorderT (p : List Nat) : TDim → TDim
  | .vec j => .vec (newPos p j)
  | .idx n => .idx n

/-- The same solved update with its iteration axes listed in the order `p` (`none` if `p` mentions a position that
does not exist). -/
def reorder (p : List Nat) (op : Op) : Option Op :=
  match pick op.axes p with
  | some axes' =>
    some { axes := axes'
           tdims := op.tdims.map (reorderT p)
           coords := op.coords.map (fun c => { c with dims := c.dims.map (reorderC p) })
           udims := op.udims.map (newPos p)
           udata := op.udata }
  | none => none

/-- The old-order assignment that corresponds to a new-order assignment `σ'`: old axis `j` has the value found at its
new position. -/
def unperm (p : List Nat) (n : Nat) (σ' : List Nat) : List Nat :=
  (List.range n).map (fun j => σ'.getD (newPos p j) 0)

/-- All update addresses are pairwise distinct (no two assignments write the same element). -/
def distinctAddresses (op : Op) : Bool :=
  match op.contribs with
  | some cs => decide ((cs.map (·.1)).Nodup)
  | none => true

end Einx.Order
