import EinxModel.Extracted.Sets
/-!
C16: the fixed list of order-revealing set-consumption sites of einx that are MODELLED, each with the theorem(s) of
`Props/C16.lean` that show the observable result does not depend on the enumeration order.  The inventory itself
(`Einx.Extracted.Sets.setSites`) is regenerated from `/repo` on every run; a site is identified by file, enclosing function,
kind of consumption and the source text of the consuming expression – not by its line number.
-/
namespace Einx.Order
open Einx.Extracted.Sets

structure Modelled where
  file : String
  func : String
  kind : String
  snippet : String
  /-- theorem(s) of `Props/C16.lean` (or of another property) that discharge the site, and why they apply -/
  why : String
deriving Repr

def modelledSites : List Modelled := [
  ⟨"einx/_src/adapter/decomposednamedtensor_from_classical.py", "_join_exprs.take_one", "to_list", "list({axes2[0].name for axes2 in axes if len(axes2) > 0})",
    "join_exprs_order_invariant (same axes, same lengths, any order); the order only permutes the iteration axes of the update: reorder_add_sub_invariant, reorder_set_invariant_partial (set_at with duplicate addresses is NOT invariant: set_duplicates_order_sensitive)"⟩,
  ⟨"einx/_src/adapter/einx_from_namedtensor.py", "_semantic_checks_dot", "for", "for axis_name in marked_axis_names",
    "raise_on_any_order_invariant: the loop only collects the names for which a SemanticError is raised afterwards"⟩,
  ⟨"einx/_src/frontend/backend.py", "BackendRegistryState._get_by_tensors", "to_list", "list(backends)",
    "keepMax_perm, registry_outcome_perm"⟩,
  ⟨"einx/_src/namedtensor/stage1/parse.py", "", "to_list", "list(_delimiters_back)",
    "first_match_order_invariant with Einx.Notation.literals_prefix_free (C12): at most one literal matches at a position"⟩,
  ⟨"einx/_src/namedtensor/stage1/parse.py", "", "to_list", "list(_delimiters_front)",
    "first_match_order_invariant with Einx.Notation.literals_prefix_free (C12): at most one literal matches at a position"⟩,
  ⟨"einx/_src/namedtensor/stage1/parse.py", "parse_op", "for", "for axis_name in axis_names",
    "raise_on_any_order_invariant: the first offending name found raises SyntaxError; which one only changes the caret"⟩,
  ⟨"einx/_src/namedtensor/stage2/cse.py", "cse", "comp", "[str_to_common_expr[k] for k in common_exprs]",
    "cse_filters_order_invariant, cse_order_invariant_partial (overlapping candidates are NOT invariant: cse_overlap_order_sensitive)"⟩,
  ⟨"einx/_src/util/solver.py", "solve", "to_list", "list(set(equations))",
    "solver_spec_order_invariant: the solution set depends on the members of the equation list only (sympy itself is not modelled)"⟩,
  ⟨"einx/_src/util/solver.py", "solve", "pop", "v.pop()",
    "singleton_pop_order_invariant: every `values` set has one element here, otherwise SolveExceptionNoSolution was raised two lines above"⟩,
  ⟨"einx/_src/util/solver.py", "solve", "for", "for t_id in set2",
    "comm_fold_order_invariant: `classes[t] = set1; set1.add(t)` for different t commute"⟩,
  ⟨"einx/_src/util/solver.py", "solve", "comp", "{v: c for c in classes for v in c}",
    "comm_fold_order_invariant: the classes are disjoint, every key is written once"⟩,
  ⟨"einx/_src/util/solver.py", "solve", "next_iter", "next(iter(class_constants))",
    "singleton_pop_order_invariant when the class has one constant; with several constants SolveExceptionNoSolution is raised after the loop (raise_on_any_order_invariant)"⟩,
  ⟨"einx/_src/util/solver.py", "solve", "format", "{variables[vid].name for vid in equiv_class}",
    "description string of a solver variable; shown in messages only"⟩,
  ⟨"einx/_src/util/solver.py", "solve", "for", "for n in equiv_class",
    "comm_fold_order_invariant: `origvar_to_solvevar[n] = v` for different n commute"⟩,
  ⟨"einx/_src/util/solver.py", "solve", "comp", "[variables[vid] for to in [t1o, t2o] for v0 in to if isinstance(v0, Variable) for vid in variableid_to_class[v0.id]]",
    "raise_on_any_order_invariant: feeds the set `contradicting_variables` of a SolveExceptionNoSolution"⟩
]

/-- A site needs no model (the consumer cannot reveal the order / only an error text can), is a `pop` of a set that the
code has just checked to have exactly one element (`singleton_pop_order_invariant`), or is one of the modelled sites. -/
def _root_.Einx.Extracted.Sets.SetSite.discharged (s : SetSite) : Bool :=
  s.cls == .orderSafe || s.cls == .messageOnly
    || ((s.kind == "pop" || s.kind == "next_iter") && s.guardedSingleton)
    || modelledSites.any (fun m => m.file == s.file && m.func == s.func && m.kind == s.kind && m.snippet == s.snippet)

/-- A random draw is harmless if the value only becomes (part of) a name (`fresh_name_invariant`) or is only compared
for equality / used as a dictionary key (object identity). -/
def _root_.Einx.Extracted.Sets.DrawSite.discharged (s : DrawSite) : Bool := s.cls == .nameOnly || s.cls == .identityTest

end Einx.Order
