/-!
C16 / M4: `_join_exprs` of `einx/_src/adapter/decomposednamedtensor_from_classical.py`, with the enumeration order of
the set in `take_one` as an explicit argument.  Core Lean only.

```
def _join_exprs(exprs):
    axisname_to_value = {axis.name: axis.value for expr in exprs for axis in expr.nodes() if isinstance(axis, stage3.Axis)}
    axes = [[expr for expr in expr.nodes() if isinstance(expr, stage3.Axis) and expr.value != 1] for expr in exprs]
    def take_one():
        def get_count(name):
            return sum((1 if name == axis.name else 0) for axes2 in axes for axis in axes2)
        first_axisnames = list({axes2[0].name for axes2 in axes if len(axes2) > 0})      # <- set enumeration
        counts = [get_count(name) for name in first_axisnames]
        idx = np.argmax(counts)
        return first_axisnames[idx]
    def remove(axes, name):
        return [axis for axis in axes if axis.name != name]
    joined_axisnames = []
    while any(len(axes2) > 0 for axes2 in axes):
        axisname = take_one()
        joined_axisnames.append(axisname)
        axes = [remove(axes2, axisname) for axes2 in axes]
    return stage3.List.create([stage3.Axis(name, axisname_to_value[name]) for name in joined_axisnames])
```
An expression is the list of its axes `(name, value)` in `nodes()` order.  `enum` is the enumeration oracle: it receives the
list of first names in insertion order (with repetitions) and returns them as the set enumerates them – any duplicate-free
list with the same members (`EnumOK`); it may answer differently at every step.
-/
namespace Einx.Order.Join

abbrev Ax := String × Nat

/-- `axisname_to_value[name]`: a dict comprehension keeps the *last* value written for a key. -/
def valueOf (exprs : List (List Ax)) (name : String) : Option Nat :=
  (exprs.flatten.reverse.find? (fun a => a.1 == name)).map (·.2)

/-- `axes`: per expression the names of the axes with `value != 1`. -/
def nonUnit (exprs : List (List Ax)) : List (List String) :=
  exprs.map (fun e => (e.filter (fun a => a.2 != 1)).map (·.1))

/-- `get_count(name)`. -/
def getCount (axes : List (List String)) (name : String) : Nat :=
  (axes.flatten.filter (fun n => name == n)).length

/-- `[axes2[0].name for axes2 in axes if len(axes2) > 0]` in insertion order. -/
def firsts (axes : List (List String)) : List String := axes.filterMap List.head?

/-- `np.argmax`: index of the first maximal entry (`none` for an empty list: numpy raises). -/
def argmaxFirst : List Nat → Option Nat
  | [] => none
  | c :: cs =>
    match argmaxFirst cs with
    | none => some 0
    | some k => if cs.getD k 0 > c then some (k + 1) else some 0

/-- `take_one()`. -/
def takeOne (enum : List String → List String) (axes : List (List String)) : Option String :=
  let names := enum (firsts axes)
  match argmaxFirst (names.map (getCount axes)) with
  | some i => names[i]?
  | none => none

/-- `[remove(axes2, name) for axes2 in axes]`. -/
def removeName (axes : List (List String)) (name : String) : List (List String) :=
  axes.map (fun l => l.filter (fun n => n != name))

/-- Number of axis occurrences still to be placed. -/
def total (axes : List (List String)) : Nat := axes.flatten.length

/-- The `while` loop; `fuel` bounds the number of iterations (`join_loop_fuel_enough`: `total axes` iterations
suffice for every admissible enumeration).  `none` = the Python code raises (cannot happen for an admissible `enum`). -/
def joinLoop (enum : List String → List String) : Nat → List (List String) → List String → Option (List String)
  | 0, axes, acc => if axes.any (fun l => !l.isEmpty) then none else some acc
  | fuel + 1, axes, acc =>
    if axes.any (fun l => !l.isEmpty) then
      match takeOne enum axes with
      | some n => joinLoop enum fuel (removeName axes n) (acc ++ [n])
      | none => none
    else some acc

/-- `joined_axisnames`. -/
def joinNames (enum : List String → List String) (exprs : List (List Ax)) : Option (List String) :=
  let axes := nonUnit exprs
  joinLoop enum (total axes) axes []

/-- All entries are present (`none` = a `KeyError`). -/
def allSome {α : Type} : List (Option α) → Option (List α)
  | [] => some []
  | none :: _ => none
  | some a :: r => (allSome r).map (a :: ·)

/-- `_join_exprs(exprs)`: the joined expression as `(name, value)` list. -/
def joinExprs (enum : List String → List String) (exprs : List (List Ax)) : Option (List Ax) :=
  match joinNames enum exprs with
  | some names => allSome (names.map (fun n => (valueOf exprs n).map (fun v => (n, v))))
  | none => none

/-- What a Python set may do: enumerate its members, each once, in any order. -/
def EnumOK (enum : List String → List String) : Prop :=
  ∀ l, (enum l).Nodup ∧ ∀ x, x ∈ enum l ↔ x ∈ l

/-- Two enumerations used by examples and by the driver: first-occurrence order and its reverse. -/
def enumFirst (l : List String) : List String := l.eraseDups
def enumLast (l : List String) : List String := l.eraseDups.reverse

/-- An enumeration given as a priority list (the order in which the real set was observed to enumerate):
members of `l` in the order of `prio`, then the rest in first-occurrence order. -/
def enumBy (prio : List String) (l : List String) : List String :=
  let d := l.eraseDups
  prio.eraseDups.filter (fun x => d.contains x) ++ d.filter (fun x => !prio.contains x)

end Einx.Order.Join
