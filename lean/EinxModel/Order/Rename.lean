import EinxModel.Denote.Expr
/-!
C16 / M3: renaming of axis names.  einx draws `unnamed.<uuid4>` names for numbers in a description and for the axes it
invents (`Axis.new_unnamed`, the coordinate axis of `get_at`, …) and a uuid for every ellipsis; a different draw is a
renaming of the leaves of the solved expressions that is injective on the names in use.  Core Lean only.
-/
namespace Einx.Order.Fresh
open Einx.Denote

def renameLeaf (ρ : String → String) (l : Leaf) : Leaf := { l with name := ρ l.name }

mutual
def renameDim (ρ : String → String) : Dim → Dim
  | .axis l => .axis (renameLeaf ρ l)
  | .flat ds => .flat (renameDims ρ ds)
  | .concat ds => .concat (renameDims ρ ds)
  | .off o d t => .off o (renameDim ρ d) t
def renameDims (ρ : String → String) : List Dim → List Dim
  | [] => []
  | d :: ds => renameDim ρ d :: renameDims ρ ds
end

def renameAssign (ρ : String → String) (σ : Assign) : Assign := σ.map (fun kv => (ρ kv.1, kv.2))

mutual
/-- All axis names below a dimension (including those inside concatenations). -/
def dimNames : Dim → List String
  | .axis l => [l.name]
  | .flat ds => dimsNames ds
  | .concat ds => dimsNames ds
  | .off _ d _ => dimNames d
def dimsNames : List Dim → List String
  | [] => []
  | d :: ds => dimNames d ++ dimsNames ds
end

/-- `ρ` is injective on the names in `ns`. -/
def InjOn (ρ : String → String) (ns : List String) : Prop := ∀ a ∈ ns, ∀ b ∈ ns, ρ a = ρ b → a = b

end Einx.Order.Fresh
