/-!
C16 / M2: the part of `einx/_src/namedtensor/stage2/cse.py` in which the iteration order of the set
`common_exprs` can be observed.  Core Lean only.

`cse()` collects candidate sub-expressions in a dict keyed by their printed form, filters the keys into the
**set** `common_exprs`, and turns it into a list by iterating the set (`[str_to_common_expr[k] for k in
common_exprs]`).  From there on the code is

* a chain of filters `common_exprs = [c for c in common_exprs if P c]` (`P` looks at `c` alone) and one filter whose
  predicate also quantifies over the whole list (`not any(id(c) != id(c2) and any_is_parent_of(c2, c) for c2 in
  common_exprs)`): modelled by `filterEach` / `filterAgainst`, for arbitrary predicates;
* `replace`, which walks every root expression and substitutes `cse.<idx>` axes, `idx` being the position of the
  candidate in the list: modelled line by line (`matchNode`, `matchAt`, `rebuild`).

A candidate is a list of *exprlists*; an exprlist is a list of node identities (`id(expr)`); every node of the input
trees carries its identity `nid`.  The output is written as a token sequence per node (a Python list of nodes ↦ a list
of token lists): this is exactly the printed form plus axis values, and it makes `List.create`'s flattening the plain
concatenation of token lists.
-/
namespace Einx.Order.Cse

/-- Stage-2 expression trees with node identities. -/
inductive Tree where
  | axis (nid : Nat) (name : String) (value : Option Nat)
  | list (nid : Nat) (children : List Tree)
  | flat (nid : Nat) (inner : Tree)
  | concat (nid : Nat) (children : List Tree)
  | br (nid : Nat) (inner : Tree)
deriving Repr, Inhabited

def Tree.nid : Tree → Nat
  | .axis n _ _ => n | .list n _ => n | .flat n _ => n | .concat n _ => n | .br n _ => n

/-- `values = [...]; None if any is None else math.prod(values)` / `sum`. -/
def prodOpt : List (Option Nat) → Option Nat
  | [] => some 1
  | none :: _ => none
  | some v :: r => (prodOpt r).map (v * ·)

def sumOpt : List (Option Nat) → Option Nat
  | [] => some 0
  | none :: _ => none
  | some v :: r => (sumOpt r).map (v + ·)

mutual
/-- `expr.value` of stage 2. -/
def Tree.value : Tree → Option Nat
  | .axis _ _ v => v
  | .list _ cs => prodOpt (Tree.values cs)
  | .flat _ i => i.value
  | .concat _ cs => sumOpt (Tree.values cs)
  | .br _ i => i.value
def Tree.values : List Tree → List (Option Nat)
  | [] => []
  | c :: cs => c.value :: Tree.values cs
end

/-- Output tokens; `L` is the label of a substituted axis (`cse.<L>`). -/
inductive Tok (L : Type) where
  | cse (label : L) (value : Option Nat)
  | ax (name : String) (value : Option Nat)
  | lpar | rpar          -- FlattenedAxis  "(" … ")"
  | lbr | rbr            -- Brackets       "[" … "]"
  | lcat | plus | rcat   -- ConcatenatedAxis "(" … " + " … ")"
  | err                  -- `ConcatenatedAxis.create([])` raises ValueError
deriving Repr, DecidableEq, Inhabited

def Tok.map {L L' : Type} (f : L → L') : Tok L → Tok L'
  | .cse l v => .cse (f l) v
  | .ax n v => .ax n v
  | .lpar => .lpar | .rpar => .rpar | .lbr => .lbr | .rbr => .rbr
  | .lcat => .lcat | .plus => .plus | .rcat => .rcat | .err => .err

/-- Token kinds without the label (what the smart constructors look at). -/
def Tok.kind {L : Type} : Tok L → Nat
  | .cse _ _ => 0 | .ax _ _ => 0 | .lpar => 1 | .rpar => 2 | .lbr => 3 | .rbr => 4 | .lcat => 5 | .plus => 6 | .rcat => 7 | .err => 8

/-- Does the token list consist of exactly one group opened by a token of kind `o` and closed by kind `c`
(depth counting over all three bracket kinds)? -/
def isSingleGroup {L : Type} (o c : Nat) (ts : List (Tok L)) : Bool :=
  match ts with
  | [] => false
  | t :: rest =>
    if t.kind != o then false
    else
      -- depth after the first token is 1; it must reach 0 exactly at the last token, which has kind `c`
      let rec go (depth : Nat) : List (Tok L) → Bool
        | [] => false
        | [x] => depth == 1 && x.kind == c
        | x :: xs =>
          let k := x.kind
          if k == 1 || k == 3 || k == 5 then go (depth + 1) xs
          else if k == 2 || k == 4 || k == 7 then (if depth ≤ 1 then false else go (depth - 1) xs)
          else go depth xs
      go 1 rest

/-- `FlattenedAxis.create(List.create(nodes))`: an inner `FlattenedAxis` is returned unchanged. -/
def mkFlat {L : Type} (inner : List (Tok L)) : List (Tok L) :=
  if isSingleGroup 1 2 inner then inner else .lpar :: inner ++ [.rpar]

/-- `Brackets.create(List.create(nodes))`: inner `Brackets` unchanged; `ndim == 0` (nothing printed) ↦ empty `List`. -/
def mkBr {L : Type} (inner : List (Tok L)) : List (Tok L) :=
  if isSingleGroup 3 4 inner then inner else if inner.isEmpty then [] else .lbr :: inner ++ [.rbr]

def joinPlus {L : Type} : List (List (Tok L)) → List (Tok L)
  | [] => []
  | [n] => n
  | n :: ns => n ++ .plus :: joinPlus ns

/-- `ConcatenatedAxis.create(nodes)`. -/
def mkConcat {L : Type} (nodes : List (List (Tok L))) : List (Tok L) :=
  match nodes with
  | [] => [.err]
  | [n] => n
  | _ => .lcat :: joinPlus nodes ++ [.rcat]

section Rebuild
variable {L : Type}
-- `mn nid`: the label of the candidate that contains the node as a one-element exprlist;
-- `ma ids`: label and length of the exprlist found at the current position, `ids` being the identities of the
-- remaining elements of the Python list.
variable (mn : Nat → Option L) (ma : List Nat → Option (L × Nat))

/-- The node-level test at the top of `replace(expr)`: a node that is a one-element exprlist of a candidate becomes
`cse.<label>` with the node's value; otherwise the structural case `other` applies. -/
def nodeOr (nid : Nat) (value : Option Nat) (other : List (List (Tok L))) : List (List (Tok L)) :=
  match mn nid with
  | some l => [[.cse l value]]
  | none => other

mutual
/-- `replace(expr)` for a node. -/
def rebuild : Tree → List (List (Tok L))
  | .axis n name v => nodeOr mn n v [[.ax name v]]
  | .list n cs =>
    -- `replace(expr.children)`; a Python list of length one is `replace(expr[0])`
    nodeOr mn n (prodOpt (Tree.values cs)) (if cs.length == 1 then rebuildC cs else rebuildL 0 cs)
  | .concat n cs => nodeOr mn n (sumOpt (Tree.values cs)) [mkConcat (rebuildC cs)]
  | .br n i => nodeOr mn n i.value [mkBr (rebuild i).flatten]
  | .flat n i => nodeOr mn n i.value [mkFlat (rebuild i).flatten]
/-- The `while i < len(expr)` loop of `replace(expr)` for a Python list; `skip` elements are still covered by the
exprlist substituted last (`i += len(exprlist)`). -/
def rebuildL (skip : Nat) : List Tree → List (List (Tok L))
  | [] => []
  | t :: ts =>
    if skip > 0 then rebuildL (skip - 1) ts
    else
      match ma (t.nid :: ts.map Tree.nid) with
      | some (l, len) => [.cse l (prodOpt (Tree.values ((t :: ts).take len)))] :: rebuildL (len - 1) ts
      | none => rebuild t ++ rebuildL 0 ts
/-- `[c2 for c1 in expr.children for c2 in replace(c1)]`. -/
def rebuildC : List Tree → List (List (Tok L))
  | [] => []
  | c :: cs => rebuild c ++ rebuildC cs
end
end Rebuild

/-- A candidate: its exprlists (lists of node identities), in the (deterministic) order of the dict entry. -/
abbrev Cand := List (List Nat)

/-- First loop of `replace`: `for idx, common_expr in enumerate(common_exprs): for exprlist in common_expr:
if len(exprlist) == 1 and id(expr) == id(exprlist[0]): return …cse.{idx}…`. -/
def matchNode (cands : List Cand) (nid : Nat) : Option Nat :=
  cands.findIdx? (fun c => c.any (fun el => el == [nid]))

/-- The search at position `i` of the list loop: the first candidate (in list order) one of whose exprlists matches
`expr[i:i+len]`; inside that candidate the *last* matching exprlist (the inner `for` has no `break`).
Exprlists are non-empty (slices `children[s : e + 1]` with `s ≤ e`, or `[expr]`; the code asserts it). -/
def matchAt (cands : List Cand) (ids : List Nat) : Option (Nat × Nat) :=
  let hit := fun (c : Cand) => c.any (fun el => !el.isEmpty && el.isPrefixOf ids)
  match cands.findIdx? hit with
  | none => none
  | some k =>
    match cands[k]? with
    | none => none
    | some c => ((c.filter (fun el => !el.isEmpty && el.isPrefixOf ids)).getLast?).map (fun el => (k, el.length))

/-- `replace(root)` for the candidate list `cands` (in the order in which the set was enumerated); the result is
`List.create(replace(root))`, i.e. the concatenation of the node tokens. -/
def replace (cands : List Cand) (root : Tree) : List (Tok Nat) :=
  (rebuild (matchNode cands) (matchAt cands) root).flatten

/-- `[c for c in common_exprs if P c]`. -/
def filterEach {α : Type} (p : α → Bool) (cands : List α) : List α := cands.filter p

/-- `[c for c in common_exprs if not any(c2 is not c and R c2 c for c2 in common_exprs)]` ("remove subexpressions of
subexpressions"); candidates are distinct objects, so `is not` is `≠` on a duplicate-free list. -/
def filterAgainst {α : Type} [BEq α] (r : α → α → Bool) (cands : List α) : List α :=
  cands.filter (fun c => !cands.any (fun c2 => c2 != c && r c2 c))

/-- No exprlist of one candidate is a prefix of an exprlist of another candidate: then at most one candidate
matches at any node or list position (decidable hypothesis of `cse_order_invariant_partial`). -/
def nonOverlapping (cands : List Cand) : Bool :=
  cands.all (fun c1 => cands.all (fun c2 => c1 == c2 ||
    c1.all (fun e1 => c2.all (fun e2 => e1.isEmpty || e2.isEmpty || !(e1.isPrefixOf e2 || e2.isPrefixOf e1)))))

/-- The renumbering of `cse.<n>` names induced by two enumerations of the same candidates. -/
def renumber (cands₁ cands₂ : List Cand) (i : Nat) : Nat :=
  match cands₁[i]? with
  | some c => cands₂.idxOf c
  | none => i

end Einx.Order.Cse
