/-
Reading of Python's builtins used by the mini translator `tools/extract/_pylean.py` (core Lean only, no
imports: the definitions are executable and may be linked into the driver).

Conventions of the translation (the *trusted reading of Python*, conformance-tested against CPython by the
driver request `py_prelude`, see `Driver/Xlate.lean` and `tools/props/xlate_tie.py`):

* unbounded non-negative `int` ↦ `Nat`, `int` that may be negative ↦ `Int`, `str` ↦ `String`,
  `list`/`tuple` of one element type ↦ `List`, fixed-arity tuples ↦ products, `bool` ↦ `Bool`;
* a `set` ↦ a duplicate-free `List` (`setOf`), on which only order-insensitive operations are translated
  (`len`, `in`, `==`, `!=`, `-`, `|`, `&`, set comprehension, `any`/`all`); iteration whose order could be
  observed is outside the subset;
* a `dict` ↦ an association list in insertion order with unique keys (`dictSet`, `dictGetD`, `dictGet`);
* an operation that can raise ↦ `Except String _` whose error is the *name of the exception class*
  (`"IndexError"`, `"ValueError"`, `"KeyError"`, `"AssertionError"`): never a default value.
-/
namespace Einx.Py

/-! ### sets as duplicate-free lists -/

/-- `set(l)`: one representative per value (the last occurrence is kept; the order is not observable
through the translated operations). -/
def setOf {α : Type} [BEq α] : List α → List α
  | [] => []
  | x :: xs => if xs.contains x then setOf xs else x :: setOf xs

/-- `a - b` on sets. -/
def setDiff {α : Type} [BEq α] (a b : List α) : List α := a.filter (fun x => !b.contains x)

/-- `a & b` on sets. -/
def setInter {α : Type} [BEq α] (a b : List α) : List α := a.filter (fun x => b.contains x)

/-- `a | b` on sets. -/
def setUnion {α : Type} [BEq α] (a b : List α) : List α := a ++ setDiff b a

/-- `a == b` on sets: mutual inclusion. -/
def setEq {α : Type} [BEq α] (a b : List α) : Bool :=
  a.all (fun x => b.contains x) && b.all (fun x => a.contains x)

/-! ### lists -/

/-- `l.index(x)`: position of the first occurrence, `ValueError` if there is none. -/
def index {α : Type} [BEq α] (l : List α) (x : α) : Except String Nat :=
  if l.contains x then .ok (l.idxOf x) else .error "ValueError"

/-- `l[i]` for a non-negative index: `IndexError` out of range. -/
def getNat {α : Type} (l : List α) (i : Nat) : Except String α :=
  match l[i]? with
  | some v => .ok v
  | none => .error "IndexError"

/-- `l[i]` for a possibly negative index (`l[-1]` is the last element): `IndexError` out of range. -/
def getInt {α : Type} (l : List α) (i : Int) : Except String α :=
  if i < 0 then
    (if (-i).toNat ≤ l.length then getNat l (l.length - (-i).toNat) else .error "IndexError")
  else getNat l i.toNat

/-- Clamp a slice bound the way Python does: negative bounds count from the end, everything is clipped
to `[0, len]`. -/
def clampBound (len : Nat) (b : Int) : Nat :=
  if b < 0 then (if (-b).toNat ≤ len then len - (-b).toNat else 0)
  else (if b.toNat ≤ len then b.toNat else len)

/-- `l[lo:hi]` (step 1); `none` is an omitted bound.  Never raises. -/
def slice {α : Type} (l : List α) (lo hi : Option Int) : List α :=
  let a := match lo with | some b => clampBound l.length b | none => 0
  let b := match hi with | some b => clampBound l.length b | none => l.length
  (l.take b).drop a

/-- `l.insert(i, x)` (as a new list): negative positions count from the end, everything is clipped. -/
def listInsert {α : Type} (l : List α) (i : Int) (x : α) : List α :=
  let k := clampBound l.length i
  l.take k ++ x :: l.drop k

/-- `l[i] = x` (as a new list): negative positions count from the end; `IndexError` out of range. -/
def listSet {α : Type} (l : List α) (i : Int) (x : α) : Except String (List α) :=
  if i < 0 then
    (if (-i).toNat ≤ l.length then .ok (l.set (l.length - (-i).toNat) x) else .error "IndexError")
  else (if i.toNat < l.length then .ok (l.set i.toNat x) else .error "IndexError")

/-- A list of optional values all of which are present (`TypeError` if a `None` is left: what a consumer
of the values would raise). -/
def allSome {α : Type} : List (Option α) → Except String (List α)
  | [] => .ok []
  | none :: _ => .error "TypeError"
  | some x :: xs => (allSome xs).map (x :: ·)

/-- `enumerate(l)` from a start value. -/
def enumFrom {α : Type} : Nat → List α → List (Nat × α)
  | _, [] => []
  | i, x :: xs => (i, x) :: enumFrom (i + 1) xs

/-- `enumerate(l)`. -/
def enumerate {α : Type} (l : List α) : List (Nat × α) := enumFrom 0 l

/-- `range(a, b)`. -/
def range2 (a b : Nat) : List Nat := List.range' a (b - a)

/-- insertion into a sorted list of integers (stable). -/
def insertSorted (x : Int) : List Int → List Int
  | [] => [x]
  | y :: ys => if x < y then x :: y :: ys else y :: insertSorted x ys

/-- `sorted(l)` on integers. -/
def sortedInt (l : List Int) : List Int := l.foldl (fun acc x => insertSorted x acc) []

/-- insertion into a sorted list of naturals (stable). -/
def insertSortedNat (x : Nat) : List Nat → List Nat
  | [] => [x]
  | y :: ys => if x < y then x :: y :: ys else y :: insertSortedNat x ys

/-- `sorted(l)` on non-negative integers. -/
def sortedNat (l : List Nat) : List Nat := l.foldl (fun acc x => insertSortedNat x acc) []

/-- `sum(l)` on non-negative integers. -/
def sumNat (l : List Nat) : Nat := l.foldl (· + ·) 0

/-- `sum(l)` on integers. -/
def sumInt (l : List Int) : Int := l.foldl (· + ·) 0

/-- `math.prod(l)` on non-negative integers. -/
def prodNat (l : List Nat) : Nat := l.foldl (· * ·) 1

/-! ### dicts as association lists (insertion order, unique keys) -/

/-- `d.get(k, dflt)`. -/
def dictGetD {κ ν : Type} [BEq κ] (d : List (κ × ν)) (k : κ) (dflt : ν) : ν :=
  match d.lookup k with
  | some v => v
  | none => dflt

/-- `d[k]`: `KeyError` if the key is absent. -/
def dictGet {κ ν : Type} [BEq κ] (d : List (κ × ν)) (k : κ) : Except String ν :=
  match d.lookup k with
  | some v => .ok v
  | none => .error "KeyError"

/-- `d[k] = v` (as a new dict): an existing key keeps its position. -/
def dictSet {κ ν : Type} [BEq κ] : List (κ × ν) → κ → ν → List (κ × ν)
  | [], k, v => [(k, v)]
  | (k', v') :: d, k, v => if k == k' then (k', v) :: d else (k', v') :: dictSet d k v

/-- `k in d`. -/
def dictHas {κ ν : Type} [BEq κ] (d : List (κ × ν)) (k : κ) : Bool := (d.lookup k).isSome

/-! ### integer arithmetic -/

/-- Python's `//` on integers (floor division); `ZeroDivisionError` for a zero divisor. -/
def floorDiv (a b : Int) : Except String Int :=
  if b == 0 then .error "ZeroDivisionError" else .ok (Int.fdiv a b)

/-- Python's `%` on integers (sign of the divisor); `ZeroDivisionError` for a zero divisor. -/
def floorMod (a b : Int) : Except String Int :=
  if b == 0 then .error "ZeroDivisionError" else .ok (Int.fmod a b)

/-- `//` on non-negative integers. -/
def natDiv (a b : Nat) : Except String Nat :=
  if b == 0 then .error "ZeroDivisionError" else .ok (a / b)

/-- `%` on non-negative integers. -/
def natMod (a b : Nat) : Except String Nat :=
  if b == 0 then .error "ZeroDivisionError" else .ok (a % b)

/-- Narrowing of an integer to a position/length of the model: a negative value is outside the model's
domain (reported as such, never clipped). -/
def natOfInt (i : Int) : Except String Nat :=
  if i < 0 then .error "ModelDomain:negative" else .ok i.toNat

/-! ### bounded iteration -/

/-- `while c(s): s = b(s)` with an explicit bound on the number of iterations; when the bound is reached
while the test still holds the result is the error `"FuelExhausted"` (never a state). -/
def whileFuel {σ : Type} : Nat → (σ → Except String Bool) → (σ → Except String σ) → σ → Except String σ
  | 0, c, _, s => do
    if (← c s) then throw "FuelExhausted" else pure s
  | n + 1, c, b, s => do
    if (← c s) then whileFuel n c b (← b s) else pure s

end Einx.Py
