/-
M0: row-major index arithmetic.  Core Lean only (no imports), so that the driver can be
compiled to a native executable.
-/
namespace Einx

/-- Number of elements of a tensor of shape `s`. -/
def prod : List Nat → Nat
  | [] => 1
  | s :: ss => s * prod ss

/-- `Valid shape idx`: `idx` is a multi-index into a tensor of shape `shape`. -/
inductive Valid : List Nat → List Nat → Prop
  | nil : Valid [] []
  | cons {s i : Nat} {ss is : List Nat} : i < s → Valid ss is → Valid (s :: ss) (i :: is)

/-- Executable version of `Valid`. -/
def validb : List Nat → List Nat → Bool
  | [], [] => true
  | s :: ss, i :: is => decide (i < s) && validb ss is
  | _, _ => false

theorem validb_iff {s i : List Nat} : validb s i = true ↔ Valid s i := by
  induction s generalizing i with
  | nil => cases i <;> simp [validb] <;> first | exact Valid.nil | (intro h; cases h)
  | cons a ss ih =>
    cases i with
    | nil => simp [validb]; intro h; cases h
    | cons j is =>
      simp [validb, ih]
      constructor
      · rintro ⟨h1, h2⟩; exact Valid.cons h1 h2
      · intro h; cases h with | cons h1 h2 => exact ⟨h1, h2⟩

instance (s i : List Nat) : Decidable (Valid s i) :=
  decidable_of_iff _ validb_iff

/-- Row-major flat position of a multi-index (the meaning of a parenthesised group). -/
def ravel : List Nat → List Nat → Nat
  | _ :: ss, i :: is => i * prod ss + ravel ss is
  | _, _ => 0

/-- Inverse of `ravel` on `[0, prod shape)`. -/
def unravel : List Nat → Nat → List Nat
  | [], _ => []
  | _ :: ss, k => (k / prod ss) :: unravel ss (k % prod ss)

theorem prod_pos_of_valid {s i : List Nat} (h : Valid s i) : 0 < prod s := by
  induction h with
  | nil => simp [prod]
  | cons hi _ ih => simp [prod]; exact Nat.mul_pos (by omega) ih

theorem ravel_lt {s i : List Nat} (h : Valid s i) : ravel s i < prod s := by
  induction h with
  | nil => simp [ravel, prod]
  | @cons s i ss is hi _ ih =>
    simp only [ravel, prod]
    calc i * prod ss + ravel ss is < i * prod ss + prod ss := by omega
      _ = (i + 1) * prod ss := by rw [Nat.add_mul]; simp
      _ ≤ s * prod ss := Nat.mul_le_mul_right _ hi

theorem unravel_ravel {s i : List Nat} (h : Valid s i) : unravel s (ravel s i) = i := by
  induction h with
  | nil => simp [unravel]
  | @cons s i ss is hi hv ih =>
    have hlt := ravel_lt hv
    have hpos : 0 < prod ss := prod_pos_of_valid hv
    simp only [ravel, unravel]
    have h1 : (i * prod ss + ravel ss is) / prod ss = i := by
      rw [Nat.add_comm, Nat.add_mul_div_right _ _ hpos, Nat.div_eq_of_lt hlt]; simp
    have h2 : (i * prod ss + ravel ss is) % prod ss = ravel ss is := by
      rw [Nat.add_comm, Nat.add_mul_mod_self_right, Nat.mod_eq_of_lt hlt]
    rw [h1, h2, ih]

theorem unravel_valid : ∀ (s : List Nat) (k : Nat), k < prod s → Valid s (unravel s k)
  | [], _, _ => Valid.nil
  | s :: ss, k, h => by
    simp only [unravel]
    have hpos : 0 < prod ss := by
      rcases Nat.eq_zero_or_pos (prod ss) with h0 | h0
      · simp [prod, h0] at h
      · exact h0
    refine Valid.cons ?_ (unravel_valid ss _ (Nat.mod_lt _ hpos))
    simp only [prod] at h
    exact Nat.div_lt_of_lt_mul (by rw [Nat.mul_comm]; exact h)

theorem ravel_unravel : ∀ (s : List Nat) (k : Nat), k < prod s → ravel s (unravel s k) = k
  | [], k, h => by simp [prod] at h; simp [ravel, h]
  | s :: ss, k, h => by
    have hpos : 0 < prod ss := by
      rcases Nat.eq_zero_or_pos (prod ss) with h0 | h0
      · simp [prod, h0] at h
      · exact h0
    simp only [unravel, ravel]
    rw [ravel_unravel ss _ (Nat.mod_lt _ hpos)]
    exact Nat.div_add_mod' k (prod ss)

theorem valid_length {s i : List Nat} (h : Valid s i) : i.length = s.length := by
  induction h with
  | nil => rfl
  | cons _ _ ih => simp [ih]

theorem prod_append (a b : List Nat) : prod (a ++ b) = prod a * prod b := by
  induction a with
  | nil => simp [prod]
  | cons x xs ih => simp [prod, ih, Nat.mul_assoc]

/-- Row-major order of a concatenated shape is nested row-major order: the fact behind
"parentheses = reshape". -/
theorem ravel_append {s1 i1 : List Nat} (s2 i2 : List Nat) (h : Valid s1 i1) :
    ravel (s1 ++ s2) (i1 ++ i2) = ravel s1 i1 * prod s2 + ravel s2 i2 := by
  induction h with
  | nil => simp [ravel]
  | @cons s i ss is _ _ ih =>
    simp only [List.cons_append, ravel, ih, prod_append, Nat.add_mul, Nat.mul_assoc, Nat.add_assoc]

theorem valid_append {s1 i1 s2 i2 : List Nat} (h1 : Valid s1 i1) (h2 : Valid s2 i2) :
    Valid (s1 ++ s2) (i1 ++ i2) := by
  induction h1 with
  | nil => simpa
  | cons hi _ ih => exact Valid.cons hi ih

end Einx
