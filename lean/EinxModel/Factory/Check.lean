import EinxModel.Factory.Model
/-
C13 checker for REAL traced graphs (the JSON of `tools/lib/graphcap.py:graph_to_json`, decoded by
`Driver/Factory.lean`).  `factoryOK g d` inspects, for every graph input that stands for a tensor factory:
  (a) the factory (through `Cast`s) is the `function` operand of exactly one `Call` node, which is reachable
      from the graph output, and is used nowhere else (not as an argument, not by another node, not as output);
  (b) that node's positional arguments are exactly one tuple of ints equal to the solved shape, its keywords
      are exactly the ones the model passes for the declared signature, with the model's values;
  (c) the call's result is consumed only by `isinstance(result, T)` and the `assert` on it; the result of that
      assert only by `.shape` → `tuple(...)` → `== solved shape` and the second `assert`; everything else sees
      only the result of the second assert (cast to a tensor of the solved shape);
  (d) the input tracer is shape-less (it contributed no size constraint).
-/
namespace Einx.Factory

/-- A serialised Python value inside a graph node. -/
inductive V where
  | ref (id : Nat)
  | int (v : Int)
  | str (s : String)
  | seq (tag : String) (vs : List V)      -- tuple / list / dict (keys then values) / slice
  | atom (tag : String)                    -- none, bool, float, ellipsis, obj:<repr>, graph
deriving Repr, Inhabited

mutual
def V.refs : V → List Nat
  | .ref id => [id]
  | .seq _ vs => refsL vs
  | _ => []
def refsL : List V → List Nat
  | [] => []
  | v :: vs => v.refs ++ refsL vs
end

def V.asNat? : V → Option Nat
  | .int v => if v ≥ 0 then some v.toNat else none
  | _ => none

/-- A tuple of non-negative Python ints. -/
def V.asShape? : V → Option (List Nat)
  | .seq tag vs => if tag == "tuple" then vs.mapM V.asNat? else none
  | _ => none

inductive GNode where
  | call (fn : V) (args : List V) (kwargs : List (String × V)) (deps : List V)
  | cast (input : V)
  | assert (xs cond : V)
  | getattr (obj : V) (key : String)
  | operator (op : String) (operands : List V)
  | builtin (name : String)
  | other (kind : String) (uses : List V)   -- import, constant, getitem, updateitem, call_inplace
deriving Repr, Inhabited

structure GApp where
  node : GNode
  out : V
deriving Repr, Inhabited

structure TInfo where
  ty : String                   -- "tensor" | "convertible" | "value"
  shape : Option (List Nat)
  concrete : String
  origin : Option Nat           -- index of the producing application; `none` for graph inputs
deriving Repr, Inhabited

structure Graph where
  inputs : List Nat
  output : V
  apps : List GApp              -- in dependency order (operands before users)
  tracers : List TInfo
deriving Repr, Inhabited

/-- Operands that are evaluated (additional dependencies only order the node, they are not operands). -/
def GNode.operands : GNode → List V
  | .call fn args kwargs _ => fn :: (args ++ kwargs.map (·.2))
  | .cast i => [i]
  | .assert xs c => [xs, c]
  | .getattr o _ => [o]
  | .operator _ os => os
  | .builtin _ => []
  | .other _ us => us

def GNode.isCast : GNode → Bool
  | .cast _ => true
  | _ => false

/-- If tracer `id` is the result of a `Cast`, the tracer that was cast. -/
def castSource (g : Graph) (id : Nat) : Option Nat :=
  match g.tracers[id]? with
  | some t =>
    match t.origin with
    | some o =>
      match g.apps[o]? with
      | some ⟨.cast (.ref j), .ref k⟩ => if k == id then some j else none
      | _ => none
    | none => none
  | none => none

def rootF (g : Graph) : Nat → Nat → Nat
  | 0, id => id
  | f + 1, id => match castSource g id with
    | some j => rootF g f j
    | none => id

/-- The tracer a chain of `Cast`s starts from.  At run time a `Cast` is the identity, so all tracers with
the same root denote the same Python object. -/
def root (g : Graph) (id : Nat) : Nat := rootF g g.tracers.length id

/-- Does the (non-cast) application evaluate an operand that denotes tracer `t`? -/
def usesClass (g : Graph) (t : Nat) (a : GApp) : Bool :=
  !a.node.isCast && (refsL a.node.operands).any (fun r => root g r == t)

def usesAt (g : Graph) (t : Nat) (i : Nat) : Bool :=
  match g.apps[i]? with
  | some a => usesClass g t a
  | none => false

/-- Indices of all applications that consume tracer `t` (or a cast of it), ascending. -/
def classUsers (g : Graph) (t : Nat) : List Nat :=
  (List.range g.apps.length).filter (usesAt g t)

/-- Applications whose result the graph output depends on (operand edges), by one backward pass. -/
def reachable (g : Graph) : List Nat :=
  ((g.apps.zipIdx.reverse).foldl
    (fun (acc : List Nat × List Nat) (p : GApp × Nat) =>
      if p.1.out.refs.any (fun r => acc.1.contains r) then (refsL p.1.node.operands ++ acc.1, p.2 :: acc.2) else acc)
    (g.output.refs, [])).2

/-- Serialisation sanity: results know their producer, operands are produced earlier, inputs have no producer. -/
def wf (g : Graph) : Bool :=
  g.inputs.all (fun t => match g.tracers[t]? with | some ti => ti.origin.isNone | none => false) &&
  g.apps.zipIdx.all (fun (p : GApp × Nat) =>
    p.1.out.refs.all (fun k => match g.tracers[k]? with | some ti => ti.origin == some p.2 | none => false) &&
    (refsL p.1.node.operands).all (fun x => match g.tracers[x]? with
      | some ti => (match ti.origin with | some o => o < p.2 | none => true)
      | none => false)) &&
  g.output.refs.all (fun x => x < g.tracers.length)

def outId (g : Graph) (i : Nat) : Option Nat :=
  match g.apps[i]? with
  | some ⟨_, .ref r⟩ => some r
  | _ => none

def refTo (g : Graph) (v : V) (t : Nat) : Bool :=
  match v with
  | .ref x => root g x == t
  | _ => false

def originApp (g : Graph) (id : Nat) : Option GApp :=
  match g.tracers[root g id]? with
  | some ti => (match ti.origin with | some o => g.apps[o]? | none => none)
  | none => none

def isBuiltin (g : Graph) (v : V) (name : String) : Bool :=
  match v with
  | .ref b => (match originApp g b with | some ⟨.builtin n, _⟩ => n == name | _ => false)
  | _ => false

def isConstant (g : Graph) (v : V) : Bool :=
  match v with
  | .ref b => (match originApp g b with | some ⟨.other k _, _⟩ => k == "constant" | _ => false)
  | _ => false

/-- One argument position of the call description. -/
structure ArgD where
  factory : Option Sig
  solved : List Nat
  argIndex : Nat
deriving Repr, Inhabited

structure Descr where
  opName : Option String
  args : List ArgD
deriving Repr, Inhabited

def Descr.ctx (d : Descr) : Ctx := { opName := d.opName, deps := [] }

def kwValOK (g : Graph) (m : KwVal) (v : V) : Bool :=
  match m, v with
  | .signature, v => isConstant g v
  | .argIndex n, .int k => k == Int.ofNat n
  | .opName s, .str s' => s == s'
  | _, _ => false

def kwargsOK (g : Graph) : List (String × KwVal) → List (String × V) → Bool
  | [], [] => true
  | (k, m) :: ms, (k', v) :: vs => k == k' && kwValOK g m v && kwargsOK g ms vs
  | _, _ => false

/-- (a), (b): application `i` is the factory call the model prescribes. -/
def checkCallNode (g : Graph) (d : Descr) (ad : ArgD) (sig : Sig) (t i : Nat) : Bool :=
  match g.apps[i]? with
  | some ⟨.call (.ref f) args kwargs _, .ref _⟩ =>
    root g f == t &&
    (refsL (args ++ kwargs.map (·.2))).all (fun x => root g x != t) &&
    args.map V.asShape? == [some ad.solved] &&
    kwargs.map (·.1) == (passed d.ctx ad.argIndex sig).map (·.1) &&
    kwargsOK g (passed d.ctx ad.argIndex sig) kwargs &&
    (reachable g).contains i
  | _ => false

/-- `assert b, msg` inside `Except` (a plain bind, so that the rest of a `do` block is not duplicated). -/
def ensure (b : Bool) (msg : String) : Except String Unit := if b then pure () else throw msg

/-- (c): the guard chain behind the call result `r`; returns the tracer of the second assert. -/
def checkGuard (g : Graph) (solved : List Nat) (r : Nat) : Except String Nat := do
  let [j1, j2] := classUsers g r | throw s!"the factory result has {(classUsers g r).length} consumers, expected isinstance and assert"
  let some ⟨.call fn [x, _] [] _, .ref c1⟩ := g.apps[j1]? | throw "first consumer of the factory result is not isinstance(result, T)"
  let some ⟨.assert xs cond, .ref a1⟩ := g.apps[j2]? | throw "second consumer of the factory result is not an assert"
  ensure (isBuiltin g fn "isinstance" && refTo g x r && refTo g xs r && refTo g cond c1) "type assert is not `assert isinstance(result, T)`"
  ensure (decide (classUsers g c1 = [j2])) "isinstance condition has other consumers"
  let [j3, j6] := classUsers g a1 | throw s!"the type-checked result has {(classUsers g a1).length} consumers, expected .shape and assert"
  let some ⟨.getattr o key, .ref s⟩ := g.apps[j3]? | throw "first consumer of the type-checked result is not .shape"
  let some ⟨.assert xs2 cond2, .ref a2⟩ := g.apps[j6]? | throw "second consumer of the type-checked result is not an assert"
  ensure (key == "shape" && refTo g o a1 && refTo g xs2 a1) "shape assert does not look at result.shape"
  let [j4] := classUsers g s | throw "result.shape has several consumers"
  let some ⟨.call fn2 [y] [] _, .ref tt⟩ := g.apps[j4]? | throw "result.shape is not passed to tuple()"
  ensure (isBuiltin g fn2 "tuple" && refTo g y s) "result.shape is not passed to tuple()"
  let [j5] := classUsers g tt | throw "tuple(result.shape) has several consumers"
  let some ⟨.operator op [lhs, rhs], .ref c2⟩ := g.apps[j5]? | throw "tuple(result.shape) is not compared"
  ensure (op == "==" && refTo g lhs tt && rhs.asShape? == some solved) "shape is not compared with the solved shape"
  ensure (refTo g cond2 c2 && decide (classUsers g c2 = [j6])) "shape condition is not the condition of the second assert"
  -- every typed cast of the guarded result claims the solved shape
  ensure ((List.range g.tracers.length).all (fun k => root g k != a2 || (match g.tracers[k]? with
        | some ti => ti.ty == "value" || ti.shape == some solved
        | none => true))) "guarded result is cast to a tensor of a different shape"
  pure a2

def guardOK (g : Graph) (solved : List Nat) (r : Nat) : Bool :=
  match checkGuard g solved r with
  | .ok _ => true
  | .error _ => false

/-- (d) and the wiring of (a)–(c) for the factory at graph input `t`. -/
def checkFactory (g : Graph) (d : Descr) (ad : ArgD) (sig : Sig) (t : Nat) : Bool :=
  (match g.tracers[t]? with | some ti => ti.ty == "convertible" && ti.shape.isNone | none => false) &&
  !(g.output.refs.any (fun x => root g x == t)) &&
  (match classUsers g t with
   | [i] => checkCallNode g d ad sig t i &&
            (match outId g i with | some r => guardOK g ad.solved r | none => false)
   | _ => false)

def checkInput (g : Graph) (d : Descr) (p : Nat) : Bool :=
  match d.args[p]?, g.inputs[p]? with
  | some ad, some t =>
    (match ad.factory with
     | some sig => checkFactory g d ad sig t
     | none => (match g.tracers[t]? with | some ti => ti.shape == some ad.solved | none => false))
  | _, _ => false

def factoryOK (g : Graph) (d : Descr) : Bool :=
  wf g && d.args.length == g.inputs.length && (List.range g.inputs.length).all (checkInput g d)

/-- Is application `i` a `Call` whose function operand denotes tracer `t`? -/
def callsInput (g : Graph) (t i : Nat) : Bool :=
  match g.apps[i]? with
  | some ⟨.call (.ref f) _ _ _, _⟩ => root g f == t
  | _ => false

/-- Trace purity as visible in a graph traced under `depend_on(inputs)`: every `Call` node carries every
graph input as an additional dependency (so it can only be emitted inside the compiled function). -/
def tracePure (g : Graph) : Bool :=
  g.apps.all (fun a => match a.node with
    | .call _ _ _ deps => g.inputs.all (fun t => (refsL deps).contains t)
    | _ => true)

/-- First reason why `factoryOK` fails (for the driver's answer). -/
def explain (g : Graph) (d : Descr) : String := Id.run do
  if !wf g then return "graph is not well-formed (producer/operand order)"
  if !(d.args.length == g.inputs.length) then return s!"description has {d.args.length} arguments, graph has {g.inputs.length} inputs"
  for p in List.range g.inputs.length do
    if checkInput g d p then continue
    match d.args[p]?, g.inputs[p]? with
    | some ad, some t =>
      match ad.factory with
      | none => return s!"input {p}: traced shape differs from the solved shape"
      | some sig =>
        match g.tracers[t]? with
        | some ti => if !(ti.ty == "convertible" && ti.shape.isNone) then return s!"input {p}: factory tracer is not a shape-less ConvertibleTensor"
        | none => return s!"input {p}: unknown tracer"
        if g.output.refs.any (fun x => root g x == t) then return s!"input {p}: the factory itself is returned"
        match classUsers g t with
        | [i] =>
          if !checkCallNode g d ad sig t i then
            match g.apps[i]? with
            | some ⟨.call (.ref _) args kwargs _, .ref _⟩ =>
              if !(args.map V.asShape? == [some ad.solved]) then return s!"input {p}: factory is not called with exactly the solved shape {ad.solved}"
              if !(kwargs.map (·.1) == (passed d.ctx ad.argIndex sig).map (·.1)) then
                return s!"input {p}: factory keywords {kwargs.map (·.1)} differ from the model's {(passed d.ctx ad.argIndex sig).map (·.1)}"
              if !kwargsOK g (passed d.ctx ad.argIndex sig) kwargs then return s!"input {p}: factory keyword values differ from the model's"
              if !(reachable g).contains i then return s!"input {p}: the factory call is not reachable from the output"
              return s!"input {p}: the factory is also passed as an argument of its own call"
            | _ => return s!"input {p}: the only consumer of the factory is not a call of it"
          match outId g i with
          | some r =>
            match checkGuard g ad.solved r with
            | .ok _ => return s!"input {p}: ?"
            | .error e => return s!"input {p}: {e}"
          | none => return s!"input {p}: call has no single result"
        | us => return s!"input {p}: the factory has {us.length} consumers (expected exactly one call)"
    | _, _ => return s!"input {p}: missing"
  return "ok"

end Einx.Factory
