import EinxModel.Extracted.Factory
/-
C13 model of `einx/_src/adapter/namedtensor_calltensorfactory.py` (plus the two lines around it that
decide what a factory sees: `frontend/api.py:_to_tracer` and `einx_from_namedtensor.py:_cast_shape`).

Tracing never evaluates anything: every `python.call`, `assert_`, `getattr`, `equal`, `cast` only appends a
node to the graph (`tracer/signature/python.py`), and under `depend_on(inputs)` every `Call` node carries
the graph inputs as additional dependencies.  The model therefore is a function from the argument list to
the list of nodes that `namedtensor_calltensorfactory.inner` inserts, plus the tracers it hands to the
wrapped operation.  Which optional keywords exist, when each is passed, what the positional arguments of
the traced call are and which assertions follow are read from `Extracted/Factory.lean`, which is
regenerated from the source on every run.
-/
namespace Einx.Factory
open Einx.Extracted

/-- `inspect.Parameter.kind`. -/
inductive ParamKind where
  | posOnly | posOrKw | varPos | kwOnly | varKw
deriving DecidableEq, Repr, Inhabited

def ParamKind.pyName : ParamKind → String
  | .posOnly => "POSITIONAL_ONLY"
  | .posOrKw => "POSITIONAL_OR_KEYWORD"
  | .varPos => "VAR_POSITIONAL"
  | .kwOnly => "KEYWORD_ONLY"
  | .varKw => "VAR_KEYWORD"

def ParamKind.ofPyName? (s : String) : Option ParamKind :=
  [ParamKind.posOnly, .posOrKw, .varPos, .kwOnly, .varKw].find? (fun k => k.pyName == s)

/-- `tensor.concrete.parameters`: the ordered dict name ↦ parameter kind returned by `_get_signature`. -/
structure Sig where
  params : List (String × ParamKind)
deriving DecidableEq, Repr, Inhabited

/-- `has_var_kwargs = any(param.kind in [VAR_KEYWORD] for param in parameters.values())` -/
def hasVarKwargs (s : Sig) : Bool :=
  s.params.any (fun p => Factory.varKwKinds.contains p.2.pyName)

/-- `name in parameters and parameters[name].kind in [POSITIONAL_OR_KEYWORD, KEYWORD_ONLY]` -/
def declaresKw (s : Sig) (name : String) : Bool :=
  s.params.any (fun p => p.1 == name && Factory.declaredKinds.contains p.2.pyName)

/-- `use_parameter(name)`.  When the extractor no longer recognises the rule, both flags are `false` and
every keyword is passed (the conservative reading). -/
def useParameter (s : Sig) (name : String) : Bool :=
  (Factory.useParamVarKwDisjunct && hasVarKwargs s) ||
  (if Factory.useParamRequiresDeclared then declaresKw s name else true)

/-- A tracer: either one that exists before `inner` runs (graph input or a cast of it, numbered by the
caller) or the result of the `k`-th node inserted by `inner`. -/
inductive Ref where
  | ext (id : Nat)
  | node (k : Nat)
deriving DecidableEq, Repr, Inhabited

/-- Values of the optional keywords. -/
inductive KwVal where
  | signature                 -- the `Constant` holding `SimpleNamespace(exprs_in, exprs_out)`
  | argIndex (i : Nat)
  | opName (s : String)
  | unknown (key : String)
deriving DecidableEq, Repr, Inhabited

/-- Positional arguments of the traced factory call. -/
inductive ArgVal where
  | shape (s : List Nat)      -- a tuple of Python ints
  | unknown (what : String)   -- anything else (`None`, a tracer, ...)
deriving DecidableEq, Repr, Inhabited

inductive Node where
  | call (fn : Ref) (args : List ArgVal) (kwargs : List (String × KwVal)) (deps : List Ref)
  | isinstance (x : Ref) (deps : List Ref)          -- `builtins.isinstance(x, expected_type)` (a Call of a Builtin)
  | assert (x cond : Ref)                           -- `assert_(x, cond, msg)`; its result stands for `x`
  | getShape (x : Ref)                              -- `x.shape`
  | tupleOf (x : Ref) (deps : List Ref)             -- `builtins.tuple(x)` (a Call of a Builtin)
  | eqShape (x : Ref) (shape : List Nat)            -- `equal(x, expr.shape)`
  | castTensor (x : Ref) (shape : List Nat)         -- `tracer.cast(x, Tensor(shape=expr.shape))`
deriving DecidableEq, Repr, Inhabited

/-- One element of `tensors` as `inner` receives it. -/
structure Arg where
  value : Ref
  factory : Option Sig            -- `some` iff ConvertibleTensor whose concrete type is callable
  tshape : Option (List Nat)      -- `tensor.shape`
  solved : List Nat               -- `tensor.expr.shape`
deriving DecidableEq, Repr, Inhabited

/-- What the caller passed at one tensor position. -/
inductive ApiArg where
  | tensor (shape : List Nat)
  | factory (sig : Sig)
deriving DecidableEq, Repr, Inhabited

/-- `_to_tracer`: the shape the solver sees.  A callable becomes a tracer with `shape=None`. -/
def toTracerShape : ApiArg → Option (List Nat)
  | .tensor s => some s
  | .factory _ => if Factory.callableTracerShapeNone then none else some []

/-- `_cast_shape(tensor, expr)` -/
def castShape (tshape : Option (List Nat)) (solved : List Nat) : Option (List Nat) :=
  match tshape with
  | none => if Factory.castShapeGivesSolvedShape then some solved else none
  | some s => some s

def Arg.ofApi (value : Ref) (a : ApiArg) (solved : List Nat) : Arg :=
  { value := value
    factory := match a with | .factory sig => some sig | .tensor _ => none
    tshape := castShape (toTracerShape a) solved
    solved := solved }

structure Ctx where
  opName : Option String          -- `some n` when wrapped by `ops` (`factory_kwargs = {"name": n}`), `none` for a bare `op`
  deps : List Ref                 -- the `depend_on` stack while tracing
deriving DecidableEq, Repr, Inhabited

def kwVal (c : Ctx) (i : Nat) (key : String) : KwVal :=
  if key == "signature" then .signature
  else if key == "arg_index" then (if Factory.argIndexFromEnumerate then .argIndex i else .unknown key)
  else if key == "name" then (match c.opName with | some n => .opName n | none => .unknown key)
  else .unknown key

/-- `{"signature": signature, "arg_index": arg_index} | factory_kwargs` (the key sets are disjoint:
obligation `keywords_disjoint`, so `|` is concatenation). -/
def offered (c : Ctx) (i : Nat) : List (String × KwVal) :=
  Factory.perCallKeywords.map (fun k => (k, kwVal c i k)) ++
  (match c.opName with
   | some _ => if Factory.factoryKwargsMergedRight then Factory.opsKeywords.map (fun k => (k, kwVal c i k)) else []
   | none => [])

/-- `{name: value for name, value in kwargs.items() if use_parameter(name)}` -/
def passed (c : Ctx) (i : Nat) (sig : Sig) : List (String × KwVal) :=
  if Factory.kwargsFilteredByUseParameter then (offered c i).filter (fun kv => useParameter sig kv.1) else offered c i

def argVal (a : Arg) (name : String) : ArgVal :=
  if name == "shape" then
    (if Factory.shapeSource == "tensor.shape" then
      (match a.tshape with | some s => .shape s | none => .unknown "None")
     else if Factory.shapeSource == "expr.shape" then .shape a.solved
     else .unknown Factory.shapeSource)
  else .unknown name

/-- `_call_tensorfactory(tensor, kwargs)`: nodes appended (the first gets index `base`) and `(tensor, called)`. -/
def callTensorFactory (c : Ctx) (base i : Nat) (a : Arg) : List Node × (Ref × Bool) :=
  match a.factory with
  | some sig => ([.call a.value (Factory.callArgs.map (argVal a)) (passed c i sig) c.deps], (.node base, true))
  | none => ([], (a.value, false))

/-- `xs = [_call_tensorfactory(tensor, ...) for arg_index, tensor in enumerate(tensors)]` -/
def callAll (c : Ctx) : Nat → Nat → List Arg → List Node × List (Ref × Bool)
  | _, _, [] => ([], [])
  | base, i, a :: as =>
    let r := callTensorFactory c base i a
    let rest := callAll c (base + r.1.length) (i + 1) as
    (r.1 ++ rest.1, r.2 :: rest.2)

/-- One `tensor = assert_(tensor, <condition>, ...)` statement. -/
def assertStep (c : Ctx) (base : Nat) (x : Ref) (solved : List Nat) (step : String) : List Node × Ref :=
  if step == "isinstance" then
    ([.isinstance x c.deps, .assert x (.node base)], .node (base + 1))
  else if step == "shape_eq" then
    ([.getShape x, .tupleOf (.node base) c.deps, .eqShape (.node (base + 1)) solved, .assert x (.node (base + 2))], .node (base + 3))
  else ([], x)

def assertSteps (c : Ctx) (solved : List Nat) : Nat → Ref → List String → List Node × Ref
  | _, x, [] => ([], x)
  | base, x, s :: ss =>
    let r := assertStep c base x solved s
    let rest := assertSteps c solved (base + r.1.length) r.2 ss
    (r.1 ++ rest.1, rest.2)

/-- `_assert_output(tensor, expr, called, expected_type)` -/
def assertOutput (c : Ctx) (base : Nat) (x : Ref) (called : Bool) (solved : List Nat) : List Node × Ref :=
  if called || !Factory.assertsGuardedByCalled then
    let r := assertSteps c solved base x Factory.assertSequence
    if Factory.castAfterAsserts then (r.1 ++ [.castTensor r.2 solved], .node (base + r.1.length)) else r
  else ([], x)

/-- `tensors = [_assert_output(tensor, expr, called, expected_type) for tensor, expr, called in xs]` -/
def assertAll (c : Ctx) : Nat → List ((Ref × Bool) × Arg) → List Node × List Ref
  | _, [] => ([], [])
  | base, (x, a) :: xs =>
    let r := assertOutput c base x.1 x.2 a.solved
    let rest := assertAll c (base + r.1.length) xs
    (r.1 ++ rest.1, r.2 :: rest.2)

/-- `namedtensor_calltensorfactory.op(...).inner`: all inserted nodes and the tracers handed to the wrapped op. -/
def inner (c : Ctx) (args : List Arg) : List Node × List Ref :=
  let p1 := callAll c 0 0 args
  let p2 := assertAll c p1.1.length (p1.2.zip args)
  (p1.1 ++ p2.1, p2.2)

/-- Is this node a call whose function operand is `v`? -/
def Node.callsRef (v : Ref) : Node → Bool
  | .call fn _ _ _ => fn == v
  | _ => false

end Einx.Factory
