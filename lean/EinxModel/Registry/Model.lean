/-
M8: model of `einx/_src/frontend/backend.py` (BackendRegistryState / BackendRegistry).

Backends are records with an object identity `uid`.  `sys.modules` is an explicit argument
(`mods`, in insertion order).  Every public method of `BackendRegistryState` is copy-on-write:
it returns a new state; `BackendRegistry` stores the new state only if the method returned
normally (an exception leaves `self.state` untouched).
-/
namespace Einx.Registry

structure Backend where
  uid : Nat
  name : String
  priority : Int
  accepts : List Nat      -- tensor type ids for which `is_supported_tensor` is true
  invalid : Bool          -- `InvalidBackend` (factory failed): accepts nothing, raises on use
deriving DecidableEq, Repr, Inhabited

/-- `register_on_import(module, backend_name, factory)`: the factory either returns `produces`
or raises, in which case `_run_factory` registers an `InvalidBackend` (also `produces`, with
`invalid = true` and `accepts = []`). -/
structure Factory where
  name : String
  produces : Backend
deriving DecidableEq, Repr, Inhabited

/-- Tensor type ids below this bound are Python / numpy scalars
(`float | int | bool | np.floating | np.integer | np.bool_`). -/
def isScalarTy (ty : Nat) : Bool := ty < 3

structure State where
  seen : List String := []
  uninit : List (String × List Factory) := []       -- dict: module -> factories (insertion order)
  backends : List Backend := []
  memo : List (List Nat × Backend) := []             -- tensortypes_to_backend
  names : List (String × Backend) := []              -- name_to_backend
  stack : List Backend := []                         -- use_stack
deriving DecidableEq, Repr, Inhabited

inductive Err where
  | value            -- ValueError
  | multiple (uids : List Nat)   -- BackendResolutionError: several candidates
  | nomatch          -- BackendResolutionError: no candidate
  | assertion        -- AssertionError / IndexError in `_exit` (unbalanced use)
deriving DecidableEq, Repr

/-- Python dict assignment `d[k] = v`. -/
def dictSet {β} (d : List (String × β)) (k : String) (v : β) : List (String × β) :=
  if d.any (·.1 == k) then d.map (fun kv => if kv.1 == k then (k, v) else kv) else d ++ [(k, v)]

def dictGet {β} (d : List (String × β)) (k : String) : Option β :=
  (d.find? (·.1 == k)).map (·.2)

/-- Whether `_register` drops the type memo (extracted from the source on every run). -/
structure Cfg where
  registerClearsMemo : Bool
deriving DecidableEq, Repr

def State.register (cfg : Cfg) (s : State) (b : Backend) : State :=
  { s with backends := s.backends ++ [b], names := dictSet s.names b.name b,
           memo := if cfg.registerClearsMemo then [] else s.memo }

def State.runFactory (cfg : Cfg) (s : State) (f : Factory) : State := s.register cfg f.produces

def State.registerOnImport (cfg : Cfg) (s : State) (mods : List String) (m : String) (f : Factory) : State :=
  if mods.contains m then s.runFactory cfg f
  else
    match dictGet s.uninit m with
    | some fs => { s with uninit := dictSet s.uninit m (fs ++ [f]) }
    | none => { s with uninit := s.uninit ++ [(m, [f])] }

/-- One iteration of the loop in `_check_new_imports`. -/
def State.seeModule (cfg : Cfg) (s : State) (m : String) : State :=
  let s := { s with seen := s.seen ++ [m] }
  match dictGet s.uninit m with
  | some fs =>
    let s := fs.foldl (fun s f => s.runFactory cfg f) s
    { s with uninit := s.uninit.filter (·.1 != m) }
  | none => s

/-- `_check_new_imports`; returns the new state, `changed`, and the new `has_checked` flag. -/
def State.checkNewImports (cfg : Cfg) (s : State) (mods : List String) (checked : Bool) : State × Bool × Bool :=
  if checked then (s, false, true)
  else
    let new := mods.filter (fun m => !s.seen.contains m)
    if new.isEmpty then (s, false, true)
    else (new.eraseDups.foldl (fun s m => s.seeModule cfg m) s, true, true)

def supporting (bs : List Backend) (ty : Nat) : List Backend :=
  bs.filter (fun b => !b.invalid && b.accepts.contains ty)

/-- `_get_by_tensor`. -/
def State.getByTensor (cfg : Cfg) (s : State) (mods : List String) (checked : Bool) (ty : Nat) :
    State × List Backend × Bool :=
  let bs := supporting s.backends ty
  if !bs.isEmpty then (s, bs, checked)
  else
    let (s', changed, checked') := s.checkNewImports cfg mods checked
    if changed then (s', supporting s'.backends ty, checked') else (s', [], checked')

def unionByUid (a b : List Backend) : List Backend :=
  b.foldl (fun acc x => if acc.any (·.uid == x.uid) then acc else acc ++ [x]) a

def maxPriority : List Backend → Int
  | [] => 0
  | b :: bs => bs.foldl (fun m x => max m x.priority) b.priority

/-- "Keep only backends with highest priority". -/
def keepMax (bs : List Backend) : List Backend :=
  if bs.length > 1 then bs.filter (fun b => b.priority == maxPriority bs) else bs

/-- `_get_by_name`. -/
def State.getByName (cfg : Cfg) (s : State) (mods : List String) (checked : Bool) (n : String) :
    Except Err (State × Backend × Bool) :=
  match dictGet s.names n with
  | some b => .ok (s, b, checked)
  | none =>
    let (s', changed, checked') := s.checkNewImports cfg mods checked
    if !changed then .error .value
    else match dictGet s'.names n with
      | some b => .ok (s', b, checked')
      | none => .error .value

/-- `_get_by_tensors`: returns the candidate list. -/
def State.getByTensors (cfg : Cfg) (s : State) (mods : List String) (checked : Bool) (tys : List Nat) :
    Except Err (State × List Backend) :=
  match s.memo.find? (·.1 == tys) with
  | some (_, b) => .ok (s, [b])
  | none =>
    let (s1, cands, _) := tys.foldl
      (fun (acc : State × List Backend × Bool) ty =>
        let (s, cs, ch) := acc
        let (s', bs, ch') := s.getByTensor cfg mods ch ty
        (s', unionByUid cs bs, ch')) (s, [], checked)
    -- all scalars (vacuously true for no tensors) => the backend named "numpy"
    let r : Except Err (State × List Backend) :=
      if tys.all isScalarTy then
        match s1.getByName cfg mods false "numpy" with
        | .ok (s2, b, _) => .ok (s2, [b])
        | .error e => .error e
      else .ok (s1, cands)
    match r with
    | .error e => .error e
    | .ok (s2, cands) =>
      let cands := keepMax cands
      match cands with
      | [b] => .ok ({ s2 with memo := s2.memo.filter (·.1 != tys) ++ [(tys, b)] }, [b])
      | _ => .ok (s2, cands)

/-- The `backend=` argument of a call. -/
inductive BackendArg where
  | none
  | obj (b : Backend)
  | name (n : String)
  | other                 -- any other non-None object
deriving DecidableEq, Repr

/-- `_get`. -/
def State.get (cfg : Cfg) (s : State) (mods : List String) (arg : BackendArg) (tys : List Nat) :
    Except Err (State × Backend) :=
  match arg with
  | .obj b => .ok (s, b)
  | .name n =>
    match s.getByName cfg mods false n with
    | .ok (s', b, _) => .ok (s', b)
    | .error e => .error e
  | arg =>
    match s.stack.getLast? with
    | some b => .ok (s, b)
    | none =>
      if arg != .none then .error .value
      else match s.getByTensors cfg mods false tys with
        | .error e => .error e
        | .ok (s', [b]) => .ok (s', b)
        | .ok (_, []) => .error .nomatch
        | .ok (_, bs) => .error (.multiple (bs.map (·.uid)))

def State.enter (s : State) (b : Backend) : State := { s with stack := s.stack ++ [b] }

def State.exit (s : State) (b : Backend) : Except Err State :=
  match s.stack.getLast? with
  | some t => if t.uid == b.uid then .ok { s with stack := s.stack.dropLast } else .error .assertion
  | none => .error .assertion

/-- Operations on a `BackendRegistry` plus the environment event "a module got imported". -/
inductive Op where
  | register (b : Backend)
  | registerOnImport (m : String) (f : Factory)
  | importModule (m : String)
  | get (arg : BackendArg) (tys : List Nat)
  | getByName (n : String)
  | enter (b : Backend)
  | exit (b : Backend)
deriving DecidableEq, Repr

inductive Out where
  | unit
  | backend (uid : Nat)
  | error (e : Err)
deriving DecidableEq, Repr

structure World where
  st : State := {}
  mods : List String := []
deriving DecidableEq, Repr, Inhabited

/-- `BackendRegistry` method call: the new state is stored only on normal return. -/
def step (cfg : Cfg) (w : World) : Op → World × Out
  | .register b => ({ w with st := w.st.register cfg b }, .unit)
  | .registerOnImport m f => ({ w with st := w.st.registerOnImport cfg w.mods m f }, .unit)
  | .importModule m => ({ w with mods := if w.mods.contains m then w.mods else w.mods ++ [m] }, .unit)
  | .get arg tys =>
    match w.st.get cfg w.mods arg tys with
    | .ok (s, b) => ({ w with st := s }, .backend b.uid)
    | .error e => (w, .error e)
  | .getByName n =>
    match w.st.getByName cfg w.mods false n with
    | .ok (s, b, _) => ({ w with st := s }, .backend b.uid)
    | .error e => (w, .error e)
  | .enter b => ({ w with st := w.st.enter b }, .unit)
  | .exit b =>
    match w.st.exit b with
    | .ok s => ({ w with st := s }, .unit)
    | .error e => (w, .error e)

def runOps (cfg : Cfg) (w : World) : List Op → World × List Out
  | [] => (w, [])
  | op :: ops =>
    let (w', o) := step cfg w op
    let (w'', os) := runOps cfg w' ops
    (w'', o :: os)

end Einx.Registry
