import EinxModel.Registry.Model
/-!
M8 (second half): interleaving semantics of `BackendRegistry` on top of the sequential model.

Every public method of `BackendRegistry` has the shape

    with self.use_lock:                      -- present or not: `LockCfg`, extracted from the AST
        self.state = self.state.m(args)      -- read `self.state`; pure copy-on-write computation; write

A thread executing a method therefore goes through the micro steps
`acquire? ; read snapshot ; compute from the snapshot and store ; release?`.  The computation itself is
the sequential model's `step` applied to the *snapshot* (not to the current shared state); an exception
leaves `self.state` unassigned.  `importModule` (an insertion into `sys.modules`, which is not a
registry method) is one atomic step.  A thread whose next step is `acquire` while another thread owns
the lock is not enabled.

The lock is modelled as `Option owner`: no model method calls another registry method while holding
the lock, so a re-entrancy counter would always be 1 (the real lock is an `RLock` because backend
*factories*, which are data in the model, may re-enter the registry while they are run under the lock).

`Conf.lin` is a ghost component: the calls in the order of their store steps (their linearization
points) together with the outcome they had.  No step reads it.
-/
namespace Einx.Registry.Conc
open Einx.Registry

/-- One Bool per public `BackendRegistry` method: is its read-compute-write inside `with self.use_lock`? -/
structure LockCfg where
  register : Bool
  registerOnImport : Bool
  getByTensors : Bool
  getByName : Bool
  get : Bool
  enter : Bool
  exit : Bool
deriving DecidableEq, Repr

/-- From the extracted table (`Extracted.registryLocked`); a missing method counts as unlocked. -/
def LockCfg.ofTable (t : List (String × Bool)) : LockCfg :=
  let f := fun (k : String) => ((t.find? (·.1 == k)).map (·.2)).getD false
  { register := f "register", registerOnImport := f "register_on_import", getByTensors := f "get_by_tensors",
    getByName := f "get_by_name", get := f "get", enter := f "enter", exit := f "exit" }

def LockCfg.allLocked (c : LockCfg) : Bool :=
  c.register && c.registerOnImport && c.getByTensors && c.getByName && c.get && c.enter && c.exit

def LockCfg.all : LockCfg := ⟨true, true, true, true, true, true, true⟩

/-- `sys.modules` insertion: an event of the environment, not a method of the registry. -/
def isEnv : Op → Bool
  | .importModule _ => true
  | _ => false

/-- Does the method called by `op` take the lock? -/
def LockCfg.locks (c : LockCfg) : Op → Bool
  | .register _ => c.register
  | .registerOnImport _ _ => c.registerOnImport
  | .importModule _ => false
  | .get _ _ => c.get
  | .getByName _ => c.getByName
  | .enter _ => c.enter
  | .exit _ => c.exit

inductive PC where
  | idle                    -- between two calls
  | acquired                -- inside `with self.use_lock`, before reading `self.state`
  | read (snap : State)     -- holds a snapshot of `self.state`
  | releasing               -- has stored the new state, still owns the lock
deriving DecidableEq, Repr

structure Thread where
  pc : PC := .idle
  prog : List Op            -- calls not yet committed (the head is the call in progress when `pc ≠ idle`)
  outs : List Out := []     -- outcomes of the committed calls, in program order
deriving DecidableEq, Repr

structure Conf where
  st : State                         -- `registry.state`
  mods : List String                 -- `sys.modules`
  lock : Option Nat := none          -- owner of `registry.use_lock`
  threads : List Thread
  lin : List (Nat × Op × Out) := []  -- ghost: committed calls in the order of their store steps
deriving DecidableEq, Repr

/-- The store step of thread `i` for call `op` computed from snapshot `snap`: the sequential model's `step`
on the snapshot; the result is stored unless the method raised. -/
def commit (rc : Cfg) (c : Conf) (i : Nat) (th : Thread) (snap : State) (op : Op) (rest : List Op) (pc' : PC) : Conf :=
  let r := step rc ⟨snap, c.mods⟩ op
  { c with
    st := (match r.2 with
           | .error _ => c.st
           | _ => r.1.st),
    mods := r.1.mods,
    threads := c.threads.set i { pc := pc', prog := rest, outs := th.outs ++ [r.2] },
    lin := c.lin ++ [(i, op, r.2)] }

/-- One micro step of thread `i`, `none` if the thread is not enabled (finished, unknown, or waiting for the lock). -/
def stepThread (rc : Cfg) (lc : LockCfg) (c : Conf) (i : Nat) : Option Conf :=
  match c.threads[i]? with
  | none => none
  | some th =>
    match th.pc with
    | .idle =>
      match th.prog with
      | [] => none
      | op :: rest =>
        if isEnv op then some (commit rc c i th c.st op rest .idle)
        else if lc.locks op then
          match c.lock with
          | none => some { c with lock := some i, threads := c.threads.set i { th with pc := .acquired } }
          | some _ => none
        else some { c with threads := c.threads.set i { th with pc := .read c.st } }
    | .acquired => some { c with threads := c.threads.set i { th with pc := .read c.st } }
    | .read snap =>
      match th.prog with
      | [] => none
      | op :: rest =>
        -- leaving the `with` block releases the lock iff this thread entered it
        some (commit rc c i th snap op rest (if c.lock = some i then .releasing else .idle))
    | .releasing => some { c with lock := none, threads := c.threads.set i { th with pc := .idle } }

/-- Run a schedule (a list of thread ids); scheduling a thread that is not enabled is a no-op. -/
def run (rc : Cfg) (lc : LockCfg) (c : Conf) (sched : List Nat) : Conf :=
  sched.foldl (fun c i => (stepThread rc lc c i).getD c) c

def Thread.done (th : Thread) : Bool := th.pc == .idle && th.prog.isEmpty

def Conf.finished (c : Conf) : Bool := c.threads.all Thread.done

/-- Is any thread enabled?  (`false` on an unfinished configuration = deadlock.) -/
def Conf.anyEnabled (rc : Cfg) (lc : LockCfg) (c : Conf) : Bool :=
  (List.range c.threads.length).any (fun i => (stepThread rc lc c i).isSome)

def init (w : World) (progs : List (List Op)) : Conf :=
  { st := w.st, mods := w.mods, lock := none, threads := progs.map (fun p => { prog := p }), lin := [] }

/-! ### Serial reference -/

/-- What is observable of a finished run: the outcomes per thread and the final shared world. -/
structure Outcome where
  outs : List (List Out)
  st : State
  mods : List String
deriving DecidableEq, Repr

def Conf.outcome (c : Conf) : Outcome := { outs := c.threads.map (·.outs), st := c.st, mods := c.mods }

/-- Outcomes of thread `i` in a tagged history. -/
def outsOf (i : Nat) (h : List (Nat × Op × Out)) : List Out := (h.filter (·.1 == i)).map (·.2.2)

/-- Calls of thread `i` in a tagged history. -/
def opsOf (i : Nat) (h : List (Nat × Op × Out)) : List Op := (h.filter (·.1 == i)).map (·.2.1)

/-- All interleavings (at call granularity) of the programs, each call tagged with its thread. -/
def interleave : Nat → List (List Op) → List (List (Nat × Op))
  | 0, _ => [[]]
  | fuel + 1, ps =>
    if ps.all List.isEmpty then [[]]
    else
      (List.range ps.length).flatMap (fun i =>
        match ps[i]? with
        | some (op :: rest) => (interleave fuel (ps.set i rest)).map (fun o => (i, op) :: o)
        | _ => [])

def serialOrders (progs : List (List Op)) : List (List (Nat × Op)) :=
  interleave (progs.map List.length).sum progs

/-- The outcome of running the calls one after the other in the given order on the sequential model. -/
def serialOutcome (rc : Cfg) (w0 : World) (nthreads : Nat) (order : List (Nat × Op)) : Outcome :=
  let r := runOps rc w0 (order.map (·.2))
  let tagged := order.zip r.2
  { outs := (List.range nthreads).map (fun i => (tagged.filter (·.1.1 == i)).map (·.2)),
    st := r.1.st, mods := r.1.mods }

def serialOutcomes (rc : Cfg) (w0 : World) (progs : List (List Op)) : List Outcome :=
  (serialOrders progs).map (serialOutcome rc w0 progs.length)

/-! ### Context stacks (`tracer/graph.py:_dependon`, `TorchDeviceStack`, `ArrayApiNamespaceStack`)

A context stack is a list that `__enter__` pushes to and `__exit__` pops from; readers see the whole
stack (`get_additional_dependencies`) or its top (`get_device`, `get_xp`).  It lives either in a
`threading.local()` (one list per thread) or in a plain module-level object (one list for all). -/

inductive SOp where
  | push (v : Nat)
  | pop
  | peek
deriving DecidableEq, Repr

inductive SOut where
  | unit
  | seen (stack : List Nat)
  | indexError
deriving DecidableEq, Repr

/-- One stack operation on one list. -/
def stackOp (s : List Nat) : SOp → List Nat × SOut
  | .push v => (s ++ [v], .unit)
  | .pop => if s.isEmpty then (s, .indexError) else (s.dropLast, .unit)
  | .peek => (s, .seen s)

/-- A thread's operations executed alone. -/
def stackAlone (s : List Nat) : List SOp → List Nat × List SOut
  | [] => (s, [])
  | op :: ops =>
    let r := stackOp s op
    let r' := stackAlone r.1 ops
    (r'.1, r.2 :: r'.2)

/-- Interleaved execution; `σ k` is the list stored under key `k`; thread `t` uses key `t` when the storage
is thread-local and key `0` otherwise. -/
def stackRun (threadLocal : Bool) (σ : Nat → List Nat) : List (Nat × SOp) → (Nat → List Nat) × List (Nat × SOut)
  | [] => (σ, [])
  | (t, op) :: rest =>
    let k := if threadLocal then t else 0
    let r := stackOp (σ k) op
    let r' := stackRun threadLocal (fun j => if j = k then r.1 else σ j) rest
    (r'.1, (t, r.2) :: r'.2)

end Einx.Registry.Conc
