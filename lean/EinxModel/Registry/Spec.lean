import EinxModel.Registry.Model
/-
The specification side of M8: backend selection as a pure function of the registered backends,
the `with` stack and the argument types.
-/
namespace Einx.Registry

/-- Candidate backends for a tuple of argument types (no memo, no import checks). -/
def candidates (s : State) (tys : List Nat) : List Backend :=
  if tys.all isScalarTy then (dictGet s.names "numpy").toList
  else tys.foldl (fun acc ty => unionByUid acc (supporting s.backends ty)) []

def select (s : State) (tys : List Nat) : List Backend := keepMax (candidates s tys)

/-- The documented precedence chain: object > registered name > innermost `with` > argument types. -/
def specGet (s : State) (arg : BackendArg) (tys : List Nat) : Except Err Backend :=
  match arg with
  | .obj b => .ok b
  | .name n =>
    match dictGet s.names n with
    | some b => .ok b
    | none => .error .value
  | arg =>
    match s.stack.getLast? with
    | some b => .ok b
    | none =>
      if arg != .none then .error .value
      else if tys.all isScalarTy && (dictGet s.names "numpy").isNone then .error .value
      else match select s tys with
        | [b] => .ok b
        | [] => .error .nomatch
        | bs => .error (.multiple (bs.map (·.uid)))

/-- No factory is waiting for a module that is already imported: `_check_new_imports` cannot
register anything. -/
def Quiet (s : State) (mods : List String) : Prop := ∀ m ∈ mods, dictGet s.uninit m = none

/-- Every memoised choice is what selection computes from the current state. -/
def MemoOK (s : State) : Prop := ∀ e ∈ s.memo, select s e.1 = [e.2]

/-- Equal up to `seen` and `memo`. -/
structure Same (s t : State) : Prop where
  uninit : s.uninit = t.uninit
  backends : s.backends = t.backends
  names : s.names = t.names
  stack : s.stack = t.stack

/-- Outcomes of a lookup, up to the enumeration order of an ambiguous candidate set: the same backend,
the same error, or "several candidates" with the same uids in some order. -/
def OutEq : Except Err Backend → Except Err Backend → Prop
  | .ok a, .ok b => a = b
  | .error (.multiple us), .error (.multiple vs) => us.Perm vs
  | .error e, .error e' => e = e'
  | _, _ => False

/-- "uid determines the backend" on a list (implied by distinct uids). -/
def UidInj (U : List Backend) : Prop := ∀ x ∈ U, ∀ y ∈ U, x.uid = y.uid → x = y

/-- The same *set* of registered backends (in any order, uid determines the backend), the same
name map as a function, the same `with` stack. -/
structure SameSet (s t : State) : Prop where
  mem : ∀ b, b ∈ s.backends ↔ b ∈ t.backends
  injL : UidInj s.backends
  injR : UidInj t.backends
  names : ∀ n, dictGet s.names n = dictGet t.names n
  stack : s.stack = t.stack

/-- The state a sequence of operations *should* lead to, ignoring every lookup: registrations append,
`with` blocks push and pop (an unbalanced `exit` raises and changes nothing). -/
def specStep (s : State) : Op → State
  | .register b => { s with backends := s.backends ++ [b], names := dictSet s.names b.name b }
  | .enter b => s.enter b
  | .exit b => match s.exit b with
    | .ok s' => s'
    | .error _ => s
  | _ => s

def specState (ops : List Op) : State := ops.foldl specStep {}

/-- The backends registered eagerly by a sequence of operations, in registration order. -/
def regsOf (ops : List Op) : List Backend := ops.filterMap fun
  | .register b => some b
  | _ => none

/-- Eager registration of a list of backends, one after the other. -/
def registerAll (cfg : Cfg) (s : State) (bs : List Backend) : State := bs.foldl (fun s b => s.register cfg b) s

/-- No lazy registration. -/
def Op.isEager : Op → Bool
  | .registerOnImport _ _ => false
  | _ => true

/-- Lookups and module imports: the operations that must not influence later choices. -/
def Op.isLookup : Op → Bool
  | .get _ _ => true
  | .getByName _ => true
  | .importModule _ => true
  | _ => false

/-! ### lazy registration -/

/-- The *effective* state: what `_check_new_imports` makes of the state right now – every factory that
waits for an already imported module has been run (in the order the implementation runs them). -/
def State.flush (cfg : Cfg) (s : State) (mods : List String) : State := (s.checkNewImports cfg mods false).1

/-- A module that has been seen has no waiting factory (an invariant of every reachable world, see
`runOps_wellFormed`). -/
def WellFormed (w : World) : Prop :=
  (∀ m ∈ w.st.seen, m ∈ w.mods) ∧ ∀ m ∈ w.st.seen, dictGet w.st.uninit m = none

/-- The discipline einx's own registrations follow, as a condition on the state in which a lookup happens
(all three parts are decidable):
* `memo` – a memoised choice for these argument types is still what the effective state selects
  ("tensors of a framework only exist after its module is imported": no lookup with these types happened
  before the factories that accept them were due);
* `types` – a type that some registered backend accepts is not also accepted by a waiting factory
  (all backends of a framework are registered on the same module, in one block);
* `names` – waiting factories do not re-register an existing name (distinct names). -/
structure LazyDiscipline (cfg : Cfg) (s : State) (mods : List String) (tys : List Nat) : Prop where
  memo : ∀ en ∈ s.memo, en.1 = tys → select (s.flush cfg mods) tys = [en.2]
  types : ∀ ty ∈ tys, supporting s.backends ty ≠ [] →
    supporting (s.flush cfg mods).backends ty = supporting s.backends ty
  names : ∀ kv ∈ s.names, dictGet (s.flush cfg mods).names kv.1 = dictGet s.names kv.1

instance (cfg : Cfg) (s : State) (mods : List String) (tys : List Nat) : Decidable (LazyDiscipline cfg s mods tys) :=
  decidable_of_iff
    ((∀ en ∈ s.memo, en.1 = tys → select (s.flush cfg mods) tys = [en.2]) ∧
     (∀ ty ∈ tys, supporting s.backends ty ≠ [] →
        supporting (s.flush cfg mods).backends ty = supporting s.backends ty) ∧
     (∀ kv ∈ s.names, dictGet (s.flush cfg mods).names kv.1 = dictGet s.names kv.1))
    ⟨fun h => ⟨h.1, h.2.1, h.2.2⟩, fun h => ⟨h.memo, h.types, h.names⟩⟩

/-! ### the registration discipline, as a check on operation sequences -/

/-- "valid backend accepts this tensor type" – the test of `supporting`. -/
def accepts (b : Backend) (ty : Nat) : Bool := !b.invalid && b.accepts.contains ty

/-- No tensor type is accepted by both backends. -/
def disjointTypes (a b : Backend) : Bool := a.accepts.all (fun ty => !(accepts a ty && accepts b ty))

/-- What the discipline check remembers of a history – nothing of the registry's state: the imported modules, the
backends registered eagerly (by `register`, or by `register_on_import` for an already imported module), the
factories registered lazily with their module, and the tensor types that occurred in lookups. -/
structure Track where
  mods : List String := []
  eager : List Backend := []
  lazies : List (String × Factory) := []
  looked : List Nat := []
deriving Repr

def Track.products (t : Track) : List Backend := t.eager ++ t.lazies.map (·.2.produces)

/-- A name that no earlier registration used. -/
def Track.fresh (t : Track) (b : Backend) : Bool := t.products.all (fun x => x.name != b.name)

/-- **The discipline**, one operation at a time:
* every registration uses a new name;
* *type ownership*: the tensor types accepted by a lazily registered backend are accepted by no eagerly registered
  backend and by no lazily registered backend of another module ("all backends of a framework are registered on
  that framework's module");
* *tensors of a framework only exist after its module is imported*: a lookup does not involve a type that a
  factory waiting for a not yet imported module accepts – whether the factory was registered before the lookup
  (checked at the lookup) or after it (checked at the registration). -/
def Track.ok (t : Track) : Op → Bool
  | .register b => t.fresh b && t.lazies.all (fun mf => disjointTypes b mf.2.produces)
  | .registerOnImport m f =>
    t.fresh f.produces &&
    (if t.mods.contains m then t.lazies.all (fun mf => disjointTypes f.produces mf.2.produces)
     else t.eager.all (fun b => disjointTypes b f.produces) &&
          t.lazies.all (fun mf => mf.1 == m || disjointTypes mf.2.produces f.produces) &&
          t.looked.all (fun ty => !accepts f.produces ty))
  | .get _ tys => t.lazies.all (fun mf => t.mods.contains mf.1 || tys.all (fun ty => !accepts mf.2.produces ty))
  | _ => true

def Track.step (t : Track) : Op → Track
  | .register b => { t with eager := t.eager ++ [b] }
  | .registerOnImport m f =>
    if t.mods.contains m then { t with eager := t.eager ++ [f.produces] } else { t with lazies := t.lazies ++ [(m, f)] }
  | .importModule m => { t with mods := if t.mods.contains m then t.mods else t.mods ++ [m] }
  | .get _ tys => { t with looked := t.looked ++ tys }
  | _ => t

/-- A history follows the discipline (decidable: a `Bool`). -/
def disciplined (t : Track) : List Op → Bool
  | [] => true
  | op :: ops => t.ok op && disciplined (t.step op) ops

/-- What a history has registered *effectively*: the backends registered eagerly, and the products of the
factories registered lazily for a module that is imported by now. -/
def Track.effective (t : Track) : List Backend :=
  t.eager ++ (t.lazies.filter (fun mf => t.mods.contains mf.1)).map (·.2.produces)

/-- What the discipline check remembers after a history. -/
def trackOf (mods₀ : List String) (ops : List Op) : Track := ops.foldl Track.step { mods := mods₀ }

end Einx.Registry
