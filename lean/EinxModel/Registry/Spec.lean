import EinxModel.Registry.Model
/-
The specification side of M8: backend selection as a pure function of the registered backends,
the `with` stack and the argument types.
-/
namespace Einx.Registry

/-- Candidate backends for a tuple of argument types (no memo, no import checks). -/
def candidates (s : State) (tys : List Nat) : List Backend :=
  if tys.all isScalarTy then (dictGet s.names "numpy").toList
  else tys.foldl (fun acc ty => unionByUid acc (supporting s.backends ty)) []

def select (s : State) (tys : List Nat) : List Backend := keepMax (candidates s tys)

/-- The documented precedence chain: object > registered name > innermost `with` > argument types. -/
def specGet (s : State) (arg : BackendArg) (tys : List Nat) : Except Err Backend :=
  match arg with
  | .obj b => .ok b
  | .name n =>
    match dictGet s.names n with
    | some b => .ok b
    | none => .error .value
  | arg =>
    match s.stack.getLast? with
    | some b => .ok b
    | none =>
      if arg != .none then .error .value
      else if tys.all isScalarTy && (dictGet s.names "numpy").isNone then .error .value
      else match select s tys with
        | [b] => .ok b
        | [] => .error .nomatch
        | bs => .error (.multiple (bs.map (·.uid)))

/-- No factory is waiting for a module that is already imported: `_check_new_imports` cannot
register anything. -/
def Quiet (s : State) (mods : List String) : Prop := ∀ m ∈ mods, dictGet s.uninit m = none

/-- Every memoised choice is what selection computes from the current state. -/
def MemoOK (s : State) : Prop := ∀ e ∈ s.memo, select s e.1 = [e.2]

/-- Equal up to `seen` and `memo`. -/
structure Same (s t : State) : Prop where
  uninit : s.uninit = t.uninit
  backends : s.backends = t.backends
  names : s.names = t.names
  stack : s.stack = t.stack

end Einx.Registry
