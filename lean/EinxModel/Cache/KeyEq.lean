import EinxModel.Cache.Hash
import EinxModel.Cache.Memo
/-!
M9 Cache, part 5 — `==` between two cache keys as the tree being checked performs it, the *exact* observation a
key stands for, and the decidable guards under which hash consistency and the key/observation equivalence are
proved (`Props/C06Hash.lean`).

`pyEq` (`Value.lean`) compares the `concrete` of two `ConvertibleTensor` placeholders raw, which is what the
pinned tree did.  Since fix 419ea3e `ConvertibleTensor.__eq__` is

```
self.origin == other.origin and _freeze_value(self.concrete) == _freeze_value(other.concrete) and self.shape == other.shape
```

(`Extracted.convEqFrozen`), the same frozen value that `__hash__` hashes.  `keyEq T` is `pyEq` with that clause.
-/
namespace Einx.Cache

mutual
/-- `a == b` between (parts of) cache keys: `pyEq`, except that two `ConvertibleTensor` placeholders compare
the frozen forms of their `concrete` (under the dispatch table `T` of `_freeze_value`). -/
def keyEq (T : Table) : PyVal → PyVal → Bool
  | .num _ a, .num _ b => a == b
  | .str a, .str b => a == b
  | .none, .none => true
  | .cls a, .cls b => a == b
  | .obj a, .obj b => a == b
  | .tuple xs, .tuple ys => keyEqList T xs ys
  | .list xs, .list ys => keyEqList T xs ys
  | .dict a, .dict b => a.length == b.length && keyEqSub T a b
  | .ns a, .ns b => a.length == b.length && keyEqSub T a b
  | .param n d a k, .param n' d' a' k' => n == n' && k == k' && keyEq T d d' && keyEq T a a'
  | .tensor s, .tensor s' => s == s'
  | .conv c s, .conv c' s' => pyEq (freeze T c) (freeze T c') && s == s'
  | _, _ => false
def keyEqList (T : Table) : List PyVal → List PyVal → Bool
  | [], [] => true
  | x :: xs, y :: ys => keyEq T x y && keyEqList T xs ys
  | _, _ => false
def keyEqSub (T : Table) : KVs → KVs → Bool
  | [], _ => true
  | (k, v) :: r, b => (match lookupKV b k with
      | some w => keyEq T v w
      | Option.none => false) && keyEqSub T r b
end

/-- A stored key is found by the tree being checked: equal hash and `==` (with the frozen comparison of
`ConvertibleTensor`). -/
def keyHitF (T : Table) (env : HashEnv) (k k' : PyVal) : Bool :=
  pyHash T env k == pyHash T env k' && keyEq T k k'

/-! ### Guards -/

/-- The keys of an association list are pairwise different (true of every Python `dict` / `vars(ns)`). -/
def keysNodup : KVs → Bool
  | [] => true
  | (k, _) :: r => (lookupKV r k).isNone && keysNodup r

mutual
/-- Every mapping inside the value (also inside the `concrete` of a placeholder) has pairwise different keys. -/
def wfKeys : PyVal → Bool
  | .tuple xs | .list xs => wfKeysList xs
  | .ndarray _ d => wfKeys d
  | .dict kvs | .ns kvs => keysNodup kvs && wfKeysKVs kvs
  | .param _ d a _ => wfKeys d && wfKeys a
  | .conv c _ => wfKeys c
  | _ => true
def wfKeysList : List PyVal → Bool
  | [] => true
  | x :: xs => wfKeys x && wfKeysList xs
def wfKeysKVs : KVs → Bool
  | [] => true
  | (_, v) :: r => wfKeys v && wfKeysKVs r
end

mutual
/-- Every `ConvertibleTensor` placeholder in the value (not looking inside placeholders) has a `concrete`
satisfying `p`. -/
def allConv (p : PyVal → Bool) : PyVal → Bool
  | .tuple xs | .list xs => allConvList p xs
  | .ndarray _ d => allConv p d
  | .dict kvs | .ns kvs => allConvKVs p kvs
  | .param _ d a _ => allConv p d && allConv p a
  | .conv c _ => p c
  | _ => true
def allConvList (p : PyVal → Bool) : List PyVal → Bool
  | [] => true
  | x :: xs => allConv p x && allConvList p xs
def allConvKVs (p : PyVal → Bool) : KVs → Bool
  | [] => true
  | (_, v) :: r => allConv p v && allConvKVs p r
end

/-- No `ConvertibleTensor` placeholder occurs in the value. -/
def noConv : PyVal → Bool := allConv (fun _ => false)

/-- The `concrete` of every `ConvertibleTensor` placeholder is itself free of such placeholders (einx builds
`SimpleNamespace(type=…[, parameters=…])` there). -/
def flatConv : PyVal → Bool := allConv noConv

/-! ### The exact observation -/

mutual
/-- Replace the `concrete` of every placeholder by its frozen form under `T`. -/
def normConv (T : Table) : PyVal → PyVal
  | .tuple xs => .tuple (normConvList T xs)
  | .list xs => .list (normConvList T xs)
  | .ndarray d x => .ndarray d (normConv T x)
  | .dict kvs => .dict (normConvKVs T kvs)
  | .ns kvs => .ns (normConvKVs T kvs)
  | .param n d a k => .param n (normConv T d) (normConv T a) k
  | .conv c s => .conv (freeze T c) s
  | v => v
def normConvList (T : Table) : List PyVal → List PyVal
  | [] => []
  | x :: xs => normConv T x :: normConvList T xs
def normConvKVs (T : Table) : KVs → KVs
  | [] => []
  | (k, v) :: r => (k, normConv T v) :: normConvKVs T r
end

mutual
/-- Equality of *exact* observations: structure, mapping contents irrespective of order, and for every number its
exact Python / numpy type and its value; placeholders by kind, shape and (recursively) `concrete`. -/
def exactEq : PyVal → PyVal → Bool
  | .num k a, .num k' b => k == k' && a == b
  | .str a, .str b => a == b
  | .none, .none => true
  | .cls a, .cls b => a == b
  | .obj a, .obj b => a == b
  | .tuple xs, .tuple ys => exactEqList xs ys
  | .list xs, .list ys => exactEqList xs ys
  | .dict a, .dict b => a.length == b.length && exactEqSub a b
  | .ns a, .ns b => a.length == b.length && exactEqSub a b
  | .param n d a k, .param n' d' a' k' => n == n' && k == k' && exactEq d d' && exactEq a a'
  | .tensor s, .tensor s' => s == s'
  | .conv c s, .conv c' s' => exactEq c c' && s == s'
  | _, _ => false
def exactEqList : List PyVal → List PyVal → Bool
  | [], [] => true
  | x :: xs, y :: ys => exactEq x y && exactEqList xs ys
  | _, _ => false
def exactEqSub : KVs → KVs → Bool
  | [], _ => true
  | (k, v) :: r, b => (match lookupKV b k with
      | some w => exactEq v w
      | Option.none => false) && exactEqSub r b
end

/-- The exact observation of a value that reaches the cache key: container kinds erased as the pinned
`_freeze_value` erases them, and the `concrete` of every placeholder likewise. -/
def observeX (v : PyVal) : PyVal := normConv pinnedTable (freeze pinnedTable v)

/-- The exact observation of a call. -/
def observeCallX (c : Call) : PyVal := normConv pinnedTable (keyOf pinnedTable c)

/-- The guard on a call under which `frozen_key_eq_iff` is proved. -/
def Call.flat (c : Call) : Bool := flatConv (.list c.args) && flatConv (.dict c.kwargs)

/-- The guard on a call under which `pyEq_hash` applies to its key. -/
def Call.wf (c : Call) : Bool := wfKeys (.list c.args) && wfKeys (.dict c.kwargs)

end Einx.Cache
