/-!
M9 Cache, part 5 — the two process-global context stacks and Python's `with` protocol.

* `BackendRegistryState.use_stack` (`frontend/backend.py`): `Backend.__enter__` → `registry.enter(b)` appends,
  `Backend.__exit__(*exc)` → `registry.exit(b)` asserts `id(use_stack[-1]) == id(b)` and pops;
* `_dependon.stack` (`tracer/graph.py`): `DependOn.__enter__` appends, `DependOn.__exit__` pops;
  `_construct_graph` runs the traced function inside `with tracer.depend_on(*input_tracers):`.

`with cm: body` calls `cm.__enter__()`, runs `body`, and calls `cm.__exit__(…)` **on every path**: normal
completion and exception alike; an exception raised by the body propagates after `__exit__` returned a
falsy value.  Whether the `__exit__` methods really pop unconditionally is read from the AST (`Cfg`).
-/
namespace Einx.Cache

structure Stacks where
  use : List Nat              -- backend identities, innermost last
  dep : List (List Nat)       -- dependency lists, innermost last
  deriving DecidableEq, Repr, Inhabited

/-- Facts about the `__enter__` / `__exit__` methods (extracted). -/
structure StackCfg where
  useExitUnconditional : Bool     -- `Use.__exit__` calls `registry.exit` whatever `exc_type` is
  depExitUnconditional : Bool     -- `DependOn.__exit__` pops whatever `exc_type` is
  useExitReturnsFalsy : Bool      -- `__exit__` does not swallow the exception
  depExitReturnsFalsy : Bool
  traceInsideWith : Bool          -- `_construct_graph` enters `depend_on` through a `with` statement
  deriving DecidableEq, Repr, Inhabited

def StackCfg.ok (c : StackCfg) : Bool :=
  c.useExitUnconditional && c.depExitUnconditional && c.useExitReturnsFalsy && c.depExitReturnsFalsy && c.traceInsideWith

/-- Programs over the stacks: everything einx and its caller can do between two observations. -/
inductive Prog
  | prim (raises : Bool)                    -- any code that does not touch the stacks; may raise
  | seq (p q : Prog)
  | withBackend (b : Nat) (body : Prog)     -- `with backend: body`
  | withDeps (deps : List Nat) (body : Prog)  -- `with tracer.depend_on(*deps): body`
  | tryExcept (body : Prog)                 -- `try: body  except Exception: pass`
  deriving Repr, Inhabited

inductive Status
  | normal
  | raised         -- an exception is propagating
  | corrupt        -- `registry.exit` failed its assertion or popped an empty list
  deriving DecidableEq, Repr, Inhabited

/-- `registry.exit(b)`: `assert id(use_stack[-1]) == id(b); use_stack.pop()`. -/
def exitUse (b : Nat) (s : Stacks) : Option Stacks :=
  match s.use.getLast? with
  | some t => if t == b then some { s with use := s.use.dropLast } else none
  | none => none

/-- `_dependon.stack.pop()`. -/
def exitDep (s : Stacks) : Option Stacks :=
  match s.dep with
  | [] => none
  | _ => some { s with dep := s.dep.dropLast }

def exec (cfg : StackCfg) : Prog → Stacks → Stacks × Status
  | .prim r, s => (s, if r then .raised else .normal)
  | .seq p q, s =>
    match exec cfg p s with
    | (s1, .normal) => exec cfg q s1
    | r => r
  | .withBackend b body, s =>
    let (s1, st) := exec cfg body { s with use := s.use ++ [b] }
    match st with
    | .corrupt => (s1, .corrupt)
    | .normal =>
      (match exitUse b s1 with
        | some s2 => (s2, .normal)
        | none => (s1, .corrupt))
    | .raised =>
      if cfg.useExitUnconditional then
        (match exitUse b s1 with
          | some s2 => (s2, if cfg.useExitReturnsFalsy then .raised else .normal)
          | none => (s1, .corrupt))
      else (s1, .raised)
  | .withDeps d body, s =>
    let (s1, st) := exec cfg body { s with dep := s.dep ++ [d] }
    match st with
    | .corrupt => (s1, .corrupt)
    | .normal =>
      (match exitDep s1 with
        | some s2 => (s2, .normal)
        | none => (s1, .corrupt))
    | .raised =>
      if cfg.depExitUnconditional then
        (match exitDep s1 with
          | some s2 => (s2, if cfg.depExitReturnsFalsy then .raised else .normal)
          | none => (s1, .corrupt))
      else (s1, .raised)
  | .tryExcept body, s =>
    match exec cfg body s with
    | (s1, .raised) => (s1, .normal)
    | r => r

/-- One einx call as a stack program: resolve the backend, look the key up, on a miss trace inside
`with depend_on(inputs)` (tracing may raise, or itself use nested `with` blocks), then run. -/
def einxCall (deps : List Nat) (traceRaises runRaises : Bool) (inner : Prog) : Prog :=
  .seq (.prim false) (.seq (.withDeps deps (.seq inner (.prim traceRaises))) (.prim runRaises))

end Einx.Cache
