/-!
M9 Cache, part 1 — the universe of Python values that can reach a cache key of einx
(`einx/_src/util/lru_cache.py`, `einx/_src/frontend/api.py`, `tracer/signature/classical/tensor.py`)
and CPython's cross-type `==` on it.

Floats are never evaluated.  A number is a *kind* (its Python/numpy type) and an exact dyadic rational
`num / 2^exp` in normal form (`exp = 0`, or `num` odd); integral values have `exp = 0`, non-integral
values `exp > 0`.  The harness only generates values that every float kind represents exactly, so that
`==` across kinds is equality of the mathematical value (CPython: `1 == 1.0 == True == np.int64(1)`),
which on normal forms is structural equality.  NaN and the identity short-cut of container comparison
are outside the model.
-/
namespace Einx.Cache

/-- Python / numpy scalar types. -/
inductive NumKind
  | pyInt | pyBool | pyFloat
  | npBool | npInt8 | npInt16 | npInt32 | npInt64 | npUInt8 | npFloat16 | npFloat32 | npFloat64
  | paramKind   -- `inspect._ParameterKind`, an `IntEnum` (the `kind` of an `inspect.Parameter`)
  deriving DecidableEq, Repr, Inhabited

/-- What `np.asarray(v).dtype` distinguishes: einx accepts axis sizes of the integer class only. -/
inductive NumClass
  | integer | floating | boolean
  deriving DecidableEq, Repr, Inhabited

def NumKind.cls : NumKind → NumClass
  | .pyInt | .npInt8 | .npInt16 | .npInt32 | .npInt64 | .npUInt8 | .paramKind => .integer
  | .pyFloat | .npFloat16 | .npFloat32 | .npFloat64 => .floating
  | .pyBool | .npBool => .boolean

def NumKind.all : List NumKind :=
  [.pyInt, .pyBool, .pyFloat, .npBool, .npInt8, .npInt16, .npInt32, .npInt64, .npUInt8, .npFloat16, .npFloat32, .npFloat64, .paramKind]

/-- `type(x).__name__` of a scalar of this kind. -/
def NumKind.typeName : NumKind → String
  | .pyInt => "int" | .pyBool => "bool" | .pyFloat => "float"
  | .npBool => "numpy.bool" | .npInt8 => "numpy.int8" | .npInt16 => "numpy.int16" | .npInt32 => "numpy.int32"
  | .npInt64 => "numpy.int64" | .npUInt8 => "numpy.uint8" | .npFloat16 => "numpy.float16"
  | .npFloat32 => "numpy.float32" | .npFloat64 => "numpy.float64" | .paramKind => "inspect._ParameterKind"

/-- The Python scalar type `ndarray.tolist()` produces for a dtype. -/
def NumKind.tolistKind : NumKind → NumKind
  | .pyInt | .npInt8 | .npInt16 | .npInt32 | .npInt64 | .npUInt8 | .paramKind => .pyInt
  | .pyFloat | .npFloat16 | .npFloat32 | .npFloat64 => .pyFloat
  | .pyBool | .npBool => .pyBool

/-- Exact dyadic rational `num / 2^exp`. -/
structure Dy where
  num : Int
  exp : Nat
  deriving DecidableEq, Repr, Inhabited

/-- Normal form: integral values have `exp = 0`; otherwise the numerator is odd. -/
def Dy.normal (d : Dy) : Bool := d.exp == 0 || d.num % 2 != 0

def Dy.isIntegral (d : Dy) : Bool := d.exp == 0

/-- Divide out common factors of two (used by the driver on input; `fuel` = `exp`). -/
def Dy.normalize : Dy → Dy
  | ⟨n, 0⟩ => ⟨n, 0⟩
  | ⟨n, e + 1⟩ => if n % 2 == 0 then Dy.normalize ⟨n / 2, e⟩ else ⟨n, e + 1⟩
termination_by d => d.exp

/-- Python values.  `dict` stands for `dict` and `frozendict` (they compare by content); keys are strings
(keyword names, attribute names, parameter names).  `obj` is any object compared and hashed by identity
(backend objects, functions); `cls` is a type object.  `ndarray dtype data` carries what `tolist()`
returns.  `tensor` / `conv` are the tracer placeholders `Tensor(None, shape)` and
`ConvertibleTensor(None, concrete, shape)`. -/
inductive PyVal
  | num (k : NumKind) (v : Dy)
  | str (s : String)
  | none
  | cls (name : String)
  | obj (id : Nat)
  | tuple (xs : List PyVal)
  | list (xs : List PyVal)
  | ndarray (dtype : NumKind) (data : PyVal)
  | dict (kvs : List (String × PyVal))
  | ns (kvs : List (String × PyVal))
  | param (name : String) (default annotation : PyVal) (kind : Nat)
  | tensor (shape : List Nat)
  | conv (concrete : PyVal) (shape : Option (List Nat))
  deriving Repr, Inhabited

abbrev KVs := List (String × PyVal)

/-- `d.get(k)` on an association list (first binding). -/
def lookupKV : KVs → String → Option PyVal
  | [], _ => Option.none
  | (k, v) :: r, q => if k == q then some v else lookupKV r q

mutual
/-- CPython `a == b`.  Numbers compare by value across kinds; `list` and `tuple` never compare equal
to each other; mappings compare as `dict_equal` does (same length, every item of `a` found in `b`);
`SimpleNamespace` compares its `__dict__`; `inspect.Parameter` compares name, kind, default, annotation;
`Tensor.__eq__` / `ConvertibleTensor.__eq__` as in `tracer/signature/classical/tensor.py` (origin is
`None` for every placeholder that reaches a key). -/
def pyEq : PyVal → PyVal → Bool
  | .num _ a, .num _ b => a == b
  | .str a, .str b => a == b
  | .none, .none => true
  | .cls a, .cls b => a == b
  | .obj a, .obj b => a == b
  | .tuple xs, .tuple ys => pyEqList xs ys
  | .list xs, .list ys => pyEqList xs ys
  | .dict a, .dict b => a.length == b.length && pyEqSub a b
  | .ns a, .ns b => a.length == b.length && pyEqSub a b
  | .param n d a k, .param n' d' a' k' => n == n' && k == k' && pyEq d d' && pyEq a a'
  | .tensor s, .tensor s' => s == s'
  | .conv c s, .conv c' s' => pyEq c c' && s == s'
  | _, _ => false
def pyEqList : List PyVal → List PyVal → Bool
  | [], [] => true
  | x :: xs, y :: ys => pyEq x y && pyEqList xs ys
  | _, _ => false
def pyEqSub : KVs → KVs → Bool
  | [], _ => true
  | (k, v) :: r, b => (match lookupKV b k with
      | some w => pyEq v w
      | Option.none => false) && pyEqSub r b
end

mutual
/-- Equality of *observations*: like `pyEq`, but two numbers must also belong to the same numeric class
(integer / floating / boolean), which is what `np.asarray(value).dtype` – and therefore tracing – sees.
Inside a `ConvertibleTensor` the comparison stays untyped (default values of a tensor factory's
parameters are never looked at by tracing). -/
def typedEq : PyVal → PyVal → Bool
  | .num k a, .num k' b => k.cls == k'.cls && a == b
  | .str a, .str b => a == b
  | .none, .none => true
  | .cls a, .cls b => a == b
  | .obj a, .obj b => a == b
  | .tuple xs, .tuple ys => typedEqList xs ys
  | .list xs, .list ys => typedEqList xs ys
  | .dict a, .dict b => a.length == b.length && typedEqSub a b
  | .ns a, .ns b => a.length == b.length && typedEqSub a b
  | .param n d a k, .param n' d' a' k' => n == n' && k == k' && typedEq d d' && typedEq a a'
  | .tensor s, .tensor s' => s == s'
  | .conv c s, .conv c' s' => pyEq c c' && s == s'
  | _, _ => false
def typedEqList : List PyVal → List PyVal → Bool
  | [], [] => true
  | x :: xs, y :: ys => typedEq x y && typedEqList xs ys
  | _, _ => false
def typedEqSub : KVs → KVs → Bool
  | [], _ => true
  | (k, v) :: r, b => (match lookupKV b k with
      | some w => typedEq v w
      | Option.none => false) && typedEqSub r b
end

mutual
/-- All numbers in the value (outside tracer placeholders) belong to class `c`. -/
def singleClass (c : NumClass) : PyVal → Bool
  | .num k _ => k.cls == c
  | .tuple xs | .list xs => singleClassList c xs
  | .ndarray _ d => singleClass c d
  | .dict kvs | .ns kvs => singleClassKVs c kvs
  | .param _ d a _ => singleClass c d && singleClass c a
  | _ => true
def singleClassList (c : NumClass) : List PyVal → Bool
  | [] => true
  | x :: xs => singleClass c x && singleClassList c xs
def singleClassKVs (c : NumClass) : KVs → Bool
  | [] => true
  | (_, v) :: r => singleClass c v && singleClassKVs c r
end

end Einx.Cache
