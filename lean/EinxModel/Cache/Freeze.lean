import EinxModel.Cache.Value
/-!
M9 Cache, part 2 — `_freeze_value` of `einx/_src/util/lru_cache.py` as an interpreter of its own
`isinstance` dispatch table.  The table (`Extracted.freezeTable`) is read from the AST of the function on
every run; `pinnedTable` is the table of the pinned tree, kept here as the reference *observation*.

```
def _freeze_value(x):
    if isinstance(x, np.ndarray):              return _freeze_value(x.tolist())
    elif isinstance(x, list | tuple):          return tuple(_freeze_value(x) for x in x)
    elif isinstance(x, dict):                  return frozendict.frozendict({k: _freeze_value(v) for k, v in x.items()})
    elif isinstance(x, types.SimpleNamespace): return _freeze_value(vars(x))
    elif isinstance(x, inspect.Parameter):     return _freeze_value((x.name, x.default, x.annotation, x.kind))
    else:                                      return x
```
-/
namespace Einx.Cache

/-- Types that can occur in an `isinstance` test of `_freeze_value`. -/
inductive TypeTag
  | ndarray | list | tuple | dict | namespace | parameter
  | bool | int | float | complex | str | noneType
  | npGeneric | npNumber | npInteger | npFloating | npBool
  | unknown
  deriving DecidableEq, Repr, Inhabited

/-- What a branch of `_freeze_value` returns. -/
inductive Action
  | tolist      -- `_freeze_value(x.tolist())`
  | mapTuple    -- `tuple(_freeze_value(x) for x in x)`
  | mapDict     -- `frozendict.frozendict({k: _freeze_value(v) for k, v in x.items()})`
  | vars        -- `_freeze_value(vars(x))`
  | fields      -- `_freeze_value((x.name, x.default, x.annotation, x.kind))`
  | tagType     -- `(type(x), x)`
  | ident       -- `x`
  | unknown     -- anything the extractor does not recognise
  deriving DecidableEq, Repr, Inhabited

structure Row where
  tags : List TypeTag
  act : Action
  deriving DecidableEq, Repr, Inhabited

structure Table where
  rows : List Row
  fallthrough : Action
  deriving DecidableEq, Repr, Inhabited

/-- The dispatch table of the pinned tree. -/
def pinnedTable : Table :=
  { rows := [⟨[.ndarray], .tolist⟩, ⟨[.list, .tuple], .mapTuple⟩, ⟨[.dict], .mapDict⟩,
             ⟨[.namespace], .vars⟩, ⟨[.parameter], .fields⟩],
    fallthrough := .ident }

/-- `isinstance` facts of CPython / numpy: `bool ⊂ int`, `np.float64 ⊂ float`, numpy scalars ⊂ `np.generic`. -/
def numTags : NumKind → List TypeTag
  | .pyInt | .paramKind => [.int]
  | .pyBool => [.bool, .int]
  | .pyFloat => [.float]
  | .npBool => [.npBool, .npGeneric]
  | .npInt8 | .npInt16 | .npInt32 | .npInt64 | .npUInt8 => [.npInteger, .npNumber, .npGeneric]
  | .npFloat16 | .npFloat32 => [.npFloating, .npNumber, .npGeneric]
  | .npFloat64 => [.npFloating, .npNumber, .npGeneric, .float]

/-- Shape of a value as far as `isinstance` is concerned. -/
inductive Shape
  | num (k : NumKind) | str | none | cls | obj | tuple | list | ndarray | dict | ns | param | tensor | conv
  deriving DecidableEq, Repr, Inhabited

def Shape.tags : Shape → List TypeTag
  | .num k => numTags k
  | .str => [.str]
  | .none => [.noneType]
  | .tuple => [.tuple]
  | .list => [.list]
  | .ndarray => [.ndarray]
  | .dict => [.dict]
  | .ns => [.namespace]
  | .param => [.parameter]
  | .cls | .obj | .tensor | .conv => []

def PyVal.shape : PyVal → Shape
  | .num k _ => .num k | .str _ => .str | .none => .none | .cls _ => .cls | .obj _ => .obj
  | .tuple _ => .tuple | .list _ => .list | .ndarray _ _ => .ndarray | .dict _ => .dict | .ns _ => .ns
  | .param .. => .param | .tensor _ => .tensor | .conv .. => .conv

/-- First matching branch of the `if / elif` chain. -/
def Table.act (T : Table) (s : Shape) : Action :=
  match T.rows.find? (fun r => r.tags.any (fun t => s.tags.contains t)) with
  | some r => r.act
  | none => T.fallthrough

/-- `(type(x), x)` for a scalar. -/
def tagged (k : NumKind) (v : Dy) : PyVal := .tuple [.cls k.typeName, .num k v]

/-- Values without children: numbers, strings, `None`, types, identity objects, tracer placeholders
(a `ConvertibleTensor` is a leaf for `_freeze_value`; its `concrete` is frozen only inside `__hash__`). -/
def freezeLeaf (T : Table) (v : PyVal) : PyVal :=
  match v with
  | .num k d => (match T.act (.num k) with
      | .tagType => tagged k d
      | _ => v)
  | _ => v

/-- Result for a sequence once its elements are frozen (`orig` = the value itself). -/
def finishSeq (a : Action) (orig : PyVal) (frozen : List PyVal) : PyVal :=
  match a with
  | .mapTuple => .tuple frozen
  | _ => orig

/-- Result for a mapping once its values are frozen. -/
def finishDict (a : Action) (orig : PyVal) (frozen : KVs) : PyVal :=
  match a with
  | .mapDict => .dict frozen
  | _ => orig

mutual
/-- `_freeze_value` under dispatch table `T`.  The children are frozen first and the branch then decides
what to build from them; a branch that re-enters `_freeze_value` on a freshly built container
(`vars(x)`, the 4-tuple of a `Parameter`, `x.tolist()`) dispatches again on that container's type. -/
def freeze (T : Table) : PyVal → PyVal
  | .tuple xs => finishSeq (T.act .tuple) (.tuple xs) (freezeList T xs)
  | .list xs => finishSeq (T.act .list) (.list xs) (freezeList T xs)
  | .ndarray d data => (match T.act .ndarray with
      | .tolist => freeze T data
      | _ => .ndarray d data)
  | .dict kvs => finishDict (T.act .dict) (.dict kvs) (freezeKVs T kvs)
  | .ns kvs => (match T.act .ns with
      | .vars => finishDict (T.act .dict) (.dict kvs) (freezeKVs T kvs)
      | _ => .ns kvs)
  | .param n d a k => (match T.act .param with
      | .fields => finishSeq (T.act .tuple) (.tuple [.str n, d, a, .num .paramKind ⟨k, 0⟩])
                     [freezeLeaf T (.str n), freeze T d, freeze T a, freezeLeaf T (.num .paramKind ⟨k, 0⟩)]
      | _ => .param n d a k)
  | v => freezeLeaf T v
def freezeList (T : Table) : List PyVal → List PyVal
  | [] => []
  | x :: xs => freeze T x :: freezeList T xs
def freezeKVs (T : Table) : KVs → KVs
  | [] => []
  | (k, v) :: r => (k, freeze T v) :: freezeKVs T r
end

/-- What tracing can depend on, for a value that reaches the cache key: the value with container kinds
erased exactly as the pinned `_freeze_value` erases them (compared with `typedEq`, i.e. keeping numeric
classes). -/
def observe (v : PyVal) : PyVal := freeze pinnedTable v

/-! ### Decidable conditions on a dispatch table -/

def containerShapes : List Shape := [.tuple, .list, .ndarray, .dict, .ns, .param]
def leafShapes : List Shape := [.str, .none, .cls, .obj, .tensor, .conv]

/-- Containers are treated as on the pinned tree. -/
def Table.respects (T : Table) : Bool :=
  containerShapes.all (fun s => T.act s == pinnedTable.act s) && leafShapes.all (fun s => T.act s == .ident)

/-- Every scalar kind is frozen together with its type. -/
def Table.tagsAll (T : Table) : Bool := NumKind.all.all (fun k => T.act (.num k) == .tagType)

/-- No scalar kind is touched (the pinned tree). -/
def Table.tagsNone (T : Table) : Bool := NumKind.all.all (fun k => T.act (.num k) == .ident)

/-- No branch the extractor could not classify. -/
def Table.known (T : Table) : Bool :=
  T.fallthrough != .unknown && T.rows.all (fun r => r.act != .unknown && !r.tags.contains .unknown)

mutual
/-- Replace every number by `(type(x), x)` (homomorphically; tracer placeholders are leaves). -/
def tagNums : PyVal → PyVal
  | .num k v => tagged k v
  | .tuple xs => .tuple (tagNumsList xs)
  | .list xs => .list (tagNumsList xs)
  | .ndarray d x => .ndarray d (tagNums x)
  | .dict kvs => .dict (tagNumsKVs kvs)
  | .ns kvs => .ns (tagNumsKVs kvs)
  | .param n d a k => .param n (tagNums d) (tagNums a) k
  | v => v
def tagNumsList : List PyVal → List PyVal
  | [] => []
  | x :: xs => tagNums x :: tagNumsList xs
def tagNumsKVs : KVs → KVs
  | [] => []
  | (k, v) :: r => (k, tagNums v) :: tagNumsKVs r
end

end Einx.Cache
