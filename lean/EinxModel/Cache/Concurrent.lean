import EinxModel.Cache.Memo
/-!
M9 Cache, part 6 — interleaving semantics of the compiled-function cache (C10, clause "trigger first-time
compilation concurrently").

`frontend/api.py` creates one `construct_graph_with_cache = lru_cache(partial(_construct_graph, func=func))` per `api`
object; every thread that calls the operation goes through it.  `util/lru_cache.py:lru_cache` is
`_freeze_args(functools.cache(_unfreeze_scalar_args(f)))` (no lock of its own).  A call of a `functools.cache`d
function is, as far as the shared dictionary is concerned,

    lookup  key in cache            -- one atomic dictionary read; found: return the stored value
    (miss)  result = f(key)         -- the wrapped function runs with the dictionary untouched; any number of threads
                                    --   may be here for the same key at the same time
    insert  cache[key] = result     -- one atomic dictionary write (an existing entry for the key is overwritten);
            return result           --   the caller gets the value *it* computed, not the stored one

and a raising `f` stores nothing.  These are the micro steps of a thread below; the scheduler may switch threads
between any two of them.  The wrapped function is a parameter `comp tid clock cache key` that may depend on
the calling thread, on the time (number of steps taken so far) and on the current cache content: the property
theorems assume it is in fact a function `f key` of the key alone (hypothesis `Deterministic`), which is what
C06 (`einx_cache_transparent`: tracing depends on the observation only) and C16 (no dependence on hash seed,
uuid stream, set order) establish for `_construct_graph`.

Keys are compared with decidable equality: a key stands for its class under the `==`-and-equal-hash relation
of the cache (`key_hit_iff_eq`, `frozen_key_eq_iff` in `Props/C06Hash.lean`: the class of the exact observation).
-/
namespace Einx.Cache.Conc
open Einx.Cache

/-- The dictionary of `functools.cache`: insertion-ordered, keys pairwise different. -/
abbrev Store (K V : Type) := List (K × V)

/-- `cache.get(k)`. -/
def Store.get {K V : Type} [DecidableEq K] : Store K V → K → Option V
  | [], _ => none
  | (k', v) :: r, k => if k' = k then some v else Store.get r k

/-- `cache[k] = v`: an existing entry keeps its position and gets the new value. -/
def Store.put {K V : Type} [DecidableEq K] : Store K V → K → V → Store K V
  | [], k, v => [(k, v)]
  | (k', v') :: r, k, v => if k' = k then (k', v) :: r else (k', v') :: Store.put r k v

def Store.keys {K V : Type} (m : Store K V) : List K := m.map (·.1)

/-- Where a thread is inside its current call. -/
inductive PC (V : Type) where
  | idle                 -- between two calls (the next step is the lookup of the next call)
  | missed               -- the lookup found nothing; the wrapped function has not run yet
  | computed (v : V)     -- the wrapped function returned `v`; not yet stored
deriving DecidableEq, Repr

structure Thread (K V : Type) where
  pc : PC V := .idle
  prog : List K                    -- keys still to be requested (the head is the call in progress when `pc ≠ idle`)
  outs : List (Outcome V) := []    -- results of the finished calls, in program order
  served : List K := []            -- ghost: the keys of the finished calls, in program order (no step reads it)
deriving DecidableEq, Repr

structure Conf (K V : Type) where
  cache : Store K V := []
  threads : List (Thread K V)
  clock : Nat := 0                  -- number of micro steps taken so far
  computes : List (Nat × K) := []   -- ghost: (thread, key) of every run of the wrapped function, in order
deriving DecidableEq, Repr

/-- The wrapped function as the model sees it: it may look at the calling thread, the time and the cache. -/
abbrev Comp (K V : Type) := Nat → Nat → Store K V → K → Outcome V

/-- The hypothesis of the property theorems: the wrapped function is a function `f` of the key alone. -/
def Deterministic {K V : Type} (comp : Comp K V) (f : K → Outcome V) : Prop := ∀ t n m k, comp t n m k = f k

/-- One micro step of thread `i`; `none` if the thread does not exist or has finished.  (There is no lock: a thread
that has calls left is always enabled.) -/
def stepThread {K V : Type} [DecidableEq K] (comp : Comp K V) (trim : Store K V → Store K V) (c : Conf K V) (i : Nat) :
    Option (Conf K V) :=
  match c.threads[i]? with
  | none => none
  | some th =>
    match th.prog with
    | [] => none
    | k :: rest =>
      match th.pc with
      | .idle =>
        match c.cache.get k with
        | some v => some { c with clock := c.clock + 1,
                                  threads := c.threads.set i { pc := .idle, prog := rest, outs := th.outs ++ [.ok v], served := th.served ++ [k] } }
        | none => some { c with clock := c.clock + 1, threads := c.threads.set i { th with pc := .missed } }
      | .missed =>
        match comp i c.clock c.cache k with
        | .ok v => some { c with clock := c.clock + 1, computes := c.computes ++ [(i, k)],
                                 threads := c.threads.set i { th with pc := .computed v } }
        | .raised e => some { c with clock := c.clock + 1, computes := c.computes ++ [(i, k)],
                                     threads := c.threads.set i { pc := .idle, prog := rest, outs := th.outs ++ [.raised e], served := th.served ++ [k] } }
      | .computed v =>
        some { c with cache := trim (c.cache.put k v), clock := c.clock + 1,
                      threads := c.threads.set i { pc := .idle, prog := rest, outs := th.outs ++ [.ok v], served := th.served ++ [k] } }

/-- Run a schedule (a list of thread ids); scheduling a thread that is not enabled is a no-op. -/
def run {K V : Type} [DecidableEq K] (comp : Comp K V) (trim : Store K V → Store K V) (c : Conf K V) (sched : List Nat) : Conf K V :=
  sched.foldl (fun c i => (stepThread comp trim c i).getD c) c

def Thread.done {K V : Type} (th : Thread K V) : Bool := th.prog.isEmpty

def Conf.finished {K V : Type} (c : Conf K V) : Bool := c.threads.all Thread.done

def init {K V : Type} (progs : List (List K)) : Conf K V :=
  { cache := [], threads := progs.map (fun p => { prog := p }), clock := 0, computes := [] }

/-- Steps still to be taken at most: three per outstanding call, minus the progress inside the current one. -/
def Thread.measure {K V : Type} (th : Thread K V) : Nat :=
  3 * th.prog.length - (match th.pc with | .idle => 0 | .missed => 1 | .computed _ => 2)

def Conf.measure {K V : Type} (c : Conf K V) : Nat := (c.threads.map Thread.measure).sum

/-- The serial schedule: every thread in turn runs all its calls to completion (3 steps per call suffice). -/
def serialSchedule {K : Type} (progs : List (List K)) : List Nat :=
  (List.range progs.length).flatMap (fun i => List.replicate (3 * (progs[i]?.getD []).length) i)

/-- How often the wrapped function ran for key `k`. -/
def Conf.computeCount {K V : Type} [DecidableEq K] (c : Conf K V) (k : K) : Nat := (c.computes.filter (·.2 = k)).length

end Einx.Cache.Conc
