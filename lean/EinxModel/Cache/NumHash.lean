import EinxModel.Cache.Hash
/-!
M9 Cache, part 7 — CPython's numeric hash, algorithm by algorithm.

`Hash.lean:numHash` is the *specification* of the hash of a number (`sign · (|value| mod 2^61-1)`, `-1 ↦ -2`).  This
file models what CPython actually executes, on the same value universe (`Dy`: exact dyadic rationals):

* `hashInt` — `Objects/longobject.c:long_hash`: the absolute value in digits of 30 bits (`PyLong_SHIFT`), most
  significant digit first; per digit `x = ((x << 30) & MODULUS) | (x >> (61 - 30)); x += digit; if (x >= MODULUS)
  x -= MODULUS;`, then the sign, then `-1 ↦ -2`.  (The fast path of CPython ≥ 3.12 for one-digit integers returns the
  value itself, which is what the loop gives for one digit.)
* `hashDouble` — `Python/pyhash.c:_Py_HashDouble` for finite values: `m = frexp(v, &e)`; the mantissa is consumed
  28 bits at a time (`x = rotl(x, 28); m *= 2^28; e -= 28; y = (Py_uhash_t)m; m -= y; x += y; if (x >= MODULUS)
  x -= MODULUS;`), then `e = e >= 0 ? e % 61 : 60 - ((-1 - e) % 61); x = rotl(x, e)`, sign, `-1 ↦ -2`.
  The double `m ∈ [0.5, 1)` is represented exactly as `a / 2^L` (`a < 2^L`), so `m *= 2^28; y = (Py_uhash_t)m; m -= y`
  is `y = a >> (L - 28)`, `a := a mod 2^(L-28)`, `L := L - 28` (or `y = a << (28 - L)`, `m := 0` when `L ≤ 28`).
  Inf / NaN are outside the value universe.

`Props/C06Num.lean` proves both equal to `numHash` (hence `hash(n) == hash(float(n))`); the driver request `numhash`
runs them next to `numHash` and the harness compares all three with CPython's `hash` on every generated number.
-/
namespace Einx.Cache.NumHash
open Einx.Cache

/-- `_PyHASH_MODULUS = 2^61 - 1` (`_PyHASH_BITS = 61`). -/
def P : Nat := 2 ^ 61 - 1

/-- `((x << k) & _PyHASH_MODULUS) | (x >> (_PyHASH_BITS - k))`: rotation by `k` inside 61 bits. -/
def rotl (x k : Nat) : Nat := ((x <<< k) &&& P) ||| (x >>> (61 - k))

/-- `x += y; if (x >= _PyHASH_MODULUS) x -= _PyHASH_MODULUS;` after rotating `x` by `k`. -/
def accum (k x y : Nat) : Nat :=
  let x := rotl x k + y
  if x ≥ P then x - P else x

/-- `ob_digit` of `|n|`: digits of 30 bits, least significant first. -/
def digits30 (n : Nat) : List Nat :=
  if h : n = 0 then [] else (n % 2 ^ 30) :: digits30 (n / 2 ^ 30)
termination_by n
decreasing_by exact Nat.div_lt_self (Nat.pos_of_ne_zero h) (by decide)

/-- The loop of `long_hash`: `while (--i >= 0)` from the most significant digit down. -/
def longLoop (ds : List Nat) : Nat := ds.foldr (fun d x => accum 30 x d) 0

/-- `hash(n)` for a Python `int`. -/
def hashInt (n : Int) : Int :=
  let x := longLoop (digits30 n.natAbs)
  let s : Int := if n < 0 then -(x : Int) else (x : Int)
  if s == -1 then -2 else s

/-- Number of bits of `n` (`frexp`'s exponent of the integer `n`). -/
def bitLen (n : Nat) : Nat :=
  if h : n = 0 then 0 else bitLen (n / 2) + 1
termination_by n
decreasing_by exact Nat.div_lt_self (Nat.pos_of_ne_zero h) (by decide)

/-- The `while (m)` loop of `_Py_HashDouble` on `m = a / 2^L`; returns `x` and the decremented exponent. -/
def dblLoop (a L x : Nat) (e : Int) : Nat × Int :=
  if a = 0 then (x, e)
  else if L ≤ 28 then (accum 28 x (a <<< (28 - L)), e - 28)      -- `m * 2^28` is integral: `m` becomes 0, the loop ends
  else dblLoop (a % 2 ^ (L - 28)) (L - 28) (accum 28 x (a >>> (L - 28))) (e - 28)
termination_by L
decreasing_by omega

/-- `e = e >= 0 ? e % _PyHASH_BITS : _PyHASH_BITS-1-((-1-e) % _PyHASH_BITS)`. -/
def finalShift (e : Int) : Nat := if e ≥ 0 then (e % 61).toNat else 60 - ((-1 - e) % 61).toNat

/-- `hash(v)` for a finite Python `float` / numpy floating scalar with the exact value `d.num / 2^d.exp`. -/
def hashDouble (d : Dy) : Int :=
  let a := d.num.natAbs
  let L := bitLen a                               -- frexp: |v| = (a / 2^L) · 2^(L - exp), a / 2^L ∈ [0.5, 1)
  let r := dblLoop a L 0 ((L : Int) - (d.exp : Int))
  let x := rotl r.1 (finalShift r.2)
  let s : Int := if d.num < 0 then -(x : Int) else (x : Int)
  if s == -1 then -2 else s

/-- `float(n)` as a value of the universe (exact; it is a double iff the odd part of `n` has at most 53 bits). -/
def ofInt (n : Int) : Dy := ⟨n, 0⟩

/-- The hash CPython computes for a number of kind `k`: integer and boolean kinds through `long_hash` (`bool` is a
subclass of `int`; numpy integer scalars hash their Python `int` value), floating kinds through `_Py_HashDouble`
(numpy floating scalars hash their Python `float` value). -/
def hashNum (k : NumKind) (d : Dy) : Int :=
  match k.cls with
  | .floating => hashDouble d
  | _ => if d.exp = 0 then hashInt d.num else hashDouble d

end Einx.Cache.NumHash
