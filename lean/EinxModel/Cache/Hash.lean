import EinxModel.Cache.Freeze
/-!
M9 Cache, part 4 — `hash`.

* numbers: CPython's numeric hash (`Objects/longobject.c`, `Python/pyhash.c`): reduction of the
  mathematical value modulo `2^61 - 1`, which is what makes `hash(1) == hash(1.0) == hash(True)`;
* tuples: CPython's xxHash-based `tuplehash` on the 64-bit hashes of the items;
* strings, `None`, type objects and identity objects: taken from an environment `HashEnv` (string hashes
  are randomised per process, object hashes are addresses);
* mappings: `frozendict.__hash__` = `hash(frozenset(self.items()))` (pure-Python frozendict), with CPython's
  `frozenset_hash`: xor of the shuffled hashes of the `(key, value)` tuples, then the size and a final dispersion;
* `Tensor.__hash__ = 1 + hash(shape)`, `ConvertibleTensor.__hash__ = hash(shape) + hash(_freeze_value(concrete))`,
  computed on unbounded Python integers and reduced by `slot_tp_hash` (`wrapHash`).
-/
namespace Einx.Cache

structure HashEnv where
  str : String → Int
  cls : String → Int
  obj : Nat → Int
  none : Int

def hashModulus : Nat := 2 ^ 61 - 1

/-- `hash` of the number `num / 2^exp` (normal form). `2^61 ≡ 1 (mod P)`, so `2^-e ≡ 2^(61 - e mod 61)`. -/
def numHash (d : Dy) : Int :=
  let m := d.num.natAbs % hashModulus
  let h := (m * 2 ^ ((61 - d.exp % 61) % 61)) % hashModulus
  let s : Int := if d.num < 0 then -(h : Int) else (h : Int)
  if s == -1 then -2 else s

def xxPrime1 : UInt64 := 11400714785074694791
def xxPrime2 : UInt64 := 14029467366897019727
def xxPrime5 : UInt64 := 2870177450012600261

def toU64 (h : Int) : UInt64 := UInt64.ofNat (h % (2 ^ 64 : Int)).toNat

def ofU64 (u : UInt64) : Int := if u.toNat ≥ 2 ^ 63 then (u.toNat : Int) - 2 ^ 64 else u.toNat

def rotl31 (x : UInt64) : UInt64 := (x <<< 31) ||| (x >>> 33)

/-- `tuplehash` of CPython ≥ 3.8. -/
def tupleHash (hs : List Int) : Int :=
  let acc := hs.foldl (fun acc h => rotl31 (acc + toU64 h * xxPrime2) * xxPrime1) xxPrime5
  let acc := acc + ((UInt64.ofNat hs.length) ^^^ (xxPrime5 ^^^ 3527539))
  if acc == UInt64.ofNat (2 ^ 64 - 1) then 1546275796 else ofU64 acc

def shuffleBits (h : UInt64) : UInt64 := ((h ^^^ (89869747 : UInt64)) ^^^ (h <<< (16 : UInt64))) * (3644798167 : UInt64)

/-- xor of the shuffled item hashes (commutative: independent of the order of the items). -/
def xorShuffled : List Int → UInt64
  | [] => 0
  | x :: xs => shuffleBits (toU64 x) ^^^ xorShuffled xs

/-- `frozenset_hash` of CPython on the hashes of the (distinct) items. -/
def frozensetHash (hs : List Int) : Int :=
  let h := xorShuffled hs
  let h := h ^^^ ((UInt64.ofNat hs.length + 1) * (1927868237 : UInt64))
  let h := h ^^^ ((h >>> (11 : UInt64)) ^^^ (h >>> (25 : UInt64)))
  let h := h * (69069 : UInt64) + (907133923 : UInt64)
  if h == UInt64.ofNat (2 ^ 64 - 1) then 590923713 else ofU64 h

/-- What `hash(x)` makes of the Python integer returned by a user-defined `__hash__` (`slot_tp_hash`). -/
def wrapHash (x : Int) : Int :=
  if -(2 ^ 63 : Int) ≤ x ∧ x < (2 ^ 63 : Int) then (if x == -1 then -2 else x) else numHash ⟨x, 0⟩

def hashShape (env : HashEnv) : Option (List Nat) → Int
  | some s => tupleHash (s.map (fun (n : Nat) => numHash ⟨(n : Int), 0⟩))
  | Option.none => env.none

mutual
/-- Hash of a value in which tracer placeholders do not occur (they hash as 0 here); used for the frozen
`concrete` of a `ConvertibleTensor`. -/
def hash0 (env : HashEnv) : PyVal → Int
  | .num _ v => numHash v
  | .str s => env.str s
  | .none => env.none
  | .cls n => env.cls n
  | .obj i => env.obj i
  | .tuple xs | .list xs => tupleHash (hash0List env xs)
  | .ndarray _ _ => 0
  | .dict kvs | .ns kvs => frozensetHash (hash0KVs env kvs)
  | .param n d a k => tupleHash [env.str n, (k : Int), hash0 env a, hash0 env d]
  | .tensor _ => 0
  | .conv _ _ => 0
def hash0List (env : HashEnv) : List PyVal → List Int
  | [] => []
  | x :: xs => hash0 env x :: hash0List env xs
def hash0KVs (env : HashEnv) : KVs → List Int
  | [] => []
  | (k, v) :: r => tupleHash [env.str k, hash0 env v] :: hash0KVs env r
end

mutual
/-- `hash(x)` for the values of a cache key (lists, arrays, namespaces are unhashable in Python and do
not occur in a frozen key; they get the hash of the corresponding tuple / mapping here). -/
def pyHash (T : Table) (env : HashEnv) : PyVal → Int
  | .num _ v => numHash v
  | .str s => env.str s
  | .none => env.none
  | .cls n => env.cls n
  | .obj i => env.obj i
  | .tuple xs | .list xs => tupleHash (pyHashList T env xs)
  | .ndarray _ _ => 0
  | .dict kvs | .ns kvs => frozensetHash (pyHashKVs T env kvs)
  | .param n d a k => tupleHash [env.str n, (k : Int), pyHash T env a, pyHash T env d]
  | .tensor s => wrapHash (1 + hashShape env (some s))
  | .conv c s => wrapHash (hashShape env s + hash0 env (freeze T c))
def pyHashList (T : Table) (env : HashEnv) : List PyVal → List Int
  | [] => []
  | x :: xs => pyHash T env x :: pyHashList T env xs
def pyHashKVs (T : Table) (env : HashEnv) : KVs → List Int
  | [] => []
  | (k, v) :: r => tupleHash [env.str k, pyHash T env v] :: pyHashKVs T env r
end

/-- A stored key is found: equal hash and `==`. -/
def keyHit (T : Table) (env : HashEnv) (k k' : PyVal) : Bool :=
  pyHash T env k == pyHash T env k' && pyEq k k'

end Einx.Cache
