import EinxModel.Cache.Freeze
/-!
M9 Cache, part 3 — the cache key of `construct_graph_with_cache` and the memo machine.

`api.py`:  `construct_graph_with_cache = lru_cache(partial(_construct_graph, func=func))` and every call does
`construct_graph_with_cache(args=args, kwargs=kwargs | {"backend": backend})`.  `lru_cache` is
`_freeze_args(functools.cache(f))`: the two keyword values (a list and a dict) go through `_freeze_value`
and `functools.cache` builds the key `(kwd_mark, "args", frozen_args, "kwargs", frozen_kwargs)`; a hit
needs equal hashes and `==`.  An exception raised by the wrapped function is not stored.
-/
namespace Einx.Cache

/-- The part of a call of an einx operation that reaches `construct_graph_with_cache`: which `api`
object (each has its own cache), the positional values after `_to_tracer` (description string, tracer
placeholders, other values) and the keyword values (axis sizes, options, the backend object). -/
structure Call where
  op : Nat
  args : List PyVal
  kwargs : KVs
  deriving Repr, Inhabited

/-- Key of `functools.cache` for `f(args=…, kwargs=…)` after `_freeze_args` (one table per `api` object:
the `op` component stands for "which cache"). -/
def keyOf (T : Table) (c : Call) : PyVal :=
  .tuple [.obj c.op, .str "args", freeze T (.list c.args), .str "kwargs", freeze T (.dict c.kwargs)]

/-- What tracing may look at (see `observe`). -/
def observeCall (c : Call) : PyVal := keyOf pinnedTable c

/-- Outcome of `_construct_graph` (parse, solve, trace, optimise, compile): a compiled function or an
exception class. -/
inductive Outcome (F : Type) where
  | ok (f : F)
  | raised (cls : String)
  deriving DecidableEq, Repr, Inhabited

def Outcome.isOk {F : Type} : Outcome F → Bool
  | .ok _ => true
  | .raised _ => false

/-- The memo: stored keys with their results, most recent first. -/
abbrev Memo (K F : Type) := List (K × F)

/-- One call of a `functools.cache`d function.  `hit k k'` = "stored key `k'` is found for `k`"
(equal hash and `==`); `trim` is the eviction policy (identity for `functools.cache`, LRU eviction when
`EINX_CACHE_SIZE > 0`); a raising computation stores nothing. -/
def step {C K F : Type} (key : C → K) (hit : K → K → Bool) (trim : Memo K F → Memo K F)
    (compute : C → Outcome F) (m : Memo K F) (c : C) : Memo K F × Outcome F :=
  match m.find? (fun e => hit (key c) e.1) with
  | some e => (m, .ok e.2)
  | none =>
    match compute c with
    | .ok f => (trim ((key c, f) :: m), .ok f)
    | .raised e => (m, .raised e)

/-- Run a history of calls, collecting outcomes. -/
def run {C K F : Type} (key : C → K) (hit : K → K → Bool) (trim : Memo K F → Memo K F)
    (compute : C → Outcome F) : Memo K F → List C → Memo K F × List (Outcome F)
  | m, [] => (m, [])
  | m, c :: cs =>
    let r := step key hit trim compute m c
    let rest := run key hit trim compute r.1 cs
    (rest.1, r.2 :: rest.2)

/-- The memo after a history. -/
def after {C K F : Type} (key : C → K) (hit : K → K → Bool) (trim : Memo K F → Memo K F)
    (compute : C → Outcome F) (m : Memo K F) (h : List C) : Memo K F :=
  (run key hit trim compute m h).1

/-- A whole einx call: compile (through the memo), then run the compiled function on the tensor data. -/
def callStep {C K F D R : Type} (key : C → K) (hit : K → K → Bool) (trim : Memo K F → Memo K F)
    (compute : C → Outcome F) (exec : F → D → R) (raisedR : String → R)
    (m : Memo K F) (c : C) (d : D) : Memo K F × R :=
  match step key hit trim compute m c with
  | (m', .ok f) => (m', exec f d)
  | (m', .raised e) => (m', raisedR e)

end Einx.Cache
