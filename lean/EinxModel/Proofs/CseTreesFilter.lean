import EinxModel.Proofs.CseTreesIds
/-!
Helper lemmas for `Props/C02Cse.lean`: **every replacement of the walk passed the filter of `cse`** — for every input.
A replacement is found by `matchNode` / `matchAt` among the exprlists of the final candidates; an exprlist consists of
the nodes at its identities (`Proofs/CseTreesIds.lean`), so what is replaced *is* the exprlist, and every exprlist of a
final candidate satisfies `_value_range(...) is not None and not _has_repeated_axis(...)` (`allReplaceable`; no later
step adds exprlists).
-/
namespace Einx.Solve.CseT
open Einx.Solve

/-- the node with a given identity -/
def nodeAt (roots : List (Option VExpr)) : Id → Option VExpr
  | [] => none
  | r :: p =>
    match roots[r]? with
    | some (some root) => subAt root p
    | _ => none

theorem subAt_snoc : ∀ (p : List Nat) (e : VExpr) (k : Nat), subAt e (p ++ [k]) = (subAt e p).bind (childAt · k)
  | [], e, k => by
    simp only [List.nil_append, subAt, Option.bind_some]
    cases childAt e k <;> rfl
  | j :: p, e, k => by
    simp only [List.cons_append, subAt]
    cases childAt e j with
    | none => rfl
    | some c => exact subAt_snoc p c k

theorem nodeAt_snoc {roots : List (Option VExpr)} {id : Id} {t : VExpr} (h : nodeAt roots id = some t) (k : Nat) :
    nodeAt roots (id ++ [k]) = childAt t k := by
  cases id with
  | nil => simp [nodeAt] at h
  | cons r p =>
    simp only [nodeAt, List.cons_append] at h ⊢
    split at h
    · rename_i root hr
      simp only [hr, subAt_snoc, h, Option.bind_some]
    · cases h

section
variable (roots : List (Option VExpr)) (mn : Id → Option Nat) (ma : Id → Nat → Nat → Option (Nat × Nat))
  (Hmn : ∀ id k t, mn id = some k → nodeAt roots id = some t → Rep t)
  (Hma : ∀ pid i n k len cs, ma pid i n = some (k, len) → nodeAt roots pid = some (.list cs) → n = cs.length →
    0 < len ∧ Rep (.list ((cs.drop i).take len)))

theorem filt_matched {id : Id} {k : Nat} (hm : mn id = some k) (t : VExpr) (lvl : Bool) (hn : nodeAt roots id = some t)
    (Hmn : ∀ id k t, mn id = some k → nodeAt roots id = some t → Rep t) :
    ∀ ev ∈ trace mn ma lvl id t, FiltOK ev := by
  intro ev hev
  have : trace mn ma lvl id t = [.used k t 1 lvl] := by cases t <;> simp [trace, evNode, hm]
  rw [this] at hev
  simp only [List.mem_singleton] at hev
  subst hev
  exact ⟨Nat.one_pos, Hmn id k t hm hn⟩

theorem drop_tail {α : Type} {cs : List α} {i : Nat} {t : α} {ts : List α} (h : t :: ts = cs.drop i) :
    ts = cs.drop (i + 1) ∧ cs[i]? = some t := by
  have h1 : cs.drop (i + 1) = (cs.drop i).drop 1 := by rw [List.drop_drop]
  constructor
  · rw [h1, ← h]; rfl
  · have : (cs.drop i)[0]? = some t := by rw [← h]; rfl
    simpa [List.getElem?_drop] using this

include Hmn Hma in
mutual
theorem filtNode : ∀ (t : VExpr) (lvl : Bool) (id : Id), nodeAt roots id = some t →
    ∀ ev ∈ trace mn ma lvl id t, FiltOK ev
  | .axis n v m, lvl, id => by
    intro hn ev hev
    cases hm : mn id with
    | some k => exact filt_matched roots mn ma hm _ lvl hn Hmn ev hev
    | none =>
      simp only [trace, evNode, hm] at hev
      cases v <;> simp at hev
      subst hev; trivial
  | .flat e, lvl, id => by
    intro hn ev hev
    cases hm : mn id with
    | some k => exact filt_matched roots mn ma hm _ lvl hn Hmn ev hev
    | none =>
      simp only [trace, evNode, hm] at hev
      exact filtNode e false (id ++ [0]) (by rw [nodeAt_snoc hn]; simp [childAt]) ev hev
  | .brackets e, lvl, id => by
    intro hn ev hev
    cases hm : mn id with
    | some k => exact filt_matched roots mn ma hm _ lvl hn Hmn ev hev
    | none =>
      simp only [trace, evNode, hm] at hev
      exact filtNode e lvl (id ++ [0]) (by rw [nodeAt_snoc hn]; simp [childAt]) ev hev
  | .concat cs, lvl, id => by
    intro hn ev hev
    cases hm : mn id with
    | some k => exact filt_matched roots mn ma hm _ lvl hn Hmn ev hev
    | none =>
      simp only [trace, evNode, hm] at hev
      exact (filtList cs).2 lvl id (.concat cs) 0 hn (fun j => by simp [childAt]) ev hev
  | .list cs, lvl, id => by
    intro hn ev hev
    cases hm : mn id with
    | some k => exact filt_matched roots mn ma hm _ lvl hn Hmn ev hev
    | none =>
      simp only [trace, evNode, hm] at hev
      split at hev
      · exact (filtList cs).2 lvl id (.list cs) 0 hn (fun j => by simp [childAt]) ev hev
      · exact (filtList cs).1 lvl id cs 0 0 hn (by simp) ev hev
theorem filtList : ∀ (l : List VExpr),
    (∀ (lvl : Bool) (pid : Id) (cs : List VExpr) (i skip : Nat), nodeAt roots pid = some (.list cs) → l = cs.drop i →
      ∀ ev ∈ traceL mn ma lvl pid cs.length i skip l, FiltOK ev) ∧
    (∀ (lvl : Bool) (pid : Id) (e : VExpr) (k : Nat), nodeAt roots pid = some e → (∀ j, childAt e (k + j) = l[j]?) →
      ∀ ev ∈ traceC mn ma lvl pid k l, FiltOK ev)
  | [] => by
    constructor
    · intro lvl pid cs i skip _ _ ev hev; simp [traceL] at hev
    · intro lvl pid e k _ _ ev hev; simp [traceC] at hev
  | t :: ts => by
    constructor
    · intro lvl pid cs i skip hn hl ev hev
      obtain ⟨hts, hti⟩ := drop_tail hl
      simp only [traceL] at hev
      split at hev
      · exact (filtList ts).1 lvl pid cs (i + 1) (skip - 1) hn hts ev hev
      · cases hma : ma pid i cs.length with
        | some p =>
          obtain ⟨idx, len⟩ := p
          simp only [hma, List.mem_cons] at hev
          rcases hev with rfl | hev
          · have := Hma pid i cs.length idx len cs hma hn rfl
            rw [← hl] at this
            exact this
          · exact (filtList ts).1 lvl pid cs (i + 1) (len - 1) hn hts ev hev
        | none =>
          simp only [hma, List.mem_append] at hev
          rcases hev with hev | hev
          · exact filtNode t lvl (pid ++ [i]) (by rw [nodeAt_snoc hn]; simpa [childAt] using hti) ev hev
          · exact (filtList ts).1 lvl pid cs (i + 1) 0 hn hts ev hev
    · intro lvl pid e k hn hc ev hev
      simp only [traceC, List.mem_append] at hev
      rcases hev with hev | hev
      · exact filtNode t lvl (pid ++ [k]) (by rw [nodeAt_snoc hn]; simpa using hc 0) ev hev
      · refine (filtList ts).2 lvl pid e (k + 1) hn (fun j => ?_) ev hev
        have := hc (j + 1)
        simpa [Nat.add_assoc, Nat.add_comm 1 j] using this
end
end

/-! ### the two searches find exprlists of the final candidates -/

theorem replaceable_of_mem (opts : Opts) (roots : List (Option VExpr)) {c : Cand} (hc : c ∈ candidates opts roots)
    {o : Occ} (ho : o ∈ c.occs) : replaceable (.list o.nodes) = true := by
  unfold candidates selectFrom at hc
  simp only [List.mem_filter] at hc
  obtain ⟨⟨⟨⟨⟨⟨_, _⟩, h⟩, _⟩, _⟩, _⟩, _⟩ := hc
  simp only [allReplaceable, List.all_eq_true] at h
  exact h o ho

theorem rep_of_replaceable {e : VExpr} (h : replaceable e = true) : Rep e := by
  simp only [replaceable, Bool.and_eq_true, Bool.not_eq_true'] at h
  exact h

theorem rep_singleton {t : VExpr} (h : Rep (.list [t])) : Rep t := by
  obtain ⟨h1, h2⟩ := h
  constructor
  · cases hv : valueRange t with
    | some r => rfl
    | none => simp [valueRange, valueRanges, combineRanges, hv] at h1
  · simpa [hasRepeatedAxis, axisNames, axisNamesL] using h2

theorem rootEntOK_of_mem (opts : Opts) (roots : List (Option VExpr)) {c : Cand} (hc : c ∈ candidates opts roots)
    {o : Occ} (ho : o ∈ c.occs) : ∃ k, RootEntOK roots (k, o) := by
  obtain ⟨c0, hc0, _, ho0⟩ := mem_selectFrom opts roots _ c hc
  exact ⟨c0.key, rootEntOK_allEntries roots roots 0 (fun j => by simp) _ (mem_groupEntries _ c0 hc0 o (ho0 o ho))⟩

/-- the nodes of an exprlist are the nodes at its identities -/
theorem nodes_of_rootEntOK {roots : List (Option VExpr)} {x : String × Occ} (h : RootEntOK roots x) :
    x.2.ids.map (nodeAt roots) = x.2.nodes.map some := by
  obtain ⟨r, root, hr, ps, _, h1, h2, _⟩ := h
  rw [h1, ← h2, List.map_map]
  apply List.map_congr_left
  intro p _
  simp [nodeAt, hr]

theorem hmn_candidates (opts : Opts) (roots : List (Option VExpr)) :
    ∀ id k t, matchNode (candidates opts roots) id = some k → nodeAt roots id = some t → Rep t := by
  intro id k t hm hn
  unfold matchNode at hm
  rw [findIdx?_eq_find? _ (nodup_candidates opts roots)] at hm
  cases hf : (candidates opts roots).find? (fun c => c.occs.any fun o => o.ids == [id]) with
  | none => simp [hf] at hm
  | some c =>
    have hc := List.mem_of_find?_eq_some hf
    have hp := List.find?_some hf
    simp only [List.any_eq_true, beq_iff_eq] at hp
    obtain ⟨o, ho, hid⟩ := hp
    obtain ⟨key, hok⟩ := rootEntOK_of_mem opts roots hc ho
    have hnodes := nodes_of_rootEntOK hok
    simp only [hid, List.map_cons, List.map_nil, hn] at hnodes
    have : o.nodes = [t] := by
      cases hon : o.nodes with
      | nil => simp [hon] at hnodes
      | cons a rest =>
        cases rest with
        | nil => simp [hon] at hnodes; rw [hnodes]
        | cons b rest' => simp [hon] at hnodes
    have hr := rep_of_replaceable (replaceable_of_mem opts roots hc ho)
    rw [this] at hr
    exact rep_singleton hr

theorem hma_candidates (opts : Opts) (roots : List (Option VExpr)) :
    ∀ pid i n k len cs, matchAt (candidates opts roots) pid i n = some (k, len) →
      nodeAt roots pid = some (.list cs) → n = cs.length → 0 < len ∧ Rep (.list ((cs.drop i).take len)) := by
  intro pid i n k len cs hm hn hlen
  rw [matchAt_eq _ (nodup_candidates opts roots)] at hm
  rcases best_spec (lensK pid i n (candidates opts roots)) with ⟨_, h0⟩ | ⟨y, e, m, _⟩
  · simp [h0] at hm
  · obtain ⟨c, hc, o, ho, hmatch, rfl⟩ := mem_lensK m
    simp only [e, Option.map_some, Option.some.injEq, Prod.mk.injEq] at hm
    obtain ⟨_, hl⟩ := hm
    obtain ⟨key, hok⟩ := rootEntOK_of_mem opts roots hc ho
    have hnodes := nodes_of_rootEntOK hok
    have hids := occMatchesAt_ids hmatch
    have hle : i + o.ids.length ≤ n := by
      simp only [occMatchesAt, Bool.and_eq_true, decide_eq_true_eq] at hmatch
      exact hmatch.1
    -- an exprlist is never empty
    have hpos : 0 < o.ids.length := by
      obtain ⟨_, _, _, ps, hp0, hp1, _, _⟩ := hok
      rw [hp1]; cases ps with
      | nil => exact absurd rfl hp0
      | cons _ _ => simp
    have hnode : o.nodes = (cs.drop i).take o.ids.length := by
      apply map_inj_of_inj (f := some) (fun a b h => by simpa using h)
      rw [← hnodes, take_drop_map_some cs i o.ids.length (by omega)]
      conv => lhs; rw [hids]
      rw [List.map_map]
      apply List.map_congr_left
      intro j _
      simp only [Function.comp_def, nodeAt_snoc hn, childAt]
    have hr := rep_of_replaceable (replaceable_of_mem opts roots hc ho)
    rw [hnode, hl] at hr
    exact ⟨hl ▸ hpos, hr⟩

theorem nodeAt_root (roots : List (Option VExpr)) (k : Nat) (r : VExpr) (h : roots[k]? = some (some r)) :
    nodeAt roots [k] = some r := by
  simp [nodeAt, h, subAt]

/-- **Every replacement of `cseTrees` passed the filter** — for every input and both options. -/
theorem filt_cseEvents (opts : Opts) (roots : List (Option VExpr)) : ∀ ev ∈ cseEvents opts roots, FiltOK ev := by
  unfold cseEvents
  suffices ∀ (rs : List (Option VExpr)) (k : Nat), (∀ j, roots[k + j]? = rs[j]?) →
      ∀ ev ∈ traceRoots (candidates opts roots) k rs, FiltOK ev from this roots 0 (fun j => by simp)
  intro rs
  induction rs with
  | nil => intro k _ ev hev; simp [traceRoots] at hev
  | cons r rs ih =>
    intro k h ev hev
    have hshift : ∀ j, roots[k + 1 + j]? = rs[j]? := fun j => by
      have := h (j + 1)
      simpa [Nat.add_assoc, Nat.add_comm 1 j] using this
    cases r with
    | none => simp only [traceRoots] at hev; exact ih (k + 1) hshift ev hev
    | some r =>
      simp only [traceRoots, List.mem_append] at hev
      rcases hev with hev | hev
      · exact filtNode roots _ _ (hmn_candidates opts roots) (hma_candidates opts roots) r true [k]
          (nodeAt_root roots k r (by simpa using h 0)) ev hev
      · exact ih (k + 1) hshift ev hev

end Einx.Solve.CseT
