import EinxModel.Proofs.OptDagTerm
/-!
A pass of the traversal `optTok` preserves the well-formedness conditions of the theorems of `Props/C05Dag.lean`:
the new store is topologically ordered again (`Prog.topoOK`) and the new top-level graph has distinct fresh inputs
(`Prog.wfTop`).  Structural invariant of a pass (`SInv`): the new nodes created so far are topologically ordered and every
memo entry refers to new nodes that exist (no nested graph objects).  New nodes are only appended (`Ext`).
-/
namespace Einx.OptDag

def nodeOK (m : Nat) (n : Node) : Bool :=
  match n.origin with
  | .app a => a.operandsLt m
  | .proj s _ => decide (s < m)
  | .none => true

/-- `Store.topo` as a proposition about a node list. -/
def TopoL (nodes : List Node) : Prop := ∀ m n, nodes[m]? = some n → nodeOK m n = true

theorem topoL_of_topo (S : Store) (h : S.topo = true) : TopoL S.nodes := by
  intro m n hn
  obtain ⟨ty, o⟩ := n
  cases o with
  | none => rfl
  | app a => exact topo_app S h m ty a hn
  | proj s k => simpa [nodeOK] using topo_proj S h m ty s k hn

theorem topo_of_topoL (S : Store) (h : TopoL S.nodes) : S.topo = true := by
  simp only [Store.topo, List.all_eq_true, List.mem_range]
  intro i _
  cases hn : S.nodes[i]? with
  | none => rfl
  | some n =>
    have := h i n hn
    obtain ⟨ty, o⟩ := n
    cases o <;> simp_all [nodeOK]

structure SInv (st : St) : Prop where
  topo : TopoL st.nodes
  memo : ∀ o v, st.memoT.lookup o = some v → toksLt st.nodes.length v = true

/-- New nodes are only appended. -/
def Ext (st st' : St) : Prop := ∃ ext, st'.nodes = st.nodes ++ ext

theorem Ext.refl (st : St) : Ext st st := ⟨[], by simp⟩

theorem Ext.trans {a b c : St} (h1 : Ext a b) (h2 : Ext b c) : Ext a c := by
  obtain ⟨e1, h1⟩ := h1
  obtain ⟨e2, h2⟩ := h2
  exact ⟨e1 ++ e2, by rw [h2, h1, List.append_assoc]⟩

theorem Ext.le {a b : St} (h : Ext a b) : a.nodes.length ≤ b.nodes.length := by
  obtain ⟨e, h⟩ := h
  rw [h, List.length_append]; omega

theorem Ext.get {a b : St} (h : Ext a b) (i : Nat) (n : Node) (hn : a.nodes[i]? = some n) : b.nodes[i]? = some n := by
  obtain ⟨e, h⟩ := h
  have hi : i < a.nodes.length := (List.getElem?_eq_some_iff.1 hn).1
  rw [h, List.getElem?_append_left hi]; exact hn

theorem Ext.push (st : St) (n : Node) : Ext st (st.pushNode n) := ⟨[n], rfl⟩

theorem SInv.push {st : St} (h : SInv st) (n : Node) (hn : nodeOK st.nodes.length n = true) : SInv (st.pushNode n) where
  topo := by
    intro m n' hm
    simp only [St.pushNode] at hm
    by_cases hlt : m < st.nodes.length
    · rw [List.getElem?_append_left hlt] at hm
      exact h.topo m n' hm
    · have hlen : (st.nodes ++ [n]).length = st.nodes.length + 1 := by simp
      have hm' : m < (st.nodes ++ [n]).length := (List.getElem?_eq_some_iff.1 hm).1
      have : m = st.nodes.length := by omega
      subst this
      simp only [List.getElem?_concat_length, Option.some.injEq] at hm
      subst hm
      exact hn
  memo := by
    intro o v hv
    simp only [St.pushNode, List.length_append, List.length_cons, List.length_nil]
    exact toksLt_mono (by omega) v (h.memo o v hv)

theorem SInv.setMemo {st : St} (h : SInv st) (o : Nat) (w : List Tok) (hw : toksLt st.nodes.length w = true) (c : Bool) :
    SInv { st with memoT := (o, w) :: st.memoT, changed := c } where
  topo := h.topo
  memo := by
    intro o' v hv
    simp only [List.lookup_cons] at hv
    by_cases he : o' = o
    · subst he
      simp only [beq_self_eq_true, Option.some.injEq] at hv
      subst hv
      exact hw
    · have : (o' == o) = false := by simpa using he
      simp only [this] at hv
      exact h.memo o' v hv

/-- What a step of the traversal guarantees about the state. -/
def Res (st st' : St) : Prop := SInv st' ∧ Ext st st' ∧ st'.graphs = st.graphs

theorem Res.trans {a b c : St} (h1 : Res a b) (h2 : Res b c) : Res a c :=
  ⟨h2.1, h1.2.1.trans h2.2.1, by rw [h2.2.2, h1.2.2]⟩

def GOK (g : Tok → St → R (List Tok × St)) : Prop :=
  ∀ (t : Tok) (st : St) (v : List Tok) (st' : St) (n : Nat), g t st = .ok (v, st') → toksLt n [t] = true → SInv st →
    Res st st' ∧ toksLt st'.nodes.length v = true

def VOK (h : List Tok → St → R (List Tok × St)) : Prop :=
  ∀ (toks : List Tok) (st : St) (v : List Tok) (st' : St) (n : Nat), h toks st = .ok (v, st') → toksLt n toks = true → SInv st →
    Res st st' ∧ toksLt st'.nodes.length v = true

theorem toksLt_append (n : Nat) (a b : List Tok) : toksLt n (a ++ b) = (toksLt n a && toksLt n b) := by
  simp [toksLt, List.all_append]

theorem toksLt_cons (n : Nat) (t : Tok) (ts : List Tok) : toksLt n (t :: ts) = (toksLt n [t] && toksLt n ts) := by
  simp [toksLt]

theorem toksLt_of_refFree (n : Nat) (v : List Tok) (h : refFree v = true) : toksLt n v = true := by
  simp only [refFree, Bool.not_eq_true', List.any_eq_false] at h
  simp only [toksLt, List.all_eq_true]
  intro t ht
  have := h t ht
  cases t <;> simp_all

theorem mapToks_ok (g : Tok → St → R (List Tok × St)) (hg : GOK g) : VOK (mapToks g) := by
  intro toks
  induction toks with
  | nil =>
    intro st v st' n h _ hI
    simp only [mapToks, pure, Except.pure, Except.ok.injEq, Prod.mk.injEq] at h
    obtain ⟨rfl, rfl⟩ := h
    exact ⟨⟨hI, Ext.refl _, rfl⟩, by simp [toksLt]⟩
  | cons t ts ih =>
    intro st v st' n h hlt hI
    simp only [mapToks] at h
    obtain ⟨⟨v1, st1⟩, h1, h⟩ := bind_ok.1 h
    obtain ⟨⟨vs, st2⟩, h2, h⟩ := bind_ok.1 h
    simp only [pure, Except.pure, Except.ok.injEq, Prod.mk.injEq] at h
    obtain ⟨rfl, rfl⟩ := h
    rw [toksLt_cons, Bool.and_eq_true] at hlt
    obtain ⟨r1, l1⟩ := hg t st v1 st1 n h1 hlt.1 hI
    obtain ⟨r2, l2⟩ := ih st1 vs st2 n h2 hlt.2 r1.1
    refine ⟨r1.trans r2, ?_⟩
    rw [toksLt_append, Bool.and_eq_true]
    exact ⟨toksLt_mono r2.2.1.le _ l1, l2⟩

theorem mapOperands_ok (h : List Tok → St → R (List Tok × St)) (hh : VOK h) :
    ∀ (vs : List (List Tok)) (st : St) (vs' : List (List Tok)) (st' : St) (n : Nat), mapOperands h vs st = .ok (vs', st') →
    (∀ v ∈ vs, toksLt n v = true) → SInv st → Res st st' ∧ ∀ v' ∈ vs', toksLt st'.nodes.length v' = true := by
  intro vs
  induction vs with
  | nil =>
    intro st vs' st' n hm _ hI
    simp only [mapOperands, pure, Except.pure, Except.ok.injEq, Prod.mk.injEq] at hm
    obtain ⟨rfl, rfl⟩ := hm
    exact ⟨⟨hI, Ext.refl _, rfl⟩, by simp⟩
  | cons w ws ih =>
    intro st vs' st' n hm hlt hI
    simp only [mapOperands] at hm
    obtain ⟨⟨v1, st1⟩, h1, hm⟩ := bind_ok.1 hm
    obtain ⟨⟨vs1, st2⟩, h2, hm⟩ := bind_ok.1 hm
    simp only [pure, Except.pure, Except.ok.injEq, Prod.mk.injEq] at hm
    obtain ⟨rfl, rfl⟩ := hm
    obtain ⟨r1, l1⟩ := hh w st v1 st1 n h1 (hlt w (by simp)) hI
    obtain ⟨r2, l2⟩ := ih st1 vs1 st2 n h2 (fun v hv => hlt v (by simp [hv])) r1.1
    refine ⟨r1.trans r2, ?_⟩
    intro v' hv'
    rcases List.mem_cons.1 hv' with rfl | hv'
    · exact toksLt_mono r2.2.1.le _ l1
    · exact l2 v' hv'

theorem mapKwargs_ok (h : List Tok → St → R (List Tok × St)) (hh : VOK h) :
    ∀ (kws : List (String × List Tok)) (st : St) (kws' : List (String × List Tok)) (st' : St) (n : Nat), mapKwargs h kws st = .ok (kws', st') →
    (∀ v ∈ kws.map (·.2), toksLt n v = true) → SInv st → Res st st' ∧ ∀ v' ∈ kws'.map (·.2), toksLt st'.nodes.length v' = true := by
  intro kws
  induction kws with
  | nil =>
    intro st kws' st' n hm _ hI
    simp only [mapKwargs, pure, Except.pure, Except.ok.injEq, Prod.mk.injEq] at hm
    obtain ⟨rfl, rfl⟩ := hm
    exact ⟨⟨hI, Ext.refl _, rfl⟩, by simp⟩
  | cons kw ws ih =>
    obtain ⟨k, w⟩ := kw
    intro st kws' st' n hm hlt hI
    simp only [mapKwargs] at hm
    obtain ⟨⟨v1, st1⟩, h1, hm⟩ := bind_ok.1 hm
    obtain ⟨⟨vs1, st2⟩, h2, hm⟩ := bind_ok.1 hm
    simp only [pure, Except.pure, Except.ok.injEq, Prod.mk.injEq] at hm
    obtain ⟨rfl, rfl⟩ := hm
    obtain ⟨r1, l1⟩ := hh w st v1 st1 n h1 (hlt w (by simp)) hI
    obtain ⟨r2, l2⟩ := ih st1 vs1 st2 n h2 (fun v hv => hlt v (by simp only [List.map_cons, List.mem_cons]; exact Or.inr hv)) r1.1
    refine ⟨r1.trans r2, ?_⟩
    intro v' hv'
    simp only [List.map_cons, List.mem_cons] at hv'
    rcases hv' with rfl | hv'
    · exact toksLt_mono r2.2.1.le _ l1
    · exact l2 v' hv'

/-- `pushProjs` appends `tys.length` projection nodes of node `nb` and changes nothing else. -/
theorem pushProjs_spec (nb : Nat) : ∀ (tys : List Ty) (k : Nat) (st : St),
    ∃ ext, (pushProjs nb k tys st).nodes = st.nodes ++ ext ∧ ext.length = tys.length ∧
      (∀ n ∈ ext, ∃ ty k', n = ⟨ty, .proj nb k'⟩) ∧ (pushProjs nb k tys st).memoT = st.memoT ∧
      (pushProjs nb k tys st).graphs = st.graphs ∧ (pushProjs nb k tys st).changed = st.changed ∧
      (pushProjs nb k tys st).memoG = st.memoG
  | [], k, st => ⟨[], by simp [pushProjs]⟩
  | ty :: tys, k, st => by
    obtain ⟨ext, h1, h2, h3, h4, h5, h6, h7⟩ := pushProjs_spec nb tys (k + 1) (st.pushNode ⟨ty, .proj nb k⟩)
    refine ⟨⟨ty, .proj nb k⟩ :: ext, ?_, by simp [h2], ?_, ?_, ?_, ?_, ?_⟩
    · simp only [pushProjs]; rw [h1]; simp [St.pushNode]
    · intro n hn
      rcases List.mem_cons.1 hn with rfl | hn
      · exact ⟨ty, k, rfl⟩
      · exact h3 n hn
    · simp only [pushProjs]; rw [h4]; rfl
    · simp only [pushProjs]; rw [h5]; rfl
    · simp only [pushProjs]; rw [h6]; rfl
    · simp only [pushProjs]; rw [h7]; rfl

theorem SInv.pushProjs {st : St} (h : SInv st) (nb : Nat) (hnb : nb < st.nodes.length) (tys : List Ty) (k : Nat) :
    SInv (pushProjs nb k tys st) ∧ Ext st (pushProjs nb k tys st) := by
  obtain ⟨ext, h1, _, h3, h4, _, _, _⟩ := pushProjs_spec nb tys k st
  refine ⟨⟨?_, ?_⟩, ⟨ext, h1⟩⟩
  · intro m n hm
    rw [h1] at hm
    by_cases hlt : m < st.nodes.length
    · rw [List.getElem?_append_left hlt] at hm
      exact h.topo m n hm
    · rw [List.getElem?_append_right (by omega)] at hm
      obtain ⟨ty, k', rfl⟩ := h3 n (List.mem_of_getElem? hm)
      simp only [nodeOK, decide_eq_true_eq]
      omega
  · intro o v hv
    rw [h4] at hv
    rw [h1, List.length_append]
    exact toksLt_mono (by omega) v (h.memo o v hv)

theorem lookup_range_map (base nb n o : Nat) (rest : List (Nat × List Tok)) (v : List Tok)
    (h : (((List.range n).map (fun k => (base + k, [Tok.ref (nb + k)]))) ++ rest).lookup o = some v) :
    (∃ k, k < n ∧ o = base + k ∧ v = [Tok.ref (nb + k)]) ∨ rest.lookup o = some v := by
  induction n with
  | zero => right; simpa using h
  | succ n ih =>
    rw [List.range_succ, List.map_append, List.append_assoc] at h
    simp only [List.map_cons, List.map_nil, List.cons_append, List.nil_append] at h
    by_cases hk : ∃ k, k < n ∧ o = base + k
    · obtain ⟨k, hk, rfl⟩ := hk
      -- found in the first part: reuse `ih` on a list with the same prefix
      have : ∀ (l : List Nat) (r1 r2 : List (Nat × List Tok)), k ∈ l →
          ((l.map (fun k => (base + k, [Tok.ref (nb + k)]))) ++ r1).lookup (base + k) =
          ((l.map (fun k => (base + k, [Tok.ref (nb + k)]))) ++ r2).lookup (base + k) := by
        intro l r1 r2 hl
        induction l with
        | nil => cases hl
        | cons a l ihl =>
          simp only [List.map_cons, List.cons_append, List.lookup_cons]
          by_cases ha : k = a
          · subst ha; simp
          · have : (base + k == base + a) = false := by simp; omega
            simp only [this]
            exact ihl (by rcases List.mem_cons.1 hl with h | h; exact absurd h ha; exact h)
      rw [this (List.range n) _ rest (List.mem_range.2 hk)] at h
      rcases ih h with ⟨k', hk', he, hv⟩ | h
      · exact Or.inl ⟨k', by omega, he, hv⟩
      · exact Or.inr h
    · have hnot : ∀ (l : List Nat) (r : List (Nat × List Tok)), (∀ k ∈ l, k < n) →
          ((l.map (fun k => (base + k, [Tok.ref (nb + k)]))) ++ r).lookup o = r.lookup o := by
        intro l r hl
        induction l with
        | nil => rfl
        | cons a l ihl =>
          simp only [List.map_cons, List.cons_append, List.lookup_cons]
          have : (o == base + a) = false := by
            simp only [beq_eq_false_iff_ne, ne_eq]
            intro e
            exact hk ⟨a, hl a (by simp), e⟩
          simp only [this]
          exact ihl (fun k hk' => hl k (by simp [hk']))
      rw [hnot (List.range n) _ (fun k hk' => List.mem_range.1 hk')] at h
      simp only [List.lookup_cons] at h
      by_cases he : o = base + n
      · subst he
        simp only [beq_self_eq_true, Option.some.injEq] at h
        exact Or.inl ⟨n, by omega, rfl, h.symm⟩
      · have : (o == base + n) = false := by simpa using he
        simp only [this] at h
        exact Or.inr h

/-- `rebuild` keeps the structural invariant. -/
theorem rebuild_ok (S : Store) (h : List Tok → St → R (List Tok × St)) (hh : VOK h) (a : App) (base : Nat) (st st' : St) (n : Nat)
    (ha : a.operandsLt n = true) (hr : rebuild S h a base st = .ok st') (hI : SInv st) : Res st st' := by
  have hop : ∀ v ∈ a.operands, toksLt n v = true := fun v hv => operand_lt ha v hv
  unfold rebuild at hr
  obtain ⟨⟨pre', st1⟩, h1, hr⟩ := bind_ok.1 hr
  obtain ⟨⟨args', st2⟩, h2, hr⟩ := bind_ok.1 hr
  obtain ⟨⟨kwargs', st3⟩, h3, hr⟩ := bind_ok.1 hr
  obtain ⟨⟨deps', st4⟩, h4, hr⟩ := bind_ok.1 hr
  obtain ⟨⟨tys, out⟩, h5, hr⟩ := bind_ok.1 hr
  obtain ⟨r1, l1⟩ := mapOperands_ok h hh _ _ _ _ n h1 (fun v hv => hop v (by simp [App.operands, hv])) hI
  obtain ⟨r2, l2⟩ := mapOperands_ok h hh _ _ _ _ n h2 (fun v hv => hop v (by simp [App.operands, hv])) r1.1
  obtain ⟨r3, l3⟩ := mapKwargs_ok h hh _ _ _ _ n h3
    (fun v hv => hop v (by simp only [App.operands, List.mem_append]; exact Or.inl (Or.inr hv))) r2.1
  obtain ⟨r4, l4⟩ := mapOperands_ok h hh _ _ _ _ n h4 (fun v hv => hop v (by simp [App.operands, hv])) r3.1
  have r14 : Res st st4 := ((r1.trans r2).trans r3).trans r4
  simp only at hr
  split at hr
  · cases hr
  · rename_i hchk
    simp only [Bool.or_eq_true, bne_iff_ne, ne_eq, not_or, Decidable.not_not] at hchk
    obtain ⟨⟨_, hlen⟩, _⟩ := hchk
    split at hr
    · cases hr
    · rename_i ty0 tys'
      simp only [pure, Except.pure, Except.ok.injEq] at hr
      subst hr
      -- the rebuilt application node
      have hnode : nodeOK st4.nodes.length ⟨ty0, .app { head := a.head, pre := pre', args := args', kwargs := kwargs', deps := deps', out := out }⟩ = true := by
        simp only [nodeOK, App.operandsLt, App.operands, List.all_eq_true, List.mem_append]
        intro v hv
        rcases hv with ((hv | hv) | hv) | hv
        · exact toksLt_mono ((r2.2.1.trans r3.2.1).trans r4.2.1).le _ (l1 v hv)
        · exact toksLt_mono (r3.2.1.trans r4.2.1).le _ (l2 v hv)
        · exact toksLt_mono r4.2.1.le _ (l3 v hv)
        · exact l4 v hv
      have hI5 := r4.1.push _ hnode
      have hlen5 : (st4.pushNode ⟨ty0, .app { head := a.head, pre := pre', args := args', kwargs := kwargs', deps := deps', out := out }⟩).nodes.length
          = st4.nodes.length + 1 := by simp [St.pushNode]
      obtain ⟨hI6, hE6⟩ := hI5.pushProjs st4.nodes.length (by rw [hlen5]; omega) tys' 1
      obtain ⟨ext, e1, e2, _, e4, e5, _, _⟩ := pushProjs_spec st4.nodes.length tys' 1
        (st4.pushNode ⟨ty0, .app { head := a.head, pre := pre', args := args', kwargs := kwargs', deps := deps', out := out }⟩)
      refine ⟨⟨hI6.topo, ?_⟩, r14.2.1.trans ((Ext.push _ _).trans hE6), ?_⟩
      · intro o v hv
        simp only at hv
        rcases lookup_range_map _ _ _ _ _ _ hv with ⟨k, hk, _, rfl⟩ | hv
        · simp only [toksLt, List.all_cons, List.all_nil, Bool.and_true, decide_eq_true_eq]
          rw [e1, List.length_append, hlen5, e2]
          simp only [List.length_cons] at hlen
          omega
        · exact hI6.memo o v hv
      · simp only
        rw [e5]
        simp only [St.pushNode]
        exact r14.2.2

/-- **The traversal keeps the structural invariant** on a topologically ordered old store. -/
theorem optTok_ok (pats : List Pattern) (S : Store) (hT : S.topo = true) : ∀ fuel, GOK (optTok pats S fuel)
  | 0 => by
    intro t st v st' n h
    simp [optTok, throw, throwThe, MonadExceptOf.throw] at h
  | fuel + 1 => by
    have ihV := mapToks_ok _ (optTok_ok pats S hT fuel)
    intro t st v st' n h hlt hI
    cases t with
    | gref k => simp [toksLt] at hlt
    | atom a =>
      simp only [optTok] at h
      split at h
      · cases h
      · simp only [pure, Except.pure, Except.ok.injEq, Prod.mk.injEq] at h
        obtain ⟨rfl, rfl⟩ := h
        exact ⟨⟨hI, Ext.refl _, rfl⟩, by simp [toksLt]⟩
    | open_ c m =>
      simp only [optTok, pure, Except.pure, Except.ok.injEq, Prod.mk.injEq] at h
      obtain ⟨rfl, rfl⟩ := h
      exact ⟨⟨hI, Ext.refl _, rfl⟩, by simp [toksLt]⟩
    | ref i =>
      simp only [optTok] at h
      split at h
      · rename_i w hw
        simp only [pure, Except.pure, Except.ok.injEq, Prod.mk.injEq] at h
        obtain ⟨rfl, rfl⟩ := h
        exact ⟨⟨hI, Ext.refl _, rfl⟩, hI.memo i _ hw⟩
      · obtain ⟨m, hm, h⟩ := bind_ok.1 h
        split at h
        · rename_i v1
          have hlt1 : toksLt i v1 = true := firstMatch_lt S hT _ pats i _ hm
          obtain ⟨⟨new, st1⟩, h1, h⟩ := bind_ok.1 h
          simp only [pure, Except.pure, Except.ok.injEq, Prod.mk.injEq] at h
          obtain ⟨rfl, rfl⟩ := h
          obtain ⟨r1, l1⟩ := ihV v1 st new st1 i h1 hlt1 hI
          exact ⟨⟨r1.1.setMemo i new l1 true, r1.2.1, r1.2.2⟩, l1⟩
        · rename_i fn x lit
          obtain ⟨a1, a2, _⟩ := firstMatch_lt S hT _ pats i _ hm
          obtain ⟨⟨fn', st1⟩, h1, h⟩ := bind_ok.1 h
          obtain ⟨⟨x', st2⟩, h2, h⟩ := bind_ok.1 h
          obtain ⟨r1, l1⟩ := ihV fn st fn' st1 i h1 a1 hI
          obtain ⟨r2, l2⟩ := ihV x st1 x' st2 i h2 a2 r1.1
          split at h
          · cases h
          · rename_i hfree
            simp only [pure, Except.pure, Except.ok.injEq, Prod.mk.injEq] at h
            obtain ⟨rfl, rfl⟩ := h
            have hfree' : refFree lit = true := by simpa using hfree
            have hnode : nodeOK st2.nodes.length
                ⟨.value, .app { head := .call, pre := [fn'], args := [x', lit], kwargs := [], deps := [], out := [.ref 0] }⟩ = true := by
              simp only [nodeOK, App.operandsLt, App.operands, List.map_nil, List.append_nil, List.cons_append, List.nil_append,
                List.all_cons, List.all_nil, Bool.and_true, Bool.and_eq_true]
              exact ⟨toksLt_mono r2.2.1.le _ l1, l2, toksLt_of_refFree _ _ hfree'⟩
            have hI3 := r2.1.push _ hnode
            have hl3 : toksLt (st2.pushNode ⟨.value, .app { head := .call, pre := [fn'], args := [x', lit], kwargs := [], deps := [], out := [.ref 0] }⟩).nodes.length
                [Tok.ref st2.nodes.length] = true := by simp [toksLt, St.pushNode]
            exact ⟨⟨hI3.setMemo i _ hl3 true, (r1.2.1.trans r2.2.1).trans (Ext.push _ _), by simp only [St.pushNode]; rw [r2.2.2, r1.2.2]⟩, hl3⟩
        · split at h
          · cases h
          · rename_i ty hn
            simp only [pure, Except.pure, Except.ok.injEq, Prod.mk.injEq] at h
            obtain ⟨rfl, rfl⟩ := h
            exact ⟨⟨hI.push _ rfl, Ext.push _ _, rfl⟩, by simp [toksLt, St.pushNode]⟩
          · rename_i ty a hn
            obtain ⟨st1, h1, h⟩ := bind_ok.1 h
            have r1 := rebuild_ok S _ ihV a i st st1 i (topo_app S hT i ty a hn) h1 hI
            split at h
            · rename_i w hw
              simp only [pure, Except.pure, Except.ok.injEq, Prod.mk.injEq] at h
              obtain ⟨rfl, rfl⟩ := h
              exact ⟨r1, r1.1.memo i _ hw⟩
            · cases h
          · rename_i ty src k hn
            split at h
            · rename_i ty2 a hn2
              obtain ⟨st1, h1, h⟩ := bind_ok.1 h
              have r1 := rebuild_ok S _ ihV a src st st1 src (topo_app S hT src ty2 a hn2) h1 hI
              split at h
              · rename_i w hw
                simp only [pure, Except.pure, Except.ok.injEq, Prod.mk.injEq] at h
                obtain ⟨rfl, rfl⟩ := h
                exact ⟨r1, r1.1.memo i _ hw⟩
              · cases h
            · cases h

/-! ### The top-level graph -/

theorem newInputs_ok (S : Store) : ∀ (is : List Nat) (st : St) (js : List Nat) (st1 : St), newInputs S is st = .ok (js, st1) → SInv st →
    SInv st1 ∧ Ext st st1 ∧ st1.graphs = st.graphs ∧ st1.changed = st.changed ∧ js.Nodup ∧
      ∀ j ∈ js, st.nodes.length ≤ j ∧ ∃ ty, st1.nodes[j]? = some ⟨ty, .none⟩
  | [], st, js, st1, h, hI => by
    simp only [newInputs, pure, Except.pure, Except.ok.injEq, Prod.mk.injEq] at h
    obtain ⟨rfl, rfl⟩ := h
    exact ⟨hI, Ext.refl _, rfl, rfl, List.nodup_nil, by simp⟩
  | i :: is, st, js, st1, h, hI => by
    simp only [newInputs] at h
    split at h
    · rename_i nd hn
      obtain ⟨⟨js', st2⟩, h1, h⟩ := bind_ok.1 h
      simp only [pure, Except.pure, Except.ok.injEq, Prod.mk.injEq] at h
      obtain ⟨rfl, rfl⟩ := h
      have hI1 : SInv { st.pushNode ⟨nd.ty, .none⟩ with memoT := (i, [Tok.ref st.nodes.length]) :: st.memoT } := by
        have := (hI.push ⟨nd.ty, .none⟩ rfl).setMemo i [Tok.ref st.nodes.length] (by simp [toksLt, St.pushNode]) st.changed
        exact this
      obtain ⟨a1, a2, a3, a4, a5, a6⟩ := newInputs_ok S is _ js' st2 h1 hI1
      have hE : Ext st st2 := Ext.trans (⟨[⟨nd.ty, .none⟩], rfl⟩ : Ext st _) a2
      refine ⟨a1, hE, by rw [a3]; rfl, by rw [a4]; rfl, ?_, ?_⟩
      · refine List.nodup_cons.2 ⟨?_, a5⟩
        intro hmem
        have := (a6 _ hmem).1
        simp [St.pushNode] at this
        omega
      · intro j hj
        rcases List.mem_cons.1 hj with rfl | hj
        · refine ⟨Nat.le_refl _, nd.ty, ?_⟩
          exact a2.get _ _ (by simp [St.pushNode])
        · obtain ⟨b1, b2⟩ := a6 j hj
          refine ⟨?_, b2⟩
          simp [St.pushNode] at b1
          omega
    · cases h

/-- The shape of a pass on a top-level graph on which no pattern fires. -/
theorem pass_shape (pats : List Pattern) (fuel : Nat) (p p' : Prog) (ch : Bool) (k : Nat) (g : GraphV) (htop : p.top = [.gref k])
    (hg : p.store.graphs[k]? = some g) (hni : noTopInline pats p = true) (hp : pass pats fuel p = .ok (p', ch)) :
    ∃ fuel' ins sta out stb, fuel = fuel' + 1 ∧ newInputs p.store g.inputs {} = .ok (ins, sta) ∧
      mapToks (optTok pats p.store fuel') g.output sta = .ok (out, stb) ∧
      p' = ⟨⟨stb.nodes, stb.graphs ++ [⟨ins, out, g.name⟩]⟩, [.gref stb.graphs.length]⟩ ∧ ch = stb.changed := by
  unfold noTopInline at hni
  rw [htop] at hni
  simp only at hni
  split at hni
  · rename_i hfm
    unfold pass at hp
    obtain ⟨⟨top, st⟩, h1, hp⟩ := bind_ok.1 hp
    simp only [pure, Except.pure, Except.ok.injEq, Prod.mk.injEq] at hp
    obtain ⟨rfl, rfl⟩ := hp
    rw [htop] at h1
    simp only [mapToks] at h1
    obtain ⟨⟨v1, st1⟩, h2, h1⟩ := bind_ok.1 h1
    simp only [pure, Except.pure, bind, Except.bind, Except.ok.injEq, Prod.mk.injEq] at h1
    obtain ⟨rfl, rfl⟩ := h1
    cases fuel with
    | zero => simp [optTok, throw, throwThe, MonadExceptOf.throw] at h2
    | succ fuel =>
      simp only [optTok, List.lookup_nil, hfm, bind, Except.bind, hg] at h2
      obtain ⟨⟨ins, sta⟩, h3, h2⟩ := bind_ok.1 h2
      obtain ⟨⟨out, stb⟩, h4, h2⟩ := bind_ok.1 h2
      simp only [pure, Except.pure, Except.ok.injEq, Prod.mk.injEq] at h2
      obtain ⟨rfl, rfl⟩ := h2
      exact ⟨fuel, ins, sta, out, stb, rfl, h3, h4, by simp, rfl⟩
  · cases hni

theorem SInv.empty : SInv {} := ⟨by intro m n h; simp at h, by intro o v h; simp at h⟩

/-- **A pass preserves well-formedness**: from a graph over a topologically ordered store on which `InlineGraph` does not
fire at the top, a pass returns a graph over a topologically ordered store whose inputs are distinct fresh tracers. -/
theorem pass_preserves (pats : List Pattern) (fuel : Nat) (p p' : Prog) (ch : Bool) (ht : p.topoOK = true)
    (hni : noTopInline pats p = true) (hp : pass pats fuel p = .ok (p', ch)) : p'.topoOK = true ∧ p'.wfTop = true := by
  unfold Prog.topoOK at ht
  simp only [Bool.and_eq_true] at ht
  obtain ⟨hT, ht⟩ := ht
  split at ht
  · rename_i k htop
    split at ht
    · rename_i g hg
      obtain ⟨fuel', ins, sta, out, stb, rfl, h3, h4, rfl, _⟩ := pass_shape pats fuel p p' ch k g htop hg hni hp
      obtain ⟨a1, a2, a3, _, a5, a6⟩ := newInputs_ok p.store g.inputs {} ins sta h3 SInv.empty
      obtain ⟨r, l⟩ := mapToks_ok _ (optTok_ok pats p.store hT fuel') g.output sta out stb _ h4 ht a1
      constructor
      · simp only [Prog.topoOK, Bool.and_eq_true, List.getElem?_concat_length]
        exact ⟨topo_of_topoL ⟨stb.nodes, _⟩ r.1.topo, l⟩
      · simp only [Prog.wfTop, List.getElem?_concat_length, Bool.and_eq_true, decide_eq_true_eq, List.all_eq_true]
        refine ⟨a5, ?_⟩
        intro j hj
        obtain ⟨_, ty, hn⟩ := a6 j hj
        rw [r.2.1.get j _ hn]
    · cases ht
  · cases ht

end Einx.OptDag
