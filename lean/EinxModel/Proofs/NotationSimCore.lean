import EinxModel.Proofs.NotationSim
/-!
# M1 Notation — `ESim` is a congruence for the smart constructors of `tree.py`
-/
namespace Einx.Notation

variable {φ : Nat → Nat}

theorem ESimL.length_eq : ∀ {cs cs' : List Expr}, ESimL φ cs cs' → cs.length = cs'.length
  | [], _, h => by cases h; rfl
  | _ :: _, _, h => by cases h with | cons _ h2 => simp [ESimL.length_eq h2]

theorem ESimL.append : ∀ {as as' bs bs' : List Expr}, ESimL φ as as' → ESimL φ bs bs' → ESimL φ (as ++ bs) (as' ++ bs')
  | [], _, _, _, h, hb => by cases h; exact hb
  | _ :: _, _, _, _, h, hb => by cases h with | cons h1 h2 => exact ESimL.cons h1 (ESimL.append h2 hb)

theorem ESim.isFlat_eq {x y : Expr} (h : ESim φ x y) : x.isFlat = y.isFlat := by cases h <;> rfl
theorem ESim.isBrackets_eq {x y : Expr} (h : ESim φ x y) : x.isBrackets = y.isBrackets := by cases h <;> rfl
theorem ESim.isConcat_eq {x y : Expr} (h : ESim φ x y) : x.isConcat = y.isConcat := by cases h <;> rfl
theorem ESim.isAxis_eq {x y : Expr} (h : ESim φ x y) : x.isAxis = y.isAxis := by cases h <;> rfl
theorem ESim.isList_eq {x y : Expr} (h : ESim φ x y) : x.isList = y.isList := by cases h <;> rfl
theorem ESim.isAxisOrFlat_eq {x y : Expr} (h : ESim φ x y) : isAxisOrFlat x = isAxisOrFlat y := by
  simp only [isAxisOrFlat, h.isAxis_eq, h.isFlat_eq]

mutual
theorem ESim.ndim_eq : ∀ (x y : Expr), ESim φ x y → x.ndim = y.ndim
  | .axis .., _, h => by cases h; simp [Expr.ndim]
  | .flat .., _, h => by cases h; simp [Expr.ndim]
  | .brackets i _ _, _, h => by
    cases h with
    | brackets hi => simp only [Expr.ndim]; exact ESim.ndim_eq _ _ hi
  | .ellipsis i _ _ _, _, h => by
    cases h with
    | ellipsis hi => simp only [Expr.ndim]; rw [ESim.ndim_eq _ _ hi]
  | .concat .., _, h => by cases h; simp [Expr.ndim]
  | .list cs _ _, _, h => by
    cases h with
    | list hcs => simp only [Expr.ndim]; exact ESimL.ndimSum_eq _ _ hcs
  | .args .., _, h => by cases h; simp [Expr.ndim]
  | .op .., _, h => by cases h; simp [Expr.ndim]
theorem ESimL.ndimSum_eq : ∀ (cs cs' : List Expr), ESimL φ cs cs' → ndimSum cs = ndimSum cs'
  | [], _, h => by cases h; rfl
  | c :: cs, _, h => by
    cases h with
    | cons h1 h2 => simp only [ndimSum]; rw [ESim.ndim_eq _ _ h1, ESimL.ndimSum_eq _ _ h2]
end

theorem emptyList_sim : ESim φ emptyList emptyList := ESim.list ESimL.nil

theorem mkFlat_sim {x y : Expr} {b e b' e' : Int} (h : ESim φ x y) : ESim φ (mkFlat x b e) (mkFlat y b' e') := by
  unfold mkFlat
  rw [← h.isFlat_eq]
  split
  · exact h
  · exact ESim.flat h

theorem mkBrackets_sim {x y : Expr} {b e b' e' : Int} (h : ESim φ x y) : ESim φ (mkBrackets x b e) (mkBrackets y b' e') := by
  unfold mkBrackets
  rw [← h.isBrackets_eq, ← ESim.ndim_eq _ _ h]
  split
  · exact h
  · split
    · exact emptyList_sim
    · exact ESim.brackets h

theorem mkEllipsis_sim {x y : Expr} {b e b' e' : Int} {d : Nat} (h : ESim φ x y) :
    ESim φ (mkEllipsis x b e d) (mkEllipsis y b' e' (φ d)) := by
  unfold mkEllipsis
  rw [← ESim.ndim_eq _ _ h]
  split
  · exact emptyList_sim
  · exact ESim.ellipsis h

theorem mkConcat_sim {cs cs' : List Expr} {b e b' e' : Int} (h : ESimL φ cs cs') :
    ESim φ (mkConcat cs b e) (mkConcat cs' b' e') := by
  unfold mkConcat
  cases h with
  | nil => exact ESim.concat ESimL.nil
  | cons h1 h2 =>
    cases h2 with
    | nil => exact h1
    | cons h2 h3 => exact ESim.concat (ESimL.cons h1 (ESimL.cons h2 h3))

mutual
theorem flattenOne_sim : ∀ (x y : Expr), ESim φ x y → ESimL φ (flattenOne x) (flattenOne y)
  | .axis .., _, h => by cases h with | axis hn hv => exact ESimL.cons (ESim.axis hn hv) ESimL.nil
  | .flat .., _, h => by cases h with | flat hi => exact ESimL.cons (ESim.flat hi) ESimL.nil
  | .brackets .., _, h => by cases h with | brackets hi => exact ESimL.cons (ESim.brackets hi) ESimL.nil
  | .ellipsis .., _, h => by cases h with | ellipsis hi => exact ESimL.cons (ESim.ellipsis hi) ESimL.nil
  | .concat .., _, h => by cases h with | concat hi => exact ESimL.cons (ESim.concat hi) ESimL.nil
  | .list cs _ _, _, h => by
    cases h with
    | list hcs => simp only [flattenOne]; exact flattenAll_sim _ _ hcs
  | .args .., _, h => by cases h with | args hi => exact ESimL.cons (ESim.args hi) ESimL.nil
  | .op .., _, h => by cases h with | op hi => exact ESimL.cons (ESim.op hi) ESimL.nil
theorem flattenAll_sim : ∀ (cs cs' : List Expr), ESimL φ cs cs' → ESimL φ (flattenAll cs) (flattenAll cs')
  | [], _, h => by cases h; exact ESimL.nil
  | c :: cs, _, h => by
    cases h with
    | cons h1 h2 => simp only [flattenAll]; exact ESimL.append (flattenOne_sim _ _ h1) (flattenAll_sim _ _ h2)
end

theorem mkList_sim {cs cs' : List Expr} {b e b' e' : Int} (h : ESimL φ cs cs') :
    ESim φ (mkList cs b e) (mkList cs' b' e') := by
  unfold mkList
  have hf := flattenAll_sim _ _ h
  generalize flattenAll cs = l at hf
  generalize flattenAll cs' = l' at hf
  cases hf with
  | nil => exact ESim.list ESimL.nil
  | cons h1 h2 =>
    cases h2 with
    | nil => exact h1
    | cons h2 h3 => exact ESim.list (ESimL.cons h1 (ESimL.cons h2 h3))

theorem ESim.children {x y : Expr} (h : ESim φ x y) : ESimL φ x.children y.children := by
  cases h with
  | axis _ => exact ESimL.nil
  | flat hi => exact ESimL.cons hi ESimL.nil
  | brackets hi => exact ESimL.cons hi ESimL.nil
  | ellipsis hi => exact ESimL.cons hi ESimL.nil
  | concat hcs => exact hcs
  | list hcs => exact hcs
  | args hcs => exact hcs
  | op hcs => exact hcs

end Einx.Notation
