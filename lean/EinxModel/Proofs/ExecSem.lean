import EinxModel.Proofs.ExecAdapt
/-! Helper lemmas for `Props/C13Exec.lean` / `Props/C15Exec.lean`: which values of the reference evaluation `evalGraph` are a
*tracked atom* (the object of a graph input, a constant object), and which call events have such a value as function term.

Generic in a predicate `q` on terms (the tracked atoms) and a predicate `P` on tracers (the tracers that may hold one). -/
namespace Einx.Exec
open Einx.Compile

/-- `q` only holds for atoms that are neither event results, modules nor closures. -/
structure QOK (q : E → Bool) : Prop where
  node : ∀ e, q e = true → ∃ nm a, e = .node (.atom nm) a
  res : ∀ n, q (resAtom n) = false
  mod : ∀ f i, q (modAtom f i) = false
  clos : ∀ k, q (closAtom k) = false

theorem QOK.not_tag {q : E → Bool} (hq : QOK q) (tag : Tag) (a : E) (h : ∀ nm, tag ≠ .atom nm) : q (.node tag a) = false := by
  cases hqe : q (.node tag a) with
  | false => rfl
  | true =>
    obtain ⟨nm, a', he⟩ := hq.node _ hqe
    simp only [E.node.injEq] at he
    exact absurd he.1 (h nm)

theorem QOK.not_mk {q : E → Bool} (hq : QOK q) (tag : Tag) (l : List E) (h : ∀ nm, tag ≠ .atom nm) : q (E.mk tag l) = false :=
  hq.not_tag tag _ h

theorem QOK.not_lit {q : E → Bool} (hq : QOK q) (s : String) : q (.lit s) = false := by
  cases hqe : q (.lit s) with
  | false => rfl
  | true => obtain ⟨nm, a', he⟩ := hq.node _ hqe; cases he

/-- The operand whose value an application's output aliases. -/
def aliasOperand : App → Option E
  | .cast input _ => some input
  | .assert_ xs _ _ _ => some xs
  | .callInplace xs _ _ _ _ _ => some xs
  | .updateitem obj _ _ _ _ => some obj
  | _ => none

def isConstantApp : App → Bool
  | .constant .. => true
  | _ => false

/-- What the graph has to satisfy for the tracked atoms `q` and the tracers `P`. -/
structure Track (g : Graph) (q : E → Bool) (P : Nat → Prop) (entered : Nat → Prop) : Prop where
  inp : ∀ (k : Nat) (sg : SubGraph) (t : Nat), entered k → g.graphs[k]? = some sg → t ∈ sg.inputs → (q (inAtom t) = true ↔ P t)
  const : ∀ (j : Nat) (str : String) (o : Nat), g.apps[j]? = some (App.constant str o) → ∀ n, (q (constAtom n) = true ↔ P o)
  alias : ∀ (j : Nat) (a : App) (x : Nat), g.apps[j]? = some a → aliasOperand a = some (.var x) → P x → ∃ y, a.out = .var y ∧ P y
  prod : ∀ (j : Nat) (a : App) (y : Nat), g.apps[j]? = some a → E.var y ∈ regKeys a.out → P y →
    a.out = .var y ∧ (isConstantApp a = true ∨ ∃ x, aliasOperand a = some (.var x) ∧ P x)

/-- The memo of the reference evaluation: a tracked atom is only held by a `P` tracer, and a `P` tracer only holds tracked atoms. -/
structure MemoInv (q : E → Bool) (P : Nat → Prop) (vals : List (E × E)) : Prop where
  sound : ∀ p ∈ vals, q p.2 = true → ∃ y, p.1 = .var y ∧ P y
  compl : ∀ p ∈ vals, ∀ y, p.1 = .var y → P y → q p.2 = true

theorem MemoInv.nil (q : E → Bool) (P : Nat → Prop) : MemoInv q P [] := ⟨by simp, by simp⟩

/-! ### `setCache` -/

theorem regKeysL_mem (a v k : E) (hv : v ∈ a.toList) (hk : k ∈ regKeys v) : k ∈ regKeys.regKeysL a := by
  induction a with
  | cons h t _ iht =>
    simp only [E.toList, List.mem_cons] at hv
    simp only [regKeys.regKeysL, List.mem_append]
    rcases hv with rfl | hv
    · exact Or.inl hk
    · exact Or.inr (iht hv)
  | _ => simp [E.toList] at hv

theorem keyOf_mem_regKeys (obj k : E) (h : keyOf obj = some k) : k ∈ regKeys obj := by
  cases obj with
  | node tag a => cases tag <;> simp_all [regKeys, keyOf]
  | _ => simp_all [regKeys, keyOf]

theorem foldlM_append_inv_mem {α : Type} (f : List (E × E) → α → Except String (List (E × E))) (Q : E × E → Prop) :
    ∀ (l : List α), (∀ c a c', a ∈ l → f c a = .ok c' → ∃ more, c' = c ++ more ∧ ∀ p ∈ more, Q p) →
    ∀ (c0 c1 : List (E × E)), l.foldlM f c0 = .ok c1 → ∃ more, c1 = c0 ++ more ∧ ∀ p ∈ more, Q p := by
  intro l
  induction l with
  | nil =>
    intro _ c0 c1 h
    simp only [List.foldlM_nil, pure, Except.pure, Except.ok.injEq] at h
    exact ⟨[], by simp [h], by simp⟩
  | cons x rest ihl =>
    intro hstep c0 c1 h
    simp only [List.foldlM_cons, bind, Except.bind] at h
    cases hx : f c0 x with
    | error err => simp [hx] at h
    | ok c2 =>
      simp only [hx] at h
      obtain ⟨m1, e1, p1⟩ := hstep _ _ _ (by simp) hx
      obtain ⟨m2, e2, p2⟩ := ihl (fun c a c' ha => hstep c a c' (List.mem_cons_of_mem _ ha)) c2 c1 h
      refine ⟨m1 ++ m2, by rw [e2, e1, List.append_assoc], ?_⟩
      intro p hp
      rcases List.mem_append.1 hp with hp | hp
      · exact p1 p hp
      · exact p2 p hp

/-- The entries `setCache` appends: the object's own key with the given value, and element keys with element-access terms. -/
theorem setCache_new : ∀ (fuel : Nat) (cache : List (E × E)) (obj e : E) (cache' : List (E × E)),
    setCache fuel cache obj e = .ok cache' →
    ∃ more, cache' = cache ++ more ∧ ∀ p ∈ more, p.1 ∈ regKeys obj ∧
      ((keyOf obj = some p.1 ∧ p.2 = e) ∨ ((∃ s a, p.2 = .node (.elem s) a) ∧ ∀ t, obj ≠ .var t)) := by
  intro fuel
  induction fuel with
  | zero => intro cache obj e cache' h; simp [setCache] at h
  | succ fuel ih =>
    intro cache obj e cache' h
    unfold setCache at h
    cases hk : keyOf obj with
    | none => simp [hk] at h
    | some k =>
      simp only [hk] at h
      split at h
      · simp at h
      · have hcont : ∀ (tag : Tag) (a : E), (tag = .tuple ∨ tag = .list) → obj = .node tag a →
            List.foldlM (fun cache (x : E × Nat) => setCache fuel cache x.1 (E.mk (.elem (toString x.2)) [e])) (cache ++ [(k, e)])
              a.toList.zipIdx = .ok cache' →
            ∃ more, cache' = cache ++ more ∧ ∀ p ∈ more, p.1 ∈ regKeys obj ∧
              ((some k = some p.1 ∧ p.2 = e) ∨ ((∃ s a, p.2 = .node (.elem s) a) ∧ ∀ t, obj ≠ .var t)) := by
          intro tag a htag hobj hf
          have hreg : ∀ v ∈ a.toList, ∀ k' ∈ regKeys v, k' ∈ regKeys obj := by
            intro v hv k' hk'
            have := regKeysL_mem a v k' hv hk'
            rcases htag with rfl | rfl <;> (subst hobj; simp [regKeys, this])
          have hnv : ∀ t, obj ≠ .var t := by intro t; rw [hobj]; simp
          obtain ⟨more, e1, p1⟩ := foldlM_append_inv_mem
            (fun cache (x : E × Nat) => setCache fuel cache x.1 (E.mk (.elem (toString x.2)) [e]))
            (fun p => p.1 ∈ regKeys obj ∧ ∃ s a, p.2 = .node (.elem s) a) a.toList.zipIdx (by
              intro c x c' hxm hc
              have hx : x.1 ∈ a.toList := by
                obtain ⟨v, n⟩ := x
                exact (List.mem_zipIdx hxm).2.2 ▸ List.getElem_mem _
              obtain ⟨m1, e1, q1⟩ := ih _ _ _ _ hc
              refine ⟨m1, e1, ?_⟩
              intro p hp
              obtain ⟨r1, r2⟩ := q1 p hp
              refine ⟨hreg x.1 hx p.1 r1, ?_⟩
              rcases r2 with ⟨_, r2⟩ | ⟨r2, _⟩
              · exact ⟨_, _, r2⟩
              · exact r2) _ _ hf
          refine ⟨(k, e) :: more, by rw [e1]; simp, ?_⟩
          intro p hp
          rcases List.mem_cons.1 hp with rfl | hp
          · exact ⟨keyOf_mem_regKeys obj _ hk, Or.inl ⟨rfl, rfl⟩⟩
          · exact ⟨(p1 p hp).1, Or.inr ⟨(p1 p hp).2, hnv⟩⟩
        split at h
        · rename_i a
          exact hcont .tuple a (Or.inl rfl) rfl h
        · rename_i a
          exact hcont .list a (Or.inr rfl) rfl h
        · simp only [Except.ok.injEq] at h
          refine ⟨[(k, e)], by rw [← h], ?_⟩
          intro p hp
          simp only [List.mem_singleton] at hp
          subst hp
          exact ⟨keyOf_mem_regKeys obj _ hk, Or.inl ⟨rfl, rfl⟩⟩

/-! ### `conv` -/

/-- If an operand evaluates to a tracked atom, the operand is a tracer holding it. -/
theorem conv_tracked {q : E → Bool} {P : Nat → Prop} (hq : QOK q) (vals : List (E × E))
    (hs : ∀ p ∈ vals, q p.2 = true → ∃ y, p.1 = .var y ∧ P y) (x e : E) (h : conv vals x = .ok e) (hqe : q e = true) :
    ∃ y, x = .var y ∧ (E.var y, e) ∈ vals := by
  have notAtom : ∀ e' : E, (∀ nm a, e' ≠ .node (.atom nm) a) → q e' = true → False := by
    intro e' hne hq'
    obtain ⟨nm, a, he⟩ := hq.node e' hq'
    exact hne nm a he
  have keyed : ∀ k : E, (∀ y, k ≠ .var y) → assocGet vals k = some e → False := by
    intro k hk hget
    obtain ⟨y, hy, _⟩ := hs (k, e) (assocGet_mem vals k e hget) hqe
    exact hk y hy
  cases x with
  | var t =>
    simp only [conv] at h
    cases hg : assocGet vals (.var t) with
    | none => simp [hg] at h
    | some e' =>
      simp only [hg, Except.ok.injEq] at h
      subst h
      exact ⟨t, rfl, assocGet_mem vals _ _ hg⟩
  | gref i =>
    simp only [conv] at h
    cases hg : assocGet vals (.gref i) with
    | none => simp [hg] at h
    | some e' =>
      simp only [hg, Except.ok.injEq] at h
      subst h
      exact (keyed (.gref i) (by intro y; simp) hg).elim
  | lit c =>
    simp only [conv, Except.ok.injEq] at h
    subst h
    exact (notAtom _ (by intro nm a; simp) hqe).elim
  | nil =>
    simp only [conv, Except.ok.injEq] at h
    subst h
    exact (notAtom _ (by intro nm a; simp) hqe).elim
  | cons hd tl =>
    simp only [conv, bind, Except.bind] at h
    cases h1 : conv vals hd with
    | error err => simp [h1] at h
    | ok e1 =>
      cases h2 : convL vals tl with
      | error err => simp [h1, h2] at h
      | ok e2 =>
        simp only [h1, h2, pure, Except.pure, Except.ok.injEq] at h
        subst h
        exact (notAtom _ (by intro nm a; simp) hqe).elim
  | node tag a =>
    have container : ∀ (tg : Tag), (tg = .tuple ∨ tg = .list) →
        (match (keyOf (.node tg a)).bind (assocGet vals) with
          | some e => Except.ok e
          | none => do pure (E.node tg (← convL vals a))) = Except.ok e → False := by
      intro tg htg h'
      have hkey : keyOf (.node tg a) = some (.node tg (keyOf.keyL a)) := by
        rcases htg with rfl | rfl <;> simp [keyOf]
      split at h'
      · rename_i e' heq
        simp only [Except.ok.injEq] at h'
        subst h'
        rw [hkey] at heq
        exact keyed _ (by intro y; simp) heq
      · simp only [bind, Except.bind] at h'
        cases h2 : convL vals a with
        | error err => simp [h2] at h'
        | ok e2 =>
          simp only [h2, pure, Except.pure, Except.ok.injEq] at h'
          subst h'
          exact notAtom _ (by intro nm a'; rcases htg with rfl | rfl <;> simp) hqe
    cases tag with
    | tuple => simp only [conv] at h; exact (container .tuple (Or.inl rfl) h).elim
    | list => simp only [conv] at h; exact (container .list (Or.inr rfl) h).elim
    | dict =>
      simp only [conv, bind, Except.bind] at h
      cases h2 : convL vals a with
      | error err => simp [h2] at h
      | ok e2 =>
        simp only [h2, pure, Except.pure, Except.ok.injEq] at h
        subst h
        exact (notAtom _ (by intro nm a'; simp) hqe).elim
    | slice x y z =>
      simp only [conv, bind, Except.bind] at h
      cases h2 : convL vals a with
      | error err => simp [h2] at h
      | ok e2 =>
        simp only [h2, pure, Except.pure, Except.ok.injEq] at h
        subst h
        exact (notAtom _ (by intro nm a'; simp) hqe).elim
    | _ => simp [conv] at h

theorem convTop_tracked {q : E → Bool} {P : Nat → Prop} (hq : QOK q) (vals : List (E × E))
    (hs : ∀ p ∈ vals, q p.2 = true → ∃ y, p.1 = .var y ∧ P y) (x e : E) (h : convTop vals x = .ok e) (hqe : q e = true) :
    ∃ y, x = .var y ∧ (E.var y, e) ∈ vals := by
  unfold convTop at h
  split at h
  · simp at h
  · exact conv_tracked hq vals hs x e h hqe

theorem convTop_var_mem (vals : List (E × E)) (y : Nat) (e : E) (h : convTop vals (.var y) = .ok e) : (E.var y, e) ∈ vals := by
  simp only [convTop, conv] at h
  cases hg : assocGet vals (.var y) with
  | none => simp [hg] at h
  | some e' =>
    simp only [hg, Except.ok.injEq] at h
    subst h
    exact assocGet_mem vals _ _ hg

/-! ### The memo invariant -/

theorem memoInv_setCache {q : E → Bool} {P : Nat → Prop} (hq : QOK q) (fuel : Nat) (vals vals' : List (E × E)) (obj e : E)
    (hinv : MemoInv q P vals) (h : setCache fuel vals obj e = .ok vals')
    (hs : q e = true → ∃ y, obj = .var y ∧ P y)
    (hc : ∀ y, E.var y ∈ regKeys obj → P y → obj = .var y ∧ q e = true) : MemoInv q P vals' := by
  obtain ⟨more, rfl, hm⟩ := setCache_new fuel vals obj e vals' h
  refine ⟨?_, ?_⟩
  · intro p hp hqp
    rcases List.mem_append.1 hp with hp | hp
    · exact hinv.sound p hp hqp
    · obtain ⟨_, h2⟩ := hm p hp
      rcases h2 with ⟨hk, hv⟩ | ⟨⟨s, a, hv⟩, _⟩
      · rw [hv] at hqp
        obtain ⟨y, rfl, hy⟩ := hs hqp
        simp only [keyOf, Option.some.injEq] at hk
        exact ⟨y, hk.symm, hy⟩
      · rw [hv, hq.not_tag _ _ (by intro nm; simp)] at hqp
        cases hqp
  · intro p hp y hy hPy
    rcases List.mem_append.1 hp with hp | hp
    · exact hinv.compl p hp y hy hPy
    · obtain ⟨h1, h2⟩ := hm p hp
      rw [hy] at h1
      obtain ⟨hobj, hqe⟩ := hc y h1 hPy
      rcases h2 with ⟨_, hv⟩ | ⟨_, hne⟩
      · rw [hv]; exact hqe
      · exact absurd hobj (hne y)

/-- Storing the value of application `j` keeps the invariant. -/
theorem store_inv {g : Graph} {q : E → Bool} {P : Nat → Prop} {entered : Nat → Prop} (hq : QOK q) (T : Track g q P entered)
    (j : Nat) (a : App) (ha : g.apps[j]? = some a) (vals vals' : List (E × E)) (value : E)
    (h : setCache 64 vals a.out value = .ok vals') (hinv : MemoInv q P vals)
    (hval : (q value = false ∧ aliasOperand a = none ∧ isConstantApp a = false) ∨
            (isConstantApp a = true ∧ ∃ n, value = constAtom n) ∨
            (∃ operand, aliasOperand a = some operand ∧ convTop vals operand = .ok value)) : MemoInv q P vals' := by
  apply memoInv_setCache hq 64 vals vals' a.out value hinv h
  · intro hqv
    rcases hval with ⟨h1, _, _⟩ | ⟨h1, n, rfl⟩ | ⟨operand, h1, h2⟩
    · rw [h1] at hqv; cases hqv
    · cases a with
      | constant str o => exact ⟨o, rfl, (T.const j str o ha n).1 hqv⟩
      | _ => simp [isConstantApp] at h1
    · obtain ⟨x, rfl, hmem⟩ := convTop_tracked hq vals hinv.sound operand value h2 hqv
      obtain ⟨x', hx', hPx⟩ := hinv.sound _ hmem hqv
      simp only [E.var.injEq] at hx'
      subst hx'
      exact T.alias j a x ha h1 hPx
  · intro y hy hPy
    obtain ⟨hout, hkind⟩ := T.prod j a y ha hy hPy
    refine ⟨hout, ?_⟩
    rcases hval with ⟨_, h2, h3⟩ | ⟨h1, n, rfl⟩ | ⟨operand, h1, h2⟩
    · rcases hkind with hk | ⟨x, hx, _⟩
      · rw [h3] at hk; cases hk
      · rw [h2] at hx; cases hx
    · cases a with
      | constant str o =>
        simp only [App.out, E.var.injEq] at hout
        subst hout
        exact (T.const j str o ha n).2 hPy
      | _ => simp [isConstantApp] at h1
    · rcases hkind with hk | ⟨x, hx, hPx⟩
      · cases a <;> simp [isConstantApp, aliasOperand] at hk h1
      · rw [h1] at hx
        simp only [Option.some.injEq] at hx
        subst hx
        exact hinv.compl _ (convTop_var_mem vals x value h2) x rfl hPx

/-! ### One step of the reference evaluation -/

theorem refRule_define (r r' : RState) (out e : E) (eff ni fi : Bool) (h : refRule r (.define out e eff ni fi) = .ok r') :
    ∃ vals', setCache 64 r.vals out (if eff then resAtom r.trace.length else e) = .ok vals' ∧ r'.vals = vals' ∧
      r'.trace = r.trace ++ (if eff then [Event.call e] else []) := by
  simp only [refRule] at h
  cases eff with
  | true =>
    simp only [if_true, bind, Except.bind] at h ⊢
    cases hs : setCache 64 r.vals out (resAtom r.trace.length) with
    | error err => simp [hs] at h
    | ok v =>
      simp only [hs, pure, Except.pure, Except.ok.injEq] at h
      subst h
      exact ⟨v, rfl, rfl, rfl⟩
  | false =>
    simp only [Bool.false_eq_true, if_false, bind, Except.bind] at h ⊢
    cases hs : setCache 64 r.vals out e with
    | error err => simp [hs] at h
    | ok v =>
      simp only [hs, pure, Except.pure, Except.ok.injEq] at h
      subst h
      exact ⟨v, rfl, rfl, by simp⟩

theorem refRule_effect (r r' : RState) (s : Stmt) (out e : E) (h : refRule r (.effect s out e) = .ok r') :
    ∃ vals', setCache 64 r.vals out e = .ok vals' ∧ r'.vals = vals' ∧ r'.trace = r.trace ++ s.event?.toList := by
  simp only [refRule, bind, Except.bind] at h
  cases hs : setCache 64 r.vals out e with
  | error err => simp [hs] at h
  | ok v =>
    simp only [hs, pure, Except.pure, Except.ok.injEq] at h
    subst h
    exact ⟨v, rfl, rfl, rfl⟩

theorem refRule_import (r r' : RState) (out : Nat) (from_ : Option String) (imp : String) (hint : Option String)
    (h : refRule r (.import_ out from_ imp hint) = .ok r') :
    ∃ vals', setCache 64 r.vals (.var out) (modAtom from_ imp) = .ok vals' ∧ r'.vals = vals' ∧ r'.trace = r.trace := by
  simp only [refRule, bind, Except.bind] at h
  cases hs : setCache 64 r.vals (.var out) (modAtom from_ imp) with
  | error err => simp [hs] at h
  | ok v =>
    simp only [hs, pure, Except.pure, Except.ok.injEq] at h
    subst h
    exact ⟨v, rfl, rfl, rfl⟩

theorem refRule_constant (r r' : RState) (out : Nat) (str : String) (h : refRule r (.constant out str) = .ok r') :
    ∃ vals', setCache 64 r.vals (.var out) (constAtom (r.nconst + 1)) = .ok vals' ∧ r'.vals = vals' ∧ r'.trace = r.trace := by
  simp only [refRule, bind, Except.bind] at h
  cases hs : setCache 64 r.vals (.var out) (constAtom (r.nconst + 1)) with
  | error err => simp [hs] at h
  | ok v =>
    simp only [hs, pure, Except.pure, Except.ok.injEq] at h
    subst h
    exact ⟨v, rfl, rfl, rfl⟩

/-- The call application `j` whose function operand is the `P` tracer `y`. -/
def PCall (g : Graph) (P : Nat → Prop) (v : Visit) : Prop :=
  ∃ j y args kwargs deps out, v = .app j ∧ g.apps[j]? = some (.call (.var y) args kwargs deps out) ∧ P y

/-- What one step adds to the trace. -/
def StepEvs (g : Graph) (q : E → Bool) (P : Nat → Prop) (v : Visit) (evs : List Event) : Prop :=
  (∀ ev ∈ evs, trackedCall q ev = true → PCall g P v) ∧
  (∀ j y args kwargs deps out, v = .app j → g.apps[j]? = some (.call (.var y) args kwargs deps out) → P y →
    isAllowInline g (.var y) = false →
    ∃ f as ks, evs = [.call (E.mk .call (f :: as ++ ks))] ∧ q f = true ∧ as.length = args.length ∧
      ks.map kwName = kwargs.map (fun kv => some kv.1))

theorem stepEvs_nil (g : Graph) (q : E → Bool) (P : Nat → Prop) (v : Visit)
    (hnc : ∀ j y args kwargs deps out, v = .app j → g.apps[j]? = some (.call (.var y) args kwargs deps out) →
      isAllowInline g (.var y) = false → False) : StepEvs g q P v [] :=
  ⟨by simp, fun j y args kwargs deps out hv ha _ hal => (hnc j y args kwargs deps out hv ha hal).elim⟩

theorem stepEvs_untracked (g : Graph) (q : E → Bool) (P : Nat → Prop) (v : Visit) (evs : List Event)
    (hu : ∀ ev ∈ evs, trackedCall q ev = false)
    (hnc : ∀ j y args kwargs deps out, v = .app j → g.apps[j]? = some (.call (.var y) args kwargs deps out) →
      isAllowInline g (.var y) = false → False) : StepEvs g q P v evs :=
  ⟨fun ev hev ht => (by rw [hu ev hev] at ht; cases ht),
   fun j y args kwargs deps out hv ha _ hal => (hnc j y args kwargs deps out hv ha hal).elim⟩

theorem atExpr_form (cache : List (E × E)) (obj key e : E) (h : atExpr cache obj key = .ok e) : ∃ l, e = E.mk .index l := by
  simp only [atExpr, bind, Except.bind] at h
  cases h1 : convTop cache obj with
  | error err => simp [h1] at h
  | ok o =>
    simp only [h1] at h
    split at h
    · simp at h
    · simp only [pure, Except.pure, Except.ok.injEq] at h
      exact ⟨_, h.symm⟩

theorem trackedCall_mk (q : E → Bool) (f : E) (rest : List E) : trackedCall q (.call (E.mk .call (f :: rest))) = q f := by
  simp [trackedCall, callParts_mk]

/-- **One application step**: the memo invariant is kept, and the only tracked call event a step can add is the call of a
`P` tracer — which it does add when the application is such a call. -/
theorem refVisit_app {g : Graph} {q : E → Bool} {P : Nat → Prop} {entered : Nat → Prop} (hq : QOK q) (T : Track g q P entered)
    (up : Bool) (r r' : RState) (j : Nat) (h : refVisit g up r (.app j) = .ok r') (hinv : MemoInv q P r.vals) :
    MemoInv q P r'.vals ∧ ∃ evs, r'.trace = r.trace ++ evs ∧ StepEvs g q P (.app j) evs := by
  simp only [refVisit] at h
  cases ha : g.apps[j]? with
  | none => simp [ha, throw, throwThe, MonadExceptOf.throw] at h
  | some a =>
  simp only [ha, bind, Except.bind] at h
  cases hr : ruleOf g up r.vals a with
  | error err => simp [hr] at h
  | ok rule =>
  simp only [hr] at h
  -- an application that is not a call of a tracer adds no tracked call
  have notCall : (∀ fn args kwargs deps out, a ≠ .call fn args kwargs deps out) →
      ∀ j' y args kwargs deps out, Visit.app j = Visit.app j' → g.apps[j']? = some (.call (.var y) args kwargs deps out) →
        isAllowInline g (.var y) = false → False := by
    intro hne j' y args kwargs deps out hv ha' _
    cases hv
    rw [ha] at ha'
    exact hne _ _ _ _ _ (Option.some.inj ha')
  cases a with
  | call fn args kwargs deps out =>
    simp only [ruleOf, bind, Except.bind] at hr
    cases hf : convTop r.vals fn with
    | error err => simp [hf] at hr
    | ok f =>
    simp only [hf] at hr
    cases has : args.mapM (convTop r.vals) with
    | error err => simp [has] at hr
    | ok as =>
    simp only [has] at hr
    cases hks : convKw r.vals kwargs with
    | error err => simp [hks] at hr
    | ok ks =>
    simp only [hks, pure, Except.pure, Except.ok.injEq] at hr
    subst hr
    obtain ⟨vals', hset, hv, htr⟩ := refRule_define r r' _ _ _ _ _ h
    cases hal : isAllowInline g fn with
    | true =>
      simp only [hal, Bool.not_true, Bool.false_eq_true, if_false] at hset htr
      refine ⟨?_, [], by simpa using htr, stepEvs_nil g q P _ ?_⟩
      · rw [hv]
        exact store_inv hq T j _ ha r.vals vals' _ hset hinv
          (Or.inl ⟨hq.not_mk _ _ (by intro nm; simp), rfl, rfl⟩)
      · intro j' y args' kwargs' deps' out' hv' ha' hal'
        cases hv'
        rw [ha] at ha'
        simp only [Option.some.injEq, App.call.injEq] at ha'
        rw [ha'.1, hal'] at hal
        cases hal
    | false =>
      simp only [hal, Bool.not_false, if_true] at hset htr
      refine ⟨?_, [.call (E.mk .call (f :: as ++ ks))], htr, ?_, ?_⟩
      · rw [hv]
        exact store_inv hq T j _ ha r.vals vals' _ hset hinv (Or.inl ⟨hq.res _, rfl, rfl⟩)
      · intro ev hev ht
        simp only [List.mem_singleton] at hev
        subst hev
        rw [List.cons_append, trackedCall_mk] at ht
        obtain ⟨y, rfl, hmem⟩ := convTop_tracked hq r.vals hinv.sound fn f hf ht
        obtain ⟨y', hy', hPy⟩ := hinv.sound _ hmem ht
        simp only [E.var.injEq] at hy'
        subst hy'
        exact ⟨j, y, args, kwargs, deps, out, rfl, ha, hPy⟩
      · intro j' y args' kwargs' deps' out' hv' ha' hPy _
        cases hv'
        rw [ha] at ha'
        simp only [Option.some.injEq, App.call.injEq] at ha'
        obtain ⟨rfl, rfl, rfl, rfl, rfl⟩ := ha'
        refine ⟨f, as, ks, rfl, ?_, mapM_ok_length _ _ _ has, convKw_names _ _ _ hks⟩
        exact hinv.compl _ (convTop_var_mem r.vals y f hf) y rfl hPy
  | callInplace xs fn args kwargs deps out =>
    simp only [ruleOf, bind, Except.bind] at hr
    cases hx : convTop r.vals xs with
    | error err => simp [hx] at hr
    | ok x =>
    simp only [hx] at hr
    cases hf : convTop r.vals fn with
    | error err => simp [hf] at hr
    | ok f =>
    simp only [hf] at hr
    cases has : args.mapM (convTop r.vals) with
    | error err => simp [has] at hr
    | ok as =>
    simp only [has] at hr
    cases hks : convKw r.vals kwargs with
    | error err => simp [hks] at hr
    | ok ks =>
    simp only [hks, pure, Except.pure, Except.ok.injEq] at hr
    subst hr
    obtain ⟨vals', hset, hv, htr⟩ := refRule_effect r r' _ _ _ h
    refine ⟨?_, _, htr, stepEvs_untracked g q P _ _ ?_ (notCall (by intro _ _ _ _ _ hc; cases hc))⟩
    · rw [hv]
      exact store_inv hq T j _ ha r.vals vals' _ hset hinv (Or.inr (Or.inr ⟨xs, rfl, hx⟩))
    · intro ev hev
      simp only [Stmt.event?, Option.toList, List.mem_singleton] at hev
      subst hev
      rfl
  | getattr obj key out =>
    simp only [ruleOf, bind, Except.bind] at hr
    cases ho : convTop r.vals obj with
    | error err => simp [ho] at hr
    | ok o =>
    simp only [ho, pure, Except.pure, Except.ok.injEq] at hr
    subst hr
    obtain ⟨vals', hset, hv, htr⟩ := refRule_define r r' _ _ _ _ _ h
    simp only [Bool.false_eq_true, if_false] at hset htr
    refine ⟨?_, [], by simpa using htr, stepEvs_nil g q P _ (notCall (by intro _ _ _ _ _ hc; cases hc))⟩
    rw [hv]
    exact store_inv hq T j _ ha r.vals vals' _ hset hinv (Or.inl ⟨hq.not_mk _ _ (by intro nm; simp), rfl, rfl⟩)
  | getitem obj key out =>
    simp only [ruleOf, bind, Except.bind] at hr
    cases he : atExpr r.vals obj key with
    | error err => simp [he] at hr
    | ok e =>
    simp only [he, pure, Except.pure, Except.ok.injEq] at hr
    subst hr
    obtain ⟨l, rfl⟩ := atExpr_form _ _ _ _ he
    obtain ⟨vals', hset, hv, htr⟩ := refRule_define r r' _ _ _ _ _ h
    simp only [Bool.false_eq_true, if_false] at hset htr
    refine ⟨?_, [], by simpa using htr, stepEvs_nil g q P _ (notCall (by intro _ _ _ _ _ hc; cases hc))⟩
    rw [hv]
    exact store_inv hq T j _ ha r.vals vals' _ hset hinv (Or.inl ⟨hq.not_mk _ _ (by intro nm; simp), rfl, rfl⟩)
  | updateitem obj key value op out =>
    simp only [ruleOf, bind, Except.bind] at hr
    cases he : atExpr r.vals obj key with
    | error err => simp [he] at hr
    | ok e =>
    simp only [he] at hr
    cases hvv : convTop r.vals value with
    | error err => simp [hvv] at hr
    | ok vv =>
    simp only [hvv] at hr
    cases ho : convTop r.vals obj with
    | error err => simp [ho] at hr
    | ok o =>
    simp only [ho, pure, Except.pure, Except.ok.injEq] at hr
    subst hr
    obtain ⟨vals', hset, hv, htr⟩ := refRule_effect r r' _ _ _ h
    refine ⟨?_, _, htr, stepEvs_untracked g q P _ _ ?_ (notCall (by intro _ _ _ _ _ hc; cases hc))⟩
    · rw [hv]
      exact store_inv hq T j _ ha r.vals vals' _ hset hinv (Or.inr (Or.inr ⟨obj, rfl, ho⟩))
    · intro ev hev
      simp only [Stmt.event?, Option.toList, List.mem_singleton] at hev
      subst hev
      rfl
  | import_ imp from_ as_ out =>
    simp only [ruleOf, pure, Except.pure, Except.ok.injEq] at hr
    subst hr
    obtain ⟨vals', hset, hv, htr⟩ := refRule_import r r' _ _ _ _ h
    refine ⟨?_, [], by simpa using htr, stepEvs_nil g q P _ (notCall (by intro _ _ _ _ _ hc; cases hc))⟩
    rw [hv]
    exact store_inv hq T j _ ha r.vals vals' _ hset hinv (Or.inl ⟨hq.mod _ _, rfl, rfl⟩)
  | operator op operands out =>
    simp only [ruleOf, bind, Except.bind] at hr
    cases hos : operands.mapM (convTop r.vals) with
    | error err => simp [hos] at hr
    | ok os =>
    simp only [hos] at hr
    have fin : ∀ e : E, (∀ nm, ∀ a', e ≠ .node (.atom nm) a') → (∃ tag l, e = E.mk tag l ∧ ∀ nm, tag ≠ .atom nm) →
        refRule r (.define (.var out) e false false false) = .ok r' →
        MemoInv q P r'.vals ∧ ∃ evs, r'.trace = r.trace ++ evs ∧ StepEvs g q P (.app j) evs := by
      intro e _ ⟨tag, l, he, htag⟩ h'
      obtain ⟨vals', hset, hv, htr⟩ := refRule_define r r' _ _ _ _ _ h'
      simp only [Bool.false_eq_true, if_false] at hset htr
      refine ⟨?_, [], by simpa using htr, stepEvs_nil g q P _ (notCall (by intro _ _ _ _ _ hc; cases hc))⟩
      rw [hv]
      exact store_inv hq T j _ ha r.vals vals' _ hset hinv (Or.inl ⟨by rw [he]; exact hq.not_mk _ _ htag, rfl, rfl⟩)
    match os, hr with
    | [x], hr =>
      simp only [pure, Except.pure, Except.ok.injEq] at hr
      subst hr
      exact fin _ (by intro nm a'; cases up <;> simp [E.mk]) ⟨_, _, rfl, by intro nm; cases up <;> simp⟩ h
    | [x, y], hr =>
      simp only [pure, Except.pure, Except.ok.injEq] at hr
      subst hr
      exact fin _ (by intro nm a'; simp [E.mk]) ⟨_, _, rfl, by intro nm; simp⟩ h
    | [], hr => simp [throw, throwThe, MonadExceptOf.throw] at hr
    | _ :: _ :: _ :: _, hr => simp [throw, throwThe, MonadExceptOf.throw] at hr
  | builtin name out =>
    simp only [ruleOf, pure, Except.pure, Except.ok.injEq] at hr
    subst hr
    obtain ⟨vals', hset, hv, htr⟩ := refRule_define r r' _ _ _ _ _ h
    simp only [Bool.false_eq_true, if_false] at hset htr
    refine ⟨?_, [], by simpa using htr, stepEvs_nil g q P _ (notCall (by intro _ _ _ _ _ hc; cases hc))⟩
    rw [hv]
    exact store_inv hq T j _ ha r.vals vals' _ hset hinv (Or.inl ⟨hq.not_lit _, rfl, rfl⟩)
  | assert_ xs cond msg out =>
    simp only [ruleOf, bind, Except.bind] at hr
    cases hx : convTop r.vals xs with
    | error err => simp [hx] at hr
    | ok x =>
    simp only [hx] at hr
    cases hcn : convTop r.vals cond with
    | error err => simp [hcn] at hr
    | ok cnd =>
    simp only [hcn, pure, Except.pure, Except.ok.injEq] at hr
    subst hr
    obtain ⟨vals', hset, hv, htr⟩ := refRule_effect r r' _ _ _ h
    refine ⟨?_, _, htr, stepEvs_untracked g q P _ _ ?_ (notCall (by intro _ _ _ _ _ hc; cases hc))⟩
    · rw [hv]
      exact store_inv hq T j _ ha r.vals vals' _ hset hinv (Or.inr (Or.inr ⟨xs, rfl, hx⟩))
    · intro ev hev
      simp only [Stmt.event?, Option.toList, List.mem_singleton] at hev
      subst hev
      rfl
  | constant str out =>
    simp only [ruleOf, pure, Except.pure, Except.ok.injEq] at hr
    subst hr
    obtain ⟨vals', hset, hv, htr⟩ := refRule_constant r r' _ _ h
    refine ⟨?_, [], by simpa using htr, stepEvs_nil g q P _ (notCall (by intro _ _ _ _ _ hc; cases hc))⟩
    rw [hv]
    exact store_inv hq T j _ ha r.vals vals' _ hset hinv (Or.inr (Or.inl ⟨rfl, _, rfl⟩))
  | cast input out =>
    simp only [ruleOf, bind, Except.bind] at hr
    cases hx : convTop r.vals input with
    | error err => simp [hx] at hr
    | ok x =>
    simp only [hx, pure, Except.pure, Except.ok.injEq] at hr
    subst hr
    obtain ⟨vals', hset, hv, htr⟩ := refRule_define r r' _ _ _ _ _ h
    simp only [Bool.false_eq_true, if_false] at hset htr
    refine ⟨?_, [], by simpa using htr, stepEvs_nil g q P _ (notCall (by intro _ _ _ _ _ hc; cases hc))⟩
    rw [hv]
    exact store_inv hq T j _ ha r.vals vals' _ hset hinv (Or.inr (Or.inr ⟨input, rfl, hx⟩))

/-! ### Entering and leaving a graph; whole traversals -/

theorem inputs_inv {q : E → Bool} {P : Nat → Prop} (hq : QOK q) : ∀ (l : List Nat) (vals vals' : List (E × E)),
    l.foldlM (fun vals t => setCache 64 vals (.var t) (inAtom t)) vals = .ok vals' → MemoInv q P vals →
    (∀ t ∈ l, (q (inAtom t) = true ↔ P t)) → MemoInv q P vals' := by
  intro l
  induction l with
  | nil =>
    intro vals vals' h hinv _
    simp only [List.foldlM_nil, pure, Except.pure, Except.ok.injEq] at h
    subst h
    exact hinv
  | cons t rest ih =>
    intro vals vals' h hinv hl
    simp only [List.foldlM_cons, bind, Except.bind] at h
    cases h1 : setCache 64 vals (.var t) (inAtom t) with
    | error err => simp [h1] at h
    | ok v1 =>
      simp only [h1] at h
      refine ih v1 vals' h ?_ (fun t' ht' => hl t' (List.mem_cons_of_mem _ ht'))
      apply memoInv_setCache hq 64 vals v1 (.var t) (inAtom t) hinv h1
      · intro hqt
        exact ⟨t, rfl, (hl t (by simp)).1 hqt⟩
      · intro y hy hPy
        simp only [regKeys, keyOf, Option.toList, List.mem_singleton, E.var.injEq] at hy
        subst hy
        exact ⟨rfl, (hl y (by simp)).2 hPy⟩

theorem refVisit_enter {g : Graph} {q : E → Bool} {P : Nat → Prop} {entered : Nat → Prop} (hq : QOK q) (T : Track g q P entered)
    (up : Bool) (r r' : RState) (k : Nat) (hk : entered k) (h : refVisit g up r (.enter k) = .ok r') (hinv : MemoInv q P r.vals) :
    MemoInv q P r'.vals ∧ r'.trace = r.trace := by
  simp only [refVisit] at h
  cases hg : g.graphs[k]? with
  | none => simp [hg, throw, throwThe, MonadExceptOf.throw] at h
  | some sg =>
    simp only [hg, bind, Except.bind] at h
    cases h1 : setCache 64 r.vals (.gref k) (closAtom k) with
    | error err => simp [h1] at h
    | ok v1 =>
      simp only [h1] at h
      cases h2 : sg.inputs.foldlM (fun vals t => setCache 64 vals (.var t) (inAtom t)) v1 with
      | error err => simp [h2] at h
      | ok v2 =>
        simp only [h2, pure, Except.pure, Except.ok.injEq] at h
        subst h
        refine ⟨?_, rfl⟩
        have hinv1 : MemoInv q P v1 := by
          apply memoInv_setCache hq 64 r.vals v1 (.gref k) (closAtom k) hinv h1
          · intro hqc; rw [hq.clos k] at hqc; cases hqc
          · intro y hy; simp [regKeys, keyOf] at hy
        exact inputs_inv hq sg.inputs v1 v2 h2 hinv1 (fun t ht => T.inp k sg t hk hg ht)

theorem refVisit_exit (g : Graph) (up : Bool) (r r' : RState) (k : Nat) (h : refVisit g up r (.exit k) = .ok r') :
    r'.vals = r.vals ∧ r'.trace = r.trace := by
  simp only [refVisit] at h
  cases hg : g.graphs[k]? with
  | none => simp [hg, throw, throwThe, MonadExceptOf.throw] at h
  | some sg =>
    simp only [hg, bind, Except.bind] at h
    cases h1 : convTop r.vals sg.output with
    | error err => simp [h1] at h
    | ok t =>
      simp only [h1, pure, Except.pure, Except.ok.injEq] at h
      subst h
      exact ⟨rfl, rfl⟩

/-- Any step: invariant kept, events described. -/
theorem refVisit_step {g : Graph} {q : E → Bool} {P : Nat → Prop} {entered : Nat → Prop} (hq : QOK q) (T : Track g q P entered)
    (up : Bool) (r r' : RState) (v : Visit) (hent : ∀ k, v = .enter k → entered k) (h : refVisit g up r v = .ok r')
    (hinv : MemoInv q P r.vals) :
    MemoInv q P r'.vals ∧ ∃ evs, r'.trace = r.trace ++ evs ∧ StepEvs g q P v evs := by
  cases v with
  | app j => exact refVisit_app hq T up r r' j h hinv
  | enter k =>
    obtain ⟨h1, h2⟩ := refVisit_enter hq T up r r' k (hent k rfl) h hinv
    exact ⟨h1, [], by simpa using h2, stepEvs_nil g q P _ (by intro _ _ _ _ _ _ hv; cases hv)⟩
  | exit k =>
    obtain ⟨h1, h2⟩ := refVisit_exit g up r r' k h
    exact ⟨by rw [h1]; exact hinv, [], by simpa using h2, stepEvs_nil g q P _ (by intro _ _ _ _ _ _ hv; cases hv)⟩

/-- A stretch of the traversal without a call of a `P` tracer adds no tracked call event. -/
theorem segment_untracked {g : Graph} {q : E → Bool} {P : Nat → Prop} {entered : Nat → Prop} (hq : QOK q) (T : Track g q P entered)
    (up : Bool) : ∀ (order : List Visit) (r r' : RState), order.foldlM (refVisit g up) r = .ok r' → MemoInv q P r.vals →
      (∀ k, Visit.enter k ∈ order → entered k) → (∀ v ∈ order, ¬ PCall g P v) →
      MemoInv q P r'.vals ∧ ∃ evs, r'.trace = r.trace ++ evs ∧ evs.filter (trackedCall q) = [] := by
  intro order
  induction order with
  | nil =>
    intro r r' h hinv _ _
    simp only [List.foldlM_nil, pure, Except.pure, Except.ok.injEq] at h
    subst h
    exact ⟨hinv, [], by simp, rfl⟩
  | cons v rest ih =>
    intro r r' h hinv hent hno
    simp only [List.foldlM_cons, bind, Except.bind] at h
    cases h1 : refVisit g up r v with
    | error err => simp [h1] at h
    | ok r1 =>
      simp only [h1] at h
      obtain ⟨hinv1, evs1, e1, s1⟩ := refVisit_step hq T up r r1 v (fun k hv => hent k (by rw [hv]; simp)) h1 hinv
      obtain ⟨hinv2, evs2, e2, f2⟩ := ih r1 r' h hinv1 (fun k hk => hent k (List.mem_cons_of_mem _ hk))
        (fun v' hv' => hno v' (List.mem_cons_of_mem _ hv'))
      refine ⟨hinv2, evs1 ++ evs2, by rw [e2, e1, List.append_assoc], ?_⟩
      rw [List.filter_append, f2, List.append_nil]
      apply List.filter_eq_nil_iff.2
      intro ev hev ht
      exact hno v (by simp) (s1.1 ev hev ht)

/-- **Exactly one tracked call event**: along a traversal without repetition that visits the call `i` of a `P` tracer — the only
such call it visits —, the trace of the reference evaluation contains exactly one call event whose function term is a tracked
atom: the event of node `i`, with the node's number of positional arguments and keyword names. -/
theorem tracked_call_once {g : Graph} {q : E → Bool} {P : Nat → Prop} {entered : Nat → Prop} (hq : QOK q) (T : Track g q P entered)
    (up : Bool) (order : List Visit) (r : RState) (h : evalGraph g up order = .ok r) (hnd : order.Nodup)
    (hent : ∀ k, Visit.enter k ∈ order → entered k)
    (i y : Nat) (args : List E) (kwargs : List (String × E)) (deps : List E) (out : Nat)
    (ha : g.apps[i]? = some (.call (.var y) args kwargs deps out)) (hPy : P y) (hal : isAllowInline g (.var y) = false)
    (hi : Visit.app i ∈ order) (huniq : ∀ v ∈ order, PCall g P v → v = .app i) :
    ∃ f as ks, r.trace.filter (trackedCall q) = [.call (E.mk .call (f :: as ++ ks))] ∧ q f = true ∧
      as.length = args.length ∧ ks.map kwName = kwargs.map (fun kv => some kv.1) := by
  obtain ⟨pre, post, hsplit, hpre, hpost⟩ := mem_split_nodup order (.app i) hnd hi
  subst hsplit
  simp only [evalGraph] at h
  rw [List.foldlM_append] at h
  simp only [bind, Except.bind] at h
  cases h1 : pre.foldlM (refVisit g up) {} with
  | error err => simp [h1] at h
  | ok r1 =>
    simp only [h1, List.foldlM_cons, bind, Except.bind] at h
    cases h2 : refVisit g up r1 (.app i) with
    | error err => simp [h2] at h
    | ok r2 =>
      simp only [h2] at h
      have hno : ∀ (l : List Visit), (∀ v ∈ l, v ∈ pre ++ Visit.app i :: post) → Visit.app i ∉ l → ∀ v ∈ l, ¬ PCall g P v := by
        intro l hsub hni v hv hp
        have := huniq v (hsub v hv) hp
        rw [this] at hv
        exact hni hv
      obtain ⟨hinv1, evs1, e1, f1⟩ := segment_untracked hq T up pre {} r1 h1 (MemoInv.nil q P)
        (fun k hk => hent k (List.mem_append_left _ hk)) (hno pre (fun v hv => List.mem_append_left _ hv) hpre)
      obtain ⟨hinv2, evs2, e2, s2⟩ := refVisit_app hq T up r1 r2 i h2 hinv1
      obtain ⟨evs3, e3, f3⟩ := (segment_untracked hq T up post r2 r h hinv2
        (fun k hk => hent k (List.mem_append_right _ (List.mem_cons_of_mem _ hk)))
        (hno post (fun v hv => List.mem_append_right _ (List.mem_cons_of_mem _ hv)) hpost)).2
      obtain ⟨f, as, ks, hev, hqf, hlen, hnames⟩ := s2.2 i y args kwargs deps out rfl ha hPy hal
      refine ⟨f, as, ks, ?_, hqf, hlen, hnames⟩
      rw [e3, e2, e1]
      simp only [List.nil_append, List.filter_append, f1, f3, List.append_nil, hev]
      rw [List.cons_append] at hev ⊢
      simp [List.filter, trackedCall_mk, hqf]

end Einx.Exec
