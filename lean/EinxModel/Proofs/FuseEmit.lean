import EinxModel.Proofs.FuseAll
/-!
C04, name re-use, part 4: the statements `emitAll` produces define every variable at most once and lie in blocks that
`Ctx.blockFor` returned (or in the root block).

`Ext c st st' new`: a generator step from `st` to `st'` appended the statements `new`, whose output variables are fresh
(`st.vars.length ≤ o < st'.vars.length`), and only appended to the cache.  The one step that is not of this form is `exit g`,
which defines the function variable created by `enter g`.
-/
namespace Einx.Compile

/-- A block number the generator obtained from the scope map (or the root block). -/
def GoodBlk (c : Ctx) (b : Nat) : Prop := b = 0 ∨ ∃ x, c.blockFor x = .ok b

/-- The recorded block of the output variable of a statement that appears in the text is the block of the statement; the variable
of an import does not allow re-use. -/
def InfoOK (vars : List VarInfo) (p : Nat × Stmt) : Prop :=
  ∀ o ∈ p.2.outputVars, (p.2.isParam = false → blockOfV vars o = p.1) ∧ (p.2.isImport = true → reuseV vars o = false)

theorem blockOfV_append (vars more : List VarInfo) (o : Nat) (h : o < vars.length) :
    blockOfV (vars ++ more) o = blockOfV vars o := by
  simp [blockOfV, List.getElem?_append_left h]

theorem reuseV_append (vars more : List VarInfo) (o : Nat) (h : o < vars.length) :
    reuseV (vars ++ more) o = reuseV vars o := by
  simp [reuseV, List.getElem?_append_left h]

theorem InfoOK.append {vars : List VarInfo} {p : Nat × Stmt} (h : InfoOK vars p) (more : List VarInfo)
    (hlt : ∀ o ∈ p.2.outputVars, o < vars.length) : InfoOK (vars ++ more) p := by
  intro o ho
  rw [blockOfV_append _ _ _ (hlt o ho), reuseV_append _ _ _ (hlt o ho)]
  exact h o ho

structure Ext (c : Ctx) (st st' : GState) (new : List (Nat × Stmt)) : Prop where
  body : st'.bodyS = st.bodyS ++ new
  cache : ∃ more, st'.cache = st.cache ++ more
  blk : ∀ p ∈ new, GoodBlk c p.1
  vpre : ∃ more, st'.vars = st.vars ++ more
  outs : ∀ o ∈ outsOf (new.map (·.2)), st.vars.length ≤ o ∧ o < st'.vars.length
  nd : (outsOf (new.map (·.2))).Nodup
  info : ∀ p ∈ new, InfoOK st'.vars p

theorem Ext.vars {c : Ctx} {st st' : GState} {new : List (Nat × Stmt)} (h : Ext c st st' new) :
    st.vars.length ≤ st'.vars.length := by
  obtain ⟨more, hm⟩ := h.vpre
  rw [hm]; simp

theorem Ext.refl (c : Ctx) (st : GState) : Ext c st st [] :=
  ⟨by simp, ⟨[], by simp⟩, by simp, ⟨[], by simp⟩, by simp [outsOf], by simp [outsOf], by simp⟩

theorem Ext.trans {c : Ctx} {st s1 st' : GState} {n1 n2 : List (Nat × Stmt)} (h1 : Ext c st s1 n1) (h2 : Ext c s1 st' n2) :
    Ext c st st' (n1 ++ n2) := by
  obtain ⟨m1, e1⟩ := h1.cache
  obtain ⟨m2, e2⟩ := h2.cache
  obtain ⟨v1, f1⟩ := h1.vpre
  obtain ⟨v2, f2⟩ := h2.vpre
  refine ⟨by rw [h2.body, h1.body, List.append_assoc], ⟨m1 ++ m2, by rw [e2, e1, List.append_assoc]⟩, ?_,
    ⟨v1 ++ v2, by rw [f2, f1, List.append_assoc]⟩, ?_, ?_, ?_⟩
  · intro p hp
    rcases List.mem_append.1 hp with hp | hp
    · exact h1.blk p hp
    · exact h2.blk p hp
  · intro o ho
    rw [List.map_append, outsOf_append] at ho
    rcases List.mem_append.1 ho with ho | ho
    · have := h1.outs o ho
      have := h2.vars
      omega
    · have := h2.outs o ho
      have := h1.vars
      omega
  · rw [List.map_append, outsOf_append, List.nodup_append]
    refine ⟨h1.nd, h2.nd, ?_⟩
    intro a ha b hb hab
    have := h1.outs a ha
    have := h2.outs b hb
    omega
  · intro p hp
    rcases List.mem_append.1 hp with hp | hp
    · rw [f2]
      refine (h1.info p hp).append v2 ?_
      intro o ho
      exact (h1.outs o ((mem_outsOf _ _).2 ⟨p.2, List.mem_map.2 ⟨p, hp, rfl⟩, ho⟩)).2
    · exact h2.info p hp

theorem Ext.congr {c : Ctx} {st s1 s2 : GState} {new : List (Nat × Stmt)} (h : Ext c st s1 new)
    (hb : s2.body = s1.body) (hc : s2.cache = s1.cache) (hv : s2.vars = s1.vars) : Ext c st s2 new := by
  refine ⟨?_, ?_, h.blk, by rw [hv]; exact h.vpre, by rw [hv]; exact h.outs, h.nd, by rw [hv]; exact h.info⟩
  · have : s2.bodyS = s1.bodyS := by simp [GState.bodyS, hb]
    rw [this]; exact h.body
  · rw [hc]; exact h.cache

theorem bodyS_push (st : GState) (src : Option Nat) (new : List (Nat × Stmt)) : (st.push src new).bodyS = st.bodyS ++ new := by
  simp [GState.bodyS, GState.push, List.map_map, Function.comp_def]

/-- What a step may append: statements in good blocks whose output variables are fresh and recorded correctly. -/
def NewOK (c : Ctx) (st s1 : GState) (new : List (Nat × Stmt)) : Prop :=
  (∀ p ∈ new, GoodBlk c p.1) ∧ (∀ o ∈ outsOf (new.map (·.2)), st.vars.length ≤ o ∧ o < s1.vars.length) ∧
  (outsOf (new.map (·.2))).Nodup ∧ (∀ p ∈ new, InfoOK s1.vars p)

theorem NewOK.nil (c : Ctx) (st s1 : GState) : NewOK c st s1 [] := ⟨by simp, by simp [outsOf], by simp [outsOf], by simp⟩

/-- One statement without output variables. -/
theorem NewOK.noout (c : Ctx) (st s1 : GState) (b : Nat) (s : Stmt) (hb : GoodBlk c b) (hs : s.outputVars = []) :
    NewOK c st s1 [(b, s)] := by
  refine ⟨?_, by simp [outsOf, hs], by simp [outsOf, hs], ?_⟩
  · intro p hp; simp only [List.mem_singleton] at hp; subst hp; exact hb
  · intro p hp o ho; simp only [List.mem_singleton] at hp; subst hp; simp [hs] at ho

/-- One statement whose output is the variable `st.vars.length`, created by this step with the given record. -/
theorem NewOK.fresh (c : Ctx) (st s1 : GState) (b : Nat) (s : Stmt) (vi : VarInfo) (hb : GoodBlk c b)
    (hs : s.outputVars = [st.vars.length]) (hv : s1.vars = st.vars ++ [vi])
    (h1 : s.isParam = false → vi.block = b) (h2 : s.isImport = true → vi.reuse = false) : NewOK c st s1 [(b, s)] := by
  refine ⟨?_, ?_, by simp [outsOf, hs], ?_⟩
  · intro p hp; simp only [List.mem_singleton] at hp; subst hp; exact hb
  · intro o ho
    simp only [List.map_cons, List.map_nil, outsOf, List.flatMap_cons, List.flatMap_nil, hs, List.append_nil,
      List.mem_singleton] at ho
    subst ho
    rw [hv]; simp
  · intro p hp o ho
    simp only [List.mem_singleton] at hp
    subst hp
    simp only [hs, List.mem_singleton] at ho
    subst ho
    constructor
    · intro hp'; simp [blockOfV, hv, h1 hp']
    · intro hp'; simp [reuseV, hv, h2 hp']

/-- Appending statements with fresh output variables to the body. -/
theorem Ext.push {c : Ctx} {st s1 : GState} (h : Ext c st s1 []) (src : Option Nat) (new : List (Nat × Stmt))
    (hnew : NewOK c st s1 new) : Ext c st (s1.push src new) new := by
  refine ⟨?_, h.cache, hnew.1, h.vpre, hnew.2.1, hnew.2.2.1, hnew.2.2.2⟩
  rw [bodyS_push, h.body, List.append_nil]

theorem set_ext (c : Ctx) (st st1 : GState) (obj e : E) (h : st.set obj e = .ok st1) : Ext c st st1 [] := by
  obtain ⟨cache', hset, rfl⟩ := set_spec _ _ _ _ h
  obtain ⟨more, hm, _⟩ := setCache_append _ _ _ _ _ hset
  exact ⟨by simp [GState.bodyS], ⟨more, hm⟩, by simp, ⟨[], by simp⟩, by simp [outsOf], by simp [outsOf], by simp⟩

theorem addVar_ext (c : Ctx) (st st1 : GState) (obj : E) (reuse : Bool) (v : Nat) (h : st.addVar c obj reuse = .ok (v, st1)) :
    v = st.vars.length ∧ Ext c st st1 [] ∧ ∃ block, c.blockFor obj = .ok block ∧ st1.vars = st.vars ++ [⟨block, reuse⟩] := by
  obtain ⟨rfl, block, cache', hb, hset, rfl⟩ := addVar_spec c st st1 obj reuse v h
  obtain ⟨more, hm, _⟩ := setCache_append _ _ _ _ _ hset
  exact ⟨rfl, ⟨by simp [GState.bodyS], ⟨more, hm⟩, by simp, ⟨[_], rfl⟩, by simp [outsOf], by simp [outsOf], by simp⟩, block, hb, rfl⟩

/-- What `define` returns: nothing, or one assignment to a fresh variable in a block the scope map returned. -/
theorem define_ext (c : Ctx) (st st1 : GState) (obj e : E) (eff ni fi : Bool) (new : List (Nat × Stmt))
    (h : define c st obj e eff ni fi = .ok (st1, new)) : Ext c st st1 [] ∧ NewOK c st st1 new := by
  unfold define at h
  cases hu : usageGet c.counts c.g.fuel obj with
  | error err => simp [hu, bind, Except.bind] at h
  | ok n =>
    simp only [hu, bind, Except.bind] at h
    split at h
    · simp [throw, throwThe, MonadExceptOf.throw] at h
    · split at h
      · cases hs : st.set obj e with
        | error err => simp [hs] at h
        | ok s1 =>
          simp only [hs, pure, Except.pure, Except.ok.injEq, Prod.mk.injEq] at h
          obtain ⟨rfl, rfl⟩ := h
          exact ⟨set_ext c st s1 obj e hs, NewOK.nil c st s1⟩
      · cases ha : st.addVar c obj true with
        | error err => simp [ha] at h
        | ok p =>
          obtain ⟨v, s1⟩ := p
          simp only [ha] at h
          cases hb : c.blockFor obj with
          | error err => simp [hb] at h
          | ok b =>
            simp only [hb, pure, Except.pure, Except.ok.injEq, Prod.mk.injEq] at h
            obtain ⟨rfl, rfl⟩ := h
            obtain ⟨rfl, hext, block, hb', hvars⟩ := addVar_ext c st s1 obj true v ha
            rw [hb] at hb'
            simp only [Except.ok.injEq] at hb'
            subst hb'
            exact ⟨hext, NewOK.fresh c st s1 b _ _ (Or.inr ⟨obj, hb⟩) rfl hvars (fun _ => rfl) (by simp [Stmt.isImport])⟩

theorem event_outs (s : Stmt) (h : s.isEvent = true) : s.outputVars = [] := by
  cases s <;> simp [Stmt.isEvent] at h <;> rfl

theorem applyRule_ext (c : Ctx) (st st1 : GState) (rule : Rule) (new : List (Nat × Stmt)) (hwf : rule.WF)
    (h : applyRule c st rule = .ok (st1, new)) : Ext c st st1 [] ∧ NewOK c st st1 new := by
  cases rule with
  | define out e eff ni fi =>
    simp only [applyRule] at h
    exact define_ext c st st1 out e eff ni fi new h
  | effect s out e =>
    simp only [applyRule, bind, Except.bind] at h
    cases hb : c.blockFor out with
    | error err => simp [hb] at h
    | ok b =>
      simp only [hb] at h
      cases hd : define c st out e false false true with
      | error err => simp [hd] at h
      | ok p =>
        obtain ⟨s1, more'⟩ := p
        simp only [hd, pure, Except.pure, Except.ok.injEq, Prod.mk.injEq] at h
        obtain ⟨rfl, rfl⟩ := h
        have hmore := (define_new c st s1 out e false false true more' hd).2.2 rfl
        subst hmore
        obtain ⟨hext, _⟩ := define_ext c st s1 out e false false true [] hd
        exact ⟨hext, NewOK.noout c st s1 b s (Or.inr ⟨out, hb⟩) (event_outs s hwf)⟩
  | import_ out from_ imp hint =>
    simp only [applyRule, bind, Except.bind] at h
    cases ha : st.addVar c (.var out) false with
    | error err => simp [ha] at h
    | ok p =>
      obtain ⟨v, s1⟩ := p
      simp only [ha] at h
      cases hb : c.blockFor (.var out) with
      | error err => simp [hb] at h
      | ok b =>
        simp only [hb] at h
        split at h
        · simp [throw, throwThe, MonadExceptOf.throw] at h
        · rename_i hb0
          simp only [pure, Except.pure, Except.ok.injEq, Prod.mk.injEq] at h
          obtain ⟨rfl, rfl⟩ := h
          obtain ⟨rfl, hext, block, hb', hvars⟩ := addVar_ext c st s1 _ false v ha
          rw [hb] at hb'
          simp only [Except.ok.injEq] at hb'
          subst hb'
          have hb0' : b = 0 := by simpa using hb0
          have hnew : NewOK c st s1 [(0, Stmt.import_ st.vars.length from_ imp)] :=
            NewOK.fresh c st s1 0 _ _ (Or.inl rfl) rfl hvars (fun _ => hb0') (fun _ => rfl)
          cases hint with
          | none => exact ⟨hext.congr rfl rfl rfl, hnew⟩
          | some n => exact ⟨hext.congr rfl rfl rfl, hnew⟩
  | constant out str =>
    simp only [applyRule, bind, Except.bind] at h
    cases ha : st.addVar c (.var out) false with
    | error err => simp [ha] at h
    | ok p =>
      obtain ⟨v, s1⟩ := p
      simp only [ha, pure, Except.pure, Except.ok.injEq, Prod.mk.injEq] at h
      obtain ⟨rfl, rfl⟩ := h
      obtain ⟨rfl, hext, block, _, hvars⟩ := addVar_ext c st s1 _ false v ha
      exact ⟨hext.congr rfl rfl rfl,
        NewOK.fresh c st _ 0 _ _ (Or.inl rfl) rfl hvars (by simp [Stmt.isParam]) (by simp [Stmt.isImport])⟩

/-- One application. -/
theorem app_ext (c : Ctx) (st st' : GState) (i : Nat) (h : emitVisit c st (.app i) = .ok st') : ∃ new, Ext c st st' new := by
  cases ha : c.g.apps[i]? with
  | none => simp [emitVisit, ha, throw, throwThe, MonadExceptOf.throw] at h
  | some a =>
    simp only [emitVisit, ha, emitApp, bind, Except.bind] at h
    cases hr : ruleOf c.g c.cfg.unaryParens st.cache a with
    | error err => simp [hr] at h
    | ok rule =>
      simp only [hr] at h
      cases hp : applyRule c st (patchForce c.g c.cfg a rule) with
      | error err => simp [hp] at h
      | ok p =>
        obtain ⟨s1, new⟩ := p
        simp only [hp, pure, Except.pure, Except.ok.injEq] at h
        subst h
        obtain ⟨hext, hnew⟩ := applyRule_ext c st s1 _ new (patchForce_wf _ _ _ _ (ruleOf_wf _ _ _ _ _ hr)) hp
        exact ⟨new, hext.push (some i) new hnew⟩

theorem param_ext (c : Ctx) (st st' : GState) (t : Nat) (h : enterParam c st t = .ok st') : ∃ new, Ext c st st' new := by
  simp only [enterParam, bind, Except.bind] at h
  cases ha : st.addVar c (.var t) true with
  | error err => simp [ha] at h
  | ok p =>
    obtain ⟨v, s1⟩ := p
    simp only [ha, pure, Except.pure, Except.ok.injEq] at h
    subst h
    obtain ⟨rfl, hext, block, hb, hvars⟩ := addVar_ext c st s1 _ true v ha
    refine ⟨_, hext.push none _ (NewOK.fresh c st s1 _ _ _ ?_ rfl hvars (by simp [Stmt.isParam]) (by simp [Stmt.isImport]))⟩
    refine Or.inr ⟨.var t, ?_⟩
    rw [hb, hvars]
    simp

theorem params_ext (c : Ctx) (inputs : List Nat) : ∀ (st st' : GState), inputs.foldlM (enterParam c) st = .ok st' →
    ∃ new, Ext c st st' new := by
  induction inputs with
  | nil =>
    intro st st' h
    simp only [List.foldlM_nil, pure, Except.pure, Except.ok.injEq] at h
    subst h
    exact ⟨[], Ext.refl c st⟩
  | cons t rest ih =>
    intro st st' h
    simp only [List.foldlM_cons, bind, Except.bind] at h
    cases h1 : enterParam c st t with
    | error err => simp [h1] at h
    | ok s1 =>
      simp only [h1] at h
      obtain ⟨n1, e1⟩ := param_ext c st s1 t h1
      obtain ⟨n2, e2⟩ := ih s1 st' h
      exact ⟨n1 ++ n2, e1.trans e2⟩

/-- `enter g`: a fresh function variable is cached for the graph (no statement yet), then the parameters are bound. -/
theorem enter_ext (c : Ctx) (st st' : GState) (gi : Nat) (h : emitVisit c st (.enter gi) = .ok st') :
    ∃ s1 new blk, Ext c st s1 [] ∧ s1.vars.length = st.vars.length + 1 ∧
      assocGet s1.cache (.gref gi) = some (.var st.vars.length) ∧ c.blockFor (.gref gi) = .ok blk ∧
      blockOfV s1.vars st.vars.length = blk ∧ Ext c s1 st' new := by
  simp only [emitVisit] at h
  cases hg : c.g.graphs[gi]? with
  | none => simp [hg, throw, throwThe, MonadExceptOf.throw] at h
  | some sg =>
    simp only [hg, bind, Except.bind] at h
    cases ha : st.addVar c (.gref gi) true with
    | error err => simp [ha] at h
    | ok p =>
      obtain ⟨fv, s1⟩ := p
      simp only [ha] at h
      obtain ⟨hfv, hext, block, hblock, hvars⟩ := addVar_ext c st s1 _ true fv ha
      obtain ⟨_, block', cache', _, hset, hs1⟩ := addVar_spec c st s1 _ true fv ha
      obtain ⟨hm, hnone⟩ := setCache_gref _ _ _ _ hset
      have hget : assocGet s1.cache (.gref gi) = some (.var st.vars.length) := by
        rw [hs1, hm]
        exact assocGet_append_none _ _ _ hnone
      have hlen : s1.vars.length = st.vars.length + 1 := by rw [hvars]; simp
      have hbo : blockOfV s1.vars st.vars.length = block := by simp [blockOfV, hvars]
      cases hn : sg.name with
      | none =>
        simp only [hn] at h
        obtain ⟨new, e⟩ := params_ext c sg.inputs _ st' h
        exact ⟨s1, new, block, hext, hlen, hget, hblock, hbo, e⟩
      | some n =>
        simp only [hn] at h
        obtain ⟨new, e⟩ := params_ext c sg.inputs _ st' h
        exact ⟨{ s1 with hints := s1.hints ++ [(fv, n)] }, new, block, hext.congr rfl rfl rfl, hlen, hget, hblock, hbo, e⟩

/-- `exit g`: the `return` statement of the inner block and the `def` statement that defines the function variable. -/
theorem exit_out (c : Ctx) (st st' : GState) (gi : Nat) (h : emitVisit c st (.exit gi) = .ok st') :
    ∃ fv params inner outer r, st'.bodyS = st.bodyS ++ [(inner, Stmt.return_ r), (outer, Stmt.def_ fv params inner gi)] ∧
      assocGet st.cache (.gref gi) = some (.var fv) ∧ st'.cache = st.cache ∧ st'.vars = st.vars ∧
      GoodBlk c inner ∧ c.blockFor (.gref gi) = .ok outer := by
  simp only [emitVisit] at h
  cases hg : c.g.graphs[gi]? with
  | none => simp [hg, throw, throwThe, MonadExceptOf.throw] at h
  | some sg =>
    simp only [hg, bind, Except.bind] at h
    cases ho : c.blockFor (.gref gi) with
    | error err => simp [ho] at h
    | ok outer =>
    cases hi : c.blockFor sg.output with
    | error err => simp [ho, hi] at h
    | ok inner =>
    cases hf : varOf st.cache (.gref gi) with
    | error err => simp [ho, hi, hf] at h
    | ok fv =>
    cases hps : sg.inputs.mapM (fun t => varOf st.cache (.var t)) with
    | error err => simp [ho, hi, hf, hps] at h
    | ok params =>
    cases hr : convTop st.cache sg.output with
    | error err => simp [ho, hi, hf, hps, hr] at h
    | ok rr =>
      simp only [ho, hi, hf, hps, hr, pure, Except.pure, Except.ok.injEq] at h
      subst h
      have hcache : assocGet st.cache (.gref gi) = some (.var fv) := by
        unfold varOf at hf
        split at hf
        · rename_i v hv; simp only [Except.ok.injEq] at hf; subst hf; exact hv
        · simp at hf
      exact ⟨fv, params, inner, outer, rr, bodyS_push _ _ _, hcache, rfl, rfl, Or.inr ⟨_, hi⟩, rfl⟩

/-! ### Single definitions -/

/-- `fvs`: (graph, function variable) of the nested graphs entered so far; `ex`: the graphs that were closed. -/
structure SD (c : Ctx) (st : GState) (fvs : List (Nat × Nat)) (ex : List Nat) : Prop where
  nd : (outsOf st.program).Nodup
  lt : ∀ v ∈ outsOf st.program, v < st.vars.length
  fv : ∀ p ∈ fvs, assocGet st.cache (.gref p.1) = some (.var p.2) ∧ p.2 < st.vars.length ∧ (p.2 ∈ outsOf st.program → p.1 ∈ ex) ∧
    c.blockFor (.gref p.1) = .ok (blockOfV st.vars p.2)
  inj : ∀ p ∈ fvs, ∀ q ∈ fvs, p.2 = q.2 → p.1 = q.1
  blk : ∀ p ∈ st.bodyS, GoodBlk c p.1
  info : ∀ p ∈ st.bodyS, InfoOK st.vars p

theorem program_of_bodyS {st st' : GState} {new : List (Nat × Stmt)} (h : st'.bodyS = st.bodyS ++ new) :
    st'.program = st.program ++ new.map (·.2) := by
  rw [← bodyS_program, ← bodyS_program, h, List.map_append]

theorem mem_bodyS_outs {st : GState} {p : Nat × Stmt} (hp : p ∈ st.bodyS) : ∀ o ∈ p.2.outputVars, o ∈ outsOf st.program := by
  intro o ho
  rw [← bodyS_program]
  exact (mem_outsOf _ _).2 ⟨p.2, List.mem_map.2 ⟨p, hp, rfl⟩, ho⟩

theorem SD.ext {c : Ctx} {st st' : GState} {fvs : List (Nat × Nat)} {ex : List Nat} {new : List (Nat × Stmt)}
    (h : SD c st fvs ex) (he : Ext c st st' new) : SD c st' fvs ex := by
  have hp := program_of_bodyS he.body
  obtain ⟨more, hm⟩ := he.cache
  obtain ⟨vmore, hvm⟩ := he.vpre
  refine ⟨?_, ?_, ?_, h.inj, ?_, ?_⟩
  · rw [hp, outsOf_append, List.nodup_append]
    refine ⟨h.nd, he.nd, ?_⟩
    intro a ha b hb hab
    have := h.lt a ha
    have := he.outs b hb
    omega
  · intro v hv
    rw [hp, outsOf_append] at hv
    rcases List.mem_append.1 hv with hv | hv
    · exact Nat.lt_of_lt_of_le (h.lt v hv) he.vars
    · exact (he.outs v hv).2
  · intro p hp'
    obtain ⟨h1, h2, h3, h4⟩ := h.fv p hp'
    refine ⟨by rw [hm]; exact assocGet_append_some _ _ _ _ h1, Nat.lt_of_lt_of_le h2 he.vars, ?_, ?_⟩
    · intro hv
      rw [hp, outsOf_append] at hv
      rcases List.mem_append.1 hv with hv | hv
      · exact h3 hv
      · have := he.outs _ hv
        omega
    · rw [hvm, blockOfV_append _ _ _ h2]; exact h4
  · intro p hp'
    rw [he.body] at hp'
    rcases List.mem_append.1 hp' with hp' | hp'
    · exact h.blk p hp'
    · exact he.blk p hp'
  · intro p hp'
    rw [he.body] at hp'
    rcases List.mem_append.1 hp' with hp' | hp'
    · rw [hvm]
      exact (h.info p hp').append vmore (fun o ho => h.lt o (mem_bodyS_outs hp' o ho))
    · exact he.info p hp'

theorem SD.enter {c : Ctx} {st s1 : GState} {fvs : List (Nat × Nat)} {ex : List Nat} (h : SD c st fvs ex) (gi : Nat)
    (he : Ext c st s1 []) (hlen : s1.vars.length = st.vars.length + 1)
    (hget : assocGet s1.cache (.gref gi) = some (.var st.vars.length))
    (hblk : c.blockFor (.gref gi) = .ok (blockOfV s1.vars st.vars.length)) : SD c s1 ((gi, st.vars.length) :: fvs) ex := by
  have h1 := h.ext he
  have hp : s1.program = st.program := by simpa using program_of_bodyS he.body
  refine ⟨h1.nd, h1.lt, ?_, ?_, h1.blk, h1.info⟩
  · intro p hp'
    rcases List.mem_cons.1 hp' with rfl | hp'
    · refine ⟨hget, by simp only; omega, ?_, hblk⟩
      intro hv
      rw [hp] at hv
      exact absurd (h.lt _ hv) (Nat.lt_irrefl _)
    · exact h1.fv p hp'
  · intro p hp' q hq hpq
    rcases List.mem_cons.1 hp' with rfl | hp' <;> rcases List.mem_cons.1 hq with rfl | hq
    · rfl
    · have := (h.fv q hq).2.1
      simp only at hpq
      omega
    · have := (h.fv p hp').2.1
      simp only at hpq
      omega
    · exact h.inj p hp' q hq hpq

theorem SD.exit {c : Ctx} {st st' : GState} {fvs : List (Nat × Nat)} {ex : List Nat} (h : SD c st fvs ex) (gi fv : Nat)
    (params : List Nat) (inner outer : Nat) (r : E)
    (hb : st'.bodyS = st.bodyS ++ [(inner, Stmt.return_ r), (outer, Stmt.def_ fv params inner gi)])
    (hget : assocGet st.cache (.gref gi) = some (.var fv)) (hc : st'.cache = st.cache) (hv : st'.vars = st.vars)
    (hin : GoodBlk c inner) (hout : c.blockFor (.gref gi) = .ok outer) (hen : gi ∈ fvs.map (·.1)) (hex : gi ∉ ex) :
    SD c st' fvs (gi :: ex) := by
  have hp : st'.program = st.program ++ [Stmt.return_ r, Stmt.def_ fv params inner gi] := by
    simpa using program_of_bodyS hb
  have houts : outsOf st'.program = outsOf st.program ++ [fv] := by
    rw [hp, outsOf_append]; simp [outsOf, Stmt.outputVars]
  obtain ⟨p0, hp0, hp0g⟩ := List.mem_map.1 hen
  have hfv0 := h.fv p0 hp0
  have hfv : p0.2 = fv := by
    rw [hp0g, hget] at hfv0
    simpa using hfv0.1.symm
  refine ⟨?_, ?_, ?_, h.inj, ?_, ?_⟩
  · rw [houts, List.nodup_append]
    refine ⟨h.nd, by simp, ?_⟩
    intro a ha b hb' hab
    simp only [List.mem_singleton] at hb'
    rw [hb'] at hab
    rw [hab, ← hfv] at ha
    exact hex (hp0g ▸ hfv0.2.2.1 ha)
  · intro v hv'
    rw [houts] at hv'
    rw [hv]
    rcases List.mem_append.1 hv' with hv' | hv'
    · exact h.lt v hv'
    · simp only [List.mem_singleton] at hv'
      rw [hv', ← hfv]
      exact hfv0.2.1
  · intro p hp'
    obtain ⟨h1, h2, h3, h4⟩ := h.fv p hp'
    refine ⟨by rw [hc]; exact h1, by rw [hv]; exact h2, ?_, by rw [hv]; exact h4⟩
    intro hv'
    rw [houts] at hv'
    rcases List.mem_append.1 hv' with hv' | hv'
    · exact List.mem_cons_of_mem _ (h3 hv')
    · simp only [List.mem_singleton] at hv'
      have := h.inj p hp' p0 hp0 (by rw [hv', hfv])
      rw [this, hp0g]
      exact List.mem_cons_self
  · intro p hp'
    rw [hb] at hp'
    rcases List.mem_append.1 hp' with hp' | hp'
    · exact h.blk p hp'
    · simp only [List.mem_cons, List.not_mem_nil, or_false] at hp'
      rcases hp' with rfl | rfl
      · exact hin
      · exact Or.inr ⟨_, hout⟩
  · intro p hp'
    rw [hb] at hp'
    rw [hv]
    rcases List.mem_append.1 hp' with hp' | hp'
    · exact h.info p hp'
    · simp only [List.mem_cons, List.not_mem_nil, or_false] at hp'
      rcases hp' with rfl | rfl
      · intro o ho; simp [Stmt.outputVars] at ho
      · intro o ho
        simp only [Stmt.outputVars, List.mem_singleton] at ho
        subst ho
        refine ⟨fun _ => ?_, by simp [Stmt.isImport]⟩
        have h4 := hfv0.2.2.2
        rw [hp0g, hout, hfv] at h4
        simpa using h4.symm

theorem SD.init (c : Ctx) : SD c {} [] [] :=
  ⟨by simp [outsOf, GState.program], by simp [outsOf, GState.program], by simp, by simp, by simp [GState.bodyS],
   by simp [GState.bodyS]⟩

/-- **Single definitions along a traversal** that is well bracketed and visits every `exit g` at most once. -/
theorem emitAll_sd (c : Ctx) (order : List Visit) : ∀ (st st' : GState) (fvs : List (Nat × Nat)) (ex : List Nat),
    SD c st fvs ex → matched order (fvs.map (·.1)) = true → order.Nodup → (∀ gi, Visit.exit gi ∈ order → gi ∉ ex) →
    emitAll c order st = .ok st' → ∃ fvs' ex', SD c st' fvs' ex' := by
  induction order with
  | nil =>
    intro st st' fvs ex hsd _ _ _ h
    simp only [emitAll, List.foldlM_nil, pure, Except.pure, Except.ok.injEq] at h
    subst h
    exact ⟨fvs, ex, hsd⟩
  | cons v rest ih =>
    intro st st' fvs ex hsd hm hnd hex h
    obtain ⟨s1, h1, h2⟩ := emitAll_cons c v rest st st' h
    have hnd' := List.nodup_cons.1 hnd
    have hex' : ∀ gi, Visit.exit gi ∈ rest → gi ∉ ex := fun gi hgi => hex gi (List.mem_cons_of_mem _ hgi)
    cases v with
    | app i =>
      obtain ⟨new, he⟩ := app_ext c st s1 i h1
      exact ih s1 st' fvs ex (hsd.ext he) (by simpa [matched] using hm) hnd'.2 hex' h2
    | enter gi =>
      obtain ⟨s0, new, blk, he0, hlen, hget, hblk, hbo, he1⟩ := enter_ext c st s1 gi h1
      have := (hsd.enter gi he0 hlen hget (by rw [hbo]; exact hblk)).ext he1
      exact ih s1 st' _ ex this (by simpa [matched] using hm) hnd'.2 hex' h2
    | exit gi =>
      simp only [matched, Bool.and_eq_true, List.contains_iff_mem] at hm
      obtain ⟨fv, params, inner, outer, r, hb, hget, hc, hv, hin, hout⟩ := exit_out c st s1 gi h1
      have := hsd.exit gi fv params inner outer r hb hget hc hv hin hout hm.1 (hex gi (by simp))
      refine ih s1 st' fvs (gi :: ex) this hm.2 hnd'.2 ?_ h2
      intro gj hgj hc'
      rcases List.mem_cons.1 hc' with rfl | hc'
      · exact hnd'.1 hgj
      · exact hex' gj hgj hc'

end Einx.Compile
