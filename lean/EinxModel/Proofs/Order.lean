import EinxModel.Order.Rename
import EinxModel.Registry.Model
/-! Helper lemmas for C16: folds over permutations, the registry's priority filter, renaming of axis names. -/
namespace Einx.Order

/-- A fold with a right-commutative step does not depend on the order of the list. -/
theorem foldl_perm_comm {α β : Type} (f : β → α → β) (hc : ∀ b x y, f (f b x) y = f (f b y) x)
    {l₁ l₂ : List α} (h : l₁.Perm l₂) : ∀ b, l₁.foldl f b = l₂.foldl f b := by
  induction h with
  | nil => intro b; rfl
  | cons x _ ih => intro b; simp only [List.foldl_cons]; exact ih _
  | swap x y l => intro b; simp only [List.foldl_cons]; rw [hc]
  | trans _ _ ih1 ih2 => intro b; rw [ih1, ih2]

end Einx.Order

namespace Einx.Registry

theorem foldl_max_spec : ∀ (bs : List Backend) (m : Int),
    m ≤ bs.foldl (fun m x => max m x.priority) m ∧
    (∀ b ∈ bs, b.priority ≤ bs.foldl (fun m x => max m x.priority) m) ∧
    (bs.foldl (fun m x => max m x.priority) m = m ∨ ∃ b ∈ bs, b.priority = bs.foldl (fun m x => max m x.priority) m)
  | [], m => by simp
  | b :: bs, m => by
    obtain ⟨h1, h2, h3⟩ := foldl_max_spec bs (max m b.priority)
    simp only [List.foldl_cons, List.mem_cons, forall_eq_or_imp, exists_eq_or_imp]
    refine ⟨by omega, ⟨by omega, h2⟩, ?_⟩
    rcases h3 with h3 | ⟨c, hc, h3⟩
    · by_cases hm : m ≤ b.priority
      · right; left; rw [h3]; omega
      · left; rw [h3]; omega
    · right; right; exact ⟨c, hc, h3⟩

/-- `max(backend.priority for backend in backends)` is an upper bound that is attained. -/
theorem maxPriority_spec (l : List Backend) (h : l ≠ []) :
    (∀ b ∈ l, b.priority ≤ maxPriority l) ∧ ∃ b ∈ l, b.priority = maxPriority l := by
  cases l with
  | nil => exact absurd rfl h
  | cons b bs =>
    obtain ⟨h1, h2, h3⟩ := foldl_max_spec bs b.priority
    simp only [maxPriority, List.mem_cons, forall_eq_or_imp, exists_eq_or_imp]
    refine ⟨⟨h1, h2⟩, ?_⟩
    rcases h3 with h3 | ⟨c, hc, h3⟩
    · left; exact h3.symm
    · right; exact ⟨c, hc, h3⟩

theorem maxPriority_perm {l₁ l₂ : List Backend} (h : l₁.Perm l₂) : maxPriority l₁ = maxPriority l₂ := by
  by_cases h1 : l₁ = []
  · subst h1; rw [h.nil_eq]
  · have h2 : l₂ ≠ [] := fun e => h1 (by subst e; exact h.eq_nil)
    obtain ⟨u1, b1, hb1, e1⟩ := maxPriority_spec l₁ h1
    obtain ⟨u2, b2, hb2, e2⟩ := maxPriority_spec l₂ h2
    have := u2 b1 (h.mem_iff.1 hb1)
    have := u1 b2 (h.mem_iff.2 hb2)
    omega

end Einx.Registry

namespace Einx.Order.Fresh
open Einx.Denote

theorem get_rename (ρ : String → String) (σ : Assign) (n : String)
    (hinj : InjOn ρ (n :: σ.map (·.1))) : (renameAssign ρ σ).get (ρ n) = σ.get n := by
  induction σ with
  | nil => rfl
  | cons kv σ ih =>
    have hinj' : InjOn ρ (n :: σ.map (·.1)) := by
      intro a ha b hb
      exact hinj a (by simp only [List.map_cons, List.mem_cons] at ha ⊢; rcases ha with h | h <;> simp [h])
        b (by simp only [List.map_cons, List.mem_cons] at hb ⊢; rcases hb with h | h <;> simp [h])
    have ih := ih hinj'
    simp only [Assign.get, renameAssign, List.map_cons, List.find?_cons] at ih ⊢
    by_cases hk : kv.1 = n
    · have e1 : (ρ kv.1 == ρ n) = true := by rw [hk]; exact beq_self_eq_true _
      have e2 : (kv.1 == n) = true := by rw [hk]; exact beq_self_eq_true _
      rw [e1, e2]; try rfl
    · have hk' : ρ kv.1 ≠ ρ n := fun e => hk (hinj kv.1 (by simp) n (by simp) e)
      have e1 : (ρ kv.1 == ρ n) = false := by simpa using hk'
      have e2 : (kv.1 == n) = false := by simpa using hk
      rw [e1, e2]
      exact ih

theorem injOn_mono {ρ : String → String} {ns ms : List String} (h : InjOn ρ ns) (hs : ∀ x ∈ ms, x ∈ ns) : InjOn ρ ms :=
  fun a ha b hb => h a (hs a ha) b (hs b hb)

mutual
theorem size_rename (ρ : String → String) : ∀ (d : Dim), (renameDim ρ d).size = d.size
  | .axis l => by simp [renameDim, Dim.size, renameLeaf]
  | .flat ds => by simp only [renameDim, Dim.size]; exact sizeProd_rename ρ ds
  | .concat ds => by simp only [renameDim, Dim.size]; exact sizeSum_rename ρ ds
  | .off o d t => by simp [renameDim, Dim.size]
theorem sizeProd_rename (ρ : String → String) : ∀ (ds : List Dim), Dim.sizeProd (renameDims ρ ds) = Dim.sizeProd ds
  | [] => rfl
  | d :: ds => by simp only [renameDims, Dim.sizeProd]; rw [size_rename ρ d, sizeProd_rename ρ ds]
theorem sizeSum_rename (ρ : String → String) : ∀ (ds : List Dim), Dim.sizeSum (renameDims ρ ds) = Dim.sizeSum ds
  | [] => rfl
  | d :: ds => by simp only [renameDims, Dim.sizeSum]; rw [size_rename ρ d, sizeSum_rename ρ ds]
end

mutual
theorem pos_rename_aux (ρ : String → String) (σ : Assign) : ∀ (d : Dim), InjOn ρ (dimNames d ++ σ.map (·.1)) →
    (renameDim ρ d).pos (renameAssign ρ σ) = d.pos σ
  | .axis l, h => by
    simp only [renameDim, Dim.pos, renameLeaf]
    exact get_rename ρ σ l.name (by simpa [dimNames] using h)
  | .flat ds, h => by
    simp only [renameDim, Dim.pos]
    exact posFlat_rename_aux ρ σ ds 0 (by simpa [dimNames] using h)
  | .concat ds, _ => by simp [renameDim, Dim.pos]
  | .off o d t, h => by
    simp only [renameDim, Dim.pos]
    rw [pos_rename_aux ρ σ d (by simpa [dimNames] using h)]
theorem posFlat_rename_aux (ρ : String → String) (σ : Assign) : ∀ (ds : List Dim) (acc : Nat),
    InjOn ρ (dimsNames ds ++ σ.map (·.1)) →
    Dim.posFlat (renameAssign ρ σ) (renameDims ρ ds) acc = Dim.posFlat σ ds acc
  | [], acc, _ => rfl
  | d :: ds, acc, h => by
    simp only [renameDims, Dim.posFlat]
    have hd : InjOn ρ (dimNames d ++ σ.map (·.1)) := injOn_mono h (by
      intro x hx; simp only [dimsNames, List.mem_append] at hx ⊢; rcases hx with hx | hx <;> simp [hx])
    have hds : InjOn ρ (dimsNames ds ++ σ.map (·.1)) := injOn_mono h (by
      intro x hx; simp only [dimsNames, List.mem_append] at hx ⊢; rcases hx with hx | hx <;> simp [hx])
    rw [pos_rename_aux ρ σ d hd, size_rename ρ d]
    cases d.pos σ with
    | none => rfl
    | some p => exact posFlat_rename_aux ρ σ ds _ hds
end

end Einx.Order.Fresh
