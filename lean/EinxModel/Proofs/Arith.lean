import EinxModel.IR.Arith
import EinxModel.Proofs.IRGeneric
import Mathlib.Tactic.Ring
/-
Soundness of the arithmetic normalisation `IR.normArith`: for every interpretation of the function
symbols in which `add` and `multiply` (two arguments) are the integer operations, every register content
and every value of out-of-range reads, a cell and its normal form evaluate to the same integer.
-/
namespace Einx.IR
open Einx

/-- `add` / `multiply` are interpreted as the integer operations (all other symbols are arbitrary). -/
def ArithI (I : String → List Int → Int) : Prop :=
  ∀ a b : Int, I "add" [a, b] = a + b ∧ I "multiply" [a, b] = a * b

section
variable {I : String → List Int → Int} (hI : ArithI I) (bad : Int) (regs : List (Tensor Int))

local notation "ev" => evalCell (intAlgOf I bad) regs

def prodE (I : String → List Int → Int) (bad : Int) (regs : List (Tensor Int)) (as : List Cell) : Int :=
  (as.map (evalCell (intAlgOf I bad) regs)).foldr (· * ·) 1

def evalMono (I : String → List Int → Int) (bad : Int) (regs : List (Tensor Int)) (m : Mono) : Int :=
  m.1 * prodE I bad regs m.2

def evalPoly (I : String → List Int → Int) (bad : Int) (regs : List (Tensor Int)) (p : Poly) : Int :=
  (p.map (evalMono I bad regs)).foldr (· + ·) 0

omit hI in
theorem prodE_cons (a : Cell) (as : List Cell) : prodE I bad regs (a :: as) = ev a * prodE I bad regs as := rfl

omit hI in
theorem evalPoly_cons (m : Mono) (p : Poly) :
    evalPoly I bad regs (m :: p) = evalMono I bad regs m + evalPoly I bad regs p := rfl

omit hI in
theorem prodE_insertCell (c : Cell) : ∀ l : List Cell,
    prodE I bad regs (insertCell c l) = ev c * prodE I bad regs l
  | [] => rfl
  | d :: ds => by
    unfold insertCell
    split
    · rfl
    · rw [prodE_cons, prodE_insertCell c ds, prodE_cons]; ring

omit hI in
theorem prodE_foldr_insert : ∀ (l acc : List Cell),
    prodE I bad regs (l.foldr insertCell acc) = prodE I bad regs l * prodE I bad regs acc
  | [], acc => by simp [prodE]
  | a :: l, acc => by
    rw [List.foldr_cons, prodE_insertCell, prodE_foldr_insert l acc, prodE_cons]; ring

omit hI in
theorem evalPoly_addMono (m : Mono) : ∀ p : Poly,
    evalPoly I bad regs (addMono m p) = evalMono I bad regs m + evalPoly I bad regs p
  | [] => rfl
  | n :: ns => by
    unfold addMono
    split
    · rename_i h
      have he : m.2 = n.2 := Cell.beqL_eq _ _ h
      simp only [evalPoly_cons, evalMono, he]; ring
    · rw [evalPoly_cons, evalPoly_addMono m ns, evalPoly_cons]; ring

omit hI in
theorem evalPoly_padd : ∀ (p q : Poly),
    evalPoly I bad regs (padd p q) = evalPoly I bad regs p + evalPoly I bad regs q
  | [], q => by simp [padd, evalPoly]
  | m :: p, q => by
    have ih := evalPoly_padd p q
    unfold padd at ih ⊢
    rw [List.foldr_cons, evalPoly_addMono, ih, evalPoly_cons]; ring

omit hI in
theorem evalMono_mulMono (m n : Mono) :
    evalMono I bad regs (mulMono m n) = evalMono I bad regs m * evalMono I bad regs n := by
  simp only [evalMono, mulMono, prodE_foldr_insert]; ring

omit hI in
theorem evalPoly_map_mulMono (m : Mono) : ∀ q : Poly,
    evalPoly I bad regs (q.map (mulMono m)) = evalMono I bad regs m * evalPoly I bad regs q
  | [] => by simp [evalPoly]
  | n :: q => by
    rw [List.map_cons, evalPoly_cons, evalMono_mulMono, evalPoly_map_mulMono m q, evalPoly_cons]; ring

omit hI in
theorem evalPoly_pmul : ∀ (p q : Poly),
    evalPoly I bad regs (pmul p q) = evalPoly I bad regs p * evalPoly I bad regs q
  | [], q => by simp [pmul, evalPoly]
  | m :: p, q => by
    have ih := evalPoly_pmul p q
    unfold pmul at ih ⊢
    rw [List.foldr_cons, evalPoly_padd, evalPoly_map_mulMono, ih, evalPoly_cons]; ring

omit hI in
theorem evalPoly_insertMono (m : Mono) : ∀ p : Poly,
    evalPoly I bad regs (insertMono m p) = evalMono I bad regs m + evalPoly I bad regs p
  | [] => rfl
  | n :: ns => by
    unfold insertMono
    split
    · rfl
    · rw [evalPoly_cons, evalPoly_insertMono m ns, evalPoly_cons]; ring

omit hI in
theorem evalPoly_filter : ∀ p : Poly,
    evalPoly I bad regs (p.filter (fun m => m.1 != 0)) = evalPoly I bad regs p
  | [] => rfl
  | m :: p => by
    rw [List.filter_cons]
    split
    · rw [evalPoly_cons, evalPoly_filter p, evalPoly_cons]
    · rename_i h
      have h0 : m.1 = 0 := by simpa using h
      rw [evalPoly_filter p, evalPoly_cons, evalMono, h0]; ring

omit hI in
theorem evalPoly_sort : ∀ p : Poly,
    evalPoly I bad regs (p.foldr insertMono []) = evalPoly I bad regs p
  | [] => rfl
  | m :: p => by rw [List.foldr_cons, evalPoly_insertMono, evalPoly_sort p, evalPoly_cons]

omit hI in
theorem evalPoly_canon (p : Poly) : evalPoly I bad regs (canon p) = evalPoly I bad regs p := by
  unfold canon; rw [evalPoly_sort, evalPoly_filter]

include hI in
theorem ev_foldApp_mul : ∀ (ds : List Cell) (c : Cell),
    ev (foldApp "multiply" c ds) = ev c * prodE I bad regs ds
  | [], c => by simp [foldApp, prodE]
  | d :: ds, c => by
    have ih := ev_foldApp_mul ds (.app "multiply" [c, d])
    unfold foldApp at ih ⊢
    rw [List.foldl_cons, ih, prodE_cons]
    simp only [evalCell, evalCells, intAlgOf, (hI _ _).2]; ring

include hI in
theorem ev_foldApp_add : ∀ (ds : List Cell) (c : Cell),
    ev (foldApp "add" c ds) = ev c + (ds.map (evalCell (intAlgOf I bad) regs)).foldr (· + ·) 0
  | [], c => by simp [foldApp]
  | d :: ds, c => by
    have ih := ev_foldApp_add ds (.app "add" [c, d])
    unfold foldApp at ih ⊢
    rw [List.foldl_cons, ih]
    simp only [evalCell, evalCells, intAlgOf, (hI _ _).1, List.map_cons, List.foldr_cons]; ring

include hI in
theorem ev_monoCell (m : Mono) : ev (monoCell m) = evalMono I bad regs m := by
  obtain ⟨c, as⟩ := m
  unfold monoCell evalMono
  cases as with
  | nil => simp [evalCell, intAlgOf, prodE]
  | cons a as =>
    simp only
    split
    · rename_i h
      have h1 : c = 1 := by simpa using h
      rw [ev_foldApp_mul hI, prodE_cons, h1]; ring
    · rw [ev_foldApp_mul hI]; simp [evalCell, intAlgOf]

include hI in
theorem ev_polyCell (p : Poly) : ev (polyCell p) = evalPoly I bad regs p := by
  rw [← evalPoly_canon]
  unfold polyCell
  cases canon p with
  | nil => simp [evalCell, intAlgOf, evalPoly]
  | cons m ms =>
    simp only
    rw [ev_foldApp_add hI, ev_monoCell hI, evalPoly_cons]
    congr 1
    simp only [List.map_map, evalPoly]
    congr 1
    apply List.map_congr_left
    intro n _
    exact ev_monoCell hI bad regs n

omit hI in
theorem evalPoly_atom (a : Cell) : evalPoly I bad regs [(1, [a])] = ev a := by
  simp [evalPoly, evalMono, prodE]

end

mutual
theorem evalPoly_toPoly {I : String → List Int → Int} (hI : ArithI I) (bad : Int) (regs : List (Tensor Int)) :
    ∀ c : Cell, evalPoly I bad regs (toPoly c) = evalCell (intAlgOf I bad) regs c
  | .src r k => by rw [toPoly, evalPoly_atom]
  | .lit i => by simp [toPoly, evalPoly, evalMono, prodE, evalCell, intAlgOf]
  | .bad => by rw [toPoly, evalPoly_atom]
  | .app f args => by
    have hL := evalPolyL_toPolyL hI bad regs args
    have hatom : evalPoly I bad regs [(1, [Cell.app f ((toPolyL args).map polyCell)])] = evalCell (intAlgOf I bad) regs (.app f args) := by
      rw [evalPoly_atom]
      simp only [evalCell]
      congr 1
      rw [← hL, evalCells_eq_map, List.map_map]
      apply List.map_congr_left
      intro p _
      exact ev_polyCell hI bad regs p
    rw [toPoly]
    split
    · rename_i p q hps
      rw [hps] at hL
      have hargs : evalCells (intAlgOf I bad) regs args = [evalPoly I bad regs p, evalPoly I bad regs q] := by
        rw [← hL]; rfl
      split
      · rename_i hf
        have : f = "add" := by simpa using hf
        subst this
        rw [evalPoly_padd]
        simp only [evalCell]
        rw [hargs]
        exact ((hI _ _).1).symm
      · split
        · rename_i hf
          have : f = "multiply" := by simpa using hf
          subst this
          rw [evalPoly_pmul]
          simp only [evalCell]
          rw [hargs]
          exact ((hI _ _).2).symm
        · exact hatom
    · exact hatom
theorem evalPolyL_toPolyL {I : String → List Int → Int} (hI : ArithI I) (bad : Int) (regs : List (Tensor Int)) :
    ∀ cs : List Cell,
    (toPolyL cs).map (evalPoly I bad regs) = evalCells (intAlgOf I bad) regs cs
  | [] => by simp [toPolyL, evalCells]
  | c :: cs => by
    rw [toPolyL, List.map_cons, evalPoly_toPoly hI bad regs c, evalPolyL_toPolyL hI bad regs cs, evalCells]
end

/-- **Soundness of the normalisation**: a cell and its normal form have the same value. -/
theorem normArith_eval {I : String → List Int → Int} (hI : ArithI I) (bad : Int) (regs : List (Tensor Int))
    (c : Cell) : evalCell (intAlgOf I bad) regs (normArith c) = evalCell (intAlgOf I bad) regs c := by
  unfold normArith
  rw [ev_polyCell hI, evalPoly_toPoly hI]

/-- What a successful symbolic run means (the second half of `validateG_sound`): the program runs on all
inputs and its outputs are the symbolic result evaluated on them. -/
theorem symRunG_sound {ι : Type} (planOf : List (List Nat) → ι → E Plan)
    (prog : List ι) (outs : List Nat) (res : List (Tensor Cell))
    (I : String → List Int → Int) (bad : Int) (xs : List (Tensor Int))
    (hlen : ∀ x ∈ xs, x.data.length = prod x.shape)
    (hs : symRunG planOf prog (xs.map (·.shape)) outs = .ok res) :
    ∃ regs, evalProgG planOf (intAlgOf I bad) prog xs = .ok regs ∧
      outs.map (fun r => regs[r]?) = res.map (fun t => some (t.map (evalCell (intAlgOf I bad) xs))) := by
  unfold symRunG at hs
  cases hr : evalProgG planOf symAlg prog (symInputs (xs.map (·.shape))) with
  | error e => simp [hr, bind, Except.bind] at hs
  | ok sregs =>
    simp only [hr, bind, Except.bind] at hs
    have hnat := evalProgG_map planOf (interp_hom I bad xs) prog (symInputs (xs.map (·.shape)))
    rw [symInputs_interp _ xs hlen, hr] at hnat
    refine ⟨_, hnat, ?_⟩
    cases hsel : selectRegs sregs outs with
    | none => simp [hsel] at hs
    | some ts =>
      simp only [hsel, pure, Except.pure, Except.ok.injEq] at hs
      subst hs
      exact selectRegs_map _ sregs outs ts hsel

theorem normTensor_eval {I : String → List Int → Int} (hI : ArithI I) (bad : Int) (xs : List (Tensor Int))
    (t : Tensor Cell) :
    (normTensor t).map (evalCell (intAlgOf I bad) xs) = t.map (evalCell (intAlgOf I bad) xs) := by
  simp only [normTensor, Tensor.map, List.map_map, Tensor.mk.injEq, true_and]
  apply List.map_congr_left
  intro c _
  exact normArith_eval hI bad xs c

/-- Soundness of `validateArith` for any instruction set. -/
theorem validateArith_sound {ι : Type} (planOf : List (List Nat) → ι → E Plan)
    (prog : List ι) (outs : List Nat) (expected : List (Tensor Cell))
    (I : String → List Int → Int) (hI : ArithI I) (bad : Int) (xs : List (Tensor Int))
    (hlen : ∀ x ∈ xs, x.data.length = prod x.shape)
    (hv : validateArith planOf prog (xs.map (·.shape)) outs expected = true) :
    ∃ regs, evalProgG planOf (intAlgOf I bad) prog xs = .ok regs ∧
      outs.map (fun r => regs[r]?) =
        expected.map (fun t => some (t.map (evalCell (intAlgOf I bad) xs))) := by
  unfold validateArith at hv
  cases hs : symRunG planOf prog (xs.map (·.shape)) outs with
  | error e => simp [hs] at hv
  | ok res =>
    simp only [hs] at hv
    have heq := tensorsBeq_eq _ _ hv
    obtain ⟨regs, hrun, hout⟩ := symRunG_sound planOf prog outs res I bad xs hlen hs
    refine ⟨regs, hrun, ?_⟩
    rw [hout]
    have h1 : ∀ ts : List (Tensor Cell),
        ts.map (fun t => some (t.map (evalCell (intAlgOf I bad) xs))) =
          (ts.map normTensor).map (fun t => some (t.map (evalCell (intAlgOf I bad) xs))) := by
      intro ts
      rw [List.map_map]
      apply List.map_congr_left
      intro t _
      simp only [Function.comp, normTensor_eval hI bad xs t]
    rw [h1 res, h1 expected, heq]

end Einx.IR
