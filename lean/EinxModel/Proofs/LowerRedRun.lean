import EinxModel.Proofs.LowerRedDefs
/-! Helper lemmas for `lower_reduce_correct` (Props/C01LowerOps.lean), run side: the program of
`Generic.lowerReduce` (reshapes of the input, one numpy reduction, transposition / broadcasting / reshape of the
result) executed by the generic executor over the extended instruction set. -/
namespace Einx.Lower
open Einx Einx.IR Einx.Generic Einx.Denote

/-! ### programs over the extended instruction set -/

theorem evalProgG_append {ι α : Type} (planOf : List (List Nat) → ι → IR.E Plan) (A : Alg α) :
    ∀ (p q : List ι) (regs : List (Tensor α)),
    evalProgG planOf A (p ++ q) regs = (evalProgG planOf A p regs) >>= (evalProgG planOf A q)
  | [], q, regs => by simp [evalProgG, bind, Except.bind, pure, Except.pure]
  | i :: is, q, regs => by
    simp only [List.cons_append, evalProgG]
    cases planOf (regs.map (·.shape)) i with
    | error e => rfl
    | ok pl =>
      simp only [bind, Except.bind]
      exact evalProgG_append planOf A is q _

theorem evalProgG_base {α : Type} (A : Alg α) : ∀ (p : List Instr) (regs : List (Tensor α)),
    evalProgG planInstrX A (p.map .base) regs = evalProg A p regs
  | [], regs => rfl
  | i :: is, regs => by
    simp only [List.map_cons, evalProgG, evalProg, planInstrX]
    cases planInstr (regs.map (·.shape)) i with
    | error e => rfl
    | ok pl =>
      simp only [bind, Except.bind]
      exact evalProgG_base A is _

/-! ### sorting cells that read one register -/

def insertNat (k : Nat) : List Nat → List Nat
  | [] => [k]
  | d :: ds => if compare k d != .gt then k :: d :: ds else d :: insertNat k ds

def sortNat (ks : List Nat) : List Nat := ks.foldr insertNat []

theorem cmp_src (r k d : Nat) : Cell.cmp (.src r k) (.src r d) = compare k d := by
  simp [Cell.cmp, Nat.compare_eq_eq.mpr rfl]

theorem insertCell_src (r k : Nat) : ∀ ds : List Nat,
    insertCell (.src r k) (ds.map (Cell.src r)) = (insertNat k ds).map (Cell.src r)
  | [] => rfl
  | d :: ds => by
    simp only [List.map_cons, insertCell, insertNat, cmp_src]
    split
    · rfl
    · simp only [List.map_cons, insertCell_src r k ds]

theorem sortCells_src (r : Nat) : ∀ ks : List Nat, sortCells (ks.map (Cell.src r)) = (sortNat ks).map (Cell.src r)
  | [] => rfl
  | k :: ks => by
    simp only [List.map_cons, sortCells, sortNat, List.foldr_cons]
    have := sortCells_src r ks
    simp only [sortCells, sortNat] at this
    rw [this, insertCell_src]

theorem mem_insertNat {x k : Nat} : ∀ {ds : List Nat}, x ∈ insertNat k ds → x = k ∨ x ∈ ds
  | [], h => by simp [insertNat] at h; exact Or.inl h
  | d :: ds, h => by
    simp only [insertNat] at h
    split at h
    · simpa using h
    · rcases List.mem_cons.mp h with h1 | h1
      · exact Or.inr (h1 ▸ List.mem_cons_self ..)
      · rcases mem_insertNat h1 with h2 | h2
        · exact Or.inl h2
        · exact Or.inr (List.mem_cons_of_mem _ h2)

theorem mem_sortNat {x : Nat} : ∀ {ks : List Nat}, x ∈ sortNat ks → x ∈ ks
  | [], h => by simp [sortNat] at h
  | k :: ks, h => by
    simp only [sortNat, List.foldr_cons] at h
    rcases mem_insertNat h with h1 | h1
    · exact h1 ▸ List.mem_cons_self ..
    · exact List.mem_cons_of_mem _ (mem_sortNat (ks := ks) h1)

/-- A reduction cell over elements of a register that holds the input unchanged (same elements in the same
order) is the reduction cell over the input's elements. -/
theorem evalCell_mkRed_src {regs : List (Tensor Cell)} {x : Nat} {T : Tensor Cell} (hx : regs[x]? = some T)
    (hid : ∀ k, k < T.data.length → T.data[k]? = some (.src 0 k)) (f : String) (ks : List Nat)
    (hks : ∀ k ∈ ks, k < T.data.length) :
    evalCell symAlg regs (mkRed f (ks.map (Cell.src x))) = mkRed f (ks.map (Cell.src 0)) := by
  have hev : ∀ k, k < T.data.length → evalCell symAlg regs (.src x k) = .src 0 k := by
    intro k hk
    rw [evalCell_src hx, hid k hk]; rfl
  match ks, hks with
  | [], _ => simp [mkRed, evalCell, evalCells, sortCells, symAlg]
  | [k], hks => simpa [mkRed] using hev k (hks k (by simp))
  | k1 :: k2 :: rest, hks =>
    have e1 : mkRed f ((k1 :: k2 :: rest).map (Cell.src x)) = .app ("red:" ++ f) (sortCells ((k1 :: k2 :: rest).map (Cell.src x))) := rfl
    have e2 : mkRed f ((k1 :: k2 :: rest).map (Cell.src 0)) = .app ("red:" ++ f) (sortCells ((k1 :: k2 :: rest).map (Cell.src 0))) := rfl
    rw [e1, e2, sortCells_src, sortCells_src]
    simp only [evalCell, evalCells_eq_map, List.map_map, symAlg, Cell.app.injEq, true_and]
    apply List.map_congr_left
    intro k hk
    exact hev k (hks k (mem_sortNat hk))

/-! ### positions of the bracketed and un-bracketed axes -/

/-- Positions of the elements of `L` that satisfy `p` (the form of `_expr_to_axis`). -/
def posOf (p : Ax → Bool) (L : List Ax) : List Nat :=
  (List.range L.length).filter (fun k => match L[k]? with
    | some a => p a
    | none => false)

theorem mem_posOf {p : Ax → Bool} {L : List Ax} {k : Nat} : k ∈ posOf p L ↔ ∃ h : k < L.length, p L[k] = true := by
  simp only [posOf, List.mem_filter, List.mem_range]
  constructor
  · rintro ⟨hk, hp⟩
    rw [List.getElem?_eq_getElem hk] at hp
    exact ⟨hk, hp⟩
  · rintro ⟨hk, hp⟩
    rw [List.getElem?_eq_getElem hk]
    exact ⟨hk, hp⟩

theorem posOf_nodup (p : Ax → Bool) (L : List Ax) : (posOf p L).Nodup :=
  nodup_filter List.nodup_range _

theorem filter_eq_map_posOf (d : Ax) : ∀ (L : List Ax) (p : Ax → Bool),
    L.filter p = (posOf p L).map (fun k => L.getD k d)
  | [], _ => rfl
  | a :: L, p => by
    have ih := filter_eq_map_posOf d L p
    simp only [posOf, List.length_cons, List.range_succ_eq_map, List.filter_cons, List.getElem?_cons_zero, List.filter_map,
      List.map_cons, List.map_map, Function.comp_def, List.getElem?_cons_succ, List.getD_cons_succ] at ih ⊢
    have hmm : ∀ l : List Nat, List.map (fun k => (a :: L).getD k d) (List.map Nat.succ l) = List.map (fun k => L.getD k d) l := by
      intro l
      rw [List.map_map]
      apply List.map_congr_left
      intro k _
      simp [Function.comp]
    by_cases hp : p a = true
    · simp only [hp, if_true, List.map_cons, List.getD_cons_zero, List.cons.injEq, true_and]
      rw [hmm]; exact ih
    · simp only [hp, Bool.false_eq_true, if_false]
      rw [hmm]; exact ih

theorem idxOf?_getElem_nodup {α : Type} [BEq α] [LawfulBEq α] {l : List α} (h : l.Nodup) (i : Nat) (hi : i < l.length) :
    l.idxOf? l[i] = some i := by
  rw [List.idxOf?_eq_some_iff]
  refine ⟨hi, rfl, ?_⟩
  intro j hj he
  have := (List.getElem_inj (h₀ := by omega) (h₁ := hi) h).mp he
  omega

theorem idxOf?_of_mem_nodup {l : List Nat} (h : l.Nodup) {a : Nat} (ha : a ∈ l) :
    ∃ i, ∃ hi : i < l.length, l.idxOf? a = some i ∧ l[i] = a := by
  obtain ⟨i, hi, he⟩ := List.getElem_of_mem ha
  exact ⟨i, hi, by rw [← he]; exact idxOf?_getElem_nodup h i hi, he⟩

theorem contains_posOf (p : Ax → Bool) (L : List Ax) {a : Nat} (ha : a < L.length) :
    (posOf p L).contains a = p L[a] := by
  rw [Bool.eq_iff_iff, List.contains_iff_mem, mem_posOf]
  constructor
  · rintro ⟨_, h⟩; exact h
  · intro h; exact ⟨ha, h⟩

theorem posOf_self (p : Ax → Bool) (L : List Ax) :
    (List.range L.length).filter (fun a => (posOf p L).contains a) = posOf p L := by
  simp only [posOf]
  apply List.filter_congr
  intro a ha
  have ha' : a < L.length := List.mem_range.mp ha
  have := contains_posOf p L ha'
  simp only [posOf] at this
  rw [this, List.getElem?_eq_getElem ha']

theorem posOf_compl (p : Ax → Bool) (L : List Ax) :
    (List.range L.length).filter (fun a => !(posOf p L).contains a) = posOf (fun x => !p x) L := by
  simp only [posOf]
  apply List.filter_congr
  intro a ha
  have ha' : a < L.length := List.mem_range.mp ha
  have := contains_posOf p L ha'
  simp only [posOf] at this
  rw [this, List.getElem?_eq_getElem ha']

/-- The multi-index numpy's reduction plan reads the operand at — output index on the kept positions, reduction
index on the reduced positions — is the index that the overridden valuation gives to the operand's axes. -/
theorem reduce_index_eq {sq : List Ax} (m : List String) (hnd : (names sq).Nodup) (val : String → Nat) (τ : List Nat) :
    (List.range sq.length).map (fun a =>
        match ((List.range sq.length).filter (fun a => !(exprToAxis m sq).contains a)).idxOf? a with
        | some i => (idx (sq.filter (fun a => !m.contains a.name)) val).getD i 0
        | none => τ.getD ((((List.range sq.length).filter (fun a => (exprToAxis m sq).contains a)).idxOf? a).getD 0) 0)
      = idx sq (ovr (markedAxes m sq) τ val) := by
  have haxes : exprToAxis m sq = posOf (fun a => m.contains a.name) sq := rfl
  rw [haxes, posOf_self, posOf_compl]
  have hMk : markedAxes m sq = (posOf (fun a => m.contains a.name) sq).map (fun k => sq.getD k default) :=
    filter_eq_map_posOf default sq _
  have hUn : sq.filter (fun a => !m.contains a.name) = (posOf (fun a => !m.contains a.name) sq).map (fun k => sq.getD k default) :=
    filter_eq_map_posOf default sq _
  have hMknd : (names (markedAxes m sq)).Nodup := names_nodup_filter hnd _
  apply List.ext_getElem
  · simp [idx]
  · intro a h1 _
    have ha : a < sq.length := by simpa using h1
    simp only [List.getElem_map, List.getElem_range, idx]
    by_cases hm : m.contains sq[a].name = true
    · have hmem : a ∈ posOf (fun a => m.contains a.name) sq := mem_posOf.mpr ⟨ha, hm⟩
      have hnot : a ∉ posOf (fun a => !m.contains a.name) sq := by
        rw [mem_posOf]; rintro ⟨_, h⟩; rw [hm] at h; cases h
      rw [List.idxOf?_eq_none_iff.mpr hnot]
      obtain ⟨i, hi, hidx, hget⟩ := idxOf?_of_mem_nodup (posOf_nodup _ _) hmem
      simp only [hidx, Option.getD_some]
      have hi' : i < (names (markedAxes m sq)).length := by
        rw [hMk]; simp only [names, List.length_map]; exact hi
      have hname : (names (markedAxes m sq))[i] = sq[a].name := by
        simp only [names, hMk, List.getElem_map, hget]
        simp [List.getD_eq_getElem?_getD, List.getElem?_eq_getElem ha]
      have := idxOf?_getElem_nodup hMknd i hi'
      rw [hname] at this
      simp only [ovr, this]
    · have hm' : m.contains sq[a].name = false := by simpa using hm
      have hmem : a ∈ posOf (fun a => !m.contains a.name) sq := mem_posOf.mpr ⟨ha, by rw [hm']; rfl⟩
      obtain ⟨i, hi, hidx, hget⟩ := idxOf?_of_mem_nodup (posOf_nodup _ _) hmem
      simp only [hidx]
      have hnotin : sq[a].name ∉ names (markedAxes m sq) := by
        intro hin
        obtain ⟨b, hb, hbn⟩ := List.mem_map.mp hin
        have hb' := List.mem_filter.mp hb
        have := eq_of_name_eq hnd hb'.1 (List.getElem_mem ha) hbn
        rw [this] at hb'
        have h3 := hb'.2
        rw [hm'] at h3
        cases h3
      simp only [ovr, List.idxOf?_eq_none_iff.mpr hnotin]
      rw [hUn]
      simp only [List.map_map, List.getD_eq_getElem?_getD, List.getElem?_map, List.getElem?_eq_getElem hi, Option.map_some,
        Function.comp, hget, List.getElem?_eq_getElem ha, Option.getD_some]

/-! ### the numpy reduction -/

theorem eraseDups_of_nodup : ∀ {l : List Nat}, l.Nodup → l.eraseDups = l
  | [], _ => rfl
  | a :: as, h => by
    have ⟨h1, h2⟩ := List.nodup_cons.mp h
    rw [List.eraseDups_cons]
    have : as.filter (fun b => !b == a) = as := by
      rw [List.filter_eq_self]
      intro b hb
      have : b ≠ a := fun e => h1 (e ▸ hb)
      simpa using this
    rw [this, eraseDups_of_nodup h2]

theorem ovr_unmarked {m : List String} {L : List Ax} {n : String} (hn : m.contains n = false) (τ : List Nat)
    (val : String → Nat) : ovr (markedAxes m L) τ val n = val n := by
  have : n ∉ names (markedAxes m L) := by
    intro hin
    obtain ⟨b, hb, hbn⟩ := List.mem_map.mp hin
    have := (List.mem_filter.mp hb).2
    rw [hbn, hn] at this
    cases this
  simp only [ovr, List.idxOf?_eq_none_iff.mpr this]

/-- The overridden valuation is in range on an expression whose bracketed axes are `markedAxes m L`. -/
theorem ovr_bnd {m : List String} {L : List Ax} (hnd : (names L).Nodup) {τ : List Nat} {val : String → Nat}
    (hτ : Valid (lens (markedAxes m L)) τ) (hv : ∀ a ∈ L, m.contains a.name = false → val a.name < a.len) :
    Bnd (ovr (markedAxes m L) τ val) L := by
  intro a ha
  by_cases hm : m.contains a.name = true
  · have hmem : a ∈ markedAxes m L := List.mem_filter.mpr ⟨ha, hm⟩
    obtain ⟨i, hi, he⟩ := List.getElem_of_mem hmem
    have hMknd : (names (markedAxes m L)).Nodup := names_nodup_filter hnd _
    have hi' : i < (names (markedAxes m L)).length := by simp only [names, List.length_map]; exact hi
    have hname : (names (markedAxes m L))[i] = a.name := by simp only [names, List.getElem_map, he]
    have := idxOf?_getElem_nodup hMknd i hi'
    rw [hname] at this
    simp only [ovr, this]
    have hg := valid_getD hτ i (by simp only [lens, List.length_map]; exact hi)
    have hl : (lens (markedAxes m L)).getD i 0 = a.len := by
      simp [lens, List.getD_eq_getElem?_getD, List.getElem?_eq_getElem hi, he]
    rw [hl] at hg
    exact hg
  · have hm' : m.contains a.name = false := by simpa using hm
    rw [ovr_unmarked hm']
    exact hv a ha hm'

theorem markedAxes_squeezed (m : List String) (e : List G) :
    markedAxes m (squeezedExpr m e) = markedAxes m (G.leavesL e) := by
  simp only [markedAxes, squeezedExpr, List.filter_filter]
  apply List.filter_congr
  intro a _
  by_cases hm : m.contains a.name = true
  · rw [hm]; simp
  · have hm' : m.contains a.name = false := by simpa using hm
    rw [hm']; rfl

theorem lens_marked_eq (m : List String) (sq : List Ax) :
    (posOf (fun a => m.contains a.name) sq).map (fun a => (lens sq).getD a 0) = lens (markedAxes m sq) := by
  have hMk : markedAxes m sq = (posOf (fun a => m.contains a.name) sq).map (fun k => sq.getD k default) :=
    filter_eq_map_posOf default sq _
  rw [hMk]
  simp only [lens, List.map_map]
  apply List.map_congr_left
  intro k hk
  obtain ⟨hk', _⟩ := mem_posOf.mp hk
  simp [Function.comp, List.getD_eq_getElem?_getD, List.getElem?_eq_getElem hk']

theorem mem_allIndices {s τ : List Nat} (h : τ ∈ allIndices s) : Valid s τ := by
  simp only [allIndices, List.mem_map, List.mem_range] at h
  obtain ⟨k, hk, rfl⟩ := h
  exact unravel_valid _ _ hk

/-- The plan of `np.f(x, axis=_expr_to_axis(expr))` on a register that holds the input unchanged: at the index a
valuation gives to the un-bracketed axes it holds the canonical reduction cell over the bracketed axes. -/
theorem reduce_reads {regs1 : List (Tensor Cell)} {T1 : Tensor Cell} {x : Nat} {sq : List Ax} (f : String) (m : List String)
    (hx : regs1[x]? = some T1) (hsh : T1.shape = lens sq) (hlen : T1.data.length = prod T1.shape)
    (hid : ∀ k, k < T1.data.length → T1.data[k]? = some (.src 0 k)) (hnd : (names sq).Nodup)
    (hcheck : reducedShape (lens sq) (exprToAxis m sq) = lens (sq.filter (fun a => !m.contains a.name))) :
    ∃ pl, planInstrX (regs1.map (·.shape)) (.reduce f x (exprToAxis m sq) false) = .ok pl ∧
      pl.shape = lens (sq.filter (fun a => !m.contains a.name)) ∧ pl.cells.length = prod pl.shape ∧
      ∀ val : String → Nat, (∀ a ∈ sq, m.contains a.name = false → val a.name < a.len) →
        (runPlan symAlg regs1 pl).data[ravel (lens (sq.filter (fun a => !m.contains a.name)))
            (idx (sq.filter (fun a => !m.contains a.name)) val)]?
          = some (mkRed f ((allIndices (lens (markedAxes m sq))).map
              (fun τ => .src 0 (ravel (lens sq) (idx sq (ovr (markedAxes m sq) τ val)))))) := by
  have hn : (lens sq).length = sq.length := by simp [lens]
  have haxes : exprToAxis m sq = posOf (fun a => m.contains a.name) sq := rfl
  have hvalidaxes : (!(exprToAxis m sq).all (· < (lens sq).length) ||
      (exprToAxis m sq).eraseDups.length != (exprToAxis m sq).length) = false := by
    rw [haxes, eraseDups_of_nodup (posOf_nodup _ _)]
    have : (posOf (fun a => m.contains a.name) sq).all (· < (lens sq).length) = true := by
      rw [List.all_eq_true]
      intro k hk
      obtain ⟨hk', _⟩ := mem_posOf.mp hk
      rw [hn]; exact decide_eq_true hk'
    rw [this]; simp
  have hred : (List.range (lens sq).length).filter (fun a => (exprToAxis m sq).contains a)
      = posOf (fun a => m.contains a.name) sq := by rw [hn, haxes, posOf_self]
  have hredShape : ((List.range (lens sq).length).filter (fun a => (exprToAxis m sq).contains a)).map
      (fun a => (lens sq).getD a 0) = lens (markedAxes m sq) := by rw [hred, lens_marked_eq]
  refine ⟨tabulate (reducedShape (lens sq) (exprToAxis m sq)) (fun o =>
      mkRed f ((allIndices (((List.range (lens sq).length).filter (fun a => (exprToAxis m sq).contains a)).map
          (fun a => (lens sq).getD a 0))).map (fun τ =>
        .src x (ravel (lens sq) ((List.range (lens sq).length).map (fun a =>
          match ((List.range (lens sq).length).filter (fun a => !(exprToAxis m sq).contains a)).idxOf? a with
          | some i => o.getD i 0
          | none => τ.getD ((((List.range (lens sq).length).filter (fun a => (exprToAxis m sq).contains a)).idxOf? a).getD 0) 0)))))),
    ?_, ?_, ?_, ?_⟩
  · simp only [planInstrX, getShape, shapes_getElem? hx, hsh, pure_bind, hvalidaxes, Bool.false_eq_true, if_false]
    rfl
  · exact hcheck
  · exact tabulate_length _ _
  · intro val hv
    have hbo : Bnd val (sq.filter (fun a => !m.contains a.name)) := by
      intro a ha
      have := List.mem_filter.mp ha
      exact hv a this.1 (by simpa using this.2)
    have hvalid : Valid (reducedShape (lens sq) (exprToAxis m sq)) (idx (sq.filter (fun a => !m.contains a.name)) val) := by
      rw [hcheck]; exact valid_idx hbo
    rw [runPlan_data, List.getElem?_map, ← hcheck]
    have e0 : reducedShape (lens sq) (exprToAxis m sq)
        = ((List.range (lens sq).length).filter (fun a => !(exprToAxis m sq).contains a)).map (fun a => (lens sq).getD a 0) := rfl
    rw [e0] at hvalid ⊢
    rw [tabulate_getElem? _ _ _ hvalid]
    simp only [Option.map_some, Bool.false_eq_true, if_false, Option.some.injEq]
    rw [hredShape]
    -- the cells read register `x` at the indices of the overridden valuations
    have hcells : (allIndices (lens (markedAxes m sq))).map (fun τ =>
          Cell.src x (ravel (lens sq) ((List.range (lens sq).length).map (fun a =>
            match ((List.range (lens sq).length).filter (fun a => !(exprToAxis m sq).contains a)).idxOf? a with
            | some i => (idx (sq.filter (fun a => !m.contains a.name)) val).getD i 0
            | none => τ.getD ((((List.range (lens sq).length).filter (fun a => (exprToAxis m sq).contains a)).idxOf? a).getD 0) 0))))
        = ((allIndices (lens (markedAxes m sq))).map (fun τ => ravel (lens sq) (idx sq (ovr (markedAxes m sq) τ val)))).map
            (Cell.src x) := by
      rw [List.map_map]
      apply List.map_congr_left
      intro τ _
      simp only [Function.comp]
      rw [hn, reduce_index_eq m hnd val τ]
    rw [hcells, evalCell_mkRed_src hx hid f]
    · rw [List.map_map]; rfl
    · intro k hk
      obtain ⟨τ, hτ, rfl⟩ := List.mem_map.mp hk
      have hb := ovr_bnd hnd (mem_allIndices hτ) hv
      have := ravel_lt (valid_idx hb)
      rw [hlen, hsh]; exact this

/-! ### the whole reduction pipeline -/

/-- **The lowering side of reductions.** -/
theorem lowerReduce_run {f : String} {m : List String} {ein eout : List G} {l : LX}
    (hout : (names (G.leavesL eout)).Nodup)
    (hcons : ∀ a ∈ G.leavesL ein, ∀ b ∈ G.leavesL eout, a.name = b.name → a.len = b.len)
    (h : lowerReduce f m ein eout = .ok l) :
    (names (G.leavesL ein)).Nodup ∧
    (∀ a ∈ G.leavesL ein, a.len ≠ 1 → m.contains a.name = false → a.name ∈ names (G.leavesL eout)) ∧
    ∃ regs T, evalProgG planInstrX symAlg l.prog [symInput 0 (gShape ein)] = .ok regs ∧ regs[l.reg]? = some T ∧
      T.shape = gShape eout ∧ T.data.length = prod (gShape eout) ∧
      ∀ val : String → Nat, Bnd val (G.leavesL eout) →
        (∀ a ∈ G.leavesL ein, m.contains a.name = false → val a.name < a.len) →
        T.data[ravel (lens (G.leavesL eout)) (idx (G.leavesL eout) val)]? = some (redCell f m (G.leavesL ein) val) := by
  unfold lowerReduce at h
  by_cases hop : redOps.contains f = true
  · simp only [hop, Bool.not_true, Bool.false_eq_true, if_false, pure_bind] at h
    cases hp : prepInput m { reg := 0, shape := gShape ein, prog := [], next := 1 } 0 ein with
    | error er => simp [hp, bind, Except.bind] at h
    | ok x0 =>
      obtain ⟨sq, s1⟩ := x0
      simp only [hp, bind, Except.bind] at h
      have htr0 : Tr [symInput 0 (gShape ein)] { reg := 0, shape := gShape ein, prog := [], next := 1 }
          [symInput 0 (gShape ein)] := ⟨rfl, rfl⟩
      obtain ⟨hnd, hsq, ext1, T1, hrun1, hdat1, hR1⟩ := prep_run htr0 rfl hp
      have hsqmem : ∀ a, a ∈ sq ↔ a ∈ G.leavesL ein ∧ (a.len ≠ 1 ∨ m.contains a.name = true) := by
        intro a
        rw [hsq]
        simp only [squeezedExpr, List.mem_filter, Bool.not_eq_eq_eq_not, Bool.not_true, Bool.and_eq_false_imp, beq_iff_eq,
          Bool.not_eq_eq_eq_not, Bool.not_false]
        constructor
        · rintro ⟨h1, h2⟩
          refine ⟨h1, ?_⟩
          by_cases e : a.len = 1
          · exact Or.inr (h2 e)
          · exact Or.inl e
        · rintro ⟨h1, h2⟩
          refine ⟨h1, ?_⟩
          intro e
          rcases h2 with h2 | h2
          · exact absurd e h2
          · exact h2
      have hsqnd : (names sq).Nodup := by rw [hsq]; exact names_nodup_filter hnd _
      by_cases hcheck : reducedShape s1.shape (exprToAxis m sq) = lens (sq.filter (fun a => !m.contains a.name))
      · simp only [hcheck, bne_self_eq_false, Bool.false_eq_true, if_false, pure, Except.pure] at h
        cases hstb : stb { reg := s1.next, shape := lens (sq.filter (fun a => !m.contains a.name)), prog := [], next := s1.next + 1 }
            (sq.filter (fun a => !m.contains a.name)) (G.leavesL eout) with
        | error er => rw [hstb] at h; cases h
        | ok s3 =>
          simp only [hstb, Except.ok.injEq] at h
          subst h
          -- the reduction
          have hsh1 : T1.shape = lens sq := hR1.1
          rw [← hrun1.shape, hsh1] at hcheck
          have hid : ∀ k, k < T1.data.length → T1.data[k]? = some (.src 0 k) := by
            intro k hk
            rw [hdat1] at hk ⊢
            simp only [symInput, List.length_map, List.length_range] at hk
            simp [symInput, hk]
          obtain ⟨pl, hpl, hplsh, hpll, hplread⟩ := reduce_reads f m hrun1.reg hsh1 hrun1.len hid hsqnd hcheck
          generalize hregs1 : [symInput 0 (gShape ein)] ++ ext1 = regs1 at *
          -- tracing resumes on all registers computed so far
          have hnext : regs1.length = s1.next := hrun1.next
          have hrun2 : Run (regs1 ++ [runPlan symAlg regs1 pl])
              { reg := s1.next, shape := lens (sq.filter (fun a => !m.contains a.name)), prog := [], next := s1.next + 1 }
              (regs1 ++ [runPlan symAlg regs1 pl]) (runPlan symAlg regs1 pl) :=
            ⟨rfl, by simp [hnext], by rw [← hnext]; exact List.getElem?_concat_length, hplsh, by
              rw [runPlan_data]; simpa [runPlan] using hpll⟩
          generalize hPdef : (fun val : String → Nat => Bnd val (G.leavesL eout) ∧
            ∀ a ∈ G.leavesL ein, m.contains a.name = false → val a.name < a.len) = P
          have hexmem : ∀ a ∈ sq.filter (fun a => !m.contains a.name),
              a ∈ G.leavesL ein ∧ a.len ≠ 1 ∧ m.contains a.name = false := by
            intro a ha
            have h1 := List.mem_filter.mp ha
            have h2 := (hsqmem a).mp h1.1
            have h3 : m.contains a.name = false := by simpa using h1.2
            refine ⟨h2.1, ?_, h3⟩
            rcases h2.2 with h4 | h4
            · exact h4
            · rw [h3] at h4; cases h4
          have hR2 : ReadsC P (redCell f m (G.leavesL ein)) (runPlan symAlg regs1 pl) (sq.filter (fun a => !m.contains a.name)) := by
            refine ⟨hplsh, ?_⟩
            intro val hv
            rw [← hPdef] at hv
            have := hplread val (fun a ha hm => hv.2 a ((hsqmem a).mp ha).1 hm)
            rw [this]
            simp only [redCell, Option.some.injEq]
            rw [← markedAxes_squeezed m ein, ← hsq]
            congr 1
            apply List.map_congr_left
            intro τ hτ
            have hb := ovr_bnd hsqnd (mem_allIndices hτ) (fun a ha hm => hv.2 a ((hsqmem a).mp ha).1 hm)
            congr 1
            rw [hsq]
            simp only [squeezedExpr]
            exact (ravel_map_filter _ _ _ _ (fun a ha hp => by
              simp only [Bool.not_eq_eq_eq_not, Bool.not_false, Bool.and_eq_true, beq_iff_eq, Bool.not_eq_eq_eq_not,
                Bool.not_true] at hp
              have hm' : m.contains a.name = false := hp.2
              rw [ovr_unmarked hm']
              have := hv.2 a ha hm'
              exact ⟨hp.1, by omega⟩)).symm
          obtain ⟨hsub, ext3, T3, hrun3, hR3⟩ := stb_run hrun2 (names_nodup_filter hsqnd _) hout
            (fun a ha => (hexmem a ha).2.1)
            (by
              intro val hv a ha
              rw [← hPdef] at hv
              exact hv.2 a (hexmem a ha).1 (hexmem a ha).2.2)
            (by intro val hv; rw [← hPdef] at hv; exact hv.1)
            (fun a ha b hb hn => hcons a (hexmem a ha).1 b hb hn) hR2 hstb
          obtain ⟨ext4, T4, hrun4, hsh4, hd4⟩ := reshapeW_run hrun3 (gShape eout)
            (by rw [← hrun3.shape, hR3.1, prod_gShape_leaves])
          refine ⟨hnd, ?_, _, T4, ?_, hrun4.reg, hsh4, by rw [hrun4.len, hsh4], ?_⟩
          · intro a ha hne hm
            apply hsub
            exact List.mem_map.mpr ⟨a, List.mem_filter.mpr ⟨(hsqmem a).mpr ⟨ha, Or.inl hne⟩, by rw [hm]; rfl⟩, rfl⟩
          · simp only []
            rw [evalProgG_append, evalProgG_append, evalProgG_base, hrun1.ev]
            simp only [ok_bind, evalProgG, hpl, pure, Except.pure]
            rw [evalProgG_base]
            exact hrun4.ev
          · intro val hvo hvi
            rw [hd4]
            exact hR3.2 val (by rw [← hPdef]; exact ⟨hvo, hvi⟩)
      · have : (reducedShape s1.shape (exprToAxis m sq) != lens (sq.filter (fun a => !m.contains a.name))) = true := by
          simpa using hcheck
        simp only [this, if_true, throw, throwThe, MonadExceptOf.throw] at h
        cases h
  · have hop' : redOps.contains f = false := by
      cases hc : redOps.contains f with
      | true => exact absurd hc hop
      | false => rfl
    simp only [hop', Bool.not_false, if_true, throw, throwThe, MonadExceptOf.throw, bind, Except.bind] at h
    cases h
