import EinxModel.Proofs.NotationNFMoveUp
/-!
# M1 Notation — normal form, layer 3: the redundant-bracket pass

`traverse_N`: on a tree of the grammar `G false false` (no `Op`/`Args` below), `traverse inBr` returns a tree of the grammar
`N inBr` with the same `ndim`.
-/
namespace Einx.Notation

namespace NF

/-! ### `ndim` of the smart constructors -/

theorem ndimSum_append : ∀ (xs ys : List Expr), ndimSum (xs ++ ys) =
    (match ndimSum xs, ndimSum ys with | some a, some b => some (a + b) | _, _ => none)
  | [], ys => by
    simp only [List.nil_append, ndimSum]
    cases ndimSum ys <;> simp
  | x :: xs, ys => by
    simp only [List.cons_append, ndimSum, ndimSum_append xs ys]
    cases x.ndim <;> cases ndimSum xs <;> cases ndimSum ys <;> simp [Nat.add_assoc]

theorem ndimSum_single (c : Expr) : ndimSum [c] = c.ndim := by
  simp only [ndimSum]
  cases c.ndim <;> simp

mutual
theorem flattenOne_ndim : ∀ (x : Expr), ndimSum (flattenOne x) = x.ndim
  | .list cs _ _ => by simp only [flattenOne, Expr.ndim, flattenAll_ndim cs]
  | .axis .. => by simp only [flattenOne, ndimSum_single]
  | .flat .. => by simp only [flattenOne, ndimSum_single]
  | .brackets .. => by simp only [flattenOne, ndimSum_single]
  | .ellipsis .. => by simp only [flattenOne, ndimSum_single]
  | .concat .. => by simp only [flattenOne, ndimSum_single]
  | .args .. => by simp only [flattenOne, ndimSum_single]
  | .op .. => by simp only [flattenOne, ndimSum_single]
theorem flattenAll_ndim : ∀ (cs : List Expr), ndimSum (flattenAll cs) = ndimSum cs
  | [] => by simp only [flattenAll]
  | c :: cs => by
    simp only [flattenAll, ndimSum_append, flattenOne_ndim c, flattenAll_ndim cs, ndimSum]
    cases c.ndim <;> cases ndimSum cs <;> rfl
end

theorem mkList_ndim (ys : List Expr) (b e : Int) : (mkList ys b e).ndim = ndimSum ys := by
  unfold mkList
  split
  · rename_i c hc
    rw [← flattenAll_ndim ys, hc, ndimSum_single]
  · simp only [Expr.ndim, flattenAll_ndim]

theorem ndim_of_isFlat {x : Expr} (h : x.isFlat = true) : x.ndim = some 1 := by
  cases x <;> simp [Expr.isFlat] at h
  simp [Expr.ndim]

theorem ndim_of_axisOrFlat {x : Expr} (h : isAxisOrFlat x = true) : x.ndim = some 1 := by
  cases x <;> simp [isAxisOrFlat, Expr.isAxis, Expr.isFlat] at h <;> simp [Expr.ndim]

/-! ### The grammar `N` -/

theorem N_notList {inBr al al' : Bool} {x : Expr} (h : N inBr al x = true) (hl : x.isList = false) :
    N inBr al' x = true := by
  cases x <;> first | (simpa only [N] using h) | (simp [Expr.isList] at hl)

theorem N_false_notList {inBr : Bool} {x : Expr} (h : N inBr false x = true) : x.isList = false := by
  cases x <;> first | rfl | (simp [N] at h)

theorem NL_iff {inBr : Bool} : ∀ {cs : List Expr}, NL inBr cs = true ↔ ∀ c ∈ cs, N inBr false c = true
  | [] => by simp [NL]
  | c :: cs => by simp [NL, NL_iff (cs := cs)]

theorem notList_of_axisOrFlat {x : Expr} (h : isAxisOrFlat x = true) : x.isList = false := by
  cases x <;> first | rfl | (simp [isAxisOrFlat, Expr.isAxis, Expr.isFlat] at h)

theorem flattenOne_notList {x : Expr} (h : x.isList = false) : flattenOne x = [x] := by
  cases x <;> first | rfl | (simp [Expr.isList] at h)

theorem flattenAll_notList : ∀ {zs : List Expr}, (∀ z ∈ zs, z.isList = false) → flattenAll zs = zs
  | [], _ => by simp [flattenAll]
  | z :: zs, h => by
    have h1 := flattenOne_notList (h z (by simp))
    have h2 := flattenAll_notList (zs := zs) (fun z' hz' => h z' (List.mem_cons_of_mem _ hz'))
    simp only [flattenAll, h1, h2, List.singleton_append]

theorem mem_flattenOne_N {inBr : Bool} {y : Expr} (h : N inBr true y = true) : ∀ z ∈ flattenOne y, N inBr false z = true := by
  cases y with
  | list zs b e =>
    simp only [N, Bool.true_and, Bool.and_eq_true] at h
    have hz := NL_iff.mp h.2
    simp only [flattenOne]
    rw [flattenAll_notList (fun z hz' => N_false_notList (hz z hz'))]
    exact hz
  | args => simp [N] at h
  | op => simp [N] at h
  | _ => intro z hz; simp only [flattenOne, List.mem_singleton] at hz; subst hz; exact N_notList h rfl

theorem mem_flattenAll_N {inBr : Bool} : ∀ {ys : List Expr}, (∀ y ∈ ys, N inBr true y = true) →
    ∀ z ∈ flattenAll ys, N inBr false z = true
  | [], _, z, hz => by simp [flattenAll] at hz
  | y :: ys, h, z, hz => by
    simp only [flattenAll, List.mem_append] at hz
    rcases hz with hz | hz
    · exact mem_flattenOne_N (h y (by simp)) z hz
    · exact mem_flattenAll_N (fun y' hy' => h y' (by simp [hy'])) z hz

/-- `List.create` of `N` trees (which may be lists themselves) is an `N` tree. -/
theorem N_mkList {inBr : Bool} {ys : List Expr} (b e : Int) (h : ∀ y ∈ ys, N inBr true y = true) :
    N inBr true (mkList ys b e) = true := by
  have hm := mem_flattenAll_N h
  unfold mkList
  split
  · rename_i c hc
    have := hm c (by rw [hc]; simp)
    exact N_notList this (N_false_notList this)
  · rename_i hne
    simp only [N, Bool.true_and, Bool.and_eq_true, bne_iff_ne, ne_eq]
    refine ⟨?_, NL_iff.mpr hm⟩
    intro h1
    match hf : flattenAll ys, h1 with
    | [c], _ => exact hne c hf

/-! ### `traverse` -/

theorem ellipsis_ndim_congr {y i : Expr} (h : y.ndim = i.ndim) (d d' : Nat) (b e b' e' : Int) :
    (Expr.ellipsis y d b e).ndim = (Expr.ellipsis i d' b' e').ndim := by
  simp only [Expr.ndim, h]

mutual
/-- Layer 3: the redundant-bracket pass on a tree without `Op`/`Args`. -/
theorem traverse_N : ∀ (x : Expr) (inBr : Bool), G false false true x = true →
    N inBr true (traverse inBr x) = true ∧ (traverse inBr x).ndim = x.ndim ∧
      (isAxisOrFlat x = true → isAxisOrFlat (traverse inBr x) = true)
  | .axis n v b e, inBr, h => by
    simp only [traverse]
    refine ⟨by simpa only [G, N] using h, ?_, fun hx => hx⟩
    first | rfl | trivial
  | .flat i b e, inBr, h => by
    simp only [G, Bool.and_eq_true] at h
    have ih := traverse_N i inBr h.2
    simp only [traverse]
    have hf := mkFlat_isFlat (traverse inBr i) b e
    refine ⟨?_, ?_, fun _ => by simp [isAxisOrFlat, hf]⟩
    · unfold mkFlat
      split
      · exact ih.1
      · rename_i hnf
        simp only [N, Bool.and_eq_true, Bool.not_eq_true']
        exact ⟨by simpa using hnf, ih.1⟩
    · rw [ndim_of_isFlat hf]; simp [Expr.ndim]
  | .list cs b e, inBr, h => by
    simp only [G, Bool.and_eq_true] at h
    have ih := traverseL_N cs inBr false h.2
    simp only [traverse]
    refine ⟨N_mkList b e ih.1, ?_, fun hx => by simp [isAxisOrFlat, Expr.isAxis, Expr.isFlat] at hx⟩
    rw [mkList_ndim, ih.2.1]
    simp only [Expr.ndim]
  | .concat cs b e, inBr, h => by
    simp only [G, Bool.and_eq_true, decide_eq_true_eq] at h
    have ih := traverseL_N cs inBr false h.2
    simp only [traverse]
    have h2 : 2 ≤ (traverseL inBr cs).length := by rw [ih.2.2.1]; exact h.1.1
    have hax := ih.2.2.2 h.1.2
    rw [mkConcat_two b e h2]
    refine ⟨?_, by simp [Expr.ndim], fun hx => by simp [isAxisOrFlat, Expr.isAxis, Expr.isFlat] at hx⟩
    simp only [N, Bool.and_eq_true, decide_eq_true_eq]
    refine ⟨⟨h2, hax⟩, NL_iff.mpr ?_⟩
    intro y hy
    exact N_notList (ih.1 y hy) (notList_of_axisOrFlat (List.all_eq_true.mp hax y hy))
  | .brackets i b e, inBr, h => by
    simp only [G, Bool.and_eq_true] at h
    have ih := traverse_N i true h.2
    simp only [traverse]
    cases inBr with
    | true =>
      simp only [if_true]
      exact ⟨ih.1, by rw [ih.2.1]; simp [Expr.ndim], fun hx => by simp [isAxisOrFlat, Expr.isAxis, Expr.isFlat] at hx⟩
    | false =>
      simp only [Bool.false_eq_true, if_false]
      have hnb : (traverse true i).isBrackets = false := by
        cases ht : traverse true i <;> first | rfl | (rw [ht] at ih; simp [N] at ih)
      have hnd : ((traverse true i).ndim != some 0) = true := by rw [ih.2.1]; exact h.1.2
      rw [FinNF.mkBrackets_nf b e hnb hnd]
      refine ⟨?_, by simp only [Expr.ndim, ih.2.1], fun hx => by simp [isAxisOrFlat, Expr.isAxis, Expr.isFlat] at hx⟩
      simp only [N, Bool.not_false, Bool.true_and, Bool.and_eq_true, Bool.not_eq_true']
      exact ⟨⟨hnb, hnd⟩, ih.1⟩
  | .ellipsis i d b e, inBr, h => by
    simp only [G, Bool.or_eq_true, Bool.and_eq_true] at h
    simp only [traverse]
    rcases h with h | h
    · cases i with
      | axis n v bi ei =>
        simp only [traverse]
        have : mkEllipsis (.axis n v bi ei) b e d = .ellipsis (.axis n v bi ei) d b e := by
          simp [mkEllipsis, Expr.ndim]
        rw [this]
        refine ⟨?_, rfl, fun hx => by simp [isAxisOrFlat, Expr.isAxis, Expr.isFlat] at hx⟩
        simp only [N, Bool.or_eq_true]
        exact Or.inl h
      | _ => simp [isAnonAxisNone] at h
    · have ih := traverse_N i inBr (G_mono h.2)
      have hnd : ((traverse inBr i).ndim != some 0) = true := by rw [ih.2.1]; exact h.1
      rw [FinNF.mkEllipsis_nf b e d hnd]
      refine ⟨?_, ellipsis_ndim_congr ih.2.1 .., fun hx => by simp [isAxisOrFlat, Expr.isAxis, Expr.isFlat] at hx⟩
      simp only [N, Bool.or_eq_true, Bool.and_eq_true]
      exact Or.inr ⟨hnd, ih.1⟩
  | .args .., _, h => by simp [G] at h
  | .op .., _, h => by simp [G] at h
theorem traverseL_N : ∀ (cs : List Expr) (inBr al : Bool), GL false false al cs = true →
    (∀ y ∈ traverseL inBr cs, N inBr true y = true) ∧ ndimSum (traverseL inBr cs) = ndimSum cs ∧
      (traverseL inBr cs).length = cs.length ∧
      (cs.all isAxisOrFlat = true → (traverseL inBr cs).all isAxisOrFlat = true)
  | [], _, _, _ => by simp [traverseL]
  | c :: cs, inBr, al, h => by
    simp only [GL, Bool.and_eq_true] at h
    have hc : G false false true c = true := by
      cases al
      · exact G_mono h.1
      · exact h.1
    have ih1 := traverse_N c inBr hc
    have ih2 := traverseL_N cs inBr al h.2
    simp only [traverseL]
    refine ⟨?_, ?_, by simp [ih2.2.2.1], ?_⟩
    · intro y hy
      rcases List.mem_cons.mp hy with rfl | hy
      · exact ih1.1
      · exact ih2.1 y hy
    · simp only [ndimSum, ih1.2.1, ih2.2.1]
    · intro hx
      simp only [List.all_cons, Bool.and_eq_true] at hx ⊢
      exact ⟨ih1.2.2 hx.1, ih2.2.2.2 hx.2⟩
end

end NF

end Einx.Notation
