import EinxModel.Proofs.Cache
import EinxModel.Cache.KeyEq
/-! Helper lemmas for `Props/C06Hash.lean`: hash consistency (`==` ⇒ equal hash) for the whole value universe of M9,
and the equivalence between key equality and equality of exact observations. -/
namespace Einx.Cache

/-! ### Association lists -/

/-- Remove the first binding of `q`. -/
def eraseKV : KVs → String → KVs
  | [], _ => []
  | (k, v) :: r, q => if k == q then r else (k, v) :: eraseKV r q

theorem lookupKV_mem : ∀ (r : KVs) (k : String) (v : PyVal), (k, v) ∈ r → (lookupKV r k).isSome = true
  | [], _, _, h => by cases h
  | (k', v') :: r, k, v, h => by
    simp only [lookupKV]
    split
    · rfl
    · rename_i hne
      rcases List.mem_cons.mp h with h | h
      · cases h; simp at hne
      · exact lookupKV_mem r k v h

theorem eraseKV_length : ∀ (b : KVs) (k : String) (w : PyVal), lookupKV b k = some w → (eraseKV b k).length + 1 = b.length
  | [], _, _, h => by simp [lookupKV] at h
  | (k', v) :: r, k, w, h => by
    simp only [lookupKV] at h
    simp only [eraseKV]
    split
    · simp
    · rename_i hne
      simp only [hne] at h
      simp [eraseKV_length r k w (by simpa using h)]

theorem lookupKV_eraseKV : ∀ (b : KVs) (k k' : String), k' ≠ k → lookupKV (eraseKV b k) k' = lookupKV b k'
  | [], _, _, _ => rfl
  | (k0, v) :: r, k, k', hne => by
    simp only [eraseKV]
    split
    · rename_i h
      have : k0 = k := by simpa using h
      subst this
      have : (k0 == k') = false := by simpa using fun h => hne h.symm
      simp [lookupKV, this]
    · simp only [lookupKV]
      split
      · rfl
      · exact lookupKV_eraseKV r k k' hne

/-! ### The order-insensitive part of `frozenset_hash` -/

/-- Item hashes of a mapping for an arbitrary hash function on the values. -/
def itemHashes (env : HashEnv) (h : PyVal → Int) (kvs : KVs) : List Int :=
  kvs.map (fun kv => tupleHash [env.str kv.1, h kv.2])

theorem itemHashes_length (env : HashEnv) (h : PyVal → Int) (kvs : KVs) : (itemHashes env h kvs).length = kvs.length := by
  simp [itemHashes]

theorem xor_left_comm (a b c : UInt64) : a ^^^ (b ^^^ c) = b ^^^ (a ^^^ c) := by
  rw [← UInt64.xor_assoc, UInt64.xor_comm a b, UInt64.xor_assoc]

/-- The binding found by `lookupKV` can be pulled to the front of the xor. -/
theorem xorShuffled_extract (env : HashEnv) (h : PyVal → Int) : ∀ (b : KVs) (k : String) (w : PyVal),
    lookupKV b k = some w →
    xorShuffled (itemHashes env h b) =
      shuffleBits (toU64 (tupleHash [env.str k, h w])) ^^^ xorShuffled (itemHashes env h (eraseKV b k))
  | [], _, _, hl => by simp [lookupKV] at hl
  | (k', v) :: r, k, w, hl => by
    simp only [lookupKV] at hl
    simp only [eraseKV]
    split
    · rename_i he
      simp only [he] at hl
      have hk : k' = k := by simpa using he
      have hv : v = w := by simpa using hl
      subst hk; subst hv
      simp [itemHashes, xorShuffled]
    · rename_i hne
      simp only [hne] at hl
      have ih := xorShuffled_extract env h r k w (by simpa using hl)
      simp only [itemHashes, List.map_cons, xorShuffled] at ih ⊢
      rw [ih, xor_left_comm]

/-- Two mappings of the same size such that every binding of the first (pairwise different keys) is found in the
second with a value of equal hash have the same xor of shuffled item hashes, whatever the order of their items. -/
theorem xorShuffled_sub (env : HashEnv) (h : PyVal → Int) : ∀ (a b : KVs), keysNodup a = true → a.length = b.length →
    (∀ k v, (k, v) ∈ a → ∃ w, lookupKV b k = some w ∧ h v = h w) →
    xorShuffled (itemHashes env h a) = xorShuffled (itemHashes env h b)
  | [], b, _, hl, _ => by
    have : b = [] := List.eq_nil_of_length_eq_zero (by simpa using hl.symm)
    subst this; rfl
  | (k, v) :: r, b, hn, hl, hs => by
    simp only [keysNodup, Bool.and_eq_true] at hn
    obtain ⟨w, hw, hvw⟩ := hs k v (List.mem_cons_self ..)
    have hlen := eraseKV_length b k w hw
    have ih := xorShuffled_sub env h r (eraseKV b k) hn.2 (by simp only [List.length_cons] at hl; omega) (by
      intro k' v' hm
      have hne : k' ≠ k := by
        intro he
        subst he
        have := lookupKV_mem r k' v' hm
        have h0 := hn.1
        cases hq : lookupKV r k' <;> simp_all
      obtain ⟨w', hw', hh⟩ := hs k' v' (List.mem_cons_of_mem _ hm)
      exact ⟨w', by rw [lookupKV_eraseKV b k k' hne]; exact hw', hh⟩)
    rw [xorShuffled_extract env h b k w hw, ← ih]
    simp [itemHashes, xorShuffled, hvw]

theorem frozensetHash_congr (a b : List Int) (hl : a.length = b.length) (hx : xorShuffled a = xorShuffled b) :
    frozensetHash a = frozensetHash b := by
  simp only [frozensetHash, hl, hx]

theorem hash0KVs_eq (env : HashEnv) : ∀ kvs, hash0KVs env kvs = itemHashes env (hash0 env) kvs
  | [] => by simp [hash0KVs, itemHashes]
  | (k, v) :: r => by simpa [hash0KVs, itemHashes] using hash0KVs_eq env r

theorem pyHashKVs_eq (T : Table) (env : HashEnv) : ∀ kvs, pyHashKVs T env kvs = itemHashes env (pyHash T env) kvs
  | [] => by simp [pyHashKVs, itemHashes]
  | (k, v) :: r => by simpa [pyHashKVs, itemHashes] using pyHashKVs_eq T env r

/-- The mapping case of hash consistency, for any value hash. -/
theorem mapping_hash_eq (env : HashEnv) (h : PyVal → Int) (a b : KVs) (hn : keysNodup a = true) (hl : a.length = b.length)
    (hs : ∀ k v, (k, v) ∈ a → ∃ w, lookupKV b k = some w ∧ h v = h w) :
    frozensetHash (itemHashes env h a) = frozensetHash (itemHashes env h b) :=
  frozensetHash_congr _ _ (by simp [itemHashes_length, hl]) (xorShuffled_sub env h a b hn hl hs)

/-! ### `pyEq a b → hash0 a = hash0 b` (values inside the `concrete` of a placeholder) -/

mutual
theorem pyEq_hash0 (env : HashEnv) : ∀ a b, wfKeys a = true → pyEq a b = true → hash0 env a = hash0 env b
  | .num _ v, b => by intro _ h; cases b <;> simp_all [pyEq, hash0]
  | .str _, b => by intro _ h; cases b <;> simp_all [pyEq, hash0]
  | .none, b => by intro _ h; cases b <;> simp_all [pyEq, hash0]
  | .cls _, b => by intro _ h; cases b <;> simp_all [pyEq, hash0]
  | .obj _, b => by intro _ h; cases b <;> simp_all [pyEq, hash0]
  | .tensor _, b => by intro _ h; cases b <;> simp_all [pyEq, hash0]
  | .conv _ _, b => by intro _ h; cases b <;> simp_all [pyEq, hash0]
  | .ndarray _ _, b => by intro _ h; cases b <;> simp [pyEq] at h
  | .tuple xs, b => by
    intro hw h
    cases b with
    | tuple ys => simp only [pyEq, wfKeys] at h hw; simp [hash0, pyEqList_hash0 env xs ys hw h]
    | _ => simp [pyEq] at h
  | .list xs, b => by
    intro hw h
    cases b with
    | list ys => simp only [pyEq, wfKeys] at h hw; simp [hash0, pyEqList_hash0 env xs ys hw h]
    | _ => simp [pyEq] at h
  | .dict a, b => by
    intro hw h
    cases b with
    | dict b =>
      simp only [pyEq, wfKeys, Bool.and_eq_true, beq_iff_eq] at h hw
      simp only [hash0, hash0KVs_eq]
      exact mapping_hash_eq env _ a b hw.1 h.1 (pyEqSub_hash0 env a b hw.2 h.2)
    | _ => simp [pyEq] at h
  | .ns a, b => by
    intro hw h
    cases b with
    | ns b =>
      simp only [pyEq, wfKeys, Bool.and_eq_true, beq_iff_eq] at h hw
      simp only [hash0, hash0KVs_eq]
      exact mapping_hash_eq env _ a b hw.1 h.1 (pyEqSub_hash0 env a b hw.2 h.2)
    | _ => simp [pyEq] at h
  | .param n d a k, b => by
    intro hw h
    cases b with
    | param n' d' a' k' =>
      simp only [pyEq, wfKeys, Bool.and_eq_true, beq_iff_eq] at h hw
      simp [hash0, h.1.1.1, h.1.1.2, pyEq_hash0 env d d' hw.1 h.1.2, pyEq_hash0 env a a' hw.2 h.2]
    | _ => simp [pyEq] at h
theorem pyEqList_hash0 (env : HashEnv) : ∀ xs ys, wfKeysList xs = true → pyEqList xs ys = true →
    hash0List env xs = hash0List env ys
  | [], [] => by simp
  | [], _ :: _ => by simp [pyEqList]
  | _ :: _, [] => by simp [pyEqList]
  | x :: xs, y :: ys => by
    intro hw h
    simp only [pyEqList, wfKeysList, Bool.and_eq_true] at h hw
    simp [hash0List, pyEq_hash0 env x y hw.1 h.1, pyEqList_hash0 env xs ys hw.2 h.2]
theorem pyEqSub_hash0 (env : HashEnv) : ∀ a b, wfKeysKVs a = true → pyEqSub a b = true →
    ∀ k v, (k, v) ∈ a → ∃ w, lookupKV b k = some w ∧ hash0 env v = hash0 env w
  | [], _ => by intro _ _ k v hm; cases hm
  | (k0, v0) :: r, b => by
    intro hw h k v hm
    simp only [pyEqSub, wfKeysKVs, Bool.and_eq_true] at h hw
    rcases List.mem_cons.mp hm with hm | hm
    · obtain ⟨hk, hv⟩ := Prod.mk.inj hm
      rw [hk, hv]
      cases hl : lookupKV b k0 with
      | none => simp [hl] at h
      | some w =>
        simp only [hl] at h
        exact ⟨w, rfl, pyEq_hash0 env v0 w hw.1 h.1⟩
    · exact pyEqSub_hash0 env r b hw.2 h.2 k v hm
end

/-! ### Freezing preserves the guards (for every dispatch table) -/

theorem lookupKV_freezeKVs (T : Table) : ∀ (r : KVs) (q : String), lookupKV (freezeKVs T r) q = (lookupKV r q).map (freeze T)
  | [], _ => rfl
  | (k, v) :: r, q => by
    simp only [freezeKVs, lookupKV]
    split <;> simp [lookupKV_freezeKVs T r q]

theorem keysNodup_freezeKVs (T : Table) : ∀ r : KVs, keysNodup (freezeKVs T r) = keysNodup r
  | [] => rfl
  | (k, v) :: r => by
    simp only [freezeKVs, keysNodup, lookupKV_freezeKVs, keysNodup_freezeKVs T r]
    cases lookupKV r k <;> rfl

theorem wfKeys_finishSeq (a : Action) (orig : PyVal) (frozen : List PyVal) (ho : wfKeys orig = true)
    (hf : wfKeysList frozen = true) : wfKeys (finishSeq a orig frozen) = true := by
  cases a <;> simp [finishSeq, wfKeys, ho, hf]

theorem wfKeys_finishDict (a : Action) (orig : PyVal) (frozen : KVs) (ho : wfKeys orig = true)
    (hf : (keysNodup frozen && wfKeysKVs frozen) = true) : wfKeys (finishDict a orig frozen) = true := by
  cases a <;> simp_all [finishDict, wfKeys]

theorem wfKeys_freezeLeaf (T : Table) (v : PyVal) (h : wfKeys v = true) : wfKeys (freezeLeaf T v) = true := by
  unfold freezeLeaf
  split
  · split <;> simp_all [tagged, wfKeys, wfKeysList]
  · exact h

mutual
theorem freeze_wfKeys (T : Table) : ∀ v, wfKeys v = true → wfKeys (freeze T v) = true
  | .num k d => by intro h; simpa [freeze] using wfKeys_freezeLeaf T _ h
  | .str _ => by intro h; simpa [freeze] using wfKeys_freezeLeaf T _ h
  | .none => by intro h; simpa [freeze] using wfKeys_freezeLeaf T _ h
  | .cls _ => by intro h; simpa [freeze] using wfKeys_freezeLeaf T _ h
  | .obj _ => by intro h; simpa [freeze] using wfKeys_freezeLeaf T _ h
  | .tensor _ => by intro h; simpa [freeze] using wfKeys_freezeLeaf T _ h
  | .conv _ _ => by intro h; simpa [freeze] using wfKeys_freezeLeaf T _ h
  | .tuple xs => by
    intro h
    simp only [freeze]
    exact wfKeys_finishSeq _ _ _ h (freezeList_wfKeys T xs (by simpa [wfKeys] using h))
  | .list xs => by
    intro h
    simp only [freeze]
    exact wfKeys_finishSeq _ _ _ h (freezeList_wfKeys T xs (by simpa [wfKeys] using h))
  | .ndarray d x => by
    intro h
    simp only [freeze]
    split
    · exact freeze_wfKeys T x (by simpa [wfKeys] using h)
    · exact h
  | .dict kvs => by
    intro h
    simp only [freeze]
    have h' := h
    simp only [wfKeys, Bool.and_eq_true] at h'
    exact wfKeys_finishDict _ _ _ h (by simp [keysNodup_freezeKVs, h'.1, freezeKVs_wfKeys T kvs h'.2])
  | .ns kvs => by
    intro h
    simp only [freeze]
    have h' := h
    simp only [wfKeys, Bool.and_eq_true] at h'
    split
    · exact wfKeys_finishDict _ _ _ (by simpa [wfKeys] using h') (by simp [keysNodup_freezeKVs, h'.1, freezeKVs_wfKeys T kvs h'.2])
    · exact h
  | .param n d a k => by
    intro h
    simp only [freeze]
    have h' := h
    simp only [wfKeys, Bool.and_eq_true] at h'
    split
    · refine wfKeys_finishSeq _ _ _ (by simp [wfKeys, wfKeysList, h'.1, h'.2]) ?_
      have l1 := wfKeys_freezeLeaf T (.str n) (by simp [wfKeys])
      have l2 := wfKeys_freezeLeaf T (.num .paramKind ⟨k, 0⟩) (by simp [wfKeys])
      simp [wfKeysList, freeze_wfKeys T d h'.1, freeze_wfKeys T a h'.2, l1, l2]
    · exact h
theorem freezeList_wfKeys (T : Table) : ∀ xs, wfKeysList xs = true → wfKeysList (freezeList T xs) = true
  | [] => by simp [freezeList, wfKeysList]
  | x :: xs => by
    intro h
    simp only [wfKeysList, Bool.and_eq_true] at h
    simp [freezeList, wfKeysList, freeze_wfKeys T x h.1, freezeList_wfKeys T xs h.2]
theorem freezeKVs_wfKeys (T : Table) : ∀ kvs, wfKeysKVs kvs = true → wfKeysKVs (freezeKVs T kvs) = true
  | [] => by simp [freezeKVs, wfKeysKVs]
  | (k, v) :: r => by
    intro h
    simp only [wfKeysKVs, Bool.and_eq_true] at h
    simp [freezeKVs, wfKeysKVs, freeze_wfKeys T v h.1, freezeKVs_wfKeys T r h.2]
end

/-! ### `keyEq a b → pyHash a = pyHash b` -/

mutual
theorem keyEq_hash (T : Table) (env : HashEnv) : ∀ a b, wfKeys a = true → keyEq T a b = true → pyHash T env a = pyHash T env b
  | .num _ v, b => by intro _ h; cases b <;> simp_all [keyEq, pyHash]
  | .str _, b => by intro _ h; cases b <;> simp_all [keyEq, pyHash]
  | .none, b => by intro _ h; cases b <;> simp_all [keyEq, pyHash]
  | .cls _, b => by intro _ h; cases b <;> simp_all [keyEq, pyHash]
  | .obj _, b => by intro _ h; cases b <;> simp_all [keyEq, pyHash]
  | .tensor _, b => by intro _ h; cases b <;> simp_all [keyEq, pyHash]
  | .ndarray _ _, b => by intro _ h; cases b <;> simp [keyEq] at h
  | .conv c s, b => by
    intro hw h
    cases b with
    | conv c' s' =>
      simp only [keyEq, wfKeys, Bool.and_eq_true, beq_iff_eq] at h hw
      simp [pyHash, h.2, pyEq_hash0 env _ _ (freeze_wfKeys T c hw) h.1]
    | _ => simp [keyEq] at h
  | .tuple xs, b => by
    intro hw h
    cases b with
    | tuple ys => simp only [keyEq, wfKeys] at h hw; simp [pyHash, keyEqList_hash T env xs ys hw h]
    | _ => simp [keyEq] at h
  | .list xs, b => by
    intro hw h
    cases b with
    | list ys => simp only [keyEq, wfKeys] at h hw; simp [pyHash, keyEqList_hash T env xs ys hw h]
    | _ => simp [keyEq] at h
  | .dict a, b => by
    intro hw h
    cases b with
    | dict b =>
      simp only [keyEq, wfKeys, Bool.and_eq_true, beq_iff_eq] at h hw
      simp only [pyHash, pyHashKVs_eq]
      exact mapping_hash_eq env _ a b hw.1 h.1 (keyEqSub_hash T env a b hw.2 h.2)
    | _ => simp [keyEq] at h
  | .ns a, b => by
    intro hw h
    cases b with
    | ns b =>
      simp only [keyEq, wfKeys, Bool.and_eq_true, beq_iff_eq] at h hw
      simp only [pyHash, pyHashKVs_eq]
      exact mapping_hash_eq env _ a b hw.1 h.1 (keyEqSub_hash T env a b hw.2 h.2)
    | _ => simp [keyEq] at h
  | .param n d a k, b => by
    intro hw h
    cases b with
    | param n' d' a' k' =>
      simp only [keyEq, wfKeys, Bool.and_eq_true, beq_iff_eq] at h hw
      simp [pyHash, h.1.1.1, h.1.1.2, keyEq_hash T env d d' hw.1 h.1.2, keyEq_hash T env a a' hw.2 h.2]
    | _ => simp [keyEq] at h
theorem keyEqList_hash (T : Table) (env : HashEnv) : ∀ xs ys, wfKeysList xs = true → keyEqList T xs ys = true →
    pyHashList T env xs = pyHashList T env ys
  | [], [] => by simp
  | [], _ :: _ => by simp [keyEqList]
  | _ :: _, [] => by simp [keyEqList]
  | x :: xs, y :: ys => by
    intro hw h
    simp only [keyEqList, wfKeysList, Bool.and_eq_true] at h hw
    simp [pyHashList, keyEq_hash T env x y hw.1 h.1, keyEqList_hash T env xs ys hw.2 h.2]
theorem keyEqSub_hash (T : Table) (env : HashEnv) : ∀ a b, wfKeysKVs a = true → keyEqSub T a b = true →
    ∀ k v, (k, v) ∈ a → ∃ w, lookupKV b k = some w ∧ pyHash T env v = pyHash T env w
  | [], _ => by intro _ _ k v hm; cases hm
  | (k0, v0) :: r, b => by
    intro hw h k v hm
    simp only [keyEqSub, wfKeysKVs, Bool.and_eq_true] at h hw
    rcases List.mem_cons.mp hm with hm | hm
    · obtain ⟨hk, hv⟩ := Prod.mk.inj hm
      rw [hk, hv]
      cases hl : lookupKV b k0 with
      | none => simp [hl] at h
      | some w =>
        simp only [hl] at h
        exact ⟨w, rfl, keyEq_hash T env v0 w hw.1 h.1⟩
    · exact keyEqSub_hash T env r b hw.2 h.2 k v hm
end

/-! ### `keyEq` and `pyEq` agree away from `ConvertibleTensor` placeholders -/

mutual
theorem keyEq_noConv (T : Table) : ∀ a b, noConv a = true → keyEq T a b = pyEq a b
  | .num _ _, b => by intro _; cases b <;> simp [keyEq, pyEq]
  | .str _, b => by intro _; cases b <;> simp [keyEq, pyEq]
  | .none, b => by intro _; cases b <;> simp [keyEq, pyEq]
  | .cls _, b => by intro _; cases b <;> simp [keyEq, pyEq]
  | .obj _, b => by intro _; cases b <;> simp [keyEq, pyEq]
  | .tensor _, b => by intro _; cases b <;> simp [keyEq, pyEq]
  | .ndarray _ _, b => by intro _; cases b <;> simp [keyEq, pyEq]
  | .conv _ _, b => by intro h; simp [noConv, allConv] at h
  | .tuple xs, b => by
    intro h
    cases b with
    | tuple ys => simp only [noConv, allConv] at h; simp [keyEq, pyEq, keyEqList_noConv T xs ys h]
    | _ => simp [keyEq, pyEq]
  | .list xs, b => by
    intro h
    cases b with
    | list ys => simp only [noConv, allConv] at h; simp [keyEq, pyEq, keyEqList_noConv T xs ys h]
    | _ => simp [keyEq, pyEq]
  | .dict a, b => by
    intro h
    cases b with
    | dict b => simp only [noConv, allConv] at h; simp [keyEq, pyEq, keyEqSub_noConv T a b h]
    | _ => simp [keyEq, pyEq]
  | .ns a, b => by
    intro h
    cases b with
    | ns b => simp only [noConv, allConv] at h; simp [keyEq, pyEq, keyEqSub_noConv T a b h]
    | _ => simp [keyEq, pyEq]
  | .param n d a k, b => by
    intro h
    cases b with
    | param n' d' a' k' =>
      simp only [noConv, allConv, Bool.and_eq_true] at h
      simp [keyEq, pyEq, keyEq_noConv T d d' h.1, keyEq_noConv T a a' h.2]
    | _ => simp [keyEq, pyEq]
theorem keyEqList_noConv (T : Table) : ∀ xs ys, allConvList (fun _ => false) xs = true → keyEqList T xs ys = pyEqList xs ys
  | [], [] => by simp [keyEqList, pyEqList]
  | [], _ :: _ => by simp [keyEqList, pyEqList]
  | _ :: _, [] => by simp [keyEqList, pyEqList]
  | x :: xs, y :: ys => by
    intro h
    simp only [allConvList, Bool.and_eq_true] at h
    simp [keyEqList, pyEqList, keyEq_noConv T x y h.1, keyEqList_noConv T xs ys h.2]
theorem keyEqSub_noConv (T : Table) : ∀ a b, allConvKVs (fun _ => false) a = true → keyEqSub T a b = pyEqSub a b
  | [], _ => by simp [keyEqSub, pyEqSub]
  | (k, v) :: r, b => by
    intro h
    simp only [allConvKVs, Bool.and_eq_true] at h
    simp only [keyEqSub, pyEqSub, keyEqSub_noConv T r b h.2]
    cases lookupKV b k with
    | none => rfl
    | some w => simp [keyEq_noConv T v w h.1]
end

/-! ### Freezing preserves `allConv p` (for every dispatch table) -/

theorem allConv_finishSeq (p : PyVal → Bool) (a : Action) (orig : PyVal) (frozen : List PyVal) (ho : allConv p orig = true)
    (hf : allConvList p frozen = true) : allConv p (finishSeq a orig frozen) = true := by
  cases a <;> simp [finishSeq, allConv, ho, hf]

theorem allConv_finishDict (p : PyVal → Bool) (a : Action) (orig : PyVal) (frozen : KVs) (ho : allConv p orig = true)
    (hf : allConvKVs p frozen = true) : allConv p (finishDict a orig frozen) = true := by
  cases a <;> simp [finishDict, allConv, ho, hf]

theorem allConv_freezeLeaf (p : PyVal → Bool) (T : Table) (v : PyVal) (h : allConv p v = true) : allConv p (freezeLeaf T v) = true := by
  unfold freezeLeaf
  split
  · split <;> simp_all [tagged, allConv, allConvList]
  · exact h

mutual
theorem freeze_allConv (p : PyVal → Bool) (T : Table) : ∀ v, allConv p v = true → allConv p (freeze T v) = true
  | .num k d => by intro h; simpa [freeze] using allConv_freezeLeaf p T _ h
  | .str _ => by intro h; simpa [freeze] using allConv_freezeLeaf p T _ h
  | .none => by intro h; simpa [freeze] using allConv_freezeLeaf p T _ h
  | .cls _ => by intro h; simpa [freeze] using allConv_freezeLeaf p T _ h
  | .obj _ => by intro h; simpa [freeze] using allConv_freezeLeaf p T _ h
  | .tensor _ => by intro h; simpa [freeze] using allConv_freezeLeaf p T _ h
  | .conv _ _ => by intro h; simpa [freeze] using allConv_freezeLeaf p T _ h
  | .tuple xs => by
    intro h
    simp only [freeze]
    exact allConv_finishSeq p _ _ _ h (freezeList_allConv p T xs (by simpa [allConv] using h))
  | .list xs => by
    intro h
    simp only [freeze]
    exact allConv_finishSeq p _ _ _ h (freezeList_allConv p T xs (by simpa [allConv] using h))
  | .ndarray d x => by
    intro h
    simp only [freeze]
    split
    · exact freeze_allConv p T x (by simpa [allConv] using h)
    · exact h
  | .dict kvs => by
    intro h
    simp only [freeze]
    exact allConv_finishDict p _ _ _ h (freezeKVs_allConv p T kvs (by simpa [allConv] using h))
  | .ns kvs => by
    intro h
    simp only [freeze]
    split
    · exact allConv_finishDict p _ _ _ (by simpa [allConv] using h) (freezeKVs_allConv p T kvs (by simpa [allConv] using h))
    · exact h
  | .param n d a k => by
    intro h
    simp only [freeze]
    have h' := h
    simp only [allConv, Bool.and_eq_true] at h'
    split
    · refine allConv_finishSeq p _ _ _ (by simp [allConv, allConvList, h'.1, h'.2]) ?_
      have l1 := allConv_freezeLeaf p T (.str n) (by simp [allConv])
      have l2 := allConv_freezeLeaf p T (.num .paramKind ⟨k, 0⟩) (by simp [allConv])
      simp [allConvList, freeze_allConv p T d h'.1, freeze_allConv p T a h'.2, l1, l2]
    · exact h
theorem freezeList_allConv (p : PyVal → Bool) (T : Table) : ∀ xs, allConvList p xs = true → allConvList p (freezeList T xs) = true
  | [] => by simp [freezeList, allConvList]
  | x :: xs => by
    intro h
    simp only [allConvList, Bool.and_eq_true] at h
    simp [freezeList, allConvList, freeze_allConv p T x h.1, freezeList_allConv p T xs h.2]
theorem freezeKVs_allConv (p : PyVal → Bool) (T : Table) : ∀ kvs, allConvKVs p kvs = true → allConvKVs p (freezeKVs T kvs) = true
  | [] => by simp [freezeKVs, allConvKVs]
  | (k, v) :: r => by
    intro h
    simp only [allConvKVs, Bool.and_eq_true] at h
    simp [freezeKVs, allConvKVs, freeze_allConv p T v h.1, freezeKVs_allConv p T r h.2]
end

/-! ### Tagged keys are equal exactly when the exact observations are -/

theorem typeName_beq (k k' : NumKind) : (k.typeName == k'.typeName) = (k == k') := by
  cases k <;> cases k' <;> decide

theorem pyEqList_tagged_left (n : String) (k : NumKind) (v : Dy) : ∀ ys, pyEqList [.cls n, .num k v] (tagNumsList ys) = false
  | [] => by simp [tagNumsList, pyEqList]
  | [_] => by simp [tagNumsList, pyEqList]
  | [_, y2] => by simp [tagNumsList, pyEqList, pyEq_num_tagNums]
  | _ :: _ :: _ :: _ => by simp [tagNumsList, pyEqList]

theorem pyEqList_tagged_right (n : String) (k : NumKind) (v : Dy) : ∀ xs, pyEqList (tagNumsList xs) [.cls n, .num k v] = false
  | [] => by simp [tagNumsList, pyEqList]
  | [_] => by simp [tagNumsList, pyEqList]
  | [_, x2] => by simp [tagNumsList, pyEqList, pyEq_tagNums_num]
  | _ :: _ :: _ :: _ => by simp [tagNumsList, pyEqList]

mutual
/-- On values without `ConvertibleTensor` placeholders: the tagged forms are `==` exactly when the values agree in
structure, exact scalar types and values. -/
theorem tag_exact : ∀ x y, noConv x = true → pyEq (tagNums x) (tagNums y) = exactEq x y
  | .num k v, y => by
    intro _
    cases y with
    | num k' v' => simp [tagNums, tagged, pyEq, pyEqList, exactEq, typeName_beq]
    | tuple ys => simp [tagNums, tagged, pyEq, exactEq, pyEqList_tagged_left]
    | _ => simp [tagNums, tagged, pyEq, exactEq]
  | .str _, y => by intro _; cases y <;> simp [tagNums, tagged, pyEq, exactEq]
  | .none, y => by intro _; cases y <;> simp [tagNums, tagged, pyEq, exactEq]
  | .cls _, y => by intro _; cases y <;> simp [tagNums, tagged, pyEq, exactEq]
  | .obj _, y => by intro _; cases y <;> simp [tagNums, tagged, pyEq, exactEq]
  | .tensor _, y => by intro _; cases y <;> simp [tagNums, tagged, pyEq, exactEq]
  | .ndarray _ _, y => by intro _; cases y <;> simp [tagNums, tagged, pyEq, exactEq]
  | .conv _ _, y => by intro h; simp [noConv, allConv] at h
  | .tuple xs, y => by
    intro h
    cases y with
    | tuple ys => simp only [noConv, allConv] at h; simp [tagNums, pyEq, exactEq, tag_exactList xs ys h]
    | num k v => simp [tagNums, tagged, pyEq, exactEq, pyEqList_tagged_right]
    | _ => simp [tagNums, pyEq, exactEq]
  | .list xs, y => by
    intro h
    cases y with
    | list ys => simp only [noConv, allConv] at h; simp [tagNums, pyEq, exactEq, tag_exactList xs ys h]
    | _ => simp [tagNums, tagged, pyEq, exactEq]
  | .dict a, y => by
    intro h
    cases y with
    | dict b => simp only [noConv, allConv] at h; simp [tagNums, pyEq, exactEq, tagNumsKVs_length, tag_exactSub a b h]
    | _ => simp [tagNums, tagged, pyEq, exactEq]
  | .ns a, y => by
    intro h
    cases y with
    | ns b => simp only [noConv, allConv] at h; simp [tagNums, pyEq, exactEq, tagNumsKVs_length, tag_exactSub a b h]
    | _ => simp [tagNums, tagged, pyEq, exactEq]
  | .param n d a k, y => by
    intro h
    cases y with
    | param n' d' a' k' =>
      simp only [noConv, allConv, Bool.and_eq_true] at h
      simp [tagNums, pyEq, exactEq, tag_exact d d' h.1, tag_exact a a' h.2]
    | _ => simp [tagNums, tagged, pyEq, exactEq]
theorem tag_exactList : ∀ xs ys, allConvList (fun _ => false) xs = true → pyEqList (tagNumsList xs) (tagNumsList ys) = exactEqList xs ys
  | [], [] => by simp [tagNumsList, pyEqList, exactEqList]
  | [], _ :: _ => by simp [tagNumsList, pyEqList, exactEqList]
  | _ :: _, [] => by simp [tagNumsList, pyEqList, exactEqList]
  | x :: xs, y :: ys => by
    intro h
    simp only [allConvList, Bool.and_eq_true] at h
    simp [tagNumsList, pyEqList, exactEqList, tag_exact x y h.1, tag_exactList xs ys h.2]
theorem tag_exactSub : ∀ a b, allConvKVs (fun _ => false) a = true → pyEqSub (tagNumsKVs a) (tagNumsKVs b) = exactEqSub a b
  | [], _ => by simp [tagNumsKVs, pyEqSub, exactEqSub]
  | (k, v) :: r, b => by
    intro h
    simp only [allConvKVs, Bool.and_eq_true] at h
    simp only [tagNumsKVs, pyEqSub, exactEqSub, lookup_tagNumsKVs, tag_exactSub r b h.2]
    cases lookupKV b k with
    | none => rfl
    | some w => simp [tag_exact v w h.1]
end

theorem keyEq_num_tagNums (T : Table) (k : NumKind) (v : Dy) (y : PyVal) : keyEq T (.num k v) (tagNums y) = false := by
  cases y <;> simp [tagNums, tagged, keyEq]

theorem keyEq_tagNums_num (T : Table) (k : NumKind) (v : Dy) (x : PyVal) : keyEq T (tagNums x) (.num k v) = false := by
  cases x <;> simp [tagNums, tagged, keyEq]

theorem keyEqList_tagged_left (T : Table) (n : String) (k : NumKind) (v : Dy) : ∀ ys, keyEqList T [.cls n, .num k v] (tagNumsList ys) = false
  | [] => by simp [tagNumsList, keyEqList]
  | [_] => by simp [tagNumsList, keyEqList]
  | [_, y2] => by simp [tagNumsList, keyEqList, keyEq_num_tagNums]
  | _ :: _ :: _ :: _ => by simp [tagNumsList, keyEqList]

theorem keyEqList_tagged_right (T : Table) (n : String) (k : NumKind) (v : Dy) : ∀ xs, keyEqList T (tagNumsList xs) [.cls n, .num k v] = false
  | [] => by simp [tagNumsList, keyEqList]
  | [_] => by simp [tagNumsList, keyEqList]
  | [_, x2] => by simp [tagNumsList, keyEqList, keyEq_tagNums_num]
  | _ :: _ :: _ :: _ => by simp [tagNumsList, keyEqList]

theorem lookup_normConvKVs (T : Table) : ∀ (b : KVs) (q : String), lookupKV (normConvKVs T b) q = (lookupKV b q).map (normConv T)
  | [], _ => rfl
  | (k, v) :: r, q => by
    simp only [normConvKVs, lookupKV]
    split <;> simp [lookup_normConvKVs T r q]

theorem normConvKVs_length (T : Table) : ∀ kvs : KVs, (normConvKVs T kvs).length = kvs.length
  | [] => rfl
  | (_, _) :: r => by simp [normConvKVs, normConvKVs_length T r]

mutual
/-- With every scalar tagged and placeholders compared through their frozen `concrete`: two tagged values are `==`
exactly when their exact observations (placeholders normalised by the pinned freezing) are equal. -/
theorem key_exact (T : Table) (r : Respects T) (t : ∀ k, T.act (.num k) = .tagType) :
    ∀ x y, flatConv x = true → keyEq T (tagNums x) (tagNums y) = exactEq (normConv pinnedTable x) (normConv pinnedTable y)
  | .num k v, y => by
    intro _
    cases y with
    | num k' v' => simp [tagNums, tagged, keyEq, keyEqList, exactEq, normConv, typeName_beq]
    | tuple ys => simp [tagNums, tagged, keyEq, exactEq, normConv, keyEqList_tagged_left]
    | _ => simp [tagNums, tagged, keyEq, exactEq, normConv]
  | .str _, y => by intro _; cases y <;> simp [tagNums, tagged, keyEq, exactEq, normConv]
  | .none, y => by intro _; cases y <;> simp [tagNums, tagged, keyEq, exactEq, normConv]
  | .cls _, y => by intro _; cases y <;> simp [tagNums, tagged, keyEq, exactEq, normConv]
  | .obj _, y => by intro _; cases y <;> simp [tagNums, tagged, keyEq, exactEq, normConv]
  | .tensor _, y => by intro _; cases y <;> simp [tagNums, tagged, keyEq, exactEq, normConv]
  | .ndarray _ _, y => by intro _; cases y <;> simp [tagNums, tagged, keyEq, exactEq, normConv]
  | .conv c s, y => by
    intro h
    cases y with
    | conv c' s' =>
      simp only [flatConv, allConv] at h
      have hn : noConv (freeze pinnedTable c) = true := freeze_allConv _ pinnedTable c h
      simp [tagNums, keyEq, exactEq, normConv, freeze_factor T r t, tag_exact _ _ hn]
    | _ => simp [tagNums, tagged, keyEq, exactEq, normConv]
  | .tuple xs, y => by
    intro h
    cases y with
    | tuple ys => simp only [flatConv, allConv] at h; simp [tagNums, keyEq, exactEq, normConv, key_exactList T r t xs ys h]
    | num k v => simp [tagNums, tagged, keyEq, exactEq, normConv, keyEqList_tagged_right]
    | _ => simp [tagNums, keyEq, exactEq, normConv]
  | .list xs, y => by
    intro h
    cases y with
    | list ys => simp only [flatConv, allConv] at h; simp [tagNums, keyEq, exactEq, normConv, key_exactList T r t xs ys h]
    | _ => simp [tagNums, tagged, keyEq, exactEq, normConv]
  | .dict a, y => by
    intro h
    cases y with
    | dict b =>
      simp only [flatConv, allConv] at h
      simp [tagNums, keyEq, exactEq, normConv, tagNumsKVs_length, normConvKVs_length, key_exactSub T r t a b h]
    | _ => simp [tagNums, tagged, keyEq, exactEq, normConv]
  | .ns a, y => by
    intro h
    cases y with
    | ns b =>
      simp only [flatConv, allConv] at h
      simp [tagNums, keyEq, exactEq, normConv, tagNumsKVs_length, normConvKVs_length, key_exactSub T r t a b h]
    | _ => simp [tagNums, tagged, keyEq, exactEq, normConv]
  | .param n d a k, y => by
    intro h
    cases y with
    | param n' d' a' k' =>
      simp only [flatConv, allConv, Bool.and_eq_true] at h
      simp [tagNums, keyEq, exactEq, normConv, key_exact T r t d d' h.1, key_exact T r t a a' h.2]
    | _ => simp [tagNums, tagged, keyEq, exactEq, normConv]
theorem key_exactList (T : Table) (r : Respects T) (t : ∀ k, T.act (.num k) = .tagType) :
    ∀ xs ys, allConvList noConv xs = true →
      keyEqList T (tagNumsList xs) (tagNumsList ys) = exactEqList (normConvList pinnedTable xs) (normConvList pinnedTable ys)
  | [], [] => by simp [tagNumsList, keyEqList, exactEqList, normConvList]
  | [], _ :: _ => by simp [tagNumsList, keyEqList, exactEqList, normConvList]
  | _ :: _, [] => by simp [tagNumsList, keyEqList, exactEqList, normConvList]
  | x :: xs, y :: ys => by
    intro h
    simp only [allConvList, Bool.and_eq_true] at h
    simp [tagNumsList, keyEqList, exactEqList, normConvList, key_exact T r t x y h.1, key_exactList T r t xs ys h.2]
theorem key_exactSub (T : Table) (r : Respects T) (t : ∀ k, T.act (.num k) = .tagType) :
    ∀ a b, allConvKVs noConv a = true →
      keyEqSub T (tagNumsKVs a) (tagNumsKVs b) = exactEqSub (normConvKVs pinnedTable a) (normConvKVs pinnedTable b)
  | [], _ => by simp [tagNumsKVs, keyEqSub, exactEqSub, normConvKVs]
  | (k, v) :: rest, b => by
    intro h
    simp only [allConvKVs, Bool.and_eq_true] at h
    simp only [tagNumsKVs, keyEqSub, exactEqSub, normConvKVs, lookup_tagNumsKVs, lookup_normConvKVs, key_exactSub T r t rest b h.2]
    cases lookupKV b k with
    | none => rfl
    | some w => simp [key_exact T r t v w h.1]
end

/-! ### The exact observation refines the typed observation of `Props/C06.lean` -/

mutual
theorem exact_typed : ∀ x y, noConv x = true → exactEq x y = true → typedEq x y = true
  | .num k v, y => by intro _ h; cases y <;> simp_all [exactEq, typedEq]
  | .str _, y => by intro _ h; cases y <;> simp_all [exactEq, typedEq]
  | .none, y => by intro _ h; cases y <;> simp_all [exactEq, typedEq]
  | .cls _, y => by intro _ h; cases y <;> simp_all [exactEq, typedEq]
  | .obj _, y => by intro _ h; cases y <;> simp_all [exactEq, typedEq]
  | .tensor _, y => by intro _ h; cases y <;> simp_all [exactEq, typedEq]
  | .ndarray _ _, y => by intro _ h; cases y <;> simp [exactEq] at h
  | .conv _ _, y => by intro h; simp [noConv, allConv] at h
  | .tuple xs, y => by
    intro hn h
    cases y with
    | tuple ys => simp only [noConv, allConv, exactEq] at hn h; simpa [typedEq] using exact_typedList xs ys hn h
    | _ => simp [exactEq] at h
  | .list xs, y => by
    intro hn h
    cases y with
    | list ys => simp only [noConv, allConv, exactEq] at hn h; simpa [typedEq] using exact_typedList xs ys hn h
    | _ => simp [exactEq] at h
  | .dict a, y => by
    intro hn h
    cases y with
    | dict b =>
      simp only [noConv, allConv, exactEq, Bool.and_eq_true] at hn h
      simp [typedEq, h.1, exact_typedSub a b hn h.2]
    | _ => simp [exactEq] at h
  | .ns a, y => by
    intro hn h
    cases y with
    | ns b =>
      simp only [noConv, allConv, exactEq, Bool.and_eq_true] at hn h
      simp [typedEq, h.1, exact_typedSub a b hn h.2]
    | _ => simp [exactEq] at h
  | .param n d a k, y => by
    intro hn h
    cases y with
    | param n' d' a' k' =>
      simp only [noConv, allConv, exactEq, Bool.and_eq_true] at hn h
      simp [typedEq, h.1.1.1, h.1.1.2, exact_typed d d' hn.1 h.1.2, exact_typed a a' hn.2 h.2]
    | _ => simp [exactEq] at h
theorem exact_typedList : ∀ xs ys, allConvList (fun _ => false) xs = true → exactEqList xs ys = true → typedEqList xs ys = true
  | [], [] => by simp [typedEqList]
  | [], _ :: _ => by simp [exactEqList]
  | _ :: _, [] => by simp [exactEqList]
  | x :: xs, y :: ys => by
    intro hn h
    simp only [exactEqList, allConvList, Bool.and_eq_true] at hn h
    simp [typedEqList, exact_typed x y hn.1 h.1, exact_typedList xs ys hn.2 h.2]
theorem exact_typedSub : ∀ a b, allConvKVs (fun _ => false) a = true → exactEqSub a b = true → typedEqSub a b = true
  | [], _ => by simp [typedEqSub]
  | (k, v) :: r, b => by
    intro hn h
    simp only [exactEqSub, allConvKVs, Bool.and_eq_true] at hn h
    cases hl : lookupKV b k with
    | none => simp [hl] at h
    | some w =>
      simp only [hl] at h
      simp [typedEqSub, hl, exact_typed v w hn.1 h.1, exact_typedSub r b hn.2 h.2]
end

mutual
theorem normConv_noConv (T : Table) : ∀ v, noConv v = true → normConv T v = v
  | .num _ _ | .str _ | .none | .cls _ | .obj _ | .tensor _ => by intro _; simp [normConv]
  | .conv _ _ => by intro h; simp [noConv, allConv] at h
  | .tuple xs => by intro h; simp only [noConv, allConv] at h; simp [normConv, normConvList_noConv T xs h]
  | .list xs => by intro h; simp only [noConv, allConv] at h; simp [normConv, normConvList_noConv T xs h]
  | .ndarray d x => by intro h; simp only [noConv, allConv] at h; simp [normConv, normConv_noConv T x h]
  | .dict kvs => by intro h; simp only [noConv, allConv] at h; simp [normConv, normConvKVs_noConv T kvs h]
  | .ns kvs => by intro h; simp only [noConv, allConv] at h; simp [normConv, normConvKVs_noConv T kvs h]
  | .param n d a k => by
    intro h
    simp only [noConv, allConv, Bool.and_eq_true] at h
    simp [normConv, normConv_noConv T d h.1, normConv_noConv T a h.2]
theorem normConvList_noConv (T : Table) : ∀ xs, allConvList (fun _ => false) xs = true → normConvList T xs = xs
  | [] => by simp [normConvList]
  | x :: xs => by
    intro h
    simp only [allConvList, Bool.and_eq_true] at h
    simp [normConvList, normConv_noConv T x h.1, normConvList_noConv T xs h.2]
theorem normConvKVs_noConv (T : Table) : ∀ kvs, allConvKVs (fun _ => false) kvs = true → normConvKVs T kvs = kvs
  | [] => by simp [normConvKVs]
  | (k, v) :: r => by
    intro h
    simp only [allConvKVs, Bool.and_eq_true] at h
    simp [normConvKVs, normConv_noConv T v h.1, normConvKVs_noConv T r h.2]
end

/-! ### Numbers: on normal forms structural equality is equality of the mathematical value -/

theorem dy_normal_unique_aux (n m : Int) (e d : Nat) (hm : m % 2 ≠ 0) (h : n * 2 ^ (e + d + 1) = m * 2 ^ e) : False := by
  have h2 : (2 : Int) ^ e ≠ 0 := Int.pow_ne_zero (by decide)
  have : n * 2 ^ (d + 1) * 2 ^ e = m * 2 ^ e := by
    rw [← h, Int.mul_assoc, ← Int.pow_add]; congr 2; omega
  have hm' : m = n * 2 ^ (d + 1) := (Int.eq_of_mul_eq_mul_right h2 this).symm
  apply hm
  rw [hm', Int.pow_succ, ← Int.mul_assoc]
  exact Int.mul_emod_left _ 2

end Einx.Cache
