import EinxModel.Proofs.Cache
import EinxModel.Cache.KeyEq
/-! Helper lemmas for `Props/C06Hash.lean`: hash consistency (`==` ⇒ equal hash) for the whole value universe of M9,
and the equivalence between key equality and equality of exact observations. -/
namespace Einx.Cache

/-! ### Association lists -/

/-- Remove the first binding of `q`. -/
def eraseKV : KVs → String → KVs
  | [], _ => []
  | (k, v) :: r, q => if k == q then r else (k, v) :: eraseKV r q

theorem lookupKV_mem : ∀ (r : KVs) (k : String) (v : PyVal), (k, v) ∈ r → (lookupKV r k).isSome = true
  | [], _, _, h => by cases h
  | (k', v') :: r, k, v, h => by
    simp only [lookupKV]
    split
    · rfl
    · rename_i hne
      rcases List.mem_cons.mp h with h | h
      · cases h; simp at hne
      · exact lookupKV_mem r k v h

theorem eraseKV_length : ∀ (b : KVs) (k : String) (w : PyVal), lookupKV b k = some w → (eraseKV b k).length + 1 = b.length
  | [], _, _, h => by simp [lookupKV] at h
  | (k', v) :: r, k, w, h => by
    simp only [lookupKV] at h
    simp only [eraseKV]
    split
    · simp
    · rename_i hne
      simp only [hne] at h
      simp [eraseKV_length r k w (by simpa using h)]

theorem lookupKV_eraseKV : ∀ (b : KVs) (k k' : String), k' ≠ k → lookupKV (eraseKV b k) k' = lookupKV b k'
  | [], _, _, _ => rfl
  | (k0, v) :: r, k, k', hne => by
    simp only [eraseKV]
    split
    · rename_i h
      have : k0 = k := by simpa using h
      subst this
      have : (k0 == k') = false := by simpa using fun h => hne h.symm
      simp [lookupKV, this]
    · simp only [lookupKV]
      split
      · rfl
      · exact lookupKV_eraseKV r k k' hne

/-! ### The order-insensitive part of `frozenset_hash` -/

/-- Item hashes of a mapping for an arbitrary hash function on the values. -/
def itemHashes (env : HashEnv) (h : PyVal → Int) (kvs : KVs) : List Int :=
  kvs.map (fun kv => tupleHash [env.str kv.1, h kv.2])

theorem itemHashes_length (env : HashEnv) (h : PyVal → Int) (kvs : KVs) : (itemHashes env h kvs).length = kvs.length := by
  simp [itemHashes]

theorem xor_left_comm (a b c : UInt64) : a ^^^ (b ^^^ c) = b ^^^ (a ^^^ c) := by
  rw [← UInt64.xor_assoc, UInt64.xor_comm a b, UInt64.xor_assoc]

/-- The binding found by `lookupKV` can be pulled to the front of the xor. -/
theorem xorShuffled_extract (env : HashEnv) (h : PyVal → Int) : ∀ (b : KVs) (k : String) (w : PyVal),
    lookupKV b k = some w →
    xorShuffled (itemHashes env h b) =
      shuffleBits (toU64 (tupleHash [env.str k, h w])) ^^^ xorShuffled (itemHashes env h (eraseKV b k))
  | [], _, _, hl => by simp [lookupKV] at hl
  | (k', v) :: r, k, w, hl => by
    simp only [lookupKV] at hl
    simp only [eraseKV]
    split
    · rename_i he
      simp only [he] at hl
      have hk : k' = k := by simpa using he
      have hv : v = w := by simpa using hl
      subst hk; subst hv
      simp [itemHashes, xorShuffled]
    · rename_i hne
      simp only [hne] at hl
      have ih := xorShuffled_extract env h r k w (by simpa using hl)
      simp only [itemHashes, List.map_cons, xorShuffled] at ih ⊢
      rw [ih, xor_left_comm]

/-- Two mappings of the same size such that every binding of the first (pairwise different keys) is found in the
second with a value of equal hash have the same xor of shuffled item hashes, whatever the order of their items. -/
theorem xorShuffled_sub (env : HashEnv) (h : PyVal → Int) : ∀ (a b : KVs), keysNodup a = true → a.length = b.length →
    (∀ k v, (k, v) ∈ a → ∃ w, lookupKV b k = some w ∧ h v = h w) →
    xorShuffled (itemHashes env h a) = xorShuffled (itemHashes env h b)
  | [], b, _, hl, _ => by
    have : b = [] := List.eq_nil_of_length_eq_zero (by simpa using hl.symm)
    subst this; rfl
  | (k, v) :: r, b, hn, hl, hs => by
    simp only [keysNodup, Bool.and_eq_true] at hn
    obtain ⟨w, hw, hvw⟩ := hs k v (List.mem_cons_self ..)
    have hlen := eraseKV_length b k w hw
    have ih := xorShuffled_sub env h r (eraseKV b k) hn.2 (by simp only [List.length_cons] at hl; omega) (by
      intro k' v' hm
      have hne : k' ≠ k := by
        intro he
        subst he
        have := lookupKV_mem r k' v' hm
        have h0 := hn.1
        cases hq : lookupKV r k' <;> simp_all
      obtain ⟨w', hw', hh⟩ := hs k' v' (List.mem_cons_of_mem _ hm)
      exact ⟨w', by rw [lookupKV_eraseKV b k k' hne]; exact hw', hh⟩)
    rw [xorShuffled_extract env h b k w hw, ← ih]
    simp [itemHashes, xorShuffled, hvw]

theorem frozensetHash_congr (a b : List Int) (hl : a.length = b.length) (hx : xorShuffled a = xorShuffled b) :
    frozensetHash a = frozensetHash b := by
  simp only [frozensetHash, hl, hx]

theorem hash0KVs_eq (env : HashEnv) : ∀ kvs, hash0KVs env kvs = itemHashes env (hash0 env) kvs
  | [] => by simp [hash0KVs, itemHashes]
  | (k, v) :: r => by simpa [hash0KVs, itemHashes] using hash0KVs_eq env r

theorem pyHashKVs_eq (T : Table) (env : HashEnv) : ∀ kvs, pyHashKVs T env kvs = itemHashes env (pyHash T env) kvs
  | [] => by simp [pyHashKVs, itemHashes]
  | (k, v) :: r => by simpa [pyHashKVs, itemHashes] using pyHashKVs_eq T env r

/-- The mapping case of hash consistency, for any value hash. -/
theorem mapping_hash_eq (env : HashEnv) (h : PyVal → Int) (a b : KVs) (hn : keysNodup a = true) (hl : a.length = b.length)
    (hs : ∀ k v, (k, v) ∈ a → ∃ w, lookupKV b k = some w ∧ h v = h w) :
    frozensetHash (itemHashes env h a) = frozensetHash (itemHashes env h b) :=
  frozensetHash_congr _ _ (by simp [itemHashes_length, hl]) (xorShuffled_sub env h a b hn hl hs)

/-! ### `pyEq a b → hash0 a = hash0 b` (values inside the `concrete` of a placeholder) -/

mutual
theorem pyEq_hash0 (env : HashEnv) : ∀ a b, wfKeys a = true → pyEq a b = true → hash0 env a = hash0 env b
  | .num _ v, b => by intro _ h; cases b <;> simp_all [pyEq, hash0]
  | .str _, b => by intro _ h; cases b <;> simp_all [pyEq, hash0]
  | .none, b => by intro _ h; cases b <;> simp_all [pyEq, hash0]
  | .cls _, b => by intro _ h; cases b <;> simp_all [pyEq, hash0]
  | .obj _, b => by intro _ h; cases b <;> simp_all [pyEq, hash0]
  | .tensor _, b => by intro _ h; cases b <;> simp_all [pyEq, hash0]
  | .conv _ _, b => by intro _ h; cases b <;> simp_all [pyEq, hash0]
  | .ndarray _ _, b => by intro _ h; cases b <;> simp [pyEq] at h
  | .tuple xs, b => by
    intro hw h
    cases b with
    | tuple ys => simp only [pyEq, wfKeys] at h hw; simp [hash0, pyEqList_hash0 env xs ys hw h]
    | _ => simp [pyEq] at h
  | .list xs, b => by
    intro hw h
    cases b with
    | list ys => simp only [pyEq, wfKeys] at h hw; simp [hash0, pyEqList_hash0 env xs ys hw h]
    | _ => simp [pyEq] at h
  | .dict a, b => by
    intro hw h
    cases b with
    | dict b =>
      simp only [pyEq, wfKeys, Bool.and_eq_true, beq_iff_eq] at h hw
      simp only [hash0, hash0KVs_eq]
      exact mapping_hash_eq env _ a b hw.1 h.1 (pyEqSub_hash0 env a b hw.2 h.2)
    | _ => simp [pyEq] at h
  | .ns a, b => by
    intro hw h
    cases b with
    | ns b =>
      simp only [pyEq, wfKeys, Bool.and_eq_true, beq_iff_eq] at h hw
      simp only [hash0, hash0KVs_eq]
      exact mapping_hash_eq env _ a b hw.1 h.1 (pyEqSub_hash0 env a b hw.2 h.2)
    | _ => simp [pyEq] at h
  | .param n d a k, b => by
    intro hw h
    cases b with
    | param n' d' a' k' =>
      simp only [pyEq, wfKeys, Bool.and_eq_true, beq_iff_eq] at h hw
      simp [hash0, h.1.1.1, h.1.1.2, pyEq_hash0 env d d' hw.1 h.1.2, pyEq_hash0 env a a' hw.2 h.2]
    | _ => simp [pyEq] at h
theorem pyEqList_hash0 (env : HashEnv) : ∀ xs ys, wfKeysList xs = true → pyEqList xs ys = true →
    hash0List env xs = hash0List env ys
  | [], [] => by simp
  | [], _ :: _ => by simp [pyEqList]
  | _ :: _, [] => by simp [pyEqList]
  | x :: xs, y :: ys => by
    intro hw h
    simp only [pyEqList, wfKeysList, Bool.and_eq_true] at h hw
    simp [hash0List, pyEq_hash0 env x y hw.1 h.1, pyEqList_hash0 env xs ys hw.2 h.2]
theorem pyEqSub_hash0 (env : HashEnv) : ∀ a b, wfKeysKVs a = true → pyEqSub a b = true →
    ∀ k v, (k, v) ∈ a → ∃ w, lookupKV b k = some w ∧ hash0 env v = hash0 env w
  | [], _ => by intro _ _ k v hm; cases hm
  | (k0, v0) :: r, b => by
    intro hw h k v hm
    simp only [pyEqSub, wfKeysKVs, Bool.and_eq_true] at h hw
    rcases List.mem_cons.mp hm with hm | hm
    · obtain ⟨hk, hv⟩ := Prod.mk.inj hm
      rw [hk, hv]
      cases hl : lookupKV b k0 with
      | none => simp [hl] at h
      | some w =>
        simp only [hl] at h
        exact ⟨w, rfl, pyEq_hash0 env v0 w hw.1 h.1⟩
    · exact pyEqSub_hash0 env r b hw.2 h.2 k v hm
end

/-! ### Freezing preserves the guards (for every dispatch table) -/

theorem lookupKV_freezeKVs (T : Table) : ∀ (r : KVs) (q : String), lookupKV (freezeKVs T r) q = (lookupKV r q).map (freeze T)
  | [], _ => rfl
  | (k, v) :: r, q => by
    simp only [freezeKVs, lookupKV]
    split <;> simp [lookupKV_freezeKVs T r q]

theorem keysNodup_freezeKVs (T : Table) : ∀ r : KVs, keysNodup (freezeKVs T r) = keysNodup r
  | [] => rfl
  | (k, v) :: r => by
    simp only [freezeKVs, keysNodup, lookupKV_freezeKVs, keysNodup_freezeKVs T r]
    cases lookupKV r k <;> rfl

theorem wfKeys_finishSeq (a : Action) (orig : PyVal) (frozen : List PyVal) (ho : wfKeys orig = true)
    (hf : wfKeysList frozen = true) : wfKeys (finishSeq a orig frozen) = true := by
  cases a <;> simp [finishSeq, wfKeys, ho, hf]

theorem wfKeys_finishDict (a : Action) (orig : PyVal) (frozen : KVs) (ho : wfKeys orig = true)
    (hf : (keysNodup frozen && wfKeysKVs frozen) = true) : wfKeys (finishDict a orig frozen) = true := by
  cases a <;> simp_all [finishDict, wfKeys]

theorem wfKeys_freezeLeaf (T : Table) (v : PyVal) (h : wfKeys v = true) : wfKeys (freezeLeaf T v) = true := by
  unfold freezeLeaf
  split
  · split <;> simp_all [tagged, wfKeys, wfKeysList]
  · exact h

mutual
theorem freeze_wfKeys (T : Table) : ∀ v, wfKeys v = true → wfKeys (freeze T v) = true
  | .num k d => by intro h; simpa [freeze] using wfKeys_freezeLeaf T _ h
  | .str _ => by intro h; simpa [freeze] using wfKeys_freezeLeaf T _ h
  | .none => by intro h; simpa [freeze] using wfKeys_freezeLeaf T _ h
  | .cls _ => by intro h; simpa [freeze] using wfKeys_freezeLeaf T _ h
  | .obj _ => by intro h; simpa [freeze] using wfKeys_freezeLeaf T _ h
  | .tensor _ => by intro h; simpa [freeze] using wfKeys_freezeLeaf T _ h
  | .conv _ _ => by intro h; simpa [freeze] using wfKeys_freezeLeaf T _ h
  | .tuple xs => by
    intro h
    simp only [freeze]
    exact wfKeys_finishSeq _ _ _ h (freezeList_wfKeys T xs (by simpa [wfKeys] using h))
  | .list xs => by
    intro h
    simp only [freeze]
    exact wfKeys_finishSeq _ _ _ h (freezeList_wfKeys T xs (by simpa [wfKeys] using h))
  | .ndarray d x => by
    intro h
    simp only [freeze]
    split
    · exact freeze_wfKeys T x (by simpa [wfKeys] using h)
    · exact h
  | .dict kvs => by
    intro h
    simp only [freeze]
    have h' := h
    simp only [wfKeys, Bool.and_eq_true] at h'
    exact wfKeys_finishDict _ _ _ h (by simp [keysNodup_freezeKVs, h'.1, freezeKVs_wfKeys T kvs h'.2])
  | .ns kvs => by
    intro h
    simp only [freeze]
    have h' := h
    simp only [wfKeys, Bool.and_eq_true] at h'
    split
    · exact wfKeys_finishDict _ _ _ (by simpa [wfKeys] using h') (by simp [keysNodup_freezeKVs, h'.1, freezeKVs_wfKeys T kvs h'.2])
    · exact h
  | .param n d a k => by
    intro h
    simp only [freeze]
    have h' := h
    simp only [wfKeys, Bool.and_eq_true] at h'
    split
    · refine wfKeys_finishSeq _ _ _ (by simp [wfKeys, wfKeysList, h'.1, h'.2]) ?_
      have l1 := wfKeys_freezeLeaf T (.str n) (by simp [wfKeys])
      have l2 := wfKeys_freezeLeaf T (.num .paramKind ⟨k, 0⟩) (by simp [wfKeys])
      simp [wfKeysList, freeze_wfKeys T d h'.1, freeze_wfKeys T a h'.2, l1, l2]
    · exact h
theorem freezeList_wfKeys (T : Table) : ∀ xs, wfKeysList xs = true → wfKeysList (freezeList T xs) = true
  | [] => by simp [freezeList, wfKeysList]
  | x :: xs => by
    intro h
    simp only [wfKeysList, Bool.and_eq_true] at h
    simp [freezeList, wfKeysList, freeze_wfKeys T x h.1, freezeList_wfKeys T xs h.2]
theorem freezeKVs_wfKeys (T : Table) : ∀ kvs, wfKeysKVs kvs = true → wfKeysKVs (freezeKVs T kvs) = true
  | [] => by simp [freezeKVs, wfKeysKVs]
  | (k, v) :: r => by
    intro h
    simp only [wfKeysKVs, Bool.and_eq_true] at h
    simp [freezeKVs, wfKeysKVs, freeze_wfKeys T v h.1, freezeKVs_wfKeys T r h.2]
end

/-! ### `keyEq a b → pyHash a = pyHash b` -/

mutual
theorem keyEq_hash (T : Table) (env : HashEnv) : ∀ a b, wfKeys a = true → keyEq T a b = true → pyHash T env a = pyHash T env b
  | .num _ v, b => by intro _ h; cases b <;> simp_all [keyEq, pyHash]
  | .str _, b => by intro _ h; cases b <;> simp_all [keyEq, pyHash]
  | .none, b => by intro _ h; cases b <;> simp_all [keyEq, pyHash]
  | .cls _, b => by intro _ h; cases b <;> simp_all [keyEq, pyHash]
  | .obj _, b => by intro _ h; cases b <;> simp_all [keyEq, pyHash]
  | .tensor _, b => by intro _ h; cases b <;> simp_all [keyEq, pyHash]
  | .ndarray _ _, b => by intro _ h; cases b <;> simp [keyEq] at h
  | .conv c s, b => by
    intro hw h
    cases b with
    | conv c' s' =>
      simp only [keyEq, wfKeys, Bool.and_eq_true, beq_iff_eq] at h hw
      simp [pyHash, h.2, pyEq_hash0 env _ _ (freeze_wfKeys T c hw) h.1]
    | _ => simp [keyEq] at h
  | .tuple xs, b => by
    intro hw h
    cases b with
    | tuple ys => simp only [keyEq, wfKeys] at h hw; simp [pyHash, keyEqList_hash T env xs ys hw h]
    | _ => simp [keyEq] at h
  | .list xs, b => by
    intro hw h
    cases b with
    | list ys => simp only [keyEq, wfKeys] at h hw; simp [pyHash, keyEqList_hash T env xs ys hw h]
    | _ => simp [keyEq] at h
  | .dict a, b => by
    intro hw h
    cases b with
    | dict b =>
      simp only [keyEq, wfKeys, Bool.and_eq_true, beq_iff_eq] at h hw
      simp only [pyHash, pyHashKVs_eq]
      exact mapping_hash_eq env _ a b hw.1 h.1 (keyEqSub_hash T env a b hw.2 h.2)
    | _ => simp [keyEq] at h
  | .ns a, b => by
    intro hw h
    cases b with
    | ns b =>
      simp only [keyEq, wfKeys, Bool.and_eq_true, beq_iff_eq] at h hw
      simp only [pyHash, pyHashKVs_eq]
      exact mapping_hash_eq env _ a b hw.1 h.1 (keyEqSub_hash T env a b hw.2 h.2)
    | _ => simp [keyEq] at h
  | .param n d a k, b => by
    intro hw h
    cases b with
    | param n' d' a' k' =>
      simp only [keyEq, wfKeys, Bool.and_eq_true, beq_iff_eq] at h hw
      simp [pyHash, h.1.1.1, h.1.1.2, keyEq_hash T env d d' hw.1 h.1.2, keyEq_hash T env a a' hw.2 h.2]
    | _ => simp [keyEq] at h
theorem keyEqList_hash (T : Table) (env : HashEnv) : ∀ xs ys, wfKeysList xs = true → keyEqList T xs ys = true →
    pyHashList T env xs = pyHashList T env ys
  | [], [] => by simp
  | [], _ :: _ => by simp [keyEqList]
  | _ :: _, [] => by simp [keyEqList]
  | x :: xs, y :: ys => by
    intro hw h
    simp only [keyEqList, wfKeysList, Bool.and_eq_true] at h hw
    simp [pyHashList, keyEq_hash T env x y hw.1 h.1, keyEqList_hash T env xs ys hw.2 h.2]
theorem keyEqSub_hash (T : Table) (env : HashEnv) : ∀ a b, wfKeysKVs a = true → keyEqSub T a b = true →
    ∀ k v, (k, v) ∈ a → ∃ w, lookupKV b k = some w ∧ pyHash T env v = pyHash T env w
  | [], _ => by intro _ _ k v hm; cases hm
  | (k0, v0) :: r, b => by
    intro hw h k v hm
    simp only [keyEqSub, wfKeysKVs, Bool.and_eq_true] at h hw
    rcases List.mem_cons.mp hm with hm | hm
    · obtain ⟨hk, hv⟩ := Prod.mk.inj hm
      rw [hk, hv]
      cases hl : lookupKV b k0 with
      | none => simp [hl] at h
      | some w =>
        simp only [hl] at h
        exact ⟨w, rfl, keyEq_hash T env v0 w hw.1 h.1⟩
    · exact keyEqSub_hash T env r b hw.2 h.2 k v hm
end

/-! ### `keyEq` and `pyEq` agree away from `ConvertibleTensor` placeholders -/

mutual
theorem keyEq_noConv (T : Table) : ∀ a b, noConv a = true → keyEq T a b = pyEq a b
  | .num _ _, b => by intro _; cases b <;> simp [keyEq, pyEq]
  | .str _, b => by intro _; cases b <;> simp [keyEq, pyEq]
  | .none, b => by intro _; cases b <;> simp [keyEq, pyEq]
  | .cls _, b => by intro _; cases b <;> simp [keyEq, pyEq]
  | .obj _, b => by intro _; cases b <;> simp [keyEq, pyEq]
  | .tensor _, b => by intro _; cases b <;> simp [keyEq, pyEq]
  | .ndarray _ _, b => by intro _; cases b <;> simp [keyEq, pyEq]
  | .conv _ _, b => by intro h; simp [noConv, allConv] at h
  | .tuple xs, b => by
    intro h
    cases b with
    | tuple ys => simp only [noConv, allConv] at h; simp [keyEq, pyEq, keyEqList_noConv T xs ys h]
    | _ => simp [keyEq, pyEq]
  | .list xs, b => by
    intro h
    cases b with
    | list ys => simp only [noConv, allConv] at h; simp [keyEq, pyEq, keyEqList_noConv T xs ys h]
    | _ => simp [keyEq, pyEq]
  | .dict a, b => by
    intro h
    cases b with
    | dict b => simp only [noConv, allConv] at h; simp [keyEq, pyEq, keyEqSub_noConv T a b h]
    | _ => simp [keyEq, pyEq]
  | .ns a, b => by
    intro h
    cases b with
    | ns b => simp only [noConv, allConv] at h; simp [keyEq, pyEq, keyEqSub_noConv T a b h]
    | _ => simp [keyEq, pyEq]
  | .param n d a k, b => by
    intro h
    cases b with
    | param n' d' a' k' =>
      simp only [noConv, allConv, Bool.and_eq_true] at h
      simp [keyEq, pyEq, keyEq_noConv T d d' h.1, keyEq_noConv T a a' h.2]
    | _ => simp [keyEq, pyEq]
theorem keyEqList_noConv (T : Table) : ∀ xs ys, allConvList (fun _ => false) xs = true → keyEqList T xs ys = pyEqList xs ys
  | [], [] => by simp [keyEqList, pyEqList]
  | [], _ :: _ => by simp [keyEqList, pyEqList]
  | _ :: _, [] => by simp [keyEqList, pyEqList]
  | x :: xs, y :: ys => by
    intro h
    simp only [allConvList, Bool.and_eq_true] at h
    simp [keyEqList, pyEqList, keyEq_noConv T x y h.1, keyEqList_noConv T xs ys h.2]
theorem keyEqSub_noConv (T : Table) : ∀ a b, allConvKVs (fun _ => false) a = true → keyEqSub T a b = pyEqSub a b
  | [], _ => by simp [keyEqSub, pyEqSub]
  | (k, v) :: r, b => by
    intro h
    simp only [allConvKVs, Bool.and_eq_true] at h
    simp only [keyEqSub, pyEqSub, keyEqSub_noConv T r b h.2]
    cases lookupKV b k with
    | none => rfl
    | some w => simp [keyEq_noConv T v w h.1]
end

end Einx.Cache
