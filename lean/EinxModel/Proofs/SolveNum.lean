import EinxModel.Proofs.SolveUnroll
/-!
`substNum` (a numeric axis in place of a name that carries a scalar constraint) against the
path-free semantics and the rank system.
-/
namespace Einx.Solve

mutual
theorem substNum_axesOf (ρ : Var → Nat) (n : String) (v : Nat) : ∀ (e : Expr) (idx : List Nat),
    axesOf ρ idx (substNum n v e) = (axesOf ρ idx e).filter (fun a => a.1 != n)
  | .axis m, idx => by
    by_cases hm : m = n
    · simp [substNum, hm, axesOf]
    · simp [substNum, hm, axesOf]
  | .num _, _ => by simp [substNum, axesOf]
  | .brackets e, idx => by simp only [substNum, axesOf]; exact substNum_axesOf ρ n v e idx
  | .flat e, idx => by simp only [substNum, axesOf]; exact substNum_axesOf ρ n v e idx
  | .concat cs, idx => by simp only [substNum, axesOf]; exact substNumL_axesOf ρ n v cs idx
  | .ellipsis id e, idx => by
    simp only [substNum, axesOf, List.filter_flatMap]
    have ih := fun i => substNum_axesOf ρ n v e (idx ++ [i])
    simp only [ih]
  | .list cs, idx => by simp only [substNum, axesOf]; exact substNumL_axesOf ρ n v cs idx
theorem substNumL_axesOf (ρ : Var → Nat) (n : String) (v : Nat) : ∀ (cs : List Expr) (idx : List Nat),
    axesOfL ρ idx (substNumL n v cs) = (axesOfL ρ idx cs).filter (fun a => a.1 != n)
  | [], _ => by simp [substNumL, axesOfL]
  | c :: cs, idx => by
    simp only [substNumL, axesOfL, List.filter_append]
    rw [substNum_axesOf ρ n v c idx, substNumL_axesOf ρ n v cs idx]
end

mutual
theorem substNum_evalItems (ρ σ : Var → Nat) (n : String) (v : Nat) : ∀ (e : Expr) (idx : List Nat),
    (∀ a ∈ axesOf ρ idx e, a.1 = n → σ a.2.2 = v) →
    evalItems ρ σ idx (substNum n v e) = evalItems ρ σ idx e
  | .axis m, idx, h => by
    by_cases hm : m = n
    · subst hm
      have hh := h (m, idx, m ++ idxSuffix idx) (by simp [axesOf]) rfl
      simp only at hh
      simp only [substNum, ↓reduceIte, evalItems]
      rw [hh]
    · simp only [substNum, hm, ↓reduceIte]
  | .num _, _, _ => by simp only [substNum]
  | .brackets e, idx, h => by
    simp only [substNum, evalItems]; exact substNum_evalItems ρ σ n v e idx (by simpa only [axesOf] using h)
  | .flat e, idx, h => by
    simp only [substNum, evalItems]; rw [substNum_evalItems ρ σ n v e idx (by simpa only [axesOf] using h)]
  | .concat cs, idx, h => by
    simp only [substNum, evalItems]; rw [substNumL_evalItems ρ σ n v cs idx (by simpa only [axesOf] using h)]
  | .ellipsis id e, idx, h => by
    simp only [axesOf, List.forall_mem_flatMap] at h
    simp only [substNum, evalItems]
    exact flatMap_congr' (fun i hi => substNum_evalItems ρ σ n v e (idx ++ [i]) (h i hi))
  | .list cs, idx, h => by
    simp only [substNum, evalItems]; exact substNumL_evalItems ρ σ n v cs idx (by simpa only [axesOf] using h)
theorem substNumL_evalItems (ρ σ : Var → Nat) (n : String) (v : Nat) : ∀ (cs : List Expr) (idx : List Nat),
    (∀ a ∈ axesOfL ρ idx cs, a.1 = n → σ a.2.2 = v) →
    evalItemsL ρ σ idx (substNumL n v cs) = evalItemsL ρ σ idx cs
  | [], _, _ => by simp only [substNumL]
  | c :: cs, idx, h => by
    simp only [axesOfL, List.forall_mem_append] at h
    simp only [substNumL, evalItemsL]
    rw [substNum_evalItems ρ σ n v c idx h.1, substNumL_evalItems ρ σ n v cs idx h.2]
end

mutual
theorem substNum_nodeValues (ρ σ : Var → Nat) (n : String) (v : Nat) : ∀ (e : Expr) (idx : List Nat),
    (∀ a ∈ axesOf ρ idx e, a.1 = n → σ a.2.2 = v) →
    nodeValues ρ σ idx (substNum n v e) = nodeValues ρ σ idx e
  | .axis m, idx, _ => by
    by_cases hm : m = n
    · simp only [substNum, hm, ↓reduceIte, nodeValues]
    · simp only [substNum, hm, ↓reduceIte]
  | .num _, _, _ => by simp only [substNum]
  | .brackets e, idx, h => by
    simp only [substNum, nodeValues]; exact substNum_nodeValues ρ σ n v e idx (by simpa only [axesOf] using h)
  | .flat e, idx, h => by
    simp only [axesOf] at h
    simp only [substNum, nodeValues]
    rw [substNum_nodeValues ρ σ n v e idx h, substNum_evalItems ρ σ n v e idx h]
  | .concat cs, idx, h => by
    simp only [axesOf] at h
    simp only [substNum, nodeValues]
    rw [substNumL_nodeValues ρ σ n v cs idx h, substNumL_evalItems ρ σ n v cs idx h]
  | .ellipsis id e, idx, h => by
    simp only [axesOf, List.forall_mem_flatMap] at h
    simp only [substNum, nodeValues]
    exact flatMap_congr' (fun i hi => substNum_nodeValues ρ σ n v e (idx ++ [i]) (h i hi))
  | .list cs, idx, h => by
    simp only [substNum, nodeValues]; exact substNumL_nodeValues ρ σ n v cs idx (by simpa only [axesOf] using h)
theorem substNumL_nodeValues (ρ σ : Var → Nat) (n : String) (v : Nat) : ∀ (cs : List Expr) (idx : List Nat),
    (∀ a ∈ axesOfL ρ idx cs, a.1 = n → σ a.2.2 = v) →
    nodeValuesL ρ σ idx (substNumL n v cs) = nodeValuesL ρ σ idx cs
  | [], _, _ => by simp only [substNumL]
  | c :: cs, idx, h => by
    simp only [axesOfL, List.forall_mem_append] at h
    simp only [substNumL, nodeValuesL]
    rw [substNum_nodeValues ρ σ n v c idx h.1, substNumL_nodeValues ρ σ n v cs idx h.2]
end

mutual
theorem substNum_occs (n : String) (v : Nat) : ∀ (e : Expr) (stack : List Var),
    occs stack (substNum n v e) = (occs stack e).filter (fun p => p.1 != n)
  | .axis m, stack => by
    by_cases hm : m = n
    · simp [substNum, hm, occs]
    · simp [substNum, hm, occs]
  | .num _, _ => by simp [substNum, occs]
  | .brackets e, stack => by simp only [substNum, occs]; exact substNum_occs n v e stack
  | .flat e, stack => by simp only [substNum, occs]; exact substNum_occs n v e stack
  | .concat cs, stack => by simp only [substNum, occs]; exact substNumL_occs n v cs stack
  | .ellipsis id e, stack => by simp only [substNum, occs]; exact substNum_occs n v e (stack ++ [id])
  | .list cs, stack => by simp only [substNum, occs]; exact substNumL_occs n v cs stack
theorem substNumL_occs (n : String) (v : Nat) : ∀ (cs : List Expr) (stack : List Var),
    occsL stack (substNumL n v cs) = (occsL stack cs).filter (fun p => p.1 != n)
  | [], _ => by simp [substNumL, occsL]
  | c :: cs, stack => by
    simp only [substNumL, occsL, List.filter_append]
    rw [substNum_occs n v c stack, substNumL_occs n v cs stack]
end

mutual
theorem substNum_ellIds (n : String) (v : Nat) : ∀ (e : Expr), ellIds (substNum n v e) = ellIds e
  | .axis m => by
    by_cases hm : m = n
    · simp [substNum, hm, ellIds]
    · simp [substNum, hm]
  | .num _ => by simp only [substNum]
  | .brackets e => by simp only [substNum, ellIds]; exact substNum_ellIds n v e
  | .flat e => by simp only [substNum, ellIds]; exact substNum_ellIds n v e
  | .concat cs => by simp only [substNum, ellIds]; exact substNumL_ellIds n v cs
  | .ellipsis id e => by simp only [substNum, ellIds]; rw [substNum_ellIds n v e]
  | .list cs => by simp only [substNum, ellIds]; exact substNumL_ellIds n v cs
theorem substNumL_ellIds (n : String) (v : Nat) : ∀ (cs : List Expr), ellIdsL (substNumL n v cs) = ellIdsL cs
  | [] => by simp only [substNumL]
  | c :: cs => by simp only [substNumL, ellIdsL]; rw [substNum_ellIds n v c, substNumL_ellIds n v cs]
end

mutual
theorem substNum_width (ρ : Var → Nat) (n : String) (v : Nat) : ∀ (e : Expr), width ρ (substNum n v e) = width ρ e
  | .axis m => by
    by_cases hm : m = n
    · simp [substNum, hm, width]
    · simp [substNum, hm]
  | .num _ => by simp only [substNum]
  | .brackets e => by simp only [substNum, width]; exact substNum_width ρ n v e
  | .flat _ => by simp only [substNum, width]
  | .concat _ => by simp only [substNum, width]
  | .ellipsis id e => by simp only [substNum, width]; rw [substNum_width ρ n v e]
  | .list cs => by simp only [substNum, width]; exact substNumL_width ρ n v cs
theorem substNumL_width (ρ : Var → Nat) (n : String) (v : Nat) : ∀ (cs : List Expr), widthL ρ (substNumL n v cs) = widthL ρ cs
  | [] => by simp only [substNumL]
  | c :: cs => by simp only [substNumL, widthL]; rw [substNum_width ρ n v c, substNumL_width ρ n v cs]
end

/-! ### Rank level -/

theorem lookup_filter_ne {β : Type} (n m : String) (hm : m ≠ n) : ∀ (l : List (String × β)),
    (l.filter (fun p => p.1 != n)).lookup m = l.lookup m
  | [] => rfl
  | (k, s) :: l => by
    simp only [List.filter_cons]
    by_cases hk : k = n
    · rw [hk]
      simp only [bne_self_eq_false, Bool.false_eq_true, ↓reduceIte]
      rw [lookup_cons_ne' hm]; exact lookup_filter_ne n m hm l
    · have : (k != n) = true := by simpa using hk
      simp only [this, ↓reduceIte]
      by_cases hmk : m = k
      · subst hmk; rw [lookup_cons_self', lookup_cons_self']
      · rw [lookup_cons_ne' hmk, lookup_cons_ne' hmk]; exact lookup_filter_ne n m hm l

theorem numForm_occs (inp : Input) (n : String) (v : Nat) :
    (numForm inp n v).occs = inp.occs.filter (fun p => p.1 != n) := by
  unfold Input.occs numForm
  simp only [List.flatMap_map, List.filter_flatMap, substNum_occs]

theorem sameStack_iff (inp : Input) (n : String) :
    sameStack inp n = true ↔ ∀ p ∈ inp.occs, ∀ q ∈ inp.occs, p.1 = n → q.1 = n → p.2 = q.2 := by
  unfold sameStack
  simp only [List.all_eq_true, Bool.or_eq_true, Bool.not_eq_eq_eq_not, Bool.not_true, Bool.and_eq_false_imp,
    beq_iff_eq]
  constructor
  · intro h p hp q hq h1 h2
    rcases h p hp q hq with h' | h'
    · exact absurd h2 (by simpa using h' h1)
    · exact h'
  · intro h p hp q hq
    by_cases h1 : p.1 = n
    · by_cases h2 : q.1 = n
      · exact Or.inr (h p hp q hq h1 h2)
      · left; intro _; simpa using h2
    · left; intro h1'; exact absurd h1' h1

theorem constraintRank_scalar (ρ : Var → Nat) (occ : List (String × List Var)) (x : String) (v : Nat) :
    ∀ q ∈ constraintRankEqns true occ ⟨x, [], [v]⟩, holds ρ q := by
  unfold constraintRankEqns
  cases occ.lookup x with
  | none => simp
  | some st => simp

/-- The short form (number) and the long form (name + `n=v`) have the same rank solutions. -/
theorem num_rank (inp : Input) (n : String) (v : Nat) (hcn : ∀ c ∈ inp.constraints, c.name ≠ n)
    (hstack : sameStack inp n = true) (ρ : Var → Nat) :
    Sat (rankSystem true (numForm inp n v)) ρ ↔ Sat (rankSystem true (withNumConstraint inp n v)) ρ := by
  rw [sameStack_iff] at hstack
  rw [sat_rankSystem_iff, sat_rankSystem_iff, numForm_occs]
  have hoccL : (withNumConstraint inp n v).occs = inp.occs := rfl
  rw [hoccL]
  have h1 : (∀ t ∈ (numForm inp n v).tensors, ∀ q ∈ rankEqn t, holds ρ q) ↔
      (∀ t ∈ (withNumConstraint inp n v).tensors, ∀ q ∈ rankEqn t, holds ρ q) := by
    simp only [numForm, withNumConstraint, List.forall_mem_map, holds_rankEqn, substNum_width]
  have h2 : (∀ q ∈ sameNameEqns [] (inp.occs.filter (fun p => p.1 != n)), holds ρ q) ↔
      (∀ q ∈ sameNameEqns [] inp.occs, holds ρ q) := by
    rw [sameName_holds, sameName_holds]
    simp only [List.nil_append]
    constructor
    · intro h p hp st0 hl
      by_cases hpn : p.1 = n
      · have hm := mem_of_lookup hl
        rw [hpn] at hm
        have := hstack (n, st0) hm p hp rfl hpn
        simp only at this
        rw [this]; exact sameCounts_refl ρ _
      · exact h p (List.mem_filter.mpr ⟨hp, by simpa using hpn⟩) st0 (by rw [lookup_filter_ne n p.1 hpn]; exact hl)
    · intro h p hp st0 hl
      obtain ⟨hp1, hp2⟩ := List.mem_filter.mp hp
      have hpn : p.1 ≠ n := by simpa using hp2
      rw [lookup_filter_ne n p.1 hpn] at hl
      exact h p hp1 st0 hl
  have h3 : (∀ c ∈ (numForm inp n v).constraints, ∀ q ∈ constraintRankEqns true (inp.occs.filter (fun p => p.1 != n)) c, holds ρ q) ↔
      (∀ c ∈ (withNumConstraint inp n v).constraints, ∀ q ∈ constraintRankEqns true inp.occs c, holds ρ q) := by
    simp only [numForm, withNumConstraint, List.forall_mem_append, List.forall_mem_cons, List.not_mem_nil,
      false_imp_iff, implies_true, and_true]
    have : ∀ c ∈ inp.constraints, constraintRankEqns true (inp.occs.filter (fun p => p.1 != n)) c =
        constraintRankEqns true inp.occs c := by
      intro c hc
      unfold constraintRankEqns
      rw [lookup_filter_ne n c.name (hcn c hc)]
    constructor
    · intro h
      exact ⟨fun c hc => by rw [← this c hc]; exact h c hc, constraintRank_scalar ρ _ n v⟩
    · intro h c hc
      rw [this c hc]; exact h.1 c hc
  rw [h1, h2, h3]

/-! ### Value level (semantic) -/

theorem constraintValue_scalar_any (x : String) (v : Nat) (idx : List Nat) :
    constraintValue ⟨x, [], [v]⟩ idx = some v := by
  simp [constraintValue, ravel?]

/-- long ⇒ short, with the same assignment -/
theorem num_sem_long_short (inp : Input) (n : String) (v : Nat) (ρ σ : Var → Nat)
    (h : SemSat (withNumConstraint inp n v) ρ σ) :
    SemSat (numForm inp n v) ρ σ ∧ semShapes (numForm inp n v) ρ σ = semShapes inp ρ σ := by
  have hnv : ∀ t ∈ inp.tensors, ∀ a ∈ axesOf ρ [] t.expr, a.1 = n → σ a.2.2 = v := by
    intro t ht a ha hn
    have := h.constraints ⟨n, [], [v]⟩ (by simp [withNumConstraint]) t ht a ha hn
    rw [constraintValue_scalar_any] at this
    injection this with this; exact this.symm
  refine ⟨⟨?_, ?_, ?_, ?_⟩, ?_⟩
  · intro t' ht' a ha
    simp only [numForm, List.mem_map] at ht'
    obtain ⟨t, ht, rfl⟩ := ht'
    simp only [substNum_axesOf, List.mem_filter] at ha
    exact h.axesPos t ht a ha.1
  · intro t' ht' w hw
    simp only [numForm, List.mem_map] at ht'
    obtain ⟨t, ht, rfl⟩ := ht'
    simp only at hw
    rw [substNum_nodeValues ρ σ n v t.expr [] (hnv t ht)] at hw
    exact h.nodesPos t ht w hw
  · intro t' ht' dims hd
    simp only [numForm, List.mem_map] at ht'
    obtain ⟨t, ht, rfl⟩ := ht'
    simp only at hd ⊢
    rw [substNum_evalItems ρ σ n v t.expr [] (hnv t ht)]
    exact h.roots t ht dims hd
  · intro c hc t' ht' a ha hn
    simp only [numForm, List.mem_map] at ht'
    obtain ⟨t, ht, rfl⟩ := ht'
    simp only [substNum_axesOf, List.mem_filter] at ha
    exact h.constraints c (by simp only [withNumConstraint, List.mem_append]; exact Or.inl hc) t ht a ha.1 hn
  · unfold semShapes numForm
    simp only [List.map_map]
    apply List.map_congr_left
    intro t ht
    simp only [Function.comp]
    exact substNum_evalItems ρ σ n v t.expr [] (hnv t ht)

/-- the assignment that gives the variables of `n` the value `v` -/
def setName (inp : Input) (ρ : Var → Nat) (n : String) (v : Nat) (σ : Var → Nat) : Var → Nat :=
  fun x => if (inp.axes ρ).any (fun a => a.1 == n && a.2.2 == x) then v else σ x

theorem freshVars_iff (inp : Input) (ρ : Var → Nat) (n : String) :
    freshVars inp ρ n = true ↔ ∀ a ∈ inp.axes ρ, ∀ b ∈ inp.axes ρ, a.1 = n → b.2.2 = a.2.2 → b.1 = n := by
  unfold freshVars
  simp only [List.all_eq_true, Bool.or_eq_true, Bool.not_eq_eq_eq_not, Bool.not_true, Bool.and_eq_false_imp,
    beq_iff_eq]
  constructor
  · intro h a ha b hb h1 h2
    rcases h a ha b hb with h' | h'
    · exact absurd h2 (by simpa using h' h1)
    · exact h'
  · intro h a ha b hb
    by_cases h1 : a.1 = n
    · by_cases h2 : b.2.2 = a.2.2
      · exact Or.inr (h a ha b hb h1 h2)
      · left; intro _; simpa using h2
    · left; intro h1'; exact absurd h1' h1

/-- short ⇒ long: set the variables of the fresh name to `v` -/
theorem num_sem_short_long (inp : Input) (n : String) (v : Nat) (hv : 1 ≤ v)
    (hcn : ∀ c ∈ inp.constraints, c.name ≠ n) (ρ σ : Var → Nat)
    (hfresh : freshVars inp ρ n = true) (h : SemSat (numForm inp n v) ρ σ) :
    SemSat (withNumConstraint inp n v) ρ (setName inp ρ n v σ) ∧
    (∀ a ∈ inp.axes ρ, a.1 = n → setName inp ρ n v σ a.2.2 = v) ∧
    (∀ a ∈ inp.axes ρ, a.1 ≠ n → setName inp ρ n v σ a.2.2 = σ a.2.2) ∧
    semShapes inp ρ (setName inp ρ n v σ) = semShapes (numForm inp n v) ρ σ := by
  rw [freshVars_iff] at hfresh
  have hset1 : ∀ a ∈ inp.axes ρ, a.1 = n → setName inp ρ n v σ a.2.2 = v := by
    intro a ha hn
    have : (inp.axes ρ).any (fun b => b.1 == n && b.2.2 == a.2.2) = true :=
      List.any_eq_true.mpr ⟨a, ha, by simp [hn]⟩
    simp only [setName, this, ↓reduceIte]
  have hset2 : ∀ a ∈ inp.axes ρ, a.1 ≠ n → setName inp ρ n v σ a.2.2 = σ a.2.2 := by
    intro a ha hn
    have : (inp.axes ρ).any (fun b => b.1 == n && b.2.2 == a.2.2) = false := by
      rw [List.any_eq_false]
      intro b hb hb'
      simp only [Bool.and_eq_true, beq_iff_eq] at hb'
      exact hn (hfresh b hb a ha hb'.1 hb'.2.symm)
    simp only [setName, this, Bool.false_eq_true, ↓reduceIte]
  have hnv : ∀ t ∈ inp.tensors, ∀ a ∈ axesOf ρ [] t.expr, a.1 = n → setName inp ρ n v σ a.2.2 = v :=
    fun t ht a ha hn => hset1 a (mem_inputAxes.mpr ⟨t, ht, ha⟩) hn
  have hagree : ∀ t ∈ inp.tensors, ∀ a ∈ axesOf ρ [] (substNum n v t.expr),
      setName inp ρ n v σ a.2.2 = σ a.2.2 := by
    intro t ht a ha
    simp only [substNum_axesOf, List.mem_filter] at ha
    exact hset2 a (mem_inputAxes.mpr ⟨t, ht, ha.1⟩) (by simpa using ha.2)
  have hmemS : ∀ t ∈ inp.tensors, (⟨substNum n v t.expr, t.shape⟩ : Tensor) ∈ (numForm inp n v).tensors := by
    intro t ht
    simp only [numForm, List.mem_map]; exact ⟨t, ht, rfl⟩
  refine ⟨⟨?_, ?_, ?_, ?_⟩, hset1, hset2, ?_⟩
  · intro t ht a ha
    by_cases hn : a.1 = n
    · rw [hnv t ht a ha hn]; exact hv
    · rw [hset2 a (mem_inputAxes.mpr ⟨t, ht, ha⟩) hn]
      exact h.axesPos _ (hmemS t ht) a (by
        simp only [substNum_axesOf, List.mem_filter]; exact ⟨ha, by simpa using hn⟩)
  · intro t ht w hw
    rw [← substNum_nodeValues ρ _ n v t.expr [] (hnv t ht),
      nodeValues_congr ρ _ σ (substNum n v t.expr) [] (hagree t ht)] at hw
    exact h.nodesPos _ (hmemS t ht) w hw
  · intro t ht dims hd
    rw [← substNum_evalItems ρ _ n v t.expr [] (hnv t ht),
      evalItems_congr ρ _ σ (substNum n v t.expr) [] (hagree t ht)]
    exact h.roots _ (hmemS t ht) dims hd
  · intro c hc t ht a ha hn
    simp only [withNumConstraint, List.mem_append, List.mem_singleton] at hc
    rcases hc with hc | hc
    · have hne : a.1 ≠ n := by rw [hn]; exact hcn c hc
      rw [hset2 a (mem_inputAxes.mpr ⟨t, ht, ha⟩) hne]
      exact h.constraints c hc _ (hmemS t ht) a (by
        simp only [substNum_axesOf, List.mem_filter]; exact ⟨ha, by simpa using hne⟩) hn
    · subst hc
      rw [constraintValue_scalar_any, hnv t ht a ha hn]
  · unfold semShapes numForm
    simp only [List.map_map]
    apply List.map_congr_left
    intro t ht
    simp only [Function.comp]
    rw [← substNum_evalItems ρ _ n v t.expr [] (hnv t ht),
      evalItems_congr ρ _ σ (substNum n v t.expr) [] (hagree t ht)]

theorem numForm_axes_sub (inp : Input) (n : String) (v : Nat) (ρ : Var → Nat) :
    ∀ a, a ∈ (numForm inp n v).axes ρ ↔ a ∈ inp.axes ρ ∧ a.1 ≠ n := by
  intro a
  rw [mem_inputAxes, mem_inputAxes]
  constructor
  · rintro ⟨t', ht', ha⟩
    simp only [numForm, List.mem_map] at ht'
    obtain ⟨t, ht, rfl⟩ := ht'
    simp only [substNum_axesOf, List.mem_filter] at ha
    exact ⟨⟨t, ht, ha.1⟩, by simpa using ha.2⟩
  · rintro ⟨⟨t, ht, ha⟩, hn⟩
    refine ⟨⟨substNum n v t.expr, t.shape⟩, by simp only [numForm, List.mem_map]; exact ⟨t, ht, rfl⟩, ?_⟩
    simp only [substNum_axesOf, List.mem_filter]
    exact ⟨ha, by simpa using hn⟩

end Einx.Solve
