import EinxModel.Solve.CseCheck
import EinxModel.Proofs.SolveCse
/-!
Helper lemmas for `Props/C02Cse.lean`, part 1: products and items, the smart constructors of stage2/tree.py,
`expr.value`, the `Except` monad.
-/
namespace Einx.Solve.CseT
open Einx.Solve

theorem bind_ok {ε α β : Type} {x : Except ε α} {f : α → Except ε β} {b : β} :
    (x >>= f) = .ok b ↔ ∃ a, x = .ok a ∧ f a = .ok b := by
  cases x <;> simp [bind, Except.bind]

theorem pure_ok {ε α : Type} {a b : α} : (pure a : Except ε α) = .ok b ↔ a = b := by
  simp [pure, Except.pure]

/-! ### products, items -/

theorem natProd_append (a b : List Nat) : natProd (a ++ b) = natProd a * natProd b := by
  induction a with
  | nil => simp [natProd]
  | cons x xs ih => simp [natProd, ih, Nat.mul_assoc]

theorem evalVL_append (σ : Var → Nat) (a b : List VExpr) : evalVL σ (a ++ b) = evalVL σ a ++ evalVL σ b := by
  induction a with
  | nil => simp [evalVL]
  | cons x xs ih => simp [evalVL, ih]

theorem freeAxesL_append (a b : List VExpr) : freeAxesL (a ++ b) = freeAxesL a ++ freeAxesL b := by
  induction a with
  | nil => simp [freeAxesL]
  | cons x xs ih => simp [freeAxesL, ih]

theorem itemsL_append (a b : List VExpr) : itemsL (a ++ b) = itemsL a ++ itemsL b := by
  induction a with
  | nil => simp [itemsL]
  | cons x xs ih => simp [itemsL, ih]

theorem evalVL_length (σ : Var → Nat) (a : List VExpr) : (evalVL σ a).length = a.length := by
  induction a with
  | nil => simp [evalVL]
  | cons x xs ih => simp [evalVL, ih]

mutual
/-- the value of an expression is the product of its root-level entries -/
theorem prod_items (σ : Var → Nat) : ∀ e : VExpr, natProd (evalVL σ (items e)) = evalV σ e
  | .axis n v m => by simp [items, evalVL, natProd]
  | .flat e => by simp [items, evalVL, natProd]
  | .concat cs => by simp [items, evalVL, natProd]
  | .brackets e => by simp only [items, evalV]; exact prod_items σ e
  | .list cs => by simp only [items, evalV]; exact prod_itemsL σ cs
theorem prod_itemsL (σ : Var → Nat) : ∀ cs : List VExpr, natProd (evalVL σ (itemsL cs)) = natProd (evalVL σ cs)
  | [] => by simp [itemsL, evalVL]
  | c :: cs => by
    simp only [itemsL, evalVL_append, natProd_append, evalVL, natProd]
    rw [prod_items σ c, prod_itemsL σ cs]
end

mutual
theorem items_length : ∀ e : VExpr, (items e).length = ndim e
  | .axis _ _ _ => by simp [items, ndim]
  | .flat _ => by simp [items, ndim]
  | .concat _ => by simp [items, ndim]
  | .brackets e => by simp only [items, ndim]; exact items_length e
  | .list cs => by simp only [items, ndim]; exact itemsL_length cs
theorem itemsL_length : ∀ cs : List VExpr, (itemsL cs).length = ndimL cs
  | [] => by simp [itemsL, ndimL]
  | c :: cs => by simp only [itemsL, ndimL, List.length_append]; rw [items_length c, itemsL_length cs]
end

mutual
theorem ndim_zero_free : ∀ e : VExpr, ndim e = 0 → freeAxes e = []
  | .axis _ _ _ => by simp [ndim]
  | .flat _ => by simp [ndim]
  | .concat _ => by simp [ndim]
  | .brackets e => by simp only [ndim, freeAxes]; exact ndim_zero_free e
  | .list cs => by simp only [ndim, freeAxes]; exact ndimL_zero_free cs
theorem ndimL_zero_free : ∀ cs : List VExpr, ndimL cs = 0 → freeAxesL cs = []
  | [] => by simp [freeAxesL]
  | c :: cs => by
    intro h
    simp only [ndimL] at h
    simp only [freeAxesL]
    rw [ndim_zero_free c (by omega), ndimL_zero_free cs (by omega)]; rfl
end

theorem ndim_zero_items (e : VExpr) (h : ndim e = 0) : items e = [] :=
  List.eq_nil_of_length_eq_zero (by rw [items_length, h])

/-- an expression with one dimension has one root-level entry, whose value is the value of the expression -/
theorem ndim_one_vals (σ : Var → Nat) (e : VExpr) (h : ndim e = 1) : evalVL σ (items e) = [evalV σ e] := by
  have hl : (evalVL σ (items e)).length = 1 := by rw [evalVL_length, items_length, h]
  have hp := prod_items σ e
  match hv : evalVL σ (items e), hl with
  | [x], _ => rw [hv] at hp; simp [natProd] at hp; rw [hp]

/-! ### smart constructors -/

mutual
theorem addChild_spec (σ : Var → Nat) : ∀ e : VExpr,
    natProd (evalVL σ (addChild e)) = evalV σ e ∧ itemsL (addChild e) = items e ∧ freeAxesL (addChild e) = freeAxes e
  | .axis n v m => by simp [addChild, evalVL, natProd, itemsL, freeAxesL]
  | .flat e => by simp [addChild, evalVL, natProd, itemsL, freeAxesL]
  | .concat cs => by simp [addChild, evalVL, natProd, itemsL, freeAxesL]
  | .brackets e => by simp [addChild, evalVL, natProd, itemsL, freeAxesL]
  | .list cs => by
    simp only [addChild, evalV, items, freeAxes]
    exact addChildren_spec σ cs
theorem addChildren_spec (σ : Var → Nat) : ∀ cs : List VExpr,
    natProd (evalVL σ (addChildren cs)) = natProd (evalVL σ cs) ∧ itemsL (addChildren cs) = itemsL cs ∧
      freeAxesL (addChildren cs) = freeAxesL cs
  | [] => by simp [addChildren]
  | c :: cs => by
    obtain ⟨h1, h2, h3⟩ := addChild_spec σ c
    obtain ⟨g1, g2, g3⟩ := addChildren_spec σ cs
    simp only [addChildren, evalVL_append, natProd_append, itemsL_append, freeAxesL_append, evalVL, natProd, itemsL,
      freeAxesL, h1, h2, h3, g1, g2, g3, and_self]
end

/-- `List.create`: value, entries and unknown axes are those of the Python list of nodes -/
theorem mkList_spec (σ : Var → Nat) (ts : List VExpr) :
    evalV σ (mkList ts) = natProd (evalVL σ ts) ∧ items (mkList ts) = itemsL ts ∧ freeAxes (mkList ts) = freeAxesL ts := by
  obtain ⟨g1, g2, g3⟩ := addChildren_spec σ ts
  unfold mkList
  split
  · rename_i c hc
    rw [hc] at g1 g2 g3
    simp only [evalVL, natProd, Nat.mul_one, itemsL, List.append_nil, freeAxesL] at g1 g2 g3
    exact ⟨g1, g2, g3⟩
  · simp only [evalV, items, freeAxes]; exact ⟨g1, g2, g3⟩

theorem mkFlat_spec (σ : Var → Nat) (e : VExpr) :
    evalV σ (mkFlat e) = evalV σ e ∧ items (mkFlat e) = [mkFlat e] ∧ freeAxes (mkFlat e) = freeAxes e := by
  cases e <;> simp [mkFlat, evalV, items, freeAxes]

theorem mkBrackets_spec (σ : Var → Nat) (e : VExpr) :
    evalV σ (mkBrackets e) = evalV σ e ∧ items (mkBrackets e) = items e ∧ freeAxes (mkBrackets e) = freeAxes e := by
  have key : ∀ e : VExpr, (∀ x, e ≠ .brackets x) →
      evalV σ (if ndim e == 0 then VExpr.list [] else .brackets e) = evalV σ e ∧
      items (if ndim e == 0 then VExpr.list [] else .brackets e) = items e ∧
      freeAxes (if ndim e == 0 then VExpr.list [] else .brackets e) = freeAxes e := by
    intro e _
    by_cases h : ndim e = 0
    · have hp := prod_items σ e
      rw [ndim_zero_items e h] at hp
      simp only [h, beq_self_eq_true, if_true, evalV, evalVL, natProd, items, itemsL, freeAxes, freeAxesL,
        ndim_zero_items e h, ndim_zero_free e h]
      simp only [evalVL, natProd] at hp
      exact ⟨hp, trivial, trivial⟩
    · have : (ndim e == 0) = false := by simpa using h
      simp [this, evalV, items, freeAxes]
  cases e with
  | brackets x => simp [mkBrackets, evalV, items, freeAxes]
  | axis n v m => simpa [mkBrackets] using key (.axis n v m) (by intro x h; cases h)
  | list cs => simpa [mkBrackets] using key (.list cs) (by intro x h; cases h)
  | flat x => simpa [mkBrackets] using key (.flat x) (by intro x h; cases h)
  | concat cs => simpa [mkBrackets] using key (.concat cs) (by intro x h; cases h)

theorem freeAxes_concat (cs : List VExpr) : freeAxes (.concat cs) = freeAxesL cs := by simp [freeAxes]

/-- `ConcatenatedAxis.create` on at least two nodes -/
theorem mkConcat_spec (σ : Var → Nat) (ts : List VExpr) (c : VExpr) (h : mkConcat ts = .ok c) (h2 : 2 ≤ ts.length) :
    c = .concat ts := by
  match ts, h2 with
  | a :: b :: rest, _ =>
    simp only [mkConcat] at h
    split at h
    · exact (pure_ok.mp h).symm
    · cases h

theorem newAxis_ok {name : String} {v : Option Nat} {r : Option (Nat × Bool)} {a : VExpr} (h : newAxis name v r = .ok a) :
    ∃ m ub, r = some (m, ub) ∧ a = .axis name v m := by
  unfold newAxis at h
  split at h
  · rename_i m ub
    exact ⟨m, ub, rfl, (pure_ok.mp h).symm⟩
  · cases h

/-! ### `expr.value` -/

theorem prodOpt_some {l : List (Option Nat)} {v : Nat} (h : prodOpt l = some v) :
    ∃ vs : List Nat, l = vs.map some ∧ natProd vs = v := by
  induction l generalizing v with
  | nil => simp [prodOpt] at h; exact ⟨[], rfl, by simp [natProd, h]⟩
  | cons x xs ih =>
    cases x with
    | none => simp [prodOpt] at h
    | some a =>
      simp only [prodOpt, Option.map_eq_some_iff] at h
      obtain ⟨w, hw, rfl⟩ := h
      obtain ⟨vs, rfl, hv⟩ := ih hw
      exact ⟨a :: vs, rfl, by simp [natProd, hv]⟩

theorem sumOpt_some {l : List (Option Nat)} {v : Nat} (h : sumOpt l = some v) :
    ∃ vs : List Nat, l = vs.map some ∧ vs.sum = v := by
  induction l generalizing v with
  | nil => simp [sumOpt] at h; exact ⟨[], rfl, by simp [h]⟩
  | cons x xs ih =>
    cases x with
    | none => simp [sumOpt] at h
    | some a =>
      simp only [sumOpt, Option.map_eq_some_iff] at h
      obtain ⟨w, hw, rfl⟩ := h
      obtain ⟨vs, rfl, hv⟩ := ih hw
      exact ⟨a :: vs, rfl, by simp [hv]⟩

mutual
/-- a known `expr.value` is the value of the expression under every assignment -/
theorem valueOf_some_eval (σ : Var → Nat) : ∀ (e : VExpr) (v : Nat), valueOf e = some v → evalV σ e = v
  | .axis _ none _, v => by simp [valueOf]
  | .axis _ (some w) _, v => by simp [valueOf, evalV]
  | .flat e, v => by simp only [valueOf, evalV]; exact valueOf_some_eval σ e v
  | .brackets e, v => by simp only [valueOf, evalV]; exact valueOf_some_eval σ e v
  | .list cs, v => by
    intro h
    simp only [valueOf] at h
    obtain ⟨vs, hvs, hv⟩ := prodOpt_some h
    simp only [evalV]; rw [valuesOf_some_eval σ cs vs hvs, hv]
  | .concat cs, v => by
    intro h
    simp only [valueOf] at h
    obtain ⟨vs, hvs, hv⟩ := sumOpt_some h
    simp only [evalV]; rw [valuesOf_some_eval σ cs vs hvs, hv]
theorem valuesOf_some_eval (σ : Var → Nat) : ∀ (cs : List VExpr) (vs : List Nat), valuesOf cs = vs.map some → evalVL σ cs = vs
  | [], vs => by intro h; simp [valuesOf] at h; simp [evalVL, h]
  | c :: cs, vs => by
    intro h
    cases vs with
    | nil => simp [valuesOf] at h
    | cons v vs =>
      simp only [valuesOf, List.map_cons, List.cons.injEq] at h
      simp only [evalVL]
      rw [valueOf_some_eval σ c v h.1, valuesOf_some_eval σ cs vs h.2]
end

end Einx.Solve.CseT
