import EinxModel.Proofs.OptDagDecide
/-!
Soundness of the memoised traversal `optTok` / `mapToks` / `rebuild` of `Optimize/Dag.lean` against the DAG evaluator.

Invariant of a pass (`Inv`): the new nodes created so far evaluate (to some environment `envN`), and every memo entry
`old tracer ↦ new object` is right: the new object evaluates, in the new environment, to the value the old tracer has in
the old environment.  New nodes are only ever appended, so what has been established stays true (`evalToks_mono`).
-/
namespace Einx.OptDag
variable {V : Type}

structure Inv (Sm : Sem V) (S : Store) (envO : List V) (st : St) (bindN : List (Nat × V)) (envN : List V) : Prop where
  env : EnvOK Sm st.nodes bindN envN
  memo : ∀ o v, st.memoT.lookup o = some v → ∃ vo, envO[o]? = some vo ∧ evalToks envN v = .ok [.val vo]
  inputs : ∀ i ty, S.nodes[i]? = some ⟨ty, .none⟩ → (st.memoT.lookup i).isSome = true

theorem evalTok_ref_inv0 (env : List V) (i : Nat) (r : RTok V) (h : evalTok env (.ref i) = .ok r) : ∃ vo, env[i]? = some vo ∧ r = .val vo := by
  simp only [evalTok] at h
  cases hj : env[i]? with
  | none => simp [hj, throw, throwThe, MonadExceptOf.throw] at h
  | some m =>
    simp only [hj, pure, Except.pure, Except.ok.injEq] at h
    exact ⟨m, rfl, h.symm⟩

section
variable (Sm : Sem V) (S : Store) (pats : List Pattern) (bindO : List (Nat × V)) (envO : List V)

theorem Inv.push {Sm : Sem V} {S : Store} {envO : List V} {st : St} {bindN : List (Nat × V)} {envN : List V}
    (hI : Inv Sm S envO st bindN envN) (n : Node) (v : V) (hv : evalNode Sm bindN envN n = .ok v) :
    Inv Sm S envO (st.pushNode n) bindN (envN ++ [v]) where
  env := hI.env.snoc n v hv
  memo := by
    intro o w hw
    obtain ⟨vo, h1, h2⟩ := hI.memo o w hw
    exact ⟨vo, h1, evalToks_mono envN [v] w _ h2⟩
  inputs := hI.inputs

theorem Inv.setMemo {Sm : Sem V} {S : Store} {envO : List V} {st : St} {bindN : List (Nat × V)} {envN : List V}
    (hI : Inv Sm S envO st bindN envN) (o : Nat) (w : List Tok) (vo : V) (h1 : envO[o]? = some vo)
    (h2 : evalToks envN w = .ok [.val vo]) (c : Bool) :
    Inv Sm S envO { st with memoT := (o, w) :: st.memoT, changed := c } bindN envN where
  env := hI.env
  memo := by
    intro o' w' hw
    simp only [List.lookup_cons] at hw
    by_cases he : o' = o
    · subst he
      simp only [beq_self_eq_true, Option.some.injEq] at hw
      subst hw
      exact ⟨vo, h1, h2⟩
    · have : (o' == o) = false := by simpa using he
      simp only [this] at hw
      exact hI.memo o' w' hw
  inputs := by
    intro i ty hn
    simp only [List.lookup_cons]
    by_cases he : i = o
    · subst he; simp
    · have : (i == o) = false := by simpa using he
      simp only [this]
      exact hI.inputs i ty hn

/-- The property of `_optimize` on one leaf that the traversal lemmas are parametrised by. -/
def GSound (g : Tok → St → R (List Tok × St)) : Prop :=
  ∀ (t : Tok) (st : St) (v : List Tok) (st' : St) (bindN : List (Nat × V)) (envN : List V) (r : RTok V),
    g t st = .ok (v, st') → Inv Sm S envO st bindN envN → evalTok envO t = .ok r →
    ∃ ext, Inv Sm S envO st' bindN (envN ++ ext) ∧ evalToks (envN ++ ext) v = .ok [r]

/-- … and on a pytree. -/
def VSound (h : List Tok → St → R (List Tok × St)) : Prop :=
  ∀ (toks : List Tok) (st : St) (v : List Tok) (st' : St) (bindN : List (Nat × V)) (envN : List V) (rs : List (RTok V)),
    h toks st = .ok (v, st') → Inv Sm S envO st bindN envN → evalToks envO toks = .ok rs →
    ∃ ext, Inv Sm S envO st' bindN (envN ++ ext) ∧ evalToks (envN ++ ext) v = .ok rs

theorem mapToks_sound (g : Tok → St → R (List Tok × St)) (hg : GSound Sm S envO g) : VSound Sm S envO (mapToks g) := by
  intro toks
  induction toks with
  | nil =>
    intro st v st' bindN envN rs h hI hr
    simp only [mapToks, pure, Except.pure, Except.ok.injEq, Prod.mk.injEq] at h
    obtain ⟨rfl, rfl⟩ := h
    rw [evalToks_nil] at hr
    cases hr
    exact ⟨[], by simpa using hI, by simp [evalToks_nil]⟩
  | cons t ts ih =>
    intro st v st' bindN envN rs h hI hr
    simp only [mapToks] at h
    obtain ⟨⟨v1, st1⟩, h1, h⟩ := bind_ok.1 h
    obtain ⟨⟨vs, st2⟩, h2, h⟩ := bind_ok.1 h
    simp only [pure, Except.pure, Except.ok.injEq, Prod.mk.injEq] at h
    obtain ⟨rfl, rfl⟩ := h
    obtain ⟨r, rs', hr1, hr2, rfl⟩ := (evalToks_cons envO t ts rs).1 hr
    obtain ⟨ext1, hI1, e1⟩ := hg t st v1 st1 bindN envN r h1 hI hr1
    obtain ⟨ext2, hI2, e2⟩ := ih st1 vs st2 bindN (envN ++ ext1) rs' h2 hI1 hr2
    refine ⟨ext1 ++ ext2, by simpa [List.append_assoc] using hI2, ?_⟩
    have := evalToks_append (envN ++ ext1 ++ ext2) v1 vs [r] rs' (evalToks_mono _ ext2 v1 _ e1) e2
    simpa [List.append_assoc] using this

theorem mapOperands_sound (h : List Tok → St → R (List Tok × St)) (hh : VSound Sm S envO h) :
    ∀ (vs : List (List Tok)) (st : St) (vs' : List (List Tok)) (st' : St) (bindN : List (Nat × V)) (envN : List V) (rss : List (List (RTok V))),
    mapOperands h vs st = .ok (vs', st') → Inv Sm S envO st bindN envN → evalOperands envO vs = .ok rss →
    ∃ ext, Inv Sm S envO st' bindN (envN ++ ext) ∧ evalOperands (envN ++ ext) vs' = .ok rss := by
  intro vs
  induction vs with
  | nil =>
    intro st vs' st' bindN envN rss hm hI hr
    simp only [mapOperands, pure, Except.pure, Except.ok.injEq, Prod.mk.injEq] at hm
    obtain ⟨rfl, rfl⟩ := hm
    rw [evalOperands_nil] at hr
    cases hr
    exact ⟨[], by simpa using hI, by simp [evalOperands_nil]⟩
  | cons w ws ih =>
    intro st vs' st' bindN envN rss hm hI hr
    simp only [mapOperands] at hm
    obtain ⟨⟨v1, st1⟩, h1, hm⟩ := bind_ok.1 hm
    obtain ⟨⟨vs1, st2⟩, h2, hm⟩ := bind_ok.1 hm
    simp only [pure, Except.pure, Except.ok.injEq, Prod.mk.injEq] at hm
    obtain ⟨rfl, rfl⟩ := hm
    obtain ⟨r, rs', hr1, hr2, rfl⟩ := (evalOperands_cons envO w ws rss).1 hr
    obtain ⟨ext1, hI1, e1⟩ := hh w st v1 st1 bindN envN r h1 hI hr1
    obtain ⟨ext2, hI2, e2⟩ := ih st1 vs1 st2 bindN (envN ++ ext1) rs' h2 hI1 hr2
    refine ⟨ext1 ++ ext2, by simpa [List.append_assoc] using hI2, ?_⟩
    refine (evalOperands_cons _ v1 vs1 _).2 ⟨r, rs', ?_, by simpa [List.append_assoc] using e2, rfl⟩
    have := evalToks_mono (envN ++ ext1) ext2 v1 _ e1
    simpa [List.append_assoc] using this

theorem mapKwargs_sound (h : List Tok → St → R (List Tok × St)) (hh : VSound Sm S envO h) :
    ∀ (kws : List (String × List Tok)) (st : St) (kws' : List (String × List Tok)) (st' : St) (bindN : List (Nat × V)) (envN : List V)
      (rss : List (String × List (RTok V))),
    mapKwargs h kws st = .ok (kws', st') → Inv Sm S envO st bindN envN → evalKwargs envO kws = .ok rss →
    ∃ ext, Inv Sm S envO st' bindN (envN ++ ext) ∧ evalKwargs (envN ++ ext) kws' = .ok rss := by
  intro kws
  induction kws with
  | nil =>
    intro st kws' st' bindN envN rss hm hI hr
    simp only [mapKwargs, pure, Except.pure, Except.ok.injEq, Prod.mk.injEq] at hm
    obtain ⟨rfl, rfl⟩ := hm
    exact ⟨[], by simpa using hI, by simpa [evalKwargs] using hr⟩
  | cons kw ws ih =>
    obtain ⟨k, w⟩ := kw
    intro st kws' st' bindN envN rss hm hI hr
    simp only [mapKwargs] at hm
    obtain ⟨⟨v1, st1⟩, h1, hm⟩ := bind_ok.1 hm
    obtain ⟨⟨vs1, st2⟩, h2, hm⟩ := bind_ok.1 hm
    simp only [pure, Except.pure, Except.ok.injEq, Prod.mk.injEq] at hm
    obtain ⟨rfl, rfl⟩ := hm
    obtain ⟨r, rs', hr1, hr2, rfl⟩ := (evalKwargs_cons envO k w ws rss).1 hr
    obtain ⟨ext1, hI1, e1⟩ := hh w st v1 st1 bindN envN r h1 hI hr1
    obtain ⟨ext2, hI2, e2⟩ := ih st1 vs1 st2 bindN (envN ++ ext1) rs' h2 hI1 hr2
    refine ⟨ext1 ++ ext2, by simpa [List.append_assoc] using hI2, ?_⟩
    refine (evalKwargs_cons _ k v1 vs1 _).2 ⟨r, rs', ?_, by simpa [List.append_assoc] using e2, rfl⟩
    have := evalToks_mono (envN ++ ext1) ext2 v1 _ e1
    simpa [List.append_assoc] using this

variable (hO : EnvOK Sm S.nodes bindO envO)
include hO

omit hO in
theorem nOut_single (a : App) (h : a.out = [.ref 0]) : a.nOut = 1 := by
  rw [App.nOut, h]; rfl

omit hO in
/-- Output types of a rebuilt application of the node language: the type of the old output, or -- `CallInplace` -- the type of
the NEW `xs`. -/
theorem outTypes_eval (st : St) (a a' : App) (i : Nat) (ty : Ty) (r : List Ty × List Tok)
    (hn : S.nodes[i]? = some ⟨ty, .app a⟩) (hout : a.out = [.ref 0]) (hp : a.head.evaluable = true)
    (h : outTypes S st a a' i = .ok r) : ∃ ty', r = ([ty'], [.ref 0]) ∧ (a.head ≠ .callInplace → ty' = ty) ∧
      (a.head = .callInplace → ∃ j n rest, a'.pre = [.ref j] :: rest ∧ st.nodes[j]? = some n ∧ ty' = n.ty) := by
  unfold outTypes at h
  split at h
  · rename_i hh
    split at h
    · rename_i j rest hpre
      split at h
      · rename_i n hj
        simp only [pure, Except.pure, Except.ok.injEq] at h
        subst h
        exact ⟨n.ty, rfl, fun hne => (hne hh).elim, fun _ => ⟨j, n, rest, hpre, hj, rfl⟩⟩
      · cases h
    · cases h
  · rename_i hh; rw [hh] at hp; simp [Head.evaluable, Head.isPure, Head.isEffect] at hp
  · rename_i hne1 _
    obtain ⟨tys, h1, h⟩ := bind_ok.1 h
    simp only [pure, Except.pure, Except.ok.injEq] at h
    subst h
    rw [nOut_single a hout] at h1
    simp only [List.range_one, List.mapM_cons, List.mapM_nil, Nat.add_zero, Store.tyOf, hn, Option.map_some] at h1
    simp only [pure, Except.pure, bind, Except.bind, Except.ok.injEq] at h1
    subst h1
    rw [hout]
    exact ⟨ty, rfl, fun _ => rfl, fun hc => (hne1 hc).elim⟩

omit hO in
theorem tyOK_of_shapeOf_eq (ty : Ty) (v x : V) (h : Sm.shapeOf v = Sm.shapeOf x) (hx : tyOK Sm ty x = true) : tyOK Sm ty v = true := by
  cases ty with
  | value => rfl
  | tensor s => simpa [tyOK, h] using hx
  | convertible s c =>
    cases s with
    | none => rfl
    | some s => simpa [tyOK, h] using hx

/-- `rebuild` of a node of an evaluated store keeps the invariant (the rebuilt node has the value of the old one). -/
theorem rebuild_sound (h : List Tok → St → R (List Tok × St)) (hh : VSound Sm S envO h) (a : App) (i : Nat) (ty : Ty) (st st' : St)
    (bindN : List (Nat × V)) (envN : List V) (hn : S.nodes[i]? = some ⟨ty, .app a⟩) (hr : rebuild S h a i st = .ok st')
    (hI : Inv Sm S envO st bindN envN) : ∃ ext, Inv Sm S envO st' bindN (envN ++ ext) := by
  obtain ⟨vo, ea, hv, hea, happ, hout, hpure, hio⟩ := old_app Sm S bindO envO hO i ty a hn
  have hty := old_tyOK Sm S bindO envO hO i _ vo hn hv
  obtain ⟨pre, args, kwargs, deps, e1, e2, e3, e4, rfl⟩ := (evalApp_ok envO a ea).1 hea
  unfold rebuild at hr
  obtain ⟨⟨pre', st1⟩, h1, hr⟩ := bind_ok.1 hr
  obtain ⟨⟨args', st2⟩, h2, hr⟩ := bind_ok.1 hr
  obtain ⟨⟨kwargs', st3⟩, h3, hr⟩ := bind_ok.1 hr
  obtain ⟨⟨deps', st4⟩, h4, hr⟩ := bind_ok.1 hr
  obtain ⟨⟨tys, out⟩, h5, hr⟩ := bind_ok.1 hr
  obtain ⟨x1, hI1, f1⟩ := mapOperands_sound Sm S envO h hh _ _ _ _ bindN envN _ h1 hI e1
  obtain ⟨x2, hI2, f2⟩ := mapOperands_sound Sm S envO h hh _ _ _ _ bindN _ _ h2 hI1 e2
  obtain ⟨x3, hI3, f3⟩ := mapKwargs_sound Sm S envO h hh _ _ _ _ bindN _ _ h3 hI2 e3
  obtain ⟨x4, hI4, f4⟩ := mapOperands_sound Sm S envO h hh _ _ _ _ bindN _ _ h4 hI3 e4
  obtain ⟨ty', hot, hty1, hty2⟩ := outTypes_eval S st4 a _ i ty _ hn hout hpure h5
  simp only [Prod.mk.injEq] at hot
  obtain ⟨rfl, rfl⟩ := hot
  -- the type of the rebuilt node is true of the old value
  have hty' : tyOK Sm ty' vo = true := by
    by_cases hc : a.head = .callInplace
    · obtain ⟨j, n, rest, hpre', hj, rfl⟩ := hty2 hc
      simp only at hpre'
      subst hpre'
      simp only [inplaceOK, hc] at hio
      split at hio
      · rename_i _ x restE
        obtain ⟨r0, rs0, g1, _, g3⟩ := (evalOperands_cons _ _ _ _).1 f1
        simp only [List.cons.injEq] at g3
        obtain ⟨rfl, _⟩ := g3
        obtain ⟨x', hx', hxe⟩ := evalTok_ref_inv0 _ j _ ((evalToks_single _ _ _).1 g1)
        simp only [RTok.val.injEq] at hxe
        subst hxe
        have hx4 : (envN ++ x1 ++ x2 ++ x3 ++ x4)[j]? = some x := by
          have hjl : j < (envN ++ x1).length := (List.getElem?_eq_some_iff.1 hx').1
          rw [List.append_assoc (envN ++ x1), List.append_assoc (envN ++ x1), List.getElem?_append_left hjl]
          exact hx'
        have := old_tyOK Sm ⟨st4.nodes, []⟩ bindN _ hI4.env j n x hj hx4
        exact tyOK_of_shapeOf_eq Sm n.ty vo x (by simpa using hio) this
      · cases hio
    · rw [hty1 hc]; exact hty
  simp only at hr
  split at hr
  · cases hr
  · simp only [pushProjs, pure, Except.pure, Except.ok.injEq] at hr
    subst hr
    -- the rebuilt node evaluates to the value of the old node
    have hev : evalNode Sm bindN (envN ++ x1 ++ x2 ++ x3 ++ x4)
        ⟨ty', .app { head := a.head, pre := pre', args := args', kwargs := kwargs', deps := deps', out := [.ref 0] }⟩ = .ok vo := by
      simp only [evalNode, hpure, beq_self_eq_true, Bool.and_self, if_true]
      have : evalApp (envN ++ x1 ++ x2 ++ x3 ++ x4)
          { head := a.head, pre := pre', args := args', kwargs := kwargs', deps := deps', out := [.ref 0] } =
          .ok ⟨a.head, pre, args, kwargs, [.ref 0]⟩ :=
        (evalApp_ok _ _ _).2 ⟨pre, args, kwargs, deps,
          by simpa [List.append_assoc] using evalOperands_mono _ (x2 ++ x3 ++ x4) _ _ f1,
          by simpa [List.append_assoc] using evalOperands_mono _ (x3 ++ x4) _ _ f2,
          by simpa [List.append_assoc] using evalKwargs_mono _ x4 _ _ f3, f4, rfl⟩
      rw [this]
      rw [hout] at happ hio
      simp only [bind, Except.bind, happ, hty', hio, Bool.and_self, if_true, pure, Except.pure]
    have hlen : st4.nodes.length = (envN ++ x1 ++ x2 ++ x3 ++ x4).length := hI4.env.1.symm
    have hI5 := hI4.push _ vo hev
    refine ⟨x1 ++ x2 ++ x3 ++ x4 ++ [vo], ?_⟩
    rw [nOut_single a hout]
    simp only [List.range_one, List.map_cons, List.map_nil, Nat.add_zero, List.cons_append, List.nil_append]
    have := hI5.setMemo i [.ref st4.nodes.length] vo hv (by
      rw [hlen]
      rw [evalToks_single]
      simp [evalTok, pure, Except.pure]) st4.changed
    simpa [List.append_assoc, St.pushNode] using this

end

section
variable (Sm : Sem V) (S : Store) (pats : List Pattern) (bindO : List (Nat × V)) (envO : List V)
  (hO : EnvOK Sm S.nodes bindO envO) (hL : Sm.Laws pats)
include hO hL

omit hO hL in
theorem evalTok_ref_inv (i : Nat) (r : RTok V) (h : evalTok envO (.ref i) = .ok r) : ∃ vo, envO[i]? = some vo ∧ r = .val vo := by
  simp only [evalTok] at h
  cases hj : envO[i]? with
  | none => simp [hj, throw, throwThe, MonadExceptOf.throw] at h
  | some m =>
    simp only [hj, pure, Except.pure, Except.ok.injEq] at h
    exact ⟨m, rfl, h.symm⟩

/-- **The memoised traversal is sound**: `_optimize` on a leaf of an evaluated store returns an object that evaluates, over
the new nodes, to what the leaf evaluates to over the old ones -- and keeps the invariant. -/
theorem optTok_sound : ∀ fuel, GSound Sm S envO (optTok pats S fuel)
  | 0 => by
    intro t st v st' bindN envN r h
    simp [optTok, throw, throwThe, MonadExceptOf.throw] at h
  | fuel + 1 => by
    have ih := optTok_sound fuel
    have ihV := mapToks_sound Sm S envO _ ih
    intro t st v st' bindN envN r h hI hr
    cases t with
    | gref k => simp [evalTok, throw, throwThe, MonadExceptOf.throw] at hr
    | atom a =>
      simp only [evalTok, pure, Except.pure, Except.ok.injEq] at hr
      subst hr
      simp only [optTok] at h
      split at h
      · cases h
      · simp only [pure, Except.pure, Except.ok.injEq, Prod.mk.injEq] at h
        obtain ⟨rfl, rfl⟩ := h
        exact ⟨[], by simpa using hI, by rw [evalToks_single]; rfl⟩
    | open_ c n =>
      simp only [evalTok, pure, Except.pure, Except.ok.injEq] at hr
      subst hr
      simp only [optTok, pure, Except.pure, Except.ok.injEq, Prod.mk.injEq] at h
      obtain ⟨rfl, rfl⟩ := h
      exact ⟨[], by simpa using hI, by rw [evalToks_single]; rfl⟩
    | ref i =>
      obtain ⟨vo, hv, rfl⟩ := evalTok_ref_inv envO i r hr
      simp only [optTok] at h
      split at h
      · -- memo hit
        rename_i w hw
        simp only [pure, Except.pure, Except.ok.injEq, Prod.mk.injEq] at h
        obtain ⟨rfl, rfl⟩ := h
        obtain ⟨vo', h1, h2⟩ := hI.memo i _ hw
        rw [hv] at h1
        cases h1
        exact ⟨[], by simpa using hI, by simpa using h2⟩
      · rename_i hmemo
        obtain ⟨m, hm, h⟩ := bind_ok.1 h
        split at h
        · -- a pattern fired: `transform(v1)`
          rename_i v1
          have hact := firstMatch_sound Sm S pats bindO envO hO hL _ pats (fun _ hp => hp) i _ vo hm hv
          obtain ⟨⟨new, st1⟩, h1, h⟩ := bind_ok.1 h
          simp only [pure, Except.pure, Except.ok.injEq, Prod.mk.injEq] at h
          obtain ⟨rfl, rfl⟩ := h
          obtain ⟨ext, hI1, e1⟩ := ihV v1 st new st1 bindN envN _ h1 hI hact
          exact ⟨ext, hI1.setMemo i new vo hv e1 true, e1⟩
        · -- a pattern fired: the merged call
          rename_i fn x lit
          obtain ⟨f, xE, a1, a2, a3⟩ := firstMatch_sound Sm S pats bindO envO hO hL _ pats (fun _ hp => hp) i _ vo hm hv
          obtain ⟨⟨fn', st1⟩, h1, h⟩ := bind_ok.1 h
          obtain ⟨⟨x', st2⟩, h2, h⟩ := bind_ok.1 h
          obtain ⟨x1, hI1, f1⟩ := ihV fn st fn' st1 bindN envN _ h1 hI a1
          obtain ⟨x2, hI2, f2⟩ := ihV x st1 x' st2 bindN _ _ h2 hI1 a2
          split at h
          · cases h
          · rename_i hfree
            simp only [pure, Except.pure, Except.ok.injEq, Prod.mk.injEq] at h
            obtain ⟨rfl, rfl⟩ := h
            have hfree' : refFree lit = true := by simpa using hfree
            have hev : evalNode Sm bindN (envN ++ x1 ++ x2)
                ⟨.value, .app { head := .call, pre := [fn'], args := [x', lit], kwargs := [], deps := [], out := [.ref 0] }⟩ = .ok vo := by
              have : evalApp (envN ++ x1 ++ x2)
                  { head := .call, pre := [fn'], args := [x', lit], kwargs := [], deps := [], out := [.ref 0] } =
                  .ok (mergedCall f xE lit) :=
                (evalApp_ok _ _ _).2 ⟨[[.val f]], [xE, lits lit], [], [],
                  (evalOperands_cons _ _ _ _).2 ⟨_, [], evalToks_mono _ x2 _ _ f1, evalOperands_nil _, rfl⟩,
                  (evalOperands_cons _ _ _ _).2 ⟨_, [lits lit], f2,
                    (evalOperands_cons _ _ _ _).2 ⟨_, [], evalToks_lits _ lit hfree', evalOperands_nil _, rfl⟩, rfl⟩,
                  rfl, evalOperands_nil _, rfl⟩
              have hio2 : inplaceOK Sm (mergedCall f xE lit) vo = true := rfl
              simp only [evalNode, Head.evaluable, Head.isPure, Head.isEffect, hio2, Bool.or_false, beq_self_eq_true, Bool.and_self, if_true, this, bind, Except.bind, a3 hfree', tyOK,
                pure, Except.pure]
            have hlen : st2.nodes.length = (envN ++ x1 ++ x2).length := hI2.env.1.symm
            have hI3 := hI2.push _ vo hev
            have e3 : evalToks (envN ++ x1 ++ x2 ++ [vo]) [.ref st2.nodes.length] = .ok [.val vo] := by
              rw [hlen, evalToks_single]
              simp [evalTok, pure, Except.pure]
            refine ⟨x1 ++ x2 ++ [vo], ?_, by simpa [List.append_assoc] using e3⟩
            have := hI3.setMemo i [.ref st2.nodes.length] vo hv e3 true
            simpa [List.append_assoc, St.pushNode] using this
        · -- no pattern: rebuild
          split at h
          · cases h
          · rename_i ty hn
            have := hI.inputs i ty hn
            rw [hmemo] at this
            cases this
          · rename_i ty a hn
            obtain ⟨st1, h1, h⟩ := bind_ok.1 h
            obtain ⟨ext, hI1⟩ := rebuild_sound Sm S bindO envO hO _ ihV a i ty st st1 bindN envN hn h1 hI
            split at h
            · rename_i w hw
              simp only [pure, Except.pure, Except.ok.injEq, Prod.mk.injEq] at h
              obtain ⟨rfl, rfl⟩ := h
              obtain ⟨vo', g1, g2⟩ := hI1.memo i _ hw
              rw [hv] at g1
              cases g1
              exact ⟨ext, hI1, g2⟩
            · cases h
          · rename_i ty src k hn
            exact (old_no_proj Sm S bindO envO hO i ty src k hn).elim

end

end Einx.OptDag

namespace Einx.OptDag
variable {V : Type}

/-! ### The top-level graph: new inputs, then the output -/

theorem lookup_zip_nodup : ∀ (l : List Nat) (vals : List V) (m i : Nat) (x : V), l.Nodup → l[m]? = some i → vals[m]? = some x →
    (l.zip vals).lookup i = some x
  | [], _, m, i, x, _, h, _ => by simp at h
  | a :: l, [], m, i, x, _, _, h => by simp at h
  | a :: l, b :: vals, 0, i, x, _, h1, h2 => by
    simp at h1 h2; subst h1; subst h2
    simp [List.zip_cons_cons, List.lookup_cons]
  | a :: l, b :: vals, m + 1, i, x, hnd, h1, h2 => by
    simp at h1 h2
    have hne : (i == a) = false := by
      have hmem : i ∈ l := List.mem_of_getElem? h1
      have := (List.nodup_cons.1 hnd).1
      simp only [beq_eq_false_iff_ne, ne_eq]
      intro e; subst e; exact this hmem
    simp only [List.zip_cons_cons, List.lookup_cons, hne]
    exact lookup_zip_nodup l vals m i x (List.nodup_cons.1 hnd).2 h1 h2

theorem lookup_zip_mem : ∀ (l : List Nat) (vals : List V) (i : Nat) (x : V), (l.zip vals).lookup i = some x → i ∈ l
  | [], _, i, x, h => by simp at h
  | a :: l, [], i, x, h => by simp at h
  | a :: l, b :: vals, i, x, h => by
    simp only [List.zip_cons_cons, List.lookup_cons] at h
    by_cases he : i = a
    · subst he; simp
    · have : (i == a) = false := by simpa using he
      simp only [this] at h
      exact List.mem_cons_of_mem _ (lookup_zip_mem l vals i x h)

theorem lookup_none_of_keys_ne (bnd : List (Nat × V)) (k : Nat) (h : ∀ kv ∈ bnd, kv.1 ≠ k) : bnd.lookup k = none := by
  induction bnd with
  | nil => rfl
  | cons kv rest ih =>
    obtain ⟨a, b⟩ := kv
    have hne : (k == a) = false := by
      simp only [beq_eq_false_iff_ne, ne_eq]
      intro e
      exact h (a, b) (by simp) e.symm
    simp only [List.lookup_cons, hne]
    exact ih (fun kv hkv => h kv (List.mem_cons_of_mem _ hkv))

/-- Bindings for node indices beyond the store do not change the evaluation of the store. -/
theorem EnvOK.bind_ext {Sm : Sem V} {nodes : List Node} {bnd : List (Nat × V)} {env : List V} (h : EnvOK Sm nodes bnd env)
    (extra : List (Nat × V)) (hx : ∀ kv ∈ extra, nodes.length ≤ kv.1) : EnvOK Sm nodes (bnd ++ extra) env := by
  refine ⟨h.1, ?_⟩
  intro i n hn
  obtain ⟨v, hv, he⟩ := h.2 i n hn
  refine ⟨v, hv, ?_⟩
  have hi : i < nodes.length := (List.getElem?_eq_some_iff.1 hn).1
  have hlen : (env.take i).length = i := by rw [List.length_take, h.1]; omega
  unfold evalNode at he ⊢
  split
  · rename_i ho
    rw [ho] at he
    simp only at he
    have hlk : (bnd ++ extra).lookup (env.take i).length = bnd.lookup (env.take i).length := by
      rw [List.lookup_append]
      have : extra.lookup (env.take i).length = none := by
        apply lookup_none_of_keys_ne
        intro kv hkv
        have := hx kv hkv
        omega
      rw [this]; simp
    rw [hlk]; exact he
  · rename_i a ho
    rw [ho] at he
    exact he
  · rename_i s k ho
    rw [ho] at he
    exact he

section
variable (Sm : Sem V) (S : Store) (bindO : List (Nat × V)) (envO : List V) (hO : EnvOK Sm S.nodes bindO envO)
include hO

/-- The memo part of the invariant. -/
def MemoOK (envO : List V) (st : St) (envN : List V) : Prop :=
  ∀ o v, st.memoT.lookup o = some v → ∃ vo, envO[o]? = some vo ∧ evalToks envN v = .ok [.val vo]

theorem newInputs_sound : ∀ (is : List Nat) (vals : List V) (st : St) (js : List Nat) (st1 : St) (bindN : List (Nat × V)) (envN : List V),
    newInputs S is st = .ok (js, st1) → is.length = vals.length →
    (∀ (m i : Nat) (x : V), is[m]? = some i → vals[m]? = some x → ∃ ty, S.nodes[i]? = some ⟨ty, .none⟩ ∧ envO[i]? = some x) →
    EnvOK Sm st.nodes bindN envN → (∀ kv ∈ bindN, kv.1 < st.nodes.length) → MemoOK envO st envN →
    ∃ ext, EnvOK Sm st1.nodes (bindN ++ js.zip vals) (envN ++ ext) ∧ MemoOK envO st1 (envN ++ ext) ∧ js.length = is.length ∧
      (∀ i ∈ is, (st1.memoT.lookup i).isSome = true) ∧ st1.graphs = st.graphs
  | [], vals, st, js, st1, bindN, envN, h, hl, _, hE, _, hM => by
    simp only [newInputs, pure, Except.pure, Except.ok.injEq, Prod.mk.injEq] at h
    obtain ⟨rfl, rfl⟩ := h
    exact ⟨[], by simpa using hE, by simpa using hM, rfl, by simp, rfl⟩
  | i :: is, [], st, js, st1, bindN, envN, h, hl, _, _, _, _ => by simp at hl
  | i :: is, x :: vals, st, js, st1, bindN, envN, h, hl, hH, hE, hK, hM => by
    obtain ⟨ty, hn, hx⟩ := hH 0 i x rfl rfl
    simp only [newInputs, hn] at h
    obtain ⟨⟨js', st2⟩, h1, h⟩ := bind_ok.1 h
    simp only [pure, Except.pure, Except.ok.injEq, Prod.mk.injEq] at h
    obtain ⟨rfl, rfl⟩ := h
    -- the new input node
    have hE1 : EnvOK Sm st.nodes (bindN ++ [(st.nodes.length, x)]) envN :=
      hE.bind_ext [(st.nodes.length, x)] (by intro kv hkv; simp at hkv; subst hkv; exact Nat.le_refl _)
    have hev : evalNode Sm (bindN ++ [(st.nodes.length, x)]) envN ⟨ty, .none⟩ = .ok x := by
      have hlk : (bindN ++ [(st.nodes.length, x)]).lookup envN.length = some x := by
        rw [List.lookup_append, hE.1]
        have : bindN.lookup st.nodes.length = none := by
          apply lookup_none_of_keys_ne
          intro kv hkv
          have := hK kv hkv
          omega
        rw [this]; simp [List.lookup_cons]
      have hty := old_tyOK Sm S bindO envO hO i _ x hn hx
      simp only [evalNode, hlk]
      simp only at hty
      simp [hty, pure, Except.pure]
    have hE2 := hE1.snoc _ x hev
    have hlen : st.nodes.length = envN.length := hE.1.symm
    have hM2 : MemoOK envO { st.pushNode ⟨ty, .none⟩ with memoT := (i, [Tok.ref st.nodes.length]) :: st.memoT } (envN ++ [x]) := by
      intro o w hw
      simp only [List.lookup_cons] at hw
      by_cases he : o = i
      · subst he
        simp only [beq_self_eq_true, Option.some.injEq] at hw
        subst hw
        refine ⟨x, hx, ?_⟩
        rw [hlen, evalToks_single]
        simp [evalTok, pure, Except.pure]
      · have : (o == i) = false := by simpa using he
        simp only [this] at hw
        obtain ⟨vo, g1, g2⟩ := hM o w hw
        exact ⟨vo, g1, evalToks_mono envN [x] w _ g2⟩
    obtain ⟨ext, hE3, hM3, hjl, hmem, hg⟩ := newInputs_sound is vals _ js' st2 (bindN ++ [(st.nodes.length, x)]) (envN ++ [x]) h1
      (by simpa using hl) (fun m i' x' a b => hH (m + 1) i' x' (by simpa using a) (by simpa using b))
      (by simpa [St.pushNode] using hE2)
      (by
        intro kv hkv
        simp only [St.pushNode, List.length_append, List.length_cons, List.length_nil]
        rcases List.mem_append.1 hkv with hkv | hkv
        · have := hK kv hkv; omega
        · simp at hkv; subst hkv; simp) hM2
    refine ⟨[x] ++ ext, by simpa [List.append_assoc] using hE3, by simpa [List.append_assoc] using hM3, by simp [hjl], ?_, by simpa [St.pushNode] using hg⟩
    intro i' hi'
    rcases List.mem_cons.1 hi' with rfl | hi'
    · -- `i'` was memoised first; later inputs only add entries
      by_cases hin : i' ∈ is
      · exact hmem i' hin
      · -- not overwritten: the entry stays
        have key : ∀ (is : List Nat) (st js st1), newInputs S is st = .ok (js, st1) → ∀ o, (st.memoT.lookup o).isSome = true → (st1.memoT.lookup o).isSome = true := by
          intro is
          induction is with
          | nil =>
            intro st js st1 h o ho
            simp only [newInputs, pure, Except.pure, Except.ok.injEq, Prod.mk.injEq] at h
            obtain ⟨rfl, rfl⟩ := h
            exact ho
          | cons a as ih =>
            intro st js st1 h o ho
            simp only [newInputs] at h
            split at h
            · obtain ⟨⟨js', st2⟩, h1, h⟩ := bind_ok.1 h
              simp only [pure, Except.pure, Except.ok.injEq, Prod.mk.injEq] at h
              obtain ⟨rfl, rfl⟩ := h
              refine ih _ _ _ h1 o ?_
              simp only [List.lookup_cons]
              by_cases he : o = a
              · subst he; simp
              · have : (o == a) = false := by simpa using he
                simp only [this]; exact ho
            · cases h
        exact key is _ js' st2 h1 i' (by simp [List.lookup_cons])
    · exact hmem i' hi'

end

end Einx.OptDag

namespace Einx.OptDag
variable {V : Type}

/-- **One pass is sound**: on a well-formed top-level graph on which `InlineGraph` does not fire, whatever the graph
returns on given inputs, the graph after the pass returns the same. -/
theorem pass_sound (Sm : Sem V) (pats : List Pattern) (hL : Sm.Laws pats) (p p' : Prog) (fuel : Nat) (ch : Bool)
    (hwf : p.wfTop = true) (hni : noTopInline pats p = true) (hp : pass pats fuel p = .ok (p', ch))
    (inputs : List V) (r : List (RTok V)) (hev : evalProgram Sm p inputs = .ok r) : evalProgram Sm p' inputs = .ok r := by
  -- unpack the side conditions
  unfold Prog.wfTop at hwf
  split at hwf
  · rename_i k htop
    split at hwf
    · rename_i g hg
      simp only [Bool.and_eq_true, decide_eq_true_eq, List.all_eq_true] at hwf
      obtain ⟨hnd, hin⟩ := hwf
      unfold noTopInline at hni
      rw [htop] at hni
      simp only at hni
      split at hni
      · rename_i hfm
        -- the old evaluation
        unfold evalProgram at hev
        rw [htop] at hev
        simp only [hg] at hev
        split at hev
        · rename_i hlen
          have hlen' : g.inputs.length = inputs.length := by simpa using hlen
          obtain ⟨envO, hE, hout⟩ := bind_ok.1 hev
          have hO := envOK_of_evalNodes Sm _ _ _ hE
          -- the pass
          unfold pass at hp
          obtain ⟨⟨top, st⟩, h1, hp⟩ := bind_ok.1 hp
          simp only [pure, Except.pure, Except.ok.injEq, Prod.mk.injEq] at hp
          obtain ⟨rfl, rfl⟩ := hp
          rw [htop] at h1
          simp only [mapToks] at h1
          obtain ⟨⟨v1, st1⟩, h2, h1⟩ := bind_ok.1 h1
          simp only [pure, Except.pure, bind, Except.bind, Except.ok.injEq, Prod.mk.injEq] at h1
          obtain ⟨rfl, rfl⟩ := h1
          cases fuel with
          | zero => simp [optTok, throw, throwThe, MonadExceptOf.throw] at h2
          | succ fuel =>
            simp only [optTok, List.lookup_nil, hfm, bind, Except.bind, hg] at h2
            obtain ⟨⟨ins, sta⟩, h3, h2⟩ := bind_ok.1 h2
            obtain ⟨⟨out, stb⟩, h4, h2⟩ := bind_ok.1 h2
            simp only [pure, Except.pure, Except.ok.injEq, Prod.mk.injEq] at h2
            obtain ⟨rfl, rfl⟩ := h2
            -- new inputs
            have hH : ∀ (m i : Nat) (x : V), g.inputs[m]? = some i → inputs[m]? = some x →
                ∃ ty, p.store.nodes[i]? = some ⟨ty, .none⟩ ∧ envO[i]? = some x := by
              intro m i x hm hx
              have hmem : i ∈ g.inputs := List.mem_of_getElem? hm
              have := hin i hmem
              split at this
              · rename_i ty hn
                refine ⟨ty, hn, ?_⟩
                obtain ⟨v, hv, he⟩ := hO.2 i _ hn
                have hi : i < p.store.nodes.length := (List.getElem?_eq_some_iff.1 hn).1
                have hl : (envO.take i).length = i := by rw [List.length_take, hO.1]; omega
                simp only [evalNode, hl, lookup_zip_nodup g.inputs inputs m i x hnd hm hx] at he
                split at he
                · simp only [pure, Except.pure, Except.ok.injEq] at he
                  rw [he]; exact hv
                · cases he
              · cases this
            obtain ⟨ext, hE1, hM1, hjl, hmem, _⟩ := newInputs_sound Sm p.store _ envO hO g.inputs inputs {} ins sta [] [] h3 hlen' hH
              ⟨rfl, by intro i n hn; simp at hn⟩ (by intro kv hkv; simp at hkv) (by intro o v hv; simp at hv)
            have hI : Inv Sm p.store envO sta (ins.zip inputs) ext := by
              refine ⟨by simpa using hE1, by have := hM1; simp only [List.nil_append] at this; exact this, ?_⟩
              intro i ty hn
              obtain ⟨v, hv, he⟩ := hO.2 i _ hn
              have hi : i < p.store.nodes.length := (List.getElem?_eq_some_iff.1 hn).1
              have hl : (envO.take i).length = i := by rw [List.length_take, hO.1]; omega
              simp only [evalNode, hl] at he
              split at he
              · rename_i x hx
                exact hmem i (lookup_zip_mem _ _ _ _ hx)
              · cases he
            -- the output
            have hLs := optTok_sound Sm p.store pats _ envO hO hL fuel
            obtain ⟨ext2, hI2, hout2⟩ := mapToks_sound Sm p.store envO _ hLs g.output sta out stb _ _ r h4 hI hout
            -- the new program evaluates
            unfold evalProgram
            simp only [List.append_nil, List.getElem?_concat_length]
            have hl2 : (ins.length == inputs.length) = true := by simp [hjl, hlen']
            simp only [hl2, if_true]
            rw [evalNodes_of_envOK Sm _ _ _ hI2.env]
            simpa [bind, Except.bind] using hout2
        · cases hev
      · cases hni
    · cases hwf
  · cases hwf

end Einx.OptDag
