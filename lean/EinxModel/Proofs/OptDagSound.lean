import EinxModel.Proofs.OptDagDecide
/-!
Soundness of the memoised traversal `optTok` / `mapToks` / `rebuild` of `Optimize/Dag.lean` against the DAG evaluator.

Invariant of a pass (`Inv`): the new nodes created so far evaluate (to some environment `envN`), and every memo entry
`old tracer ↦ new object` is right: the new object evaluates, in the new environment, to the value the old tracer has in
the old environment.  New nodes are only ever appended, so what has been established stays true (`evalToks_mono`).
-/
namespace Einx.OptDag
variable {V : Type}

structure Inv (Sm : Sem V) (S : Store) (envO : List V) (st : St) (bindN : List (Nat × V)) (envN : List V) : Prop where
  env : EnvOK Sm st.nodes bindN envN
  memo : ∀ o v, st.memoT.lookup o = some v → ∃ vo, envO[o]? = some vo ∧ evalToks envN v = .ok [.val vo]
  inputs : ∀ i ty, S.nodes[i]? = some ⟨ty, .none⟩ → (st.memoT.lookup i).isSome = true

section
variable (Sm : Sem V) (S : Store) (pats : List Pattern) (bindO : List (Nat × V)) (envO : List V)

theorem Inv.push {Sm : Sem V} {S : Store} {envO : List V} {st : St} {bindN : List (Nat × V)} {envN : List V}
    (hI : Inv Sm S envO st bindN envN) (n : Node) (v : V) (hv : evalNode Sm bindN envN n = .ok v) :
    Inv Sm S envO (st.pushNode n) bindN (envN ++ [v]) where
  env := hI.env.snoc n v hv
  memo := by
    intro o w hw
    obtain ⟨vo, h1, h2⟩ := hI.memo o w hw
    exact ⟨vo, h1, evalToks_mono envN [v] w _ h2⟩
  inputs := hI.inputs

theorem Inv.setMemo {Sm : Sem V} {S : Store} {envO : List V} {st : St} {bindN : List (Nat × V)} {envN : List V}
    (hI : Inv Sm S envO st bindN envN) (o : Nat) (w : List Tok) (vo : V) (h1 : envO[o]? = some vo)
    (h2 : evalToks envN w = .ok [.val vo]) (c : Bool) :
    Inv Sm S envO { st with memoT := (o, w) :: st.memoT, changed := c } bindN envN where
  env := hI.env
  memo := by
    intro o' w' hw
    simp only [List.lookup_cons] at hw
    by_cases he : o' = o
    · subst he
      simp only [beq_self_eq_true, Option.some.injEq] at hw
      subst hw
      exact ⟨vo, h1, h2⟩
    · have : (o' == o) = false := by simpa using he
      simp only [this] at hw
      exact hI.memo o' w' hw
  inputs := by
    intro i ty hn
    simp only [List.lookup_cons]
    by_cases he : i = o
    · subst he; simp
    · have : (i == o) = false := by simpa using he
      simp only [this]
      exact hI.inputs i ty hn

/-- The property of `_optimize` on one leaf that the traversal lemmas are parametrised by. -/
def GSound (g : Tok → St → R (List Tok × St)) : Prop :=
  ∀ (t : Tok) (st : St) (v : List Tok) (st' : St) (bindN : List (Nat × V)) (envN : List V) (r : RTok V),
    g t st = .ok (v, st') → Inv Sm S envO st bindN envN → evalTok envO t = .ok r →
    ∃ ext, Inv Sm S envO st' bindN (envN ++ ext) ∧ evalToks (envN ++ ext) v = .ok [r]

/-- … and on a pytree. -/
def VSound (h : List Tok → St → R (List Tok × St)) : Prop :=
  ∀ (toks : List Tok) (st : St) (v : List Tok) (st' : St) (bindN : List (Nat × V)) (envN : List V) (rs : List (RTok V)),
    h toks st = .ok (v, st') → Inv Sm S envO st bindN envN → evalToks envO toks = .ok rs →
    ∃ ext, Inv Sm S envO st' bindN (envN ++ ext) ∧ evalToks (envN ++ ext) v = .ok rs

theorem mapToks_sound (g : Tok → St → R (List Tok × St)) (hg : GSound Sm S envO g) : VSound Sm S envO (mapToks g) := by
  intro toks
  induction toks with
  | nil =>
    intro st v st' bindN envN rs h hI hr
    simp only [mapToks, pure, Except.pure, Except.ok.injEq, Prod.mk.injEq] at h
    obtain ⟨rfl, rfl⟩ := h
    rw [evalToks_nil] at hr
    cases hr
    exact ⟨[], by simpa using hI, by simp [evalToks_nil]⟩
  | cons t ts ih =>
    intro st v st' bindN envN rs h hI hr
    simp only [mapToks] at h
    obtain ⟨⟨v1, st1⟩, h1, h⟩ := bind_ok.1 h
    obtain ⟨⟨vs, st2⟩, h2, h⟩ := bind_ok.1 h
    simp only [pure, Except.pure, Except.ok.injEq, Prod.mk.injEq] at h
    obtain ⟨rfl, rfl⟩ := h
    obtain ⟨r, rs', hr1, hr2, rfl⟩ := (evalToks_cons envO t ts rs).1 hr
    obtain ⟨ext1, hI1, e1⟩ := hg t st v1 st1 bindN envN r h1 hI hr1
    obtain ⟨ext2, hI2, e2⟩ := ih st1 vs st2 bindN (envN ++ ext1) rs' h2 hI1 hr2
    refine ⟨ext1 ++ ext2, by simpa [List.append_assoc] using hI2, ?_⟩
    have := evalToks_append (envN ++ ext1 ++ ext2) v1 vs [r] rs' (evalToks_mono _ ext2 v1 _ e1) e2
    simpa [List.append_assoc] using this

theorem mapOperands_sound (h : List Tok → St → R (List Tok × St)) (hh : VSound Sm S envO h) :
    ∀ (vs : List (List Tok)) (st : St) (vs' : List (List Tok)) (st' : St) (bindN : List (Nat × V)) (envN : List V) (rss : List (List (RTok V))),
    mapOperands h vs st = .ok (vs', st') → Inv Sm S envO st bindN envN → evalOperands envO vs = .ok rss →
    ∃ ext, Inv Sm S envO st' bindN (envN ++ ext) ∧ evalOperands (envN ++ ext) vs' = .ok rss := by
  intro vs
  induction vs with
  | nil =>
    intro st vs' st' bindN envN rss hm hI hr
    simp only [mapOperands, pure, Except.pure, Except.ok.injEq, Prod.mk.injEq] at hm
    obtain ⟨rfl, rfl⟩ := hm
    rw [evalOperands_nil] at hr
    cases hr
    exact ⟨[], by simpa using hI, by simp [evalOperands_nil]⟩
  | cons w ws ih =>
    intro st vs' st' bindN envN rss hm hI hr
    simp only [mapOperands] at hm
    obtain ⟨⟨v1, st1⟩, h1, hm⟩ := bind_ok.1 hm
    obtain ⟨⟨vs1, st2⟩, h2, hm⟩ := bind_ok.1 hm
    simp only [pure, Except.pure, Except.ok.injEq, Prod.mk.injEq] at hm
    obtain ⟨rfl, rfl⟩ := hm
    obtain ⟨r, rs', hr1, hr2, rfl⟩ := (evalOperands_cons envO w ws rss).1 hr
    obtain ⟨ext1, hI1, e1⟩ := hh w st v1 st1 bindN envN r h1 hI hr1
    obtain ⟨ext2, hI2, e2⟩ := ih st1 vs1 st2 bindN (envN ++ ext1) rs' h2 hI1 hr2
    refine ⟨ext1 ++ ext2, by simpa [List.append_assoc] using hI2, ?_⟩
    refine (evalOperands_cons _ v1 vs1 _).2 ⟨r, rs', ?_, by simpa [List.append_assoc] using e2, rfl⟩
    have := evalToks_mono (envN ++ ext1) ext2 v1 _ e1
    simpa [List.append_assoc] using this

theorem mapKwargs_sound (h : List Tok → St → R (List Tok × St)) (hh : VSound Sm S envO h) :
    ∀ (kws : List (String × List Tok)) (st : St) (kws' : List (String × List Tok)) (st' : St) (bindN : List (Nat × V)) (envN : List V)
      (rss : List (String × List (RTok V))),
    mapKwargs h kws st = .ok (kws', st') → Inv Sm S envO st bindN envN → evalKwargs envO kws = .ok rss →
    ∃ ext, Inv Sm S envO st' bindN (envN ++ ext) ∧ evalKwargs (envN ++ ext) kws' = .ok rss := by
  intro kws
  induction kws with
  | nil =>
    intro st kws' st' bindN envN rss hm hI hr
    simp only [mapKwargs, pure, Except.pure, Except.ok.injEq, Prod.mk.injEq] at hm
    obtain ⟨rfl, rfl⟩ := hm
    exact ⟨[], by simpa using hI, by simpa [evalKwargs] using hr⟩
  | cons kw ws ih =>
    obtain ⟨k, w⟩ := kw
    intro st kws' st' bindN envN rss hm hI hr
    simp only [mapKwargs] at hm
    obtain ⟨⟨v1, st1⟩, h1, hm⟩ := bind_ok.1 hm
    obtain ⟨⟨vs1, st2⟩, h2, hm⟩ := bind_ok.1 hm
    simp only [pure, Except.pure, Except.ok.injEq, Prod.mk.injEq] at hm
    obtain ⟨rfl, rfl⟩ := hm
    obtain ⟨r, rs', hr1, hr2, rfl⟩ := (evalKwargs_cons envO k w ws rss).1 hr
    obtain ⟨ext1, hI1, e1⟩ := hh w st v1 st1 bindN envN r h1 hI hr1
    obtain ⟨ext2, hI2, e2⟩ := ih st1 vs1 st2 bindN (envN ++ ext1) rs' h2 hI1 hr2
    refine ⟨ext1 ++ ext2, by simpa [List.append_assoc] using hI2, ?_⟩
    refine (evalKwargs_cons _ k v1 vs1 _).2 ⟨r, rs', ?_, by simpa [List.append_assoc] using e2, rfl⟩
    have := evalToks_mono (envN ++ ext1) ext2 v1 _ e1
    simpa [List.append_assoc] using this

variable (hO : EnvOK Sm S.nodes bindO envO)
include hO

omit hO in
theorem nOut_single (a : App) (h : a.out = [.ref 0]) : a.nOut = 1 := by
  rw [App.nOut, h]; rfl

omit hO in
/-- Output types of a rebuilt application of the pure node language: the type of the old output. -/
theorem outTypes_pure (st : St) (a a' : App) (i : Nat) (ty : Ty) (r : List Ty × List Tok)
    (hn : S.nodes[i]? = some ⟨ty, .app a⟩) (hout : a.out = [.ref 0]) (hp : a.head.isPure = true)
    (h : outTypes S st a a' i = .ok r) : r = ([ty], [.ref 0]) := by
  unfold outTypes at h
  split at h
  · rename_i hh; rw [hh] at hp; simp [Head.isPure] at hp
  · rename_i hh; rw [hh] at hp; simp [Head.isPure] at hp
  · obtain ⟨tys, h1, h⟩ := bind_ok.1 h
    simp only [pure, Except.pure, Except.ok.injEq] at h
    subst h
    rw [nOut_single a hout] at h1
    simp only [List.range_one, List.mapM_cons, List.mapM_nil, Nat.add_zero, Store.tyOf, hn, Option.map_some] at h1
    simp only [pure, Except.pure, bind, Except.bind, Except.ok.injEq] at h1
    subst h1
    rw [hout]

/-- `rebuild` of a node of an evaluated store keeps the invariant (the rebuilt node has the value of the old one). -/
theorem rebuild_sound (h : List Tok → St → R (List Tok × St)) (hh : VSound Sm S envO h) (a : App) (i : Nat) (ty : Ty) (st st' : St)
    (bindN : List (Nat × V)) (envN : List V) (hn : S.nodes[i]? = some ⟨ty, .app a⟩) (hr : rebuild S h a i st = .ok st')
    (hI : Inv Sm S envO st bindN envN) : ∃ ext, Inv Sm S envO st' bindN (envN ++ ext) := by
  obtain ⟨vo, ea, hv, hea, happ, hout, hpure⟩ := old_app Sm S bindO envO hO i ty a hn
  have hty := old_tyOK Sm S bindO envO hO i _ vo hn hv
  obtain ⟨pre, args, kwargs, deps, e1, e2, e3, e4, rfl⟩ := (evalApp_ok envO a ea).1 hea
  unfold rebuild at hr
  obtain ⟨⟨pre', st1⟩, h1, hr⟩ := bind_ok.1 hr
  obtain ⟨⟨args', st2⟩, h2, hr⟩ := bind_ok.1 hr
  obtain ⟨⟨kwargs', st3⟩, h3, hr⟩ := bind_ok.1 hr
  obtain ⟨⟨deps', st4⟩, h4, hr⟩ := bind_ok.1 hr
  obtain ⟨⟨tys, out⟩, h5, hr⟩ := bind_ok.1 hr
  obtain ⟨x1, hI1, f1⟩ := mapOperands_sound Sm S envO h hh _ _ _ _ bindN envN _ h1 hI e1
  obtain ⟨x2, hI2, f2⟩ := mapOperands_sound Sm S envO h hh _ _ _ _ bindN _ _ h2 hI1 e2
  obtain ⟨x3, hI3, f3⟩ := mapKwargs_sound Sm S envO h hh _ _ _ _ bindN _ _ h3 hI2 e3
  obtain ⟨x4, hI4, f4⟩ := mapOperands_sound Sm S envO h hh _ _ _ _ bindN _ _ h4 hI3 e4
  have hot := outTypes_pure S st4 a _ i ty _ hn hout hpure h5
  simp only [Prod.mk.injEq] at hot
  obtain ⟨rfl, rfl⟩ := hot
  simp only at hr
  split at hr
  · cases hr
  · simp only [pushProjs, pure, Except.pure, Except.ok.injEq] at hr
    subst hr
    -- the rebuilt node evaluates to the value of the old node
    have hev : evalNode Sm bindN (envN ++ x1 ++ x2 ++ x3 ++ x4)
        ⟨ty, .app { head := a.head, pre := pre', args := args', kwargs := kwargs', deps := deps', out := [.ref 0] }⟩ = .ok vo := by
      simp only [evalNode, hpure, beq_self_eq_true, Bool.and_self, if_true]
      have : evalApp (envN ++ x1 ++ x2 ++ x3 ++ x4)
          { head := a.head, pre := pre', args := args', kwargs := kwargs', deps := deps', out := [.ref 0] } =
          .ok ⟨a.head, pre, args, kwargs, [.ref 0]⟩ :=
        (evalApp_ok _ _ _).2 ⟨pre, args, kwargs, deps,
          by simpa [List.append_assoc] using evalOperands_mono _ (x2 ++ x3 ++ x4) _ _ f1,
          by simpa [List.append_assoc] using evalOperands_mono _ (x3 ++ x4) _ _ f2,
          by simpa [List.append_assoc] using evalKwargs_mono _ x4 _ _ f3, f4, rfl⟩
      rw [this]
      rw [hout] at happ
      simp only [bind, Except.bind, happ, hty, if_true, pure, Except.pure]
    have hlen : st4.nodes.length = (envN ++ x1 ++ x2 ++ x3 ++ x4).length := hI4.env.1.symm
    have hI5 := hI4.push _ vo hev
    refine ⟨x1 ++ x2 ++ x3 ++ x4 ++ [vo], ?_⟩
    rw [nOut_single a hout]
    simp only [List.range_one, List.map_cons, List.map_nil, Nat.add_zero, List.cons_append, List.nil_append]
    have := hI5.setMemo i [.ref st4.nodes.length] vo hv (by
      rw [hlen]
      rw [evalToks_single]
      simp [evalTok, pure, Except.pure]) st4.changed
    simpa [List.append_assoc, St.pushNode] using this

end

section
variable (Sm : Sem V) (S : Store) (pats : List Pattern) (bindO : List (Nat × V)) (envO : List V)
  (hO : EnvOK Sm S.nodes bindO envO) (hL : Sm.Laws pats)
include hO hL

omit hO hL in
theorem evalTok_ref_inv (i : Nat) (r : RTok V) (h : evalTok envO (.ref i) = .ok r) : ∃ vo, envO[i]? = some vo ∧ r = .val vo := by
  simp only [evalTok] at h
  cases hj : envO[i]? with
  | none => simp [hj, throw, throwThe, MonadExceptOf.throw] at h
  | some m =>
    simp only [hj, pure, Except.pure, Except.ok.injEq] at h
    exact ⟨m, rfl, h.symm⟩

/-- **The memoised traversal is sound**: `_optimize` on a leaf of an evaluated store returns an object that evaluates, over
the new nodes, to what the leaf evaluates to over the old ones -- and keeps the invariant. -/
theorem optTok_sound : ∀ fuel, GSound Sm S envO (optTok pats S fuel)
  | 0 => by
    intro t st v st' bindN envN r h
    simp [optTok, throw, throwThe, MonadExceptOf.throw] at h
  | fuel + 1 => by
    have ih := optTok_sound fuel
    have ihV := mapToks_sound Sm S envO _ ih
    intro t st v st' bindN envN r h hI hr
    cases t with
    | gref k => simp [evalTok, throw, throwThe, MonadExceptOf.throw] at hr
    | atom a =>
      simp only [evalTok, pure, Except.pure, Except.ok.injEq] at hr
      subst hr
      simp only [optTok] at h
      split at h
      · cases h
      · simp only [pure, Except.pure, Except.ok.injEq, Prod.mk.injEq] at h
        obtain ⟨rfl, rfl⟩ := h
        exact ⟨[], by simpa using hI, by rw [evalToks_single]; rfl⟩
    | open_ c n =>
      simp only [evalTok, pure, Except.pure, Except.ok.injEq] at hr
      subst hr
      simp only [optTok, pure, Except.pure, Except.ok.injEq, Prod.mk.injEq] at h
      obtain ⟨rfl, rfl⟩ := h
      exact ⟨[], by simpa using hI, by rw [evalToks_single]; rfl⟩
    | ref i =>
      obtain ⟨vo, hv, rfl⟩ := evalTok_ref_inv envO i r hr
      simp only [optTok] at h
      split at h
      · -- memo hit
        rename_i w hw
        simp only [pure, Except.pure, Except.ok.injEq, Prod.mk.injEq] at h
        obtain ⟨rfl, rfl⟩ := h
        obtain ⟨vo', h1, h2⟩ := hI.memo i _ hw
        rw [hv] at h1
        cases h1
        exact ⟨[], by simpa using hI, by simpa using h2⟩
      · rename_i hmemo
        obtain ⟨m, hm, h⟩ := bind_ok.1 h
        split at h
        · -- a pattern fired: `transform(v1)`
          rename_i v1
          have hact := firstMatch_sound Sm S pats bindO envO hO hL _ pats (fun _ hp => hp) i _ vo hm hv
          obtain ⟨⟨new, st1⟩, h1, h⟩ := bind_ok.1 h
          simp only [pure, Except.pure, Except.ok.injEq, Prod.mk.injEq] at h
          obtain ⟨rfl, rfl⟩ := h
          obtain ⟨ext, hI1, e1⟩ := ihV v1 st new st1 bindN envN _ h1 hI hact
          exact ⟨ext, hI1.setMemo i new vo hv e1 true, e1⟩
        · -- a pattern fired: the merged call
          rename_i fn x lit
          obtain ⟨f, xE, a1, a2, a3⟩ := firstMatch_sound Sm S pats bindO envO hO hL _ pats (fun _ hp => hp) i _ vo hm hv
          obtain ⟨⟨fn', st1⟩, h1, h⟩ := bind_ok.1 h
          obtain ⟨⟨x', st2⟩, h2, h⟩ := bind_ok.1 h
          obtain ⟨x1, hI1, f1⟩ := ihV fn st fn' st1 bindN envN _ h1 hI a1
          obtain ⟨x2, hI2, f2⟩ := ihV x st1 x' st2 bindN _ _ h2 hI1 a2
          split at h
          · cases h
          · rename_i hfree
            simp only [pure, Except.pure, Except.ok.injEq, Prod.mk.injEq] at h
            obtain ⟨rfl, rfl⟩ := h
            have hfree' : refFree lit = true := by simpa using hfree
            have hev : evalNode Sm bindN (envN ++ x1 ++ x2)
                ⟨.value, .app { head := .call, pre := [fn'], args := [x', lit], kwargs := [], deps := [], out := [.ref 0] }⟩ = .ok vo := by
              have : evalApp (envN ++ x1 ++ x2)
                  { head := .call, pre := [fn'], args := [x', lit], kwargs := [], deps := [], out := [.ref 0] } =
                  .ok (mergedCall f xE lit) :=
                (evalApp_ok _ _ _).2 ⟨[[.val f]], [xE, lits lit], [], [],
                  (evalOperands_cons _ _ _ _).2 ⟨_, [], evalToks_mono _ x2 _ _ f1, evalOperands_nil _, rfl⟩,
                  (evalOperands_cons _ _ _ _).2 ⟨_, [lits lit], f2,
                    (evalOperands_cons _ _ _ _).2 ⟨_, [], evalToks_lits _ lit hfree', evalOperands_nil _, rfl⟩, rfl⟩,
                  rfl, evalOperands_nil _, rfl⟩
              simp only [evalNode, Head.isPure, beq_self_eq_true, Bool.and_self, if_true, this, bind, Except.bind, a3 hfree', tyOK,
                pure, Except.pure]
            have hlen : st2.nodes.length = (envN ++ x1 ++ x2).length := hI2.env.1.symm
            have hI3 := hI2.push _ vo hev
            have e3 : evalToks (envN ++ x1 ++ x2 ++ [vo]) [.ref st2.nodes.length] = .ok [.val vo] := by
              rw [hlen, evalToks_single]
              simp [evalTok, pure, Except.pure]
            refine ⟨x1 ++ x2 ++ [vo], ?_, by simpa [List.append_assoc] using e3⟩
            have := hI3.setMemo i [.ref st2.nodes.length] vo hv e3 true
            simpa [List.append_assoc, St.pushNode] using this
        · -- no pattern: rebuild
          split at h
          · cases h
          · rename_i ty hn
            have := hI.inputs i ty hn
            rw [hmemo] at this
            cases this
          · rename_i ty a hn
            obtain ⟨st1, h1, h⟩ := bind_ok.1 h
            obtain ⟨ext, hI1⟩ := rebuild_sound Sm S bindO envO hO _ ihV a i ty st st1 bindN envN hn h1 hI
            split at h
            · rename_i w hw
              simp only [pure, Except.pure, Except.ok.injEq, Prod.mk.injEq] at h
              obtain ⟨rfl, rfl⟩ := h
              obtain ⟨vo', g1, g2⟩ := hI1.memo i _ hw
              rw [hv] at g1
              cases g1
              exact ⟨ext, hI1, g2⟩
            · cases h
          · rename_i ty src k hn
            exact (old_no_proj Sm S bindO envO hO i ty src k hn).elim

end

end Einx.OptDag
